// Package c04 monitors argument binding (part A: user lambda lists against
// a reference binder) and the documented arity of every built-in (part B:
// FuncDoc lambda list against the counts the function really accepts).
package c04

import (
	"math/rand/v2"

	"verif/internal/c04/ref"
	"verif/internal/fw"
)

// Case is one lambda list with one argument vector (part A) or one built-in
// function (part B).
type Case struct {
	Part  string   `json:"part"`
	Block string   `json:"block,omitempty"`
	LL    *ref.LL  `json:"ll,omitempty"`
	Args  []string `json:"args,omitempty"`
	Amb   string   `json:"amb,omitempty"`   // where a variable named like EVERY parameter is visible: let | caller | closure | global
	Split int      `json:"split,omitempty"` // leading arguments passed outside the spread list (apply, multiple-value-call)
	Fn    string   `json:"fn,omitempty"`
	Upper string   `json:"upper,omitempty"` // letter-case relation: which occurrences of the parameter names are written in upper case (decl | kw | body | bare)
}

// part B cases are spread over the run (one every stride cases) so that they
// are shared between the worker processes.
const stride = 48

func nCases(tier string) int {
	return lamLayout(tier).total + len(builtins())
}

func gen(r *rand.Rand, i int, tier string) Case {
	nb := len(builtins())
	if nb*stride > lamLayout(tier).total {
		panic("c04: stride too large for the number of built-ins")
	}
	if i%stride == 0 && i/stride < nb {
		return genBuiltin(i / stride)
	}
	before := (i + stride - 1) / stride
	if nb < before {
		before = nb
	}
	return genLam(r, i-before, tier)
}

func exec(x *fw.Ctx, c Case) {
	defineMark()
	switch c.Part {
	case "A":
		execLam(x, c)
	case "B":
		execBuiltin(x, c)
	default:
		x.Fail("harness-bad-case", "unknown part %q", c.Part)
	}
}

func init() {
	fw.Register(fw.Spec[Case]{
		ID: "C04",
		Rule: "part A: (lambda list, argument vector, scope in which same-named variables are visible) judged sharply against the reference binder - no avoid set. " +
			"The 768 lambda lists of the shape grid (0-3 required x 0-2 optional x defaults x rest x 0-3 keys x defaults x aux) x EVERY argument vector of length 0..3 (quick) / 0..5 (thorough) over {integer, each declared keyword, a foreign keyword}; " +
			"a seed-independent probe block of 48 boundary vectors per lambda list (too few/exact/too many positionals x key order, duplicates, keyword as value, unknown key, odd tail, non-keyword key, keyword naming a non-key parameter); " +
			"the same probes on 176 variant lambda lists (computed init forms, init forms reading earlier parameters, bare-variable init forms, &allow-other-keys, &key without names, init forms naming a LATER parameter); " +
			"every grid lambda list called where a variable named like EVERY parameter (required ones included) is visible - in a let around the call, as a parameter of the calling function, in the let the function was created in (closure), as a defvar global - x 5 vectors (one/all required arguments missing, exact, all positionals, a key): a visible name is never an argument; every optional and key SUPPLIED with nil, t or a value equal to its own default; " +
			"the traced form of every grid lambda list - each optional/key/aux init form is (c04-init N earlier...), a harness builtin with a recorded side effect that reads every earlier parameter - x 26 vectors, so that evaluation order, exactly-once, not-when-supplied and before-the-body are observed; " +
			"a letter-case block - slip's symbols are not case sensitive, so the 768 grid lambda lists x 3 vectors are run with the parameter names written in upper case in the lambda list only, in the keyword arguments only, in the body only, or as a bare last body form, and every route must give exactly what the all-lower-case text gives (relation monitor, no model); " +
			"then seeded vectors of length 0..8 (values: integers, nil, t, own default; a third on traced lambda lists). Every case is called through defun (evaluated and compiled), funcall of the symbol, funcall/apply of a lambda, a lambda in operator position and multiple-value-call. " +
			"Oracle: too few/too many arguments must be a condition with the body marker not run; every parameter value and the trace of init-form side effects must equal the binder's; unknown keys are accepted and ignored (slip documents allow-other-keys as always true); " +
			"only an odd keyword tail and a non-keyword in key position are left open (error, or correct positional bindings). " +
			"part B: every function of every package (enumerated at run time) x every argument count 0..documented maximum+2 x six argument flavours. " +
			"distinct = distinct case JSON; non-trivial = judged against the reference binder (A) or a callable, not denylisted function with a readable documented lambda list (B).",
		N:        nCases,
		Gen:      gen,
		Exec:     exec,
		Init:     defineMark,
		Batch:    2400,
		HangSecs: 40,
		Assumptions: []string{
			"the reference binder (internal/c04/ref, no slip import) is the trusted oracle for part A",
			"integers, keywords, list and quote evaluate correctly (C01), results are rendered by the harness's own printer",
			"part B recognises an arity refusal by its message (Too few/Too many arguments ..., requires at least N arguments, Wrong number of arguments): no VerifArity hook exists in /repo",
			"part B cannot tell an arity refusal from another refusal when a function with too many/few arguments fails for another reason on all six argument flavours; such counts are only counted (B:undocumented-count-refused-other-condition)",
		},
	})
}
