// Package c04 monitors argument binding (part A: user lambda lists against
// a reference binder) and the documented arity of every built-in (part B:
// FuncDoc lambda list against the counts the function really accepts).
package c04

import (
	"math/rand/v2"

	"verif/internal/c04/ref"
	"verif/internal/fw"
)

// Case is one lambda list with one argument vector (part A) or one built-in
// function (part B).
type Case struct {
	Part    string   `json:"part"`
	Block   string   `json:"block,omitempty"`
	LL      *ref.LL  `json:"ll,omitempty"`
	Args    []string `json:"args,omitempty"`
	Ambient bool     `json:"ambient,omitempty"` // the caller has variables named like the non-required parameters
	Split   int      `json:"split,omitempty"`   // leading arguments passed outside the spread list (apply, multiple-value-call)
	Fn      string   `json:"fn,omitempty"`
}

// part B cases are spread over the run (one every stride cases) so that they
// are shared between the worker processes.
const stride = 48

func nCases(tier string) int {
	return lamLayout(tier).total + len(builtins())
}

func gen(r *rand.Rand, i int, tier string) Case {
	nb := len(builtins())
	if nb*stride > lamLayout(tier).total {
		panic("c04: stride too large for the number of built-ins")
	}
	if i%stride == 0 && i/stride < nb {
		return genBuiltin(i / stride)
	}
	before := (i + stride - 1) / stride
	if nb < before {
		before = nb
	}
	return genLam(r, i-before, tier)
}

func exec(x *fw.Ctx, c Case) {
	defineMark()
	switch c.Part {
	case "A":
		execLam(x, c)
	case "B":
		execBuiltin(x, c)
	default:
		x.Fail("harness-bad-case", "unknown part %q", c.Part)
	}
}

func init() {
	fw.Register(fw.Spec[Case]{
		ID: "C04",
		Rule: "part A: (lambda list, argument vector) - the 768 lambda lists of the shape grid (0-3 required x 0-2 optional x defaults x rest x 0-3 keys x defaults x aux) " +
			"x EVERY argument vector of length 0..3 (quick) / 0..5 (thorough) over {integer, each declared keyword, a foreign keyword}, then a seed-independent probe block of 44 boundary " +
			"vectors per lambda list (too few/exact/too many positionals x key order, duplicates, keyword as value, unknown key, odd tail, non-keyword key, keyword naming a non-key parameter), " +
			"the same probes on 128 variant lambda lists (init forms that must be evaluated, &allow-other-keys, &key without names, aux initialised from a variable), " +
			"a block of calls made where the caller has variables named like the parameters, a block where every optional and key is supplied with nil, t or a value equal to its own default, then seeded vectors of length 0..8 (values: integers, nil, t, own default); " +
			"every case is called through defun (evaluated and compiled), funcall of the symbol, funcall/apply of a lambda, a lambda in operator position and multiple-value-call. " +
			"part B: every function of every package (enumerated at run time) x every argument count 0..documented maximum+2 x six argument flavours. " +
			"distinct = distinct case JSON; non-trivial = judged against the reference binder (A) or a callable, not denylisted function with a readable documented lambda list (B). " +
			"Known deviations (too few arguments, duplicate keys, rest+key) are kept to a minority of the seeded block; the exhaustive block contains them by construction.",
		N:        nCases,
		Gen:      gen,
		Exec:     exec,
		Init:     defineMark,
		Batch:    2400,
		HangSecs: 40,
		Assumptions: []string{
			"the reference binder (internal/c04/ref, no slip import) is the trusted oracle for part A",
			"integers, keywords, list and quote evaluate correctly (C01), results are rendered by the harness's own printer",
			"part B recognises an arity refusal by its message (Too few/Too many arguments ..., requires at least N arguments, Wrong number of arguments): no VerifArity hook exists in /repo",
			"part B cannot tell an arity refusal from another refusal when a function with too many/few arguments fails for another reason on all six argument flavours; such counts are only counted (B:undocumented-count-refused-other-condition)",
		},
	})
}
