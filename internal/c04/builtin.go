package c04

import (
	"fmt"
	"os"
	"regexp"
	"sort"
	"strings"

	"github.com/ohler55/slip"

	"verif/internal/fw"
	"verif/internal/sl"
)

// ---------------------------------------------------------------------------
// Part B: every built-in function of every package, enumerated at run time,
// is called with n = 0 .. documented maximum + 2 arguments. The documented
// lambda list (FuncDoc.Args, the same data describe prints) is read the
// standard way; a count it allows must not be refused for arity, a count it
// does not allow must not be accepted.
// ---------------------------------------------------------------------------

// denylist: functions the sweep must not call because calling them with
// arbitrary arguments leaves the process, blocks for input or time, or
// changes process-wide state the harness depends on. Every entry is counted
// in the evidence (B:denylisted).
var denylist = map[string]string{
	"common-lisp:sleep":         "blocks for the given time",
	"common-lisp:dribble":       "redirects the process's output",
	"common-lisp:require":       "loads plugins / files from outside the scratch directory",
	"common-lisp:y-or-n-p":      "re-prompts on *standard-input* until answered",
	"common-lisp:yes-or-no-p":   "re-prompts on *standard-input* until answered",
	"common-lisp:loop":          "(loop form) never terminates with inert forms",
	"common-lisp:do":            "(do () (nil)) never terminates with inert forms",
	"common-lisp:do*":           "(do* () (nil)) never terminates with inert forms",
	"common-lisp:trace":         "switches global tracing on",
	"common-lisp:untrace":       "switches global tracing",
	"common-lisp:room":          "prints memory statistics, slow",
	"gi:send-signal":            "sends a Unix signal to a process",
	"gi:signal-wait":            "blocks until a signal arrives",
	"gi:select":                 "blocks on channels",
	"gi:channel-pop":            "blocks on a channel",
	"gi:channel-push":           "blocks on a channel",
	"gi:clearenv":               "wipes the process environment",
	"gi:setenv":                 "changes the process environment",
	"gi:unsetenv":               "changes the process environment",
	"gi:panic":                  "raises a raw Go panic by design",
	"gi:run":                    "starts a goroutine evaluating the form (a failure there kills the process)",
	"gi:make-app":               "builds an application with the Go toolchain",
	"gi:snapshot":               "writes the whole image",
	"gi:time-ticker":            "starts a ticker goroutine",
	"gi:time-after":             "starts a timer goroutine",
	"gi:read-push":              "starts a reader goroutine",
	"test:benchmark":            "runs for a measured duration",
	"net:get-host-by-name":      "DNS query",
	"net:get-host-by-address":   "DNS query",
	"net:graphql-query":         "network request",
	"net:socket-accept":         "blocks on a socket",
	"net:socket-connect":        "network connection",
	"net:socket-receive":        "blocks on a socket",
	"net:socket-select":         "blocks on sockets",
	"net:wait-for-input":        "blocks on sockets",
	"swank:create-server":       "starts a network server",
	"swank:restart-server":      "starts a network server",
	"swank:setup-server":        "starts a network server",
	"swank:start-server":        "starts a network server",
	"swank:stop-server":         "stops a network server",
	"swank:swank-server":        "starts a network server",
	"swank:swank-stop":          "stops a network server",
	"repl:repl":                 "starts the interactive read-eval-print loop on the terminal and sets up ~/.config/slip",
	"repl:quit":                 "raises the fatal quit condition that ends the process",
	"repl:edit-stash":           "launches $EDITOR on the terminal",
	"common-lisp-user:c04-mark": "the harness's own marker",
}

// docSpec is the standard reading of a documented lambda list.
type docSpec struct {
	req, opt int
	rest     bool
	hasKey   bool
	keys     []string
	allow    bool
	types    []string // documented type of each positional parameter
	keyTypes []string
	text     string
	odd      string // non-empty: the documentation itself is not a lambda list this reader understands
}

func readDoc(fd *slip.FuncDoc) *docSpec {
	d := &docSpec{}
	mode := "req"
	var parts []string
	for _, a := range fd.Args {
		name := strings.ToLower(a.Name)
		parts = append(parts, name)
		switch name {
		case slip.AmpOptional:
			if mode != "req" {
				d.odd = "&optional after " + mode
			}
			mode = "opt"
			continue
		case slip.AmpRest, slip.AmpBody:
			mode = "rest"
			d.rest = true
			continue
		case slip.AmpKey:
			mode = "key"
			d.hasKey = true
			continue
		case slip.AmpAllowOtherKeys:
			d.allow = true
			continue
		case slip.AmpAux:
			mode = "aux"
			continue
		}
		if strings.HasPrefix(name, "&") {
			d.odd = "unknown lambda list keyword " + name
			continue
		}
		switch mode {
		case "req":
			d.req++
			d.types = append(d.types, a.Type)
		case "opt":
			d.opt++
			d.types = append(d.types, a.Type)
		case "key":
			d.keys = append(d.keys, strings.TrimPrefix(name, ":"))
			d.keyTypes = append(d.keyTypes, a.Type)
		}
	}
	d.text = "(" + strings.Join(parts, " ") + ")"
	return d
}

// allowed tells whether the documented lambda list allows n arguments.
func (d *docSpec) allowed(n int) bool {
	if n < d.req {
		return false
	}
	pos := d.req + d.opt
	if n <= pos || d.rest {
		return true
	}
	if d.hasKey {
		extra := n - pos
		if extra%2 != 0 {
			return false
		}
		return d.allow || extra/2 <= len(d.keys)
	}
	return false
}

// top is the largest argument count tried.
func (d *docSpec) top() int {
	pos := d.req + d.opt
	if d.hasKey && !d.rest {
		k := len(d.keys)
		if 2 < k {
			k = 2
		}
		return pos + 2*k + 1
	}
	return pos + 2
}

type funcEntry struct {
	name string // pkg:name
	fi   *slip.FuncInfo
}

var (
	funcList   []funcEntry
	funcByName map[string]*slip.FuncInfo
)

// builtins enumerates every function of every package once per process,
// before any case has run, sorted by name.
func builtins() []funcEntry {
	if funcByName != nil {
		return funcList
	}
	funcByName = map[string]*slip.FuncInfo{}
	for _, p := range slip.AllPackages() {
		p.EachFuncInfo(func(fi *slip.FuncInfo) {
			if fi.Pkg != p || fi.Doc == nil {
				return
			}
			name := p.Name + ":" + fi.Name
			if name == "common-lisp-user:"+markName || name == "common-lisp-user:"+initName {
				return
			}
			if _, has := funcByName[name]; !has {
				funcByName[name] = fi
				funcList = append(funcList, funcEntry{name: name, fi: fi})
			}
		})
	}
	sort.Slice(funcList, func(i, j int) bool { return funcList[i].name < funcList[j].name })
	return funcList
}

func genBuiltin(k int) Case {
	return Case{Part: "B", Fn: builtins()[k].name}
}

// inertPrefix makes the inert symbols of one function's sweep distinct from
// those of every other function, so that a swept definer (defconstant,
// defun, defvar ...) cannot influence a later case.
var inertPrefix = "c04"

func inertSym(i int) string { return fmt.Sprintf("%s-s%d", inertPrefix, i) }

// flavours of inert arguments. Each renders argument i for a function
// (evaluated arguments) or for a macro (unevaluated arguments).
type flavour struct {
	name string
	fn   func(i int) string
	mac  func(i int) string
}

var flavours = []flavour{
	{"symbol", func(i int) string { return "'" + inertSym(i+1) }, func(i int) string { return inertSym(i + 1) }},
	{"fixnum", func(i int) string { return "1" }, func(i int) string { return "1" }},
	{"string", func(i int) string { return `"s"` }, func(i int) string { return `"s"` }},
	{"list", func(i int) string { return "'(1 2)" }, func(i int) string { return "(quote 1)" }},
	{"nil", func(i int) string { return "nil" }, func(i int) string { return "nil" }},
}

// typed renders an argument from the documented type of the parameter, so
// that calls get past the type checks of the leading parameters.
func typed(typ string, macro bool, i int) string {
	t := strings.ToLower(strings.TrimSpace(strings.SplitN(typ, "|", 2)[0]))
	q := func(s string) string {
		if macro {
			return s
		}
		return "'" + s
	}
	switch t {
	case "fixnum", "integer", "number", "real", "rational", "octet", "fixnum or nil", "byte":
		return "1"
	case "float":
		return "1.5"
	case "string", "list of strings":
		return `"s"`
	case "list", "cons", "sequence", "sequemce", "association list", "property list", "tree":
		if macro {
			return "nil"
		}
		return "'(1 2)"
	case "symbol":
		if strings.Contains(typ, "lambda") {
			return q("list")
		}
		return q(inertSym(i + 1))
	case "function", "function-designator":
		return q("list")
	case "boolean":
		return "t"
	case "character":
		return `#\a`
	case "bit-array":
		return "#*101"
	case "keyword":
		return ":c04"
	case "vector", "array", "simple-vector":
		return "#(1 2)"
	case "form":
		return "1"
	case "class", "flavor":
		return q("vanilla-flavor")
	case "instance", "standard-object":
		if !macro {
			return "(make-instance 'vanilla-flavor)"
		}
	case "bag":
		if !macro {
			return "(make-bag nil)"
		}
	case "time":
		if !macro {
			return "(now)"
		}
	case "octets":
		if !macro {
			return "(make-octets 1)"
		}
	case "hash-table":
		if !macro {
			return "(make-hash-table)"
		}
	case "output-stream", "stream":
		if !macro {
			return "(make-string-output-stream)"
		}
	case "input-stream":
		if !macro {
			return `(make-string-input-stream "s")`
		}
	}
	return q(inertSym(i + 1))
}

var arityMsg = regexp.MustCompile(`(?i)^too (few|many) arguments|requires at least \d+ arguments|wrong number of arguments|expected .* pairs\. not \d+ arguments|expects? (one|two|three|\d+) arguments?`)

// keyTailMsg: refusals of a malformed keyword tail (only used for counts the
// documentation does not allow, to count them as refused for arity).
var keyTailMsg = regexp.MustCompile(`(?i)missing an argument|missing value for key|odd number of|extra arguments that are not`)

// restricted flavours for packages whose functions act on the outside world
// when given well-typed arguments.
func flavoursFor(name string) []string {
	if strings.HasPrefix(name, "net:") {
		return []string{"symbol"}
	}
	return []string{"symbol", "fixnum", "string", "list", "nil", "typed"}
}

func callText(qname string, d *docSpec, macro bool, n int, fl string) string {
	var b strings.Builder
	b.WriteString("(" + qname)
	pos := d.req + d.opt
	arg := func(i int, typ string) string {
		if fl == "typed" {
			return typed(typ, macro, i)
		}
		for _, f := range flavours {
			if f.name == fl {
				if macro {
					return f.mac(i)
				}
				return f.fn(i)
			}
		}
		panic("flavour " + fl)
	}
	for i := 0; i < n; i++ {
		b.WriteByte(' ')
		switch {
		case i < pos:
			b.WriteString(arg(i, d.types[i]))
		case d.hasKey && !d.rest && 0 < len(d.keys):
			j := i - pos
			k := (j / 2) % len(d.keys)
			if j%2 == 0 {
				b.WriteString(":" + d.keys[k])
			} else {
				b.WriteString(arg(i, d.keyTypes[k]))
			}
		default:
			b.WriteString(arg(i, "object"))
		}
	}
	b.WriteByte(')')
	return b.String()
}

type outcome struct {
	src  string
	kind string // value | arity | fault | missing-binding | condition
	text string
}

func execBuiltin(x *fw.Ctx, c Case) {
	builtins()
	fi := funcByName[c.Fn]
	if fi == nil {
		x.Trivial()
		x.Cover("B:function-not-present")
		return
	}
	if why, deny := denylist[c.Fn]; deny {
		x.Trivial()
		x.Cover("B:denylisted")
		x.Observe(map[string]any{"function": c.Fn, "denylisted": why})
		return
	}
	d := readDoc(fi.Doc)
	inertPrefix = fmt.Sprintf("c04%04x", fw.Hash64([]byte(c.Fn))&0xffff)
	x.Cover("B:functions")
	x.Cover("B:kind:" + string(fi.Kind))
	if d.odd != "" {
		x.Cover("B:documentation-not-a-lambda-list")
		x.Trivial()
		return
	}
	macro := fi.Kind == slip.MacroSymbol
	i := strings.Index(c.Fn, ":")
	qname := c.Fn[:i] + "::" + c.Fn[i+1:]
	bare := strings.ToLower(c.Fn[i+1:])
	paramNames := map[string]bool{}
	for _, a := range fi.Doc.Args {
		paramNames[strings.ToLower(a.Name)] = true
	}

	type bucket struct {
		ns  []int
		eg  string
		sig string
	}
	fails := map[string]*bucket{}
	fail := func(sig string, n int, o *outcome) {
		bk := fails[sig]
		if bk == nil {
			bk = &bucket{sig: sig, eg: fmt.Sprintf("%s => %s %s", o.src, o.kind, o.text)}
			fails[sig] = bk
		}
		if len(bk.ns) == 0 || bk.ns[len(bk.ns)-1] != n {
			bk.ns = append(bk.ns, n)
		}
	}
	obs := map[string]any{"function": c.Fn, "documented": d.text}
	var perN []string
	// first pass: run every (count, flavour)
	per := map[int][]*outcome{}
	insideFaults := map[string]bool{}
	for n := 0; n <= d.top(); n++ {
		inside := d.allowed(n)
		var outs []*outcome
		for _, fl := range flavoursFor(c.Fn) {
			src := callText(qname, d, macro, n, fl)
			dup := false
			for _, o := range outs {
				if o.src == src {
					dup = true
				}
			}
			if dup {
				continue
			}
			o := &outcome{src: src}
			scope := slip.NewScope()
			for k := 1; k <= 12; k++ {
				// the inert symbols are bound, so that a macro that evaluates
				// or assigns one of them (incf, setq, return) can succeed
				sym := slip.Symbol(inertSym(k))
				_ = sl.Catch(func() { scope.Let(sym, slip.Fixnum(k)) })
			}
			val, err := sl.Eval(scope, src)
			sl.Reset()
			x.Cover("B:calls")
			switch {
			case err == nil:
				o.kind, o.text = "value", sl.Show(val)
			case err.Internal:
				o.kind, o.text = "fault", err.String()
				if inside {
					insideFaults[o.text] = true
				}
			case arityMsg.MatchString(err.Msg) && inside && !strings.Contains(strings.ToLower(err.Msg), bare):
				// an arity refusal raised by some other function called on the way
				o.kind, o.text = "condition", err.String()
				x.Cover("B:arity-message-from-nested-call")
			case arityMsg.MatchString(err.Msg):
				o.kind, o.text = "arity", err.Msg
			case !inside && keyTailMsg.MatchString(err.Msg):
				o.kind, o.text = "arity", err.Msg
			case err.IsA("unbound-variable") && missingParam(err.Msg, paramNames):
				o.kind, o.text = "missing-binding", err.Msg
			default:
				o.kind, o.text = "condition", err.String()
			}
			outs = append(outs, o)
		}
		cleanupUser()
		per[n] = outs
	}
	// second pass: judge
	for n := 0; n <= d.top(); n++ {
		inside := d.allowed(n)
		kinds := map[string]*outcome{}
		for _, o := range per[n] {
			if o.kind == "fault" && !inside && insideFaults[o.text] {
				// the same Go fault happens with a documented count: it is not
				// about the count (C09's concern)
				o.kind = "condition"
				x.Cover("B:fault-unrelated-to-count")
			}
			if kinds[o.kind] == nil {
				kinds[o.kind] = o
			}
		}
		var ks []string
		for k := range kinds {
			ks = append(ks, k)
		}
		sort.Strings(ks)
		perN = append(perN, fmt.Sprintf("n=%d %s: %s", n, map[bool]string{true: "documented", false: "undocumented"}[inside], strings.Join(ks, ",")))
		side := "above"
		if n < d.req {
			side = "below"
		} else if d.hasKey && !d.rest && d.req+d.opt < n && (n-d.req-d.opt)%2 == 1 {
			side = "odd-key-tail"
		}
		if inside {
			x.Cover("B:documented-counts-tried")
			if o := kinds["arity"]; o != nil {
				w := "few"
				if strings.Contains(strings.ToLower(o.text), "many") {
					w = "many"
				}
				fail(fmt.Sprintf("B builtin=%s documented-count-refused too-%s", c.Fn, w), n, o)
			} else {
				x.Cover("B:documented-count-not-refused")
			}
			continue
		}
		x.Cover("B:undocumented-counts-tried")
		switch {
		case kinds["value"] != nil:
			fail(fmt.Sprintf("B builtin=%s undocumented-count-accepted %s", c.Fn, side), n, kinds["value"])
		case kinds["missing-binding"] != nil:
			fail(fmt.Sprintf("B builtin=%s ran-with-missing-binding", c.Fn), n, kinds["missing-binding"])
		case kinds["fault"] != nil && kinds["arity"] == nil:
			fail(fmt.Sprintf("B builtin=%s undocumented-count-faults %s", c.Fn, side), n, kinds["fault"])
		case kinds["arity"] != nil:
			x.Cover("B:undocumented-count-refused-for-arity")
		default:
			x.Cover("B:undocumented-count-refused-other-condition")
			if f := os.Getenv("C04_DUMP"); f != "" { // development aid: which refusals could not be classified
				if fh, err := os.OpenFile(f, os.O_APPEND|os.O_CREATE|os.O_WRONLY, 0o644); err == nil {
					for _, o := range per[n] {
						fmt.Fprintf(fh, "%s n=%d %s: %s => %s\n", c.Fn, n, side, o.src, o.text)
					}
					_ = fh.Close()
				}
			}
		}
	}
	obs["outcomes"] = perN
	describeCheck(x, c.Fn, fi)
	x.Observe(obs)
	var sigs []string
	for s := range fails {
		sigs = append(sigs, s)
	}
	sort.Strings(sigs)
	for _, s := range sigs {
		bk := fails[s]
		x.Fail(s, "%s is documented as %s %s; argument count(s) %v: %s", c.Fn, c.Fn[strings.Index(c.Fn, ":")+1:], d.text, bk.ns, bk.eg)
	}
}

var unboundRe = regexp.MustCompile(`(?i)variable (\S+) is unbound`)

func missingParam(msg string, params map[string]bool) bool {
	m := unboundRe.FindStringSubmatch(msg)
	return m != nil && params[strings.ToLower(m[1])]
}

// cleanupUser removes what a swept definer (defun, defmacro, defvar, ...)
// may have defined under the inert names.
func cleanupUser() {
	for i := 1; i <= 12; i++ {
		n := inertSym(i)
		if slip.UserPkg.GetFunc(n) != nil {
			_ = sl.Catch(func() { slip.UserPkg.Undefine(n) })
		}
		_ = sl.Catch(func() { slip.UserPkg.Remove(n) })
	}
}

var lambdaListLine = regexp.MustCompile(`(?m)^\s*Lambda-List: \((.*)\)\s*$`)

// describeCheck obtains the documented lambda list the way a user does,
// through describe, and requires it to name the same parameters in the same
// order as the FuncDoc the sweep was judged against.
func describeCheck(x *fw.Ctx, name string, fi *slip.FuncInfo) {
	src := fmt.Sprintf("(let ((*print-ansi* nil) (*print-right-margin* 100000)) (with-output-to-string (c04out) (describe '%s c04out)))", name)
	val, err := sl.Eval(slip.NewScope(), src)
	sl.Reset()
	if err != nil {
		x.Cover("B:describe-unavailable")
		return
	}
	text, _ := val.(slip.String)
	m := lambdaListLine.FindStringSubmatch(string(text))
	if m == nil {
		x.Cover("B:describe-without-lambda-list")
		return
	}
	// names in the describe line: drop init values "(name value)"
	var got []string
	depth := 0
	tok := ""
	first := true
	flush := func() {
		if tok != "" && (depth == 0 || first) {
			got = append(got, strings.ToLower(tok))
			first = false
		}
		tok = ""
	}
	for _, r := range m[1] {
		switch {
		case r == '(':
			flush()
			depth++
			first = true
		case r == ')':
			flush()
			depth--
			first = false
		case r == ' ':
			flush()
		default:
			tok += string(r)
		}
	}
	flush()
	var want []string
	for _, a := range fi.Doc.Args {
		want = append(want, strings.TrimPrefix(strings.ToLower(a.Name), ":"))
	}
	if strings.Join(got, " ") != strings.Join(want, " ") {
		x.Fail("B describe-disagrees-with-funcdoc", "(describe '%s) shows Lambda-List: (%s) but the FuncDoc parameters are %v", name, m[1], want)
		return
	}
	x.Cover("B:describe-agrees")
}
