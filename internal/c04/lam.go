package c04

import (
	"fmt"
	"math/rand/v2"
	"strconv"
	"strings"

	"github.com/ohler55/slip"

	"verif/internal/c04/ref"
	"verif/internal/fw"
	"verif/internal/sl"
)

// ---------------------------------------------------------------------------
// Part A: user lambda lists.
//
// A case is (lambda list, argument vector). The function body is
//     (c04-mark) (list p1 ... pn)
// c04-mark is a Go builtin registered by the harness that counts how often a
// body was entered, so "the body ran on an arity the lambda list forbids" is
// observed directly, not inferred from a message. Each case is called
// through seven routes (defun + direct call, the same after Code.Compile,
// defun + funcall of the symbol, lambda + funcall, apply with a spread list,
// ((lambda ...) ...), multiple-value-call) and every route is judged against
// the reference binder. With Amb (see ambModes) the call is made inside a let that
// binds variables named like the optional/rest/key/aux parameters: under
// lexical scoping that must not change any binding.
// ---------------------------------------------------------------------------

var (
	reqNames = []string{"a", "b", "c"}
	optNames = []string{"o", "p"}
	keyNames = []string{"k", "l", "m"}
	restName = "r"
	foreign  = ":z"
)

const nShapes = 4 * 3 * 2 * 2 * 4 * 2 * 2 // the shape grid of the quantifier

// shape builds lambda list number s of the grid: 0-3 required x 0-2 optional
// x optional defaults x rest x 0-3 keys x key defaults x aux.
func shape(s int) *ref.LL {
	nreq := s % 4
	nopt := (s / 4) % 3
	optDef := (s / 12) % 2
	rest := (s / 24) % 2
	nkey := (s / 48) % 4
	keyDef := (s / 192) % 2
	aux := (s / 384) % 2
	l := &ref.LL{}
	l.Req = append(l.Req, reqNames[:nreq]...)
	for i := 0; i < nopt; i++ {
		p := ref.Param{Name: optNames[i]}
		if optDef == 1 {
			p.Init = strconv.Itoa(51 + i)
		}
		l.Opt = append(l.Opt, p)
	}
	if rest == 1 {
		l.Rest = restName
	}
	for i := 0; i < nkey; i++ {
		p := ref.Param{Name: keyNames[i]}
		if keyDef == 1 {
			p.Init = strconv.Itoa(71 + i)
		}
		l.Keys = append(l.Keys, p)
	}
	l.HasKey = 0 < nkey
	if aux == 1 {
		addAux(l, false)
	}
	return l
}

// addAux appends &aux (x 9) (y (list x <first parameter>)) w; with symInit the
// first one is (x <first parameter>) - an init form that is a bare variable.
func addAux(l *ref.LL, symInit bool) {
	names, _ := l.Names()
	first := ""
	if 0 < len(names) {
		first = names[0]
	}
	x := ref.Param{Name: "x", Init: "9"}
	if symInit && first != "" {
		x.Init = first
	}
	y := ref.Param{Name: "y", Init: "(list x)"}
	if first != "" {
		y.Init = "(list x " + first + ")"
	}
	l.Aux = []ref.Param{x, y, {Name: "w"}}
}

// variant lambda lists: constructs next to the grid (init forms that must be
// evaluated, &allow-other-keys, &key without names). v selects the variant.
const nVariants = 11

func variant(base *ref.LL, v int) *ref.LL {
	l := *base
	l.Opt = append([]ref.Param{}, base.Opt...)
	l.Keys = append([]ref.Param{}, base.Keys...)
	l.Aux = nil
	names, _ := l.Names()
	first := ""
	if 0 < len(names) {
		first = names[0]
	}
	switch v {
	case 0: // &allow-other-keys
		l.HasKey, l.Allow = true, true
	case 1: // &key with no names
		if len(l.Keys) == 0 {
			l.HasKey = true
		} else {
			l.Allow = true
		}
	case 2: // optional init form that is a computation
		if 0 < len(l.Opt) {
			l.Opt[len(l.Opt)-1].Init = "(+ 50 1)"
		} else {
			l.Opt = []ref.Param{{Name: "o", Init: "(+ 50 1)"}}
		}
	case 3: // optional init form that refers to an earlier parameter
		if len(l.Req) == 0 {
			l.Req = []string{"a"}
		}
		if 0 < len(l.Opt) {
			l.Opt[len(l.Opt)-1].Init = "(c04-init 58 a)"
		} else {
			l.Opt = []ref.Param{{Name: "o", Init: "(c04-init 58 a)"}}
		}
	case 4: // key init form that is a computation
		l.HasKey = true
		if 0 < len(l.Keys) {
			l.Keys[len(l.Keys)-1].Init = "(+ 70 1)"
		} else {
			l.Keys = []ref.Param{{Name: "k", Init: "(+ 70 1)"}}
		}
	case 5: // key init form that refers to an earlier parameter
		l.HasKey = true
		if len(l.Req) == 0 {
			l.Req = []string{"a"}
		}
		if 0 < len(l.Keys) {
			l.Keys[len(l.Keys)-1].Init = "(c04-init 78 a)"
		} else {
			l.Keys = []ref.Param{{Name: "k", Init: "(c04-init 78 a)"}}
		}
	case 6: // aux whose init form is a bare variable
		if first == "" {
			l.Req = []string{"a"}
		}
		addAux(&l, true)
	case 7: // optional/key init that is a bare variable
		if len(l.Req) == 0 {
			l.Req = []string{"a"}
		}
		if 0 < len(l.Opt) {
			l.Opt[0].Init = "a"
		} else {
			l.Opt = []ref.Param{{Name: "o", Init: "a"}}
		}
	case 8: // every init form has a side effect and reads every earlier parameter
		return traced(base)
	case 9: // the init form of the first key names a LATER key
		l.HasKey = true
		for len(l.Keys) < 2 {
			l.Keys = append(l.Keys, ref.Param{Name: keyNames[len(l.Keys)]})
		}
		l.Keys[0].Init = "(c04-init 79 " + l.Keys[len(l.Keys)-1].Name + ")"
	case 10: // the init form of an optional names a LATER key
		l.HasKey = true
		if len(l.Keys) == 0 {
			l.Keys = []ref.Param{{Name: "k"}}
		}
		if len(l.Opt) == 0 {
			l.Opt = []ref.Param{{Name: "o"}}
		}
		l.Opt[len(l.Opt)-1].Init = "(c04-init 59 " + l.Keys[0].Name + ")"
	}
	return &l
}

// traced gives every optional, key and aux parameter an init form with a
// visible side effect that reads every parameter before it:
// (c04-init N earlier...). The trace of a call then shows which init forms
// were evaluated, how often and in which order; the values show what they saw.
func traced(base *ref.LL) *ref.LL {
	l := *base
	l.Opt = append([]ref.Param{}, base.Opt...)
	l.Keys = append([]ref.Param{}, base.Keys...)
	earlier := append([]string{}, l.Req...)
	form := func(id int) string {
		if len(earlier) == 0 {
			return fmt.Sprintf("(c04-init %d)", id)
		}
		return fmt.Sprintf("(c04-init %d %s)", id, strings.Join(earlier, " "))
	}
	for i := range l.Opt {
		l.Opt[i].Init = form(51 + i)
		earlier = append(earlier, l.Opt[i].Name)
	}
	if l.Rest != "" {
		earlier = append(earlier, l.Rest)
	}
	for i := range l.Keys {
		l.Keys[i].Init = form(71 + i)
		earlier = append(earlier, l.Keys[i].Name)
	}
	if 0 < len(base.Aux) {
		l.Aux = nil
		for i, n := range []string{"x", "y"} {
			l.Aux = append(l.Aux, ref.Param{Name: n, Init: form(91 + i)})
			earlier = append(earlier, n)
		}
		l.Aux = append(l.Aux, ref.Param{Name: "w"})
	}
	return &l
}

// alphabet of the exhaustive block for a lambda list: an integer (its value
// is its position, so a shifted binding is visible), every declared keyword,
// one foreign keyword.
func alphabet(l *ref.LL) []string {
	a := []string{"#", foreign}
	for _, k := range l.Keys {
		a = append(a, ":"+k.Name)
	}
	return a
}

func concrete(toks []string) []string {
	out := make([]string, len(toks))
	for i, t := range toks {
		if t == "#" {
			out[i] = strconv.Itoa(i + 1)
		} else {
			out[i] = t
		}
	}
	return out
}

// literalDefault is the value equal to a parameter's own default: the init
// form when it is a literal, nil otherwise (no init form, or a computed one).
func literalDefault(init string) string {
	if _, err := strconv.Atoi(init); err == nil {
		return init
	}
	return "nil"
}

// ownDefaults replaces every "=" token of a concrete argument vector by the
// value equal to the default of the parameter that argument is bound to: the
// optional at that position, or the declared key named just before it.
func ownDefaults(l *ref.LL, args []string) []string {
	keyInit := map[string]string{}
	for _, k := range l.Keys {
		keyInit[":"+k.Name] = k.Init
	}
	for i, a := range args {
		if a != "=" {
			continue
		}
		switch {
		case i < len(l.Req):
			args[i] = strconv.Itoa(i + 1)
		case i < len(l.Req)+len(l.Opt):
			args[i] = literalDefault(l.Opt[i-len(l.Req)].Init)
		default:
			args[i] = "nil"
			if 0 < i {
				if init, ok := keyInit[args[i-1]]; ok {
					args[i] = literalDefault(init)
				}
			}
		}
	}
	return args
}

// value probes: every optional and every key is SUPPLIED with nil, with t,
// or with a value equal to its own default - values an implementation might
// confuse with "not supplied".
const valuePerLL = 6

// traced probes per lambda list: the value probes plus 4 positional counts x
// 5 keyword tails, on the traced form of every lambda list of the grid.
const tracedPerLL = valuePerLL + 20

func valueProbe(l *ref.LL, sub int) []string {
	v := []string{"nil", "t", "="}[sub%3]
	var toks []string
	for i := 0; i < len(l.Req)+len(l.Opt); i++ {
		if i < len(l.Req) && v == "=" {
			toks = append(toks, "#")
		} else {
			toks = append(toks, v)
		}
	}
	if sub/3 == 1 {
		for i := len(l.Keys) - 1; 0 <= i; i-- {
			toks = append(toks, ":"+l.Keys[i].Name, v)
		}
	}
	return ownDefaults(l, concrete(toks))
}

// exhaustive block bookkeeping: per shape, the number of vectors of length
// 0..L over its alphabet.
type exhTable struct {
	L      int
	starts []int // starts[s] = first index of shape s; len nShapes+1
}

func newExhTable(L int) *exhTable {
	t := &exhTable{L: L, starts: make([]int, nShapes+1)}
	for s := 0; s < nShapes; s++ {
		A := 2 + (s/48)%4
		n, p := 0, 1
		for k := 0; k <= L; k++ {
			n += p
			p *= A
		}
		t.starts[s+1] = t.starts[s] + n
	}
	return t
}

func (t *exhTable) total() int { return t.starts[nShapes] }

func (t *exhTable) at(i int) (*ref.LL, []string) {
	lo, hi := 0, nShapes
	for lo+1 < hi {
		mid := (lo + hi) / 2
		if t.starts[mid] <= i {
			lo = mid
		} else {
			hi = mid
		}
	}
	l := shape(lo)
	k := i - t.starts[lo]
	alpha := alphabet(l)
	A := len(alpha)
	length, p := 0, 1
	for p <= k {
		k -= p
		p *= A
		length++
	}
	toks := make([]string, length)
	for j := length - 1; 0 <= j; j-- {
		toks[j] = alpha[k%A]
		k /= A
	}
	return l, concrete(toks)
}

// probe block: for every lambda list the boundary situations, seed
// independent, so that every known deviation is re-observed on every seed
// and a change next to it is seen at once.
const nTails = 12

func probeVector(l *ref.LL, npos, tail int) []string {
	var toks []string
	for i := 0; i < npos; i++ {
		toks = append(toks, "#")
	}
	keys := []string{}
	for _, k := range l.Keys {
		keys = append(keys, ":"+k.Name)
	}
	k0 := foreign
	if 0 < len(keys) {
		k0 = keys[0]
	}
	switch tail {
	case 0:
	case 1: // every key, in order
		for _, k := range keys {
			toks = append(toks, k, "#")
		}
	case 2: // every key, reversed
		for i := len(keys) - 1; 0 <= i; i-- {
			toks = append(toks, keys[i], "#")
		}
	case 3: // duplicate of the first key
		toks = append(toks, k0, "#", k0, "#")
	case 4: // a keyword as the value of a key, then that key
		k1 := k0
		if 1 < len(keys) {
			k1 = keys[1]
		}
		toks = append(toks, k0, k1, k1, "#")
	case 5: // unknown key first, then a known one
		toks = append(toks, foreign, "#", k0, "#")
	case 6: // odd tail
		toks = append(toks, k0)
	case 7: // integers where keys belong
		toks = append(toks, "#", "#")
	case 8: // last key only
		if 0 < len(keys) {
			toks = append(toks, keys[len(keys)-1], "#")
		}
	case 9: // a foreign keyword that names a positional/rest/aux parameter
		names, kinds := l.Names()
		for i, n := range names {
			if kinds[i] != "key" {
				toks = append(toks, ":"+n, "#")
				break
			}
		}
	case 10: // known key, then unknown, then duplicate of the known one
		toks = append(toks, k0, "#", foreign, "#", k0, "#")
	case 11: // an unknown key whose value is a declared keyword
		toks = append(toks, foreign, k0)
	}
	return concrete(toks)
}

func nposChoices(l *ref.LL) []int {
	r, o := len(l.Req), len(l.Opt)
	c := []int{r, r + o, r + o + 1}
	if 0 < r {
		c = append(c, r-1)
	} else {
		c = append(c, r+o+2)
	}
	return c
}

const probePerLL = 4 * nTails

func probeCase(l *ref.LL, k int) []string {
	np := nposChoices(l)[k/nTails]
	return probeVector(l, np, k%nTails)
}

// variant base shapes: a spread of grid shapes each variant is applied to.
var variantBases = []int{0, 1, 2, 5, 6, 24, 25, 29, 48 + 1, 96 + 2, 144 + 5, 48 + 24 + 1, 144 + 24 + 6, 192 + 48 + 1, 192 + 144 + 24 + 5, 12 + 6}

func nVariantProbes() int { return nVariants * len(variantBases) * probePerLL }

// ambModes: where a variable with the NAME of every parameter (required ones
// included) is visible when the function is called. None of them is an
// argument: too few arguments stay an error, an absent optional/key gets its
// own default.
//
//	let     - the call is inside a let binding the names
//	caller  - the call is inside a function whose own parameters have the names
//	closure - the function is created inside a let binding the names and
//	          called outside of it
//	global  - the names are defvar'ed globals
var ambModes = []string{"let", "caller", "closure", "global"}

// ambient probes per lambda list: every mode x 5 vectors (one required
// argument missing, all missing, exactly the required ones, all positionals,
// all positionals + the last key).
const ambientPerLL = 4 * 5

type layout struct {
	exh                                                     *exhTable
	probeStart, varStart, ambStart, valStart, trcStart, upStart, rnd int
	total                                                   int
}

var layouts = map[string]*layout{}

func lamLayout(tier string) *layout {
	if ly := layouts[tier]; ly != nil {
		return ly
	}
	ly := &layout{}
	nrand := 24000
	ly.exh = newExhTable(3)
	if tier == "thorough" {
		ly.exh = newExhTable(5)
		nrand = 300000
	}
	ly.probeStart = ly.exh.total()
	ly.varStart = ly.probeStart + nShapes*probePerLL
	ly.ambStart = ly.varStart + nVariantProbes()
	ly.valStart = ly.ambStart + nShapes*ambientPerLL
	ly.trcStart = ly.valStart + (nShapes+nVariants*len(variantBases))*valuePerLL
	ly.upStart = ly.trcStart + nShapes*tracedPerLL
	ly.rnd = ly.upStart + nShapes*upperPerLL
	ly.total = ly.rnd + nrand
	layouts[tier] = ly
	return ly
}

func genLam(r *rand.Rand, i int, tier string) Case {
	ly := lamLayout(tier)
	c := Case{Part: "A"}
	switch {
	case i < ly.probeStart:
		c.LL, c.Args = ly.exh.at(i)
		c.Block = "exhaustive"
	case i < ly.varStart:
		k := i - ly.probeStart
		c.LL = shape(k / probePerLL)
		c.Args = probeCase(c.LL, k%probePerLL)
		c.Block = "probe"
	case i < ly.ambStart:
		k := i - ly.varStart
		v := k / (len(variantBases) * probePerLL)
		k %= len(variantBases) * probePerLL
		c.LL = variant(shape(variantBases[k/probePerLL]), v)
		c.Args = probeCase(c.LL, k%probePerLL)
		c.Block = "variant-probe"
	case i < ly.valStart:
		k := i - ly.ambStart
		c.LL = shape(k / ambientPerLL)
		sub := k % ambientPerLL
		nr, no := len(c.LL.Req), len(c.LL.Opt)
		c.Amb = ambModes[sub/5]
		switch sub % 5 {
		case 0: // the last required argument is missing (too many when there is none)
			if 0 < nr {
				c.Args = probeVector(c.LL, nr-1, 0)
			} else {
				c.Args = probeVector(c.LL, no+1, 0)
			}
		case 1: // every required argument is missing
			c.Args = probeVector(c.LL, 0, 0)
		case 2:
			c.Args = probeVector(c.LL, nr, 0)
		case 3:
			c.Args = probeVector(c.LL, nr+no, 0)
		case 4:
			c.Args = probeVector(c.LL, nr+no, 8)
		}
		c.Block = "ambient-probe"
	case i < ly.trcStart:
		k := i - ly.valStart
		if k < nShapes*valuePerLL {
			c.LL = shape(k / valuePerLL)
		} else {
			k -= nShapes * valuePerLL
			vb := k / valuePerLL
			c.LL = variant(shape(variantBases[vb%len(variantBases)]), vb/len(variantBases))
		}
		c.Args = valueProbe(c.LL, k%valuePerLL)
		if (k/valuePerLL)%5 == 4 {
			c.Amb = ambModes[(k/valuePerLL/5)%len(ambModes)]
		}
		c.Block = "value-probe"
	case ly.upStart <= i && i < ly.rnd:
		k := i - ly.upStart
		c.LL = shape(k / upperPerLL)
		sub := k % upperPerLL
		c.Upper = upperModes[sub/3]
		c.Args = probeVector(c.LL, nposChoices(c.LL)[sub%3%2], []int{1, 2, 0}[sub%3])
		c.Block = "letter-case"
	case i < ly.upStart:
		k := i - ly.trcStart
		c.LL = traced(shape(k / tracedPerLL))
		sub := k % tracedPerLL
		if sub < valuePerLL {
			c.Args = valueProbe(c.LL, sub)
		} else {
			sub -= valuePerLL
			tails := []int{0, 1, 2, 3, 8}
			c.Args = probeVector(c.LL, nposChoices(c.LL)[sub/len(tails)], tails[sub%len(tails)])
		}
		if (k/tracedPerLL)%4 == 3 {
			c.Amb = ambModes[(k/tracedPerLL/4)%len(ambModes)]
		}
		c.Block = "traced-probe"
	default:
		c.LL = shape(r.IntN(nShapes))
		switch r.IntN(6) {
		case 0:
			c.LL = variant(c.LL, r.IntN(nVariants))
		case 1, 2:
			c.LL = traced(c.LL)
		}
		c.Args = randomArgs(r, c.LL)
		if r.IntN(4) == 0 {
			c.Amb = fw.Pick(r, ambModes)
		}
		if r.IntN(16) == 0 {
			c.Upper = fw.Pick(r, upperModes)
		}
		c.Block = "random"
	}
	c.Split = r.IntN(3)
	return c
}

// letter-case relation: slip's symbols are not case sensitive (the reader keeps the
// spelling, every lookup folds it), so writing the parameter names in upper case at
// one kind of site must not change anything a call does.
//
//	decl - in the lambda list only    kw   - in the keyword arguments only
//	body - in the (list ...) of the body only    bare - the body ends in the first parameter as a bare upper-case symbol
var upperModes = []string{"decl", "kw", "body", "bare"}

// letter-case probes per lambda list: every mode x 3 vectors (required
// arguments + every key in order; all positionals + every key reversed;
// required arguments only).
const upperPerLL = 4 * 3

// upperNames rewrites every occurrence of a parameter name in text (a whole
// word that is not part of a longer symbol such as c04-init or &key).
func upperNames(text string, names []string) string {
	is := map[string]bool{}
	for _, n := range names {
		is[n] = true
	}
	var b strings.Builder
	for i := 0; i < len(text); {
		j := i
		for j < len(text) && (text[j] == '-' || text[j] == '&' || text[j] == ':' || 'a' <= text[j] && text[j] <= 'z' || '0' <= text[j] && text[j] <= '9') {
			j++
		}
		if j == i {
			b.WriteByte(text[i])
			i++
			continue
		}
		if w := text[i:j]; is[w] {
			b.WriteString(strings.ToUpper(w))
		} else {
			b.WriteString(w)
		}
		i = j
	}
	return b.String()
}

// valueToken draws a supplied value: mostly an integer, sometimes nil, t or
// ("=") the value equal to the parameter's own default.
func valueToken(r *rand.Rand) string {
	if r.IntN(5) == 0 {
		return []string{"nil", "t", "="}[r.IntN(3)]
	}
	return "#"
}

// randomArgs draws an argument vector of length 0..8: mostly well-formed
// (positional prefix, then key/value pairs in a random order), sometimes with
// duplicates, unknown keys, keywords as values, or arbitrary tokens.
func randomArgs(r *rand.Rand, l *ref.LL) []string {
	alpha := alphabet(l)
	if r.IntN(4) == 0 {
		// arbitrary tokens, lengths 4..8 (shorter ones are enumerated)
		n := 4 + r.IntN(5)
		toks := make([]string, n)
		for i := range toks {
			toks[i] = fw.Pick(r, alpha)
		}
		return concrete(toks)
	}
	nr, no := len(l.Req), len(l.Opt)
	npos := nr + r.IntN(no+1)
	switch r.IntN(8) {
	case 0:
		if 0 < nr {
			npos = r.IntN(nr) // too few
		}
	case 1:
		npos = nr + no + 1 + r.IntN(2)
	}
	var toks []string
	for i := 0; i < npos; i++ {
		if r.IntN(12) == 0 {
			toks = append(toks, fw.Pick(r, alpha)) // a keyword in a positional slot
		} else {
			toks = append(toks, valueToken(r))
		}
	}
	if l.HasKey || l.Rest != "" || r.IntN(6) == 0 {
		var ks []string
		for _, k := range l.Keys {
			if r.IntN(3) != 0 {
				ks = append(ks, ":"+k.Name)
			}
		}
		r.Shuffle(len(ks), func(i, j int) { ks[i], ks[j] = ks[j], ks[i] })
		if r.IntN(8) == 0 && 0 < len(ks) {
			ks = append(ks, fw.Pick(r, ks)) // duplicate
		}
		if r.IntN(8) == 0 {
			ks = append(ks, foreign)
			r.Shuffle(len(ks), func(i, j int) { ks[i], ks[j] = ks[j], ks[i] })
		}
		if r.IntN(30) == 0 {
			names, kinds := l.Names()
			for i, n := range names {
				if kinds[i] != "key" {
					ks = append(ks, ":"+n)
					break
				}
			}
		}
		if l.Rest != "" && !l.HasKey {
			// rest without keys: any tokens
			n := r.IntN(5)
			for i := 0; i < n; i++ {
				toks = append(toks, fw.Pick(r, alpha))
			}
		}
		for _, k := range ks {
			if 8 <= len(toks)+2 {
				break
			}
			v := valueToken(r)
			if r.IntN(10) == 0 {
				v = fw.Pick(r, alpha)
			}
			toks = append(toks, k, v)
		}
		if r.IntN(15) == 0 && len(toks) < 8 {
			toks = append(toks, fw.Pick(r, alpha)) // odd tail
		}
	}
	if 8 < len(toks) {
		toks = toks[:8]
	}
	return ownDefaults(l, concrete(toks))
}

// ---------------------------------------------------------------------------

// callTrace is the ordered record of the side effects of one call: the id of
// every c04-init form evaluated and "body" for every entry into the body.
var callTrace []string

type markFn struct {
	slip.Function
}

func (f *markFn) Call(s *slip.Scope, args slip.List, depth int) slip.Object {
	callTrace = append(callTrace, "body")
	return nil
}

// initFn is (c04-init N v...): records N in the trace; returns N, or the list
// (N v...) when given further arguments.
type initFn struct {
	slip.Function
}

func (f *initFn) Call(s *slip.Scope, args slip.List, depth int) slip.Object {
	if len(args) == 0 {
		return nil
	}
	callTrace = append(callTrace, sl.Show(args[0]))
	if len(args) == 1 {
		return args[0]
	}
	out := make(slip.List, len(args))
	copy(out, args)
	return out
}

const (
	markName = "c04-mark"
	initName = "c04-init"
)

func defineMark() {
	if slip.UserPkg.GetFunc(markName) != nil {
		return
	}
	slip.Define(
		func(args slip.List) slip.Object {
			f := markFn{Function: slip.Function{Name: markName, Args: args}}
			f.Self = &f
			return &f
		},
		&slip.FuncDoc{Name: markName, Return: "nil", Text: "harness marker: records an entry into a function body"},
		&slip.UserPkg)
	slip.Define(
		func(args slip.List) slip.Object {
			f := initFn{Function: slip.Function{Name: initName, Args: args}}
			f.Self = &f
			return &f
		},
		&slip.FuncDoc{Name: initName, Return: "object", Text: "harness marker: records the evaluation of an init form",
			Args: []*slip.DocArg{{Name: "id"}, {Name: "&rest"}, {Name: "values"}}},
		&slip.UserPkg)
}

// ambientBase+i is the value of the caller's variable named like parameter i.
const ambientBase = 900

var routes = []string{"defun", "compiled", "symcall", "funcall", "apply", "direct", "mvcall"}

// program renders the call of the case through a route. fname is the name
// used by the defun route.
func program(c *Case, route, fname string) string {
	names, _ := c.LL.Names()
	body := "(" + markName + ") (list " + strings.Join(names, " ") + ")"
	if len(names) == 0 {
		body = "(" + markName + ") (list)"
	}
	ll := c.LL.Text()
	switch c.Upper {
	case "decl":
		ll = upperNames(ll, names)
	case "body":
		body = upperNames(body, names)
	case "bare":
		if 0 < len(names) {
			body = "(" + markName + ") " + strings.ToUpper(names[0])
		}
	case "bare-lower":
		if 0 < len(names) {
			body = "(" + markName + ") " + names[0]
		}
	}
	lam := "(lambda " + ll + " " + body + ")"
	defun := "(defun " + fname + " " + ll + " " + body + ")"
	args := strings.Join(c.Args, " ")
	if c.Upper == "kw" {
		up := make([]string, len(c.Args))
		for i, a := range c.Args {
			if up[i] = a; strings.HasPrefix(a, ":") {
				up[i] = strings.ToUpper(a)
			}
		}
		args = strings.Join(up, " ")
	}
	sp := func(s string) string {
		if s == "" {
			return ""
		}
		return " " + s
	}
	isDefun := route == "defun" || route == "compiled" || route == "symcall"
	// the function as it appears in the call
	fn := lam
	if c.Amb == "closure" && !isDefun {
		fn = "c04f" // a variable holding the closure made inside the let
	}
	var call string
	k := c.Split
	if len(c.Args) < k {
		k = len(c.Args)
	}
	switch route {
	case "symcall":
		call = "(funcall '" + fname + sp(args) + ")"
	case "defun", "compiled":
		call = "(" + fname + sp(args) + ")"
	case "funcall":
		call = "(funcall " + fn + sp(args) + ")"
	case "apply":
		tail := "'(" + strings.Join(c.Args[k:], " ") + ")"
		if k == len(c.Args) {
			tail = "nil"
		}
		call = "(apply " + fn + sp(strings.Join(c.Args[:k], " ")) + " " + tail + ")"
	case "direct":
		call = "(" + lam + sp(args) + ")"
		if fn != lam {
			// a variable cannot stand in operator position
			call = "(funcall " + fn + sp(args) + ")"
		}
	case "mvcall":
		call = "(multiple-value-call " + fn + sp(strings.Join(c.Args[:k], " ")) + " (values" + sp(strings.Join(c.Args[k:], " ")) + "))"
	default:
		panic("route " + route)
	}
	var binds, vals []string
	for i, n := range names {
		binds = append(binds, fmt.Sprintf("(%s %d)", n, ambientBase+i))
		vals = append(vals, strconv.Itoa(ambientBase+i))
	}
	let := func(form string) string { return "(let (" + strings.Join(binds, " ") + ") " + form + ")" }
	pre := ""
	if isDefun {
		pre = defun + " "
	}
	switch c.Amb {
	case "":
		return pre + call
	case "let":
		return pre + let(call)
	case "caller":
		return pre + "(defun " + callerName + " (" + strings.Join(names, " ") + ") " + call + ") (" + callerName + sp(strings.Join(vals, " ")) + ")"
	case "closure":
		if isDefun {
			return let(defun) + " " + call
		}
		return "(let ((c04f " + let(lam) + ")) " + call + ")"
	case "global":
		var dv []string
		for i, n := range names {
			dv = append(dv, fmt.Sprintf("(defvar %s %d)", n, ambientBase+i))
		}
		return strings.Join(dv, " ") + sp(pre+call)
	}
	panic("amb " + c.Amb)
}

const callerName = "c04caller"

// runRoute evaluates the program of a case through one route in a fresh scope
// and renders what it did: the value or the condition class, and the trace.
func runRoute(c *Case, route string) (string, string) {
	names, _ := c.LL.Names()
	fname := "c04fn"
	src := program(c, route, fname)
	scope := slip.NewScope()
	callTrace = callTrace[:0]
	var (
		out slip.Object
		err *sl.Err
	)
	if route == "compiled" {
		out, err = sl.EvalCompiled(scope, src)
	} else {
		out, err = sl.Eval(scope, src)
	}
	trace := strings.Join(callTrace, ",")
	if route == "defun" || route == "compiled" || route == "symcall" {
		slip.UserPkg.Undefine(fname)
	}
	switch c.Amb {
	case "caller":
		slip.UserPkg.Undefine(callerName)
	case "global":
		for _, n := range names {
			_ = sl.Catch(func() { slip.UserPkg.Remove(n) })
		}
	}
	sl.Reset()
	if err != nil {
		cls := "condition"
		if 0 < len(err.Chain) {
			cls += " " + err.Chain[0]
		}
		if err.Internal {
			cls += " (internal fault: " + err.Msg + ")"
		}
		return src, cls + " trace " + trace
	}
	return src, sl.Show(out) + " trace " + trace
}

// execUpper is the letter-case relation monitor: the text with the parameter
// names in upper case at one kind of site must do exactly what the all-lower-
// case text does, through every route. The lower-case text itself is judged
// against the reference binder by the other blocks.
func execUpper(x *fw.Ctx, c Case) {
	x.Cover("A:block:" + c.Block)
	x.Cover("A:letter-case:" + c.Upper)
	names, _ := c.LL.Names()
	if len(names) == 0 || c.Upper == "kw" && !func() bool {
		for _, a := range c.Args {
			if strings.HasPrefix(a, ":") {
				return true
			}
		}
		return false
	}() {
		x.Trivial()
		return
	}
	lower := c
	lower.Upper = ""
	if c.Upper == "bare" {
		lower.Upper = "bare-lower"
	}
	obs := map[string]any{"lambda-list": c.LL.Text(), "args": c.Args, "upper": c.Upper}
	x.Observe(obs)
	for _, route := range routes {
		_, want := runRoute(&lower, route)
		src, got := runRoute(&c, route)
		x.Cover("A:route:" + route)
		x.Cover("A:letter-case-pairs")
		obs[route] = got
		if got != want {
			x.Fail("A upper-case="+c.Upper, "%s => %s, the same text with the names in lower case => %s (symbols are not case sensitive)", src, got, want)
			return
		}
	}
}

// situation names, for the signature, the construct a wrongly bound
// parameter belongs to.
func situation(c *Case, res *ref.Result, name, kind string) string {
	note := res.Notes[name]
	if kind != "key" && note != "symbol-init" && note != "form-init" {
		for _, a := range c.Args {
			if a == ":"+name {
				return "named-by-foreign-keyword"
			}
		}
	}
	if note == "" {
		note = "-"
	}
	if c.Amb != "" {
		note += " same-name-visible-in=" + c.Amb
	}
	return note
}

// outerOf gives the variables lexically visible where a route's function is
// created (an init form that names a later parameter means those): with "let"
// and "caller" the lambda routes build the lambda inside the binding form
// while a defun is made at top level; with "closure" every function is made
// inside the let; globals are visible everywhere.
func outerOf(c *Case, route string) map[string]string {
	isDefun := route == "defun" || route == "compiled" || route == "symcall"
	switch c.Amb {
	case "":
		return nil
	case "let", "caller":
		if isDefun {
			return nil
		}
	}
	out := map[string]string{}
	names, _ := c.LL.Names()
	for i, n := range names {
		out[n] = strconv.Itoa(ambientBase + i)
	}
	return out
}

func execLam(x *fw.Ctx, c Case) {
	if c.Upper != "" {
		execUpper(x, c)
		return
	}
	l := c.LL
	names, kinds := l.Names()
	first := ref.Bind(l, c.Args, nil)
	x.Cover("A:block:" + c.Block)
	x.Cover("A:class:" + first.Class + map[bool]string{true: ":" + first.Why, false: ""}[first.Why != ""])
	x.Cover(fmt.Sprintf("A:args-len:%d", len(c.Args)))
	x.Cover(fmt.Sprintf("A:shape req=%d opt=%d rest=%t keys=%d aux=%t", len(l.Req), len(l.Opt), l.Rest != "", len(l.Keys), 0 < len(l.Aux)))
	if c.Amb != "" {
		x.Cover("A:same-names-visible-in:" + c.Amb)
	}
	for _, a := range c.Args {
		if a == "nil" || a == "t" {
			x.Cover("A:args-with-nil-or-t")
			break
		}
	}
	obs := map[string]any{"lambda-list": l.Text(), "args": c.Args, "prescribed": first.Class, "why": first.Why, "values": first.Vals, "trace": first.Trace}
	routeObs := map[string]string{}
	obs["routes"] = routeObs
	x.Observe(obs)

	for _, route := range routes {
		res := ref.Bind(l, c.Args, outerOf(&c, route))
		if res.ForwardRef != "" && c.Amb != "" && outerOf(&c, route) == nil {
			// a top-level defun whose init form names a variable the CALLER
			// binds: whether the caller's variable is visible there is a
			// question of free-variable scoping (C01), not of argument binding
			x.Cover("A:outside-property:free-variable-of-an-init-form-in-a-defun-called-where-the-caller-binds-it")
			continue
		}
		fname := "c04fn"
		src := program(&c, route, fname)
		scope := slip.NewScope()
		callTrace = callTrace[:0]
		var (
			out slip.Object
			err *sl.Err
		)
		if route == "compiled" {
			out, err = sl.EvalCompiled(scope, src)
		} else {
			out, err = sl.Eval(scope, src)
		}
		trace := append([]string{}, callTrace...)
		ran := 0
		for _, t := range trace {
			if t == "body" {
				ran++
			}
		}
		if route == "defun" || route == "compiled" || route == "symcall" {
			slip.UserPkg.Undefine(fname)
		}
		switch c.Amb {
		case "caller":
			slip.UserPkg.Undefine(callerName)
		case "global":
			// the globals of this call must not be visible to the next one
			for _, n := range names {
				_ = sl.Catch(func() { slip.UserPkg.Remove(n) })
			}
		}
		sl.Reset()
		x.Cover("A:route:" + route)
		if err != nil {
			routeObs[route] = "condition " + err.String()
		} else {
			routeObs[route] = sl.Show(out) + " trace " + strings.Join(trace, ",")
		}
		if err != nil && err.Internal {
			x.Fail("A internal-fault class="+res.Class, "%s => %s", src, err)
			continue
		}
		if 1 < ran {
			x.Fail("A body-ran-twice route="+route, "%s entered the body %d times", src, ran)
		}
		switch res.Class {
		case ref.TooFew, ref.TooMany, ref.OddKeys:
			switch {
			case 0 < ran:
				x.Fail("A "+res.Class+" body-ran"+ambSig(&c), "%s: the lambda list %s does not allow %d arguments, yet the body was entered (%s)",
					src, l.Text(), len(c.Args), routeObs[route])
			case err == nil:
				x.Fail("A "+res.Class+" no-condition"+ambSig(&c), "%s: the lambda list %s does not allow %d arguments, yet the call returned %s",
					src, l.Text(), len(c.Args), routeObs[route])
			default:
				x.Cover("A:rejected:" + res.Class)
			}
			continue
		}
		if res.UnboundRead != "" && res.Class == ref.Bound {
			// the init form of res.UnboundRead reads a variable that is not
			// bound when it is evaluated: a later parameter is not visible
			switch {
			case err != nil && ran == 0:
				x.Cover("A:init-form-reading-a-later-parameter-rejected")
			case err != nil:
				x.Fail("A init-reads-later-parameter body-failed", "%s: %s", src, err)
			default:
				got, _ := out.(slip.List)
				seen := ""
				for i, n := range names {
					if n == res.UnboundRead && i < len(got) {
						seen = sl.Show(got[i])
					}
				}
				if seen == res.Later {
					x.Fail("A init-form-sees-later-parameter kind="+kindOf(l, res.UnboundRead),
						"%s: the init form of %s is evaluated before the later parameter it names is bound (parameters are bound left to right), yet it saw the later parameter's value: %s = %s [all: got %s]",
						src, res.UnboundRead, res.UnboundRead, seen, sl.Show(out))
				} else {
					x.Fail("A init-reads-unbound-variable no-condition", "%s: the init form of %s reads an unbound variable, yet the call returned %s", src, res.UnboundRead, sl.Show(out))
				}
			}
			continue
		}
		if err != nil {
			if res.Class == ref.Unpinned {
				x.Cover("A:unpinned-rejected:" + res.Why)
				if 0 < ran {
					// an error raised by the body (not by the binding) on an
					// unpinned call would mean a declared parameter is missing
					x.Fail("A unpinned body-failed why="+res.Why, "%s: body entered and failed: %s", src, err)
				}
				continue
			}
			sig := "A valid-call-rejected"
			if 0 < ran {
				sig = "A valid-call body-failed"
			}
			x.Fail(sig+" "+callFeatures(l, c.Args), "%s: the lambda list %s allows these arguments (prescribed %v), got %s", src, l.Text(), res.Vals, err)
			continue
		}
		if ran != 1 {
			x.Fail("A body-not-entered", "%s returned %s without entering the body", src, sl.Show(out))
			continue
		}
		got, _ := out.(slip.List)
		if len(got) != len(names) {
			x.Fail("A result-shape", "%s => %s, expected %d parameter values", src, sl.Show(out), len(names))
			continue
		}
		okAll := true
		for i, n := range names {
			want, pinned := res.Vals[n]
			if !pinned {
				continue
			}
			if g := sl.Show(got[i]); g != want {
				okAll = false
				if n == res.ForwardRef && g == res.Later {
					x.Fail("A init-form-sees-later-parameter kind="+kinds[i],
						"%s: the init form of %s names %s, a LATER parameter, which is not bound yet when the form is evaluated (parameters are bound left to right), so it means the enclosing variable (%s); it saw the later parameter's value instead: %s = %s [all: got %s]",
						src, n, "a parameter after it", want, n, g, sl.Show(out))
					continue
				}
				x.Fail(fmt.Sprintf("A bind=%s situation=%s", kinds[i], situation(&c, res, n, kinds[i])),
					"%s: parameter %s (%s) is %s, the lambda list %s prescribes %s [all: got %s]", src, n, kinds[i], g, l.Text(), want, sl.Show(out))
			}
		}
		if res.Class == ref.Bound {
			// init forms: evaluated exactly once each, only for parameters
			// without an argument, in lambda-list order, all before the body
			want := strings.Join(append(append([]string{}, res.Trace...), "body"), ",")
			if g := strings.Join(trace, ","); g != want {
				okAll = false
				x.Fail("A init-form-evaluation "+traceDiff(res.Trace, trace),
					"%s: side effects of the call were [%s], the lambda list %s prescribes [%s] (init forms of absent parameters once each, left to right, none for supplied parameters, then the body)",
					src, g, l.Text(), want)
			} else if 0 < len(res.Trace) {
				x.Cover("A:init-forms-evaluated-in-order")
				x.CoverN("A:init-form-evaluations-observed", len(res.Trace))
			}
		}
		if okAll {
			if res.Class == ref.Unpinned {
				x.Cover("A:unpinned-accepted-correct:" + res.Why)
			} else {
				x.Cover("A:bound-correct")
				if res.Why != "" {
					x.Cover("A:bound-correct:" + res.Why)
				}
			}
		}
	}
	if first.Class == ref.Bound && 0 < len(c.Args) && c.Amb == "" {
		repeatedCalls(x, &c)
	}
}

// repeatedCalls: the function is called twice by ONE call of a mapping function
// (mapcar, mapcan+list, every) over lists that hold the two argument vectors column by
// column; what each call bound (the &rest list included) must be what the same call made
// directly binds, and must still be that after the second call: a caller may reuse its
// argument buffer, a parameter may not alias it. Relation monitor, no model.
func repeatedCalls(x *fw.Ctx, c *Case) {
	names, _ := c.LL.Names()
	second := make([]string, len(c.Args))
	for i, a := range c.Args {
		second[i] = a
		if n, err := strconv.Atoi(a); err == nil {
			second[i] = strconv.Itoa(n + 100)
		}
	}
	lam := "(lambda " + c.LL.Text() + " (list " + strings.Join(names, " ") + "))"
	if len(names) == 0 {
		return
	}
	q := func(a string) string {
		if strings.HasPrefix(a, "(") || a != "nil" && a != "t" && !strings.HasPrefix(a, ":") && !isInt(a) {
			return "'" + a
		}
		return a
	}
	var cols []string
	for i := range c.Args {
		cols = append(cols, "(list "+q(c.Args[i])+" "+q(second[i])+")")
	}
	eval := func(src string) (string, bool) {
		callTrace = callTrace[:0]
		out, err := sl.Eval(slip.NewScope(), src)
		sl.Reset()
		if err != nil {
			return err.String(), false
		}
		return sl.Show(out), true
	}
	d1, ok1 := eval("(funcall " + lam + " " + strings.Join(c.Args, " ") + ")")
	d2, ok2 := eval("(funcall " + lam + " " + strings.Join(second, " ") + ")")
	if !ok1 || !ok2 {
		x.Cover("A:repeated-calls:direct-call-failed (judged by the routes)")
		return
	}
	for _, via := range []struct{ name, src, want string }{
		{"mapcar", "(mapcar " + lam + " " + strings.Join(cols, " ") + ")", "(" + d1 + " " + d2 + ")"},
		{"mapcan", "(mapcan (lambda (&rest c04all) (list (apply " + lam + " c04all))) " + strings.Join(cols, " ") + ")", "(" + d1 + " " + d2 + ")"},
		{"every", "(let ((c04acc nil)) (every (lambda (&rest c04all) (push (apply " + lam + " c04all) c04acc) t) " + strings.Join(cols, " ") + ") (reverse c04acc))", "(" + d1 + " " + d2 + ")"},
	} {
		got, ok := eval(via.src)
		x.Cover("A:repeated-calls:" + via.name)
		if !ok || got != via.want {
			x.Fail("A repeated-calls via="+via.name+" fail=differs-from-direct-calls", "%s => %s, the two direct calls give %s", via.src, got, via.want)
			return
		}
	}
}

func isInt(a string) bool {
	_, err := strconv.Atoi(a)
	return err == nil
}

func ambSig(c *Case) string {
	if c.Amb == "" {
		return ""
	}
	return " same-name-visible-in=" + c.Amb
}

func kindOf(l *ref.LL, name string) string {
	names, kinds := l.Names()
	for i, n := range names {
		if n == name {
			return kinds[i]
		}
	}
	return "?"
}

// traceDiff classifies how the observed init-form evaluations differ from
// the prescribed ones.
func traceDiff(want, got []string) string {
	var g []string
	for _, t := range got {
		if t != "body" {
			g = append(g, t)
		}
	}
	cnt := map[string]int{}
	for _, t := range g {
		cnt[t]++
	}
	wantSet := map[string]bool{}
	for _, t := range want {
		wantSet[t] = true
	}
	for _, t := range g {
		if 1 < cnt[t] {
			return "evaluated-twice"
		}
	}
	for _, t := range g {
		if !wantSet[t] {
			return "evaluated-for-a-supplied-parameter"
		}
	}
	for _, t := range want {
		if cnt[t] == 0 {
			return "not-evaluated"
		}
	}
	if strings.Join(g, ",") != strings.Join(want, ",") {
		return "out-of-order"
	}
	return "after-the-body"
}

// callFeatures is the coarse description of a valid call used in the
// signature of "valid call rejected".
func callFeatures(l *ref.LL, args []string) string {
	npos := len(l.Req) + len(l.Opt)
	f := "keys=" + map[bool]string{true: "y", false: "n"}[l.HasKey] + " rest=" + map[bool]string{true: "y", false: "n"}[l.Rest != ""]
	if l.HasKey && len(l.Keys) == 0 && !l.Allow {
		f += " key-without-names"
	}
	if npos < len(args) {
		declared := map[string]bool{}
		for _, k := range l.Keys {
			declared[":"+k.Name] = true
		}
		rem := args[npos:]
		for i := 1; i < len(rem); i += 2 {
			if declared[rem[i]] {
				f += " declared-keyword-as-value"
				break
			}
		}
	}
	return f
}
