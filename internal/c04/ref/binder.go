// Package ref is the reference binder of C04: what a lambda list prescribes
// for an argument vector, written from the language rules (CLHS 3.4.1) and
// the dialect notes in the documentation of defun/lambda. It does not
// import slip. Values are held in the harness's canonical rendering
// (sl.Show): integers as digits, keywords as ":name", lists as "(a b)",
// the empty list as "nil".
package ref

import (
	"strconv"
	"strings"
)

// Param is one parameter with an optional init form (text, "" = none).
//
// Init forms are restricted to a tiny language this file evaluates itself:
// an integer literal, a keyword, a variable name (its value), (+ i j) over
// integer literals, (list v1 v2 ...) over variable names or integers, and
// (c04-init N v1 v2 ...): a harness builtin with a side effect - it appends N
// to the trace of the call - that returns N, or (N v1 v2 ...) when given
// variables. A variable is an EARLIER parameter of the same lambda list, or
// else a variable of the lexically enclosing scope (Outer); a later
// parameter is not visible to an init form (CLHS 3.4.1: parameters are
// processed and bound left to right).
type Param struct {
	Name string `json:"n"`
	Init string `json:"d,omitempty"`
}

// LL is a parsed ordinary lambda list.
type LL struct {
	Req    []string `json:"req,omitempty"`
	Opt    []Param  `json:"opt,omitempty"`
	Rest   string   `json:"rest,omitempty"`
	HasKey bool     `json:"key,omitempty"`
	Keys   []Param  `json:"keys,omitempty"`
	Allow  bool     `json:"allow,omitempty"`
	Aux    []Param  `json:"aux,omitempty"`
}

// Text renders the lambda list in source syntax.
func (l *LL) Text() string {
	var p []string
	p = append(p, l.Req...)
	w := func(ps []Param) {
		for _, x := range ps {
			if x.Init == "" {
				p = append(p, x.Name)
			} else {
				p = append(p, "("+x.Name+" "+x.Init+")")
			}
		}
	}
	if 0 < len(l.Opt) {
		p = append(p, "&optional")
		w(l.Opt)
	}
	if l.Rest != "" {
		p = append(p, "&rest", l.Rest)
	}
	if l.HasKey {
		p = append(p, "&key")
		w(l.Keys)
		if l.Allow {
			p = append(p, "&allow-other-keys")
		}
	}
	if 0 < len(l.Aux) {
		p = append(p, "&aux")
		w(l.Aux)
	}
	return "(" + strings.Join(p, " ") + ")"
}

// Names lists every parameter in lambda-list order with its kind.
func (l *LL) Names() (names, kinds []string) {
	for _, n := range l.Req {
		names, kinds = append(names, n), append(kinds, "req")
	}
	for _, p := range l.Opt {
		names, kinds = append(names, p.Name), append(kinds, "opt")
	}
	if l.Rest != "" {
		names, kinds = append(names, l.Rest), append(kinds, "rest")
	}
	for _, p := range l.Keys {
		names, kinds = append(names, p.Name), append(kinds, "key")
	}
	for _, p := range l.Aux {
		names, kinds = append(names, p.Name), append(kinds, "aux")
	}
	return
}

// Verdict classes.
const (
	Bound    = "bound"    // the call is valid: every parameter value is prescribed
	TooFew   = "too-few"  // must be rejected, body must not run
	TooMany  = "too-many" // must be rejected, body must not run
	Unpinned = "unpinned" // the property leaves error-or-not open (see Why)
	// OddKeys: a lambda list with &key and without &rest got an odd number of
	// arguments in the keyword part: the last keyword has no value, an
	// argument is missing (CLHS 3.5.1.6; slip rejects it itself with "Missing
	// value for key"). Must be rejected, body must not run. With &rest slip
	// documents its own splitting of the tail, which stays Unpinned.
	OddKeys = "odd-keys"
)

// Result is what the lambda list prescribes.
type Result struct {
	Class string
	// Why names the reason of an Unpinned verdict: odd-key-tail,
	// non-keyword-key, unknown-key.
	Why string
	// Vals holds the prescribed value of each parameter (by name). For
	// Unpinned/odd-key-tail and non-keyword-key only the positional
	// parameters are prescribed (Partial is true).
	Vals    map[string]string
	Partial bool
	// Trace lists the ids of the c04-init forms that must have been
	// evaluated, in order (init forms of supplied parameters are not
	// evaluated).
	Trace []string
	// ForwardRef names the parameter whose init form names a LATER parameter
	// of the list: that name then means the outer variable, or is unbound
	// (UnboundRead is set: evaluating the form is an unbound-variable
	// error). Later holds what the init form would yield if it (wrongly) saw
	// the later parameters of the list.
	ForwardRef  string
	UnboundRead string
	Later       string
	// Notes describes, per parameter, the situation it was bound in (used
	// to name the failing construct): supplied | default | default-form |
	// dup | after-key ...
	Notes map[string]string
}

// IsKeyword tells whether an argument text is a keyword.
func IsKeyword(a string) bool { return strings.HasPrefix(a, ":") }

func list(vals []string) string {
	if len(vals) == 0 {
		return "nil"
	}
	return "(" + strings.Join(vals, " ") + ")"
}

type evaluator struct {
	env     map[string]string // parameters bound so far
	outer   map[string]string // variables of the enclosing scope
	params  map[string]bool   // every parameter name of the lambda list
	trace   []string
	unbound bool
	forward bool // an init form named a parameter that is not bound yet
}

func (e *evaluator) lookup(name string) string {
	if v, ok := e.env[name]; ok {
		return v
	}
	if e.params[name] {
		e.forward = true
	}
	if v, ok := e.outer[name]; ok {
		return v
	}
	e.unbound = true
	return "#<unbound " + name + ">"
}

// eval evaluates an init form in the environment of earlier parameters.
func (e *evaluator) eval(form string) (val string, isForm bool) {
	form = strings.TrimSpace(form)
	if form == "" || form == "nil" {
		return "nil", false
	}
	if form == "t" {
		return "t", false
	}
	if _, err := strconv.Atoi(form); err == nil {
		return form, false
	}
	if IsKeyword(form) {
		return form, false
	}
	if !strings.HasPrefix(form, "(") {
		return e.lookup(form), true
	}
	toks := strings.Fields(strings.Trim(form, "()"))
	atom := func(t string) string {
		if _, err := strconv.Atoi(t); err == nil {
			return t
		}
		return e.lookup(t)
	}
	switch toks[0] {
	case "+":
		s := 0
		for _, t := range toks[1:] {
			n, err := strconv.Atoi(t)
			if err != nil {
				panic("ref: + over non-literal " + t)
			}
			s += n
		}
		return strconv.Itoa(s), true
	case "list":
		var vs []string
		for _, t := range toks[1:] {
			vs = append(vs, atom(t))
		}
		return list(vs), true
	case "c04-init":
		// arguments are evaluated first, then the side effect happens
		var vs []string
		for _, t := range toks[1:] {
			vs = append(vs, atom(t))
		}
		e.trace = append(e.trace, toks[1])
		if len(vs) == 1 {
			return vs[0], true
		}
		return list(vs), true
	}
	panic("ref: unsupported init form " + form)
}

// Bind computes what the lambda list prescribes for args. outer holds the
// variables of the lexically enclosing scope (may be nil).
func Bind(l *LL, args []string, outer map[string]string) *Result {
	res := &Result{Vals: map[string]string{}, Notes: map[string]string{}}
	params := map[string]bool{}
	allNames, _ := l.Names()
	for _, n := range allNames {
		params[n] = true
	}
	ev := &evaluator{env: res.Vals, outer: outer, params: params}
	evalInit := func(name, form string) (string, bool) {
		wasU, wasF := ev.unbound, ev.forward
		v, isForm := ev.eval(form)
		if ev.unbound && !wasU {
			res.UnboundRead = name
		}
		if ev.forward && !wasF {
			res.ForwardRef = name
			// what the form yields when every parameter of the list is visible
			full := map[string]string{}
			for k, x := range res.Vals {
				full[k] = x
			}
			for _, kp := range l.Keys {
				if _, has := full[kp.Name]; !has {
					full[kp.Name] = supplied(l, args, kp.Name)
				}
			}
			later := &evaluator{env: full, outer: outer}
			res.Later, _ = later.eval(form)
		}
		res.Trace = ev.trace
		return v, isForm
	}
	n := len(args)
	if n < len(l.Req) {
		res.Class = TooFew
		return res
	}
	env := res.Vals
	i := 0
	for _, r := range l.Req {
		env[r] = args[i]
		res.Notes[r] = "supplied"
		i++
	}
	for _, o := range l.Opt {
		if i < n {
			env[o.Name] = args[i]
			res.Notes[o.Name] = "supplied"
			i++
			continue
		}
		v, isForm := evalInit(o.Name, o.Init)
		env[o.Name] = v
		res.Notes[o.Name] = "default"
		if isForm {
			res.Notes[o.Name] = "default-form"
		}
	}
	remaining := args[i:]
	if l.Rest == "" && !l.HasKey && 0 < len(remaining) {
		res.Class = TooMany
		return res
	}
	res.Class = Bound
	if l.Rest != "" {
		env[l.Rest] = list(remaining)
		res.Notes[l.Rest] = "plain"
		if l.HasKey {
			res.Notes[l.Rest] = "with-key-params"
			for _, a := range remaining {
				if IsKeyword(a) {
					res.Notes[l.Rest] = "with-keyword-args"
				}
			}
		}
	}
	if l.HasKey {
		// the remaining arguments must be a property list of keywords
		if len(remaining)%2 == 1 {
			res.Class, res.Why, res.Partial = Unpinned, "odd-key-tail", true
			if l.Rest == "" && IsKeyword(remaining[len(remaining)-1]) && allKeywordsAtEven(remaining) {
				res.Class = OddKeys
			}
		} else {
			for k := 0; k < len(remaining); k += 2 {
				if !IsKeyword(remaining[k]) {
					res.Class, res.Why, res.Partial = Unpinned, "non-keyword-key", true
				}
			}
		}
		if res.Partial {
			// only the positional parameters stay prescribed
			for _, k := range l.Keys {
				delete(env, k.Name)
			}
			if l.Rest != "" {
				delete(env, l.Rest)
			}
			return res
		}
		declared := map[string]bool{}
		for _, k := range l.Keys {
			declared[":"+k.Name] = true
		}
		for k := 0; k < len(remaining); k += 2 {
			if !declared[remaining[k]] {
				// CLHS 3.5.1.4 makes an undeclared key an error unless
				// &allow-other-keys is given; slip documents (defun, lambda-list
				// argument) that :allow-other-keys is always true: the call is
				// valid and the undeclared pair is ignored
				res.Why = "unknown-key"
			}
		}
		for _, kp := range l.Keys {
			cnt := 0
			val := ""
			for k := 0; k < len(remaining); k += 2 {
				if remaining[k] == ":"+kp.Name {
					if cnt == 0 {
						val = remaining[k+1] // the leftmost pair wins (CLHS 3.4.1.4)
					}
					cnt++
				}
			}
			switch {
			case cnt == 0:
				v, isForm := evalInit(kp.Name, kp.Init)
				env[kp.Name] = v
				res.Notes[kp.Name] = "default"
				if isForm {
					res.Notes[kp.Name] = "default-form"
				}
			case cnt == 1:
				env[kp.Name] = val
				res.Notes[kp.Name] = "supplied"
			default:
				env[kp.Name] = val
				res.Notes[kp.Name] = "dup"
			}
		}
	}
	for _, a := range l.Aux {
		v, _ := evalInit(a.Name, a.Init)
		env[a.Name] = v
		switch {
		case a.Init == "":
			res.Notes[a.Name] = "no-init"
		case strings.HasPrefix(a.Init, "("):
			res.Notes[a.Name] = "form-init"
		case IsKeyword(a.Init) || isInt(a.Init):
			res.Notes[a.Name] = "literal-init"
		default:
			res.Notes[a.Name] = "symbol-init"
		}
	}
	return res
}

func isInt(s string) bool {
	_, err := strconv.Atoi(s)
	return err == nil
}

// supplied returns the value the caller supplied for key name (leftmost), or
// "nil" when it is absent.
func supplied(l *LL, args []string, name string) string {
	i := len(l.Req) + len(l.Opt)
	if len(args) < i {
		return "nil"
	}
	rem := args[i:]
	for k := 0; k+1 < len(rem); k += 2 {
		if rem[k] == ":"+name {
			return rem[k+1]
		}
	}
	return "nil"
}

// allKeywordsAtEven: every even position of the keyword part holds a keyword,
// so the only thing wrong with it is the missing last value.
func allKeywordsAtEven(rem []string) bool {
	for k := 0; k < len(rem); k += 2 {
		if !IsKeyword(rem[k]) {
			return false
		}
	}
	return true
}
