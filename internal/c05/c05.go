// Package c05 monitors exact integer/rational arithmetic and comparisons
// against a math/big oracle.
package c05

import (
	"fmt"
	"math"
	"math/big"
	"math/rand/v2"
	"strconv"
	"strings"

	"github.com/ohler55/slip"

	"verif/internal/fw"
	"verif/internal/sl"
)

// Case is one operator application. Args are literal texts in slip syntax.
type Case struct {
	Op   string   `json:"op"`
	Args []string `json:"args"`
	// Use: operand i of the call is variable Use[i] (default: variable i); a
	// repeated index passes the same object twice.
	Use []int `json:"use,omitempty"`
	// Route: "" (direct call), funcall, apply, reduce.
	Route string `json:"route,omitempty"`
	// Place of incf/decf: "" (a variable), car, nth, aref, gethash.
	Place string `json:"place,omitempty"`
	// Steps of a multi-step history (Op == "prog"); Args are the initial
	// variables v0.., every step appends the variables it creates.
	Steps []Step `json:"steps,omitempty"`
}

// Step is one operator application of a history. Args are variable names
// (v0, v1, ...) or literals.
type Step struct {
	Op    string   `json:"op"`
	Args  []string `json:"args"`
	Route string   `json:"route,omitempty"`
}

var (
	binOps   = []string{"+", "-", "*", "/", "floor", "ceiling", "truncate", "round", "mod", "rem", "min", "max", "incf", "decf"}
	intBin   = []string{"gcd", "lcm", "logand", "logior", "logxor", "logeqv", "lognand", "lognor", "logandc1", "logandc2", "logorc1", "logorc2", "logtest"}
	unaryRat = []string{"abs", "1+", "1-", "-", "/", "floor", "ceiling", "truncate", "round", "zerop", "plusp", "minusp", "+", "*", "min", "max", "signum", "numerator", "denominator"}
	unaryInt = []string{"isqrt", "lognot", "gcd", "lcm", "logand", "logior", "logxor", "logeqv", "logcount", "integer-length", "evenp", "oddp", "signum", "numerator", "denominator"}
	cmpOps   = []string{"=", "/=", "<", "<=", ">", ">="}
)

// the boundary grid of the property's quantifier
var grid []*big.Int

func init() {
	add := func(x *big.Int) {
		grid = append(grid, new(big.Int).Set(x), new(big.Int).Neg(x))
	}
	p := func(k uint) *big.Int { return new(big.Int).Lsh(big.NewInt(1), k) }
	grid = append(grid, big.NewInt(0))
	add(big.NewInt(1))
	add(big.NewInt(2))
	add(p(31))
	add(p(32))
	add(p(62))
	grid = append(grid, new(big.Int).Sub(p(63), big.NewInt(1)), new(big.Int).Neg(p(63)))
	add(p(63))
	add(p(64))
	add(new(big.Int).Add(p(64), big.NewInt(1)))
	add(new(big.Int).Sub(p(64), big.NewInt(1)))
	// de-duplicate
	seen := map[string]bool{}
	var g []*big.Int
	for _, x := range grid {
		if !seen[x.String()] {
			seen[x.String()] = true
			g = append(g, x)
		}
	}
	grid = g
}

var gridPairs, cmpGrid, canonBlock int

// canonGrid: operands whose sums, differences, products and quotients land
// exactly on the canonical-form boundaries (ratio -> integer, bignum ->
// fixnum), so that every operator is probed there on every seed.
var canonGrid = []string{"0", "1", "-1", "2", "-2", "3", "1/2", "-1/2", "3/2", "-3/2", "2/3", "4/3", "-2/3", "5/2",
	"9223372036854775808", "9223372036854775809", "-9223372036854775809", "-9223372036854775810",
	"9223372036854775807", "-9223372036854775808", "18446744073709551616", "1/9223372036854775808", "9223372036854775808/3"}

var canonBin = []string{"+", "-", "*", "/", "floor", "ceiling", "truncate", "round", "mod", "rem", "min", "max", "incf", "decf",
	"=", "/=", "<", "<=", ">", ">="}
var canonUn = []string{"abs", "1+", "1-", "-", "/", "floor", "ceiling", "truncate", "round", "zerop", "plusp", "minusp", "+", "*", "min", "max"}

var cmpGridOps = []string{"=", "/=", "<", "<=", ">", ">=", "min", "max"}

// floatVariant renders the float that is variant v (0..8) of integer x:
// format single/double/long x {exact conversion, next up, next down}.
func floatVariant(x *big.Int, v int) string {
	f, _ := new(big.Float).SetInt(x).Float64()
	switch v / 3 {
	case 0:
		f32 := float32(f)
		switch v % 3 {
		case 1:
			f32 = math.Nextafter32(f32, float32(math.Inf(1)))
		case 2:
			f32 = math.Nextafter32(f32, float32(math.Inf(-1)))
		}
		if math.IsInf(float64(f32), 0) {
			f32 = 1.5
		}
		return strings.Replace(strconv.FormatFloat(float64(f32), 'e', -1, 32), "e", "f", 1)
	case 1:
		switch v % 3 {
		case 1:
			f = math.Nextafter(f, math.Inf(1))
		case 2:
			f = math.Nextafter(f, math.Inf(-1))
		}
		return strings.Replace(strconv.FormatFloat(f, 'e', -1, 64), "e", "d", 1)
	}
	switch v % 3 {
	case 1:
		return x.String() + ".5L0"
	case 2:
		return new(big.Int).Sub(x, big.NewInt(1)).String() + ".5L0"
	}
	return x.String() + ".0L0"
}

func gridOps() []string {
	ops := append([]string{}, binOps...)
	ops = append(ops, intBin...)
	ops = append(ops, cmpOps...)
	ops = append(ops, "ash", "expt", "logbitp")
	return ops
}

func nCases(tier string) int {
	gridPairs = len(grid) * len(grid) * len(gridOps())
	cmpGrid = len(grid) * len(grid) * 9 * len(cmpGridOps)
	canonBlock = len(canonGrid)*len(canonGrid)*len(canonBin) + len(canonGrid)*len(canonUn) + len(canonGrid)*len(canonGrid)*len(canonGrid)*4
	fixed := gridPairs + cmpGrid + canonBlock + len(structBlock()) + len(extraBlock())
	if tier == "thorough" {
		return fixed + 600000
	}
	return fixed + 60000
}

var structCases []Case

// structBlock: operands placed on algebraic neighbourhoods that neither the
// boundary grid nor uniformly random bits reach: perfect squares +-1 for every
// root size (isqrt), dividends q*d+r with r around 0, d/2 and d for quotient
// and divisor sizes around 2^24, 2^31, 2^53 and 2^63 (the division family),
// factors whose product lands on 2^52..2^65 +- small (*), integers around the
// float precision limits 2^24 and 2^53 against their float neighbours
// (comparisons), and arguments with a large common factor (gcd/lcm). A result
// computed through float64 or int64 shortcuts is wrong exactly there.
func structBlock() []Case {
	if structCases != nil {
		return structCases
	}
	one := big.NewInt(1)
	p := func(k uint) *big.Int { return new(big.Int).Lsh(one, k) }
	mix := func(a, b int) uint64 { return rand.New(rand.NewPCG(uint64(a)*1000003+17, uint64(b)*7919+5)).Uint64() }
	var out []Case
	// isqrt
	for b := 1; b <= 100; b++ {
		ks := []*big.Int{new(big.Int).Sub(p(uint(b)), one), p(uint(b - 1)), new(big.Int).Add(p(uint(b-1)), one)}
		nk := 3
		if 20 <= b && b <= 40 { // roots whose squares straddle 2^53 and 2^63
			nk = 24
		}
		for j := 0; j < nk; j++ {
			k := new(big.Int).SetUint64(mix(b, j))
			k.Lsh(k, 64).Or(k, new(big.Int).SetUint64(mix(b, j+100)))
			k.Rsh(k, uint(k.BitLen()-b))
			k.SetBit(k, b-1, 1)
			ks = append(ks, k)
		}
		for _, k := range ks {
			sq := new(big.Int).Mul(k, k)
			for _, d := range []*big.Int{big.NewInt(-1), big.NewInt(0), one, k, new(big.Int).Lsh(k, 1)} {
				n := new(big.Int).Add(sq, d)
				if n.Sign() < 0 {
					continue
				}
				out = append(out, Case{Op: "isqrt", Args: []string{n.String()}})
			}
		}
	}
	// division family
	odd := func(x *big.Int, k int64) *big.Int { return new(big.Int).Add(x, big.NewInt(k)) }
	qs := []*big.Int{one, big.NewInt(2), big.NewInt(5), odd(p(24), 1), odd(p(31), -1), p(32), odd(p(52), 1), odd(p(53), -1), odd(p(53), 1), odd(p(62), 1), odd(p(63), -1), p(63), odd(p(70), 3)}
	ds := []*big.Int{one, big.NewInt(2), big.NewInt(3), big.NewInt(7), big.NewInt(10), odd(p(26), 1), p(31), odd(p(32), 1), odd(p(53), 1), p(63), odd(p(64), 3)}
	for oi, op := range []string{"floor", "ceiling", "truncate", "round", "mod", "rem", "/"} {
		for qi, q := range qs {
			for di, d := range ds {
				half := new(big.Int).Rsh(d, 1)
				rs := []*big.Int{big.NewInt(0), one, big.NewInt(-1), half, odd(half, 1), odd(d, -1)}
				for ri, rr := range rs {
					a := new(big.Int).Mul(q, d)
					a.Add(a, rr)
					dd := new(big.Int).Set(d)
					switch (oi + qi + di + ri) % 4 {
					case 1:
						a.Neg(a)
					case 2:
						dd.Neg(dd)
					case 3:
						a.Neg(a)
						dd.Neg(dd)
					}
					out = append(out, Case{Op: op, Args: []string{a.String(), dd.String()}})
				}
			}
		}
	}
	// products landing on the representation boundaries
	for _, t := range []int{24, 52, 53, 54, 62, 63, 64, 65} {
		for i := 1; i < t; i++ {
			for e := 0; e < 9; e++ {
				a, b := odd(p(uint(i)), int64(e/3-1)), odd(p(uint(t-i)), int64(e%3-1))
				if (i+e)%2 == 0 {
					a.Neg(a)
				}
				out = append(out, Case{Op: "*", Args: []string{a.String(), b.String()}})
			}
		}
	}
	// integers around the float precision limits against float neighbours
	ten := func(k int64) *big.Int { return new(big.Int).Exp(big.NewInt(10), big.NewInt(k), nil) }
	lim := []*big.Int{p(24), odd(p(24), 1), odd(p(24), -1), p(53), odd(p(53), 1), odd(p(53), -1), odd(p(53), 2), ten(15), odd(ten(16), 1), odd(ten(17), -1), odd(ten(22), 1)}
	for _, x := range lim {
		for _, y := range lim {
			for v := 0; v < 9; v++ {
				for oi, op := range cmpGridOps {
					if (v+oi)%2 == 0 {
						out = append(out, Case{Op: op, Args: []string{x.String(), floatVariant(y, v)}})
					} else {
						out = append(out, Case{Op: op, Args: []string{floatVariant(y, v), x.String()}})
					}
				}
			}
		}
	}
	// gcd / lcm with a common factor
	for gi, g := range []*big.Int{big.NewInt(6), odd(p(31), -1), odd(p(32), 1), odd(p(53), 1), p(63), odd(p(64), 13), odd(p(90), 7)} {
		for ai, a := range []*big.Int{big.NewInt(0), one, big.NewInt(4), big.NewInt(9), odd(p(31), 11), odd(p(62), 1), odd(p(64), 1)} {
			for bi, b := range []*big.Int{one, big.NewInt(6), big.NewInt(35), odd(p(32), 15), odd(p(63), -1), odd(p(65), 1)} {
				x, y := new(big.Int).Mul(a, g), new(big.Int).Mul(b, g)
				if (gi+ai+bi)%3 == 1 {
					x.Neg(x)
				}
				if (gi+ai+bi)%3 == 2 {
					y.Neg(y)
				}
				out = append(out, Case{Op: "gcd", Args: []string{x.String(), y.String()}}, Case{Op: "lcm", Args: []string{x.String(), y.String()}})
			}
		}
	}
	structCases = out
	return out
}

func randInt(r *rand.Rand) *big.Int {
	switch r.IntN(6) {
	case 0:
		return new(big.Int).Set(fw.Pick(r, grid))
	case 1:
		return big.NewInt(int64(r.IntN(41) - 20))
	case 2:
		x := new(big.Int).Set(fw.Pick(r, grid))
		return x.Add(x, big.NewInt(int64(r.IntN(7)-3)))
	}
	bits := 1 + r.IntN(200)
	x := new(big.Int)
	for i := 0; i < bits; i += 32 {
		x.Lsh(x, 32)
		x.Or(x, big.NewInt(int64(r.Uint32())))
	}
	x.Rsh(x, uint(x.BitLen()-bits)&0xff)
	if x.BitLen() > bits {
		x.Rsh(x, uint(x.BitLen()-bits))
	}
	if r.IntN(2) == 0 {
		x.Neg(x)
	}
	return x
}

func randRat(r *rand.Rand) string {
	n := randInt(r)
	if r.IntN(3) != 0 {
		return n.String()
	}
	d := randInt(r)
	d.Abs(d)
	if d.Sign() == 0 {
		d.SetInt64(3)
	}
	q := new(big.Rat).SetFrac(n, d)
	return q.RatString()
}

// floatNear renders a float adjacent to an integer as a slip literal.
func floatNear(r *rand.Rand, x *big.Int) string {
	f, _ := new(big.Float).SetInt(x).Float64()
	switch r.IntN(3) {
	case 0:
		f = math.Nextafter(f, math.Inf(1))
	case 1:
		f = math.Nextafter(f, math.Inf(-1))
	}
	switch r.IntN(3) {
	case 0:
		f32 := float32(f)
		switch r.IntN(3) {
		case 0:
			f32 = math.Nextafter32(f32, float32(math.Inf(1)))
		case 1:
			f32 = math.Nextafter32(f32, float32(math.Inf(-1)))
		}
		if math.IsInf(float64(f32), 0) {
			f32 = 1.5
		}
		return strings.Replace(strconv.FormatFloat(float64(f32), 'e', -1, 32), "e", "f", 1)
	case 1:
		return strings.Replace(strconv.FormatFloat(f, 'e', -1, 64), "e", "d", 1)
	}
	// long float: integer plus a half, exactly representable
	return x.String() + ".5L0"
}

func gen(r *rand.Rand, i int, tier string) Case {
	nCases(tier)
	if i < gridPairs {
		ops := gridOps()
		op := ops[i/(len(grid)*len(grid))]
		k := i % (len(grid) * len(grid))
		a, b := grid[k/len(grid)], grid[k%len(grid)]
		if op == "ash" {
			// second operand is a shift count drawn from the small grid values
			sh := []int64{0, 1, -1, 2, -2, 31, -31, 32, -32, 62, -62, 63, -63, 64, -64, 65, -65, 100, -100, 130, -130, 5, -5, 61, -61}
			return Case{Op: op, Args: []string{a.String(), fmt.Sprint(sh[(k%len(grid))%len(sh)])}}
		}
		if op == "logbitp" {
			ix := []int64{0, 1, 2, 30, 31, 32, 33, 61, 62, 63, 64, 65, 66, 100, 3, 5, 7, 15, 16, 47, 48, 127, 128, 200, 1000}
			return Case{Op: op, Args: []string{fmt.Sprint(ix[(k/len(grid))%len(ix)]), b.String()}}
		}
		if op == "expt" {
			ex := []int64{0, 1, 2, 3, 4, 5, 7, 8, 10, 16, 31, 32, 33, 62, 63, 64, 65, 70, -1, -2, -3, 6, 9, 20, 40}
			e := ex[(k%len(grid))%len(ex)]
			if a.BitLen() > 33 && (e > 8 || e < -3) {
				e = e % 5
			}
			return Case{Op: op, Args: []string{a.String(), fmt.Sprint(e)}}
		}
		return Case{Op: op, Args: []string{a.String(), b.String()}}
	}
	if i < gridPairs+cmpGrid {
		k := i - gridPairs
		op := cmpGridOps[k%len(cmpGridOps)]
		k /= len(cmpGridOps)
		v := k % 9
		k /= 9
		a, b := grid[k/len(grid)], grid[k%len(grid)]
		if (k+v)%2 == 0 {
			return Case{Op: op, Args: []string{a.String(), floatVariant(b, v)}}
		}
		return Case{Op: op, Args: []string{floatVariant(b, v), a.String()}}
	}
	if i < gridPairs+cmpGrid+canonBlock {
		k := i - gridPairs - cmpGrid
		n := len(canonGrid)
		if k < n*n*len(canonBin) {
			return Case{Op: canonBin[k/(n*n)], Args: []string{canonGrid[(k/n)%n], canonGrid[k%n]}}
		}
		k -= n * n * len(canonBin)
		if k < n*len(canonUn) {
			return Case{Op: canonUn[k/n], Args: []string{canonGrid[k%n]}}
		}
		k -= n * len(canonUn)
		op := []string{"+", "-", "*", "<"}[k/(n*n*n)]
		return Case{Op: op, Args: []string{canonGrid[(k/(n*n))%n], canonGrid[(k/n)%n], canonGrid[k%n]}}
	}
	sb := structBlock()
	if i < gridPairs+cmpGrid+canonBlock+len(sb) {
		return sb[i-gridPairs-cmpGrid-canonBlock]
	}
	if eb := extraBlock(); i < gridPairs+cmpGrid+canonBlock+len(sb)+len(eb) {
		return eb[i-gridPairs-cmpGrid-canonBlock-len(sb)]
	}
	if k := r.IntN(18); 10 <= k {
		return genExtra(r, k-10)
	}
	switch r.IntN(10) {
	case 0: // unary rational
		return Case{Op: fw.Pick(r, unaryRat), Args: []string{randRat(r)}}
	case 1: // unary integer
		x := randInt(r)
		op := fw.Pick(r, unaryInt)
		if op == "isqrt" {
			x.Abs(x)
			if r.IntN(2) == 0 { // next to a perfect square
				x.Mul(x, x)
				x.Add(x, big.NewInt(int64(r.IntN(3)-1)))
				x.Abs(x)
			}
		}
		return Case{Op: op, Args: []string{x.String()}}
	case 2: // integer binary / n-ary
		op := fw.Pick(r, intBin)
		n := 2 + r.IntN(2)
		switch op {
		case "lognand", "lognor", "logandc1", "logandc2", "logorc1", "logorc2", "logtest":
			n = 2
		}
		var args []string
		var g *big.Int
		if (op == "gcd" || op == "lcm") && r.IntN(2) == 0 {
			g = randInt(r)
		}
		for k := 0; k < n; k++ {
			x := randInt(r)
			if g != nil {
				x.Mul(x, g)
			}
			args = append(args, x.String())
		}
		return Case{Op: op, Args: args}
	case 3: // ash / expt
		if r.IntN(2) == 0 {
			return Case{Op: "ash", Args: []string{randInt(r).String(), fmt.Sprint(r.IntN(261) - 130)}}
		}
		base := randRat(r)
		e := r.IntN(24) - 4
		if 40 < len(base) {
			e = r.IntN(7) - 2
		}
		return Case{Op: "expt", Args: []string{base, fmt.Sprint(e)}}
	case 4, 5: // comparisons incl. floats
		op := fw.Pick(r, append(append([]string{}, cmpOps...), "min", "max"))
		n := 2 + r.IntN(2)
		var args []string
		for k := 0; k < n; k++ {
			if r.IntN(2) == 0 {
				args = append(args, floatNear(r, fw.Pick(r, grid)))
			} else if r.IntN(2) == 0 {
				args = append(args, fw.Pick(r, grid).String())
			} else {
				args = append(args, randRat(r))
			}
		}
		return Case{Op: op, Args: args}
	case 6: // n-ary + * - min max
		op := fw.Pick(r, []string{"+", "*", "-", "min", "max", "="})
		n := 3 + r.IntN(2)
		var args []string
		for k := 0; k < n; k++ {
			args = append(args, randRat(r))
		}
		return Case{Op: op, Args: args}
	case 7: // zero-argument and predicates
		if r.IntN(4) == 0 {
			return Case{Op: fw.Pick(r, []string{"+", "*", "gcd", "lcm", "logand", "logior", "logxor"}), Args: []string{}}
		}
		return Case{Op: fw.Pick(r, []string{"zerop", "plusp", "minusp"}), Args: []string{floatOrRat(r)}}
	}
	return Case{Op: fw.Pick(r, binOps), Args: []string{randRat(r), randRat(r)}}
}

func floatOrRat(r *rand.Rand) string {
	if r.IntN(3) == 0 {
		return floatNear(r, fw.Pick(r, grid))
	}
	return randRat(r)
}

// parseLit gives the exact rational value of a literal and its class.
func parseLit(s string) (*big.Rat, string) {
	if strings.HasPrefix(s, ":") { // a keyword: not a number
		return nil, "other"
	}
	ls := strings.ToLower(s)
	if i := strings.IndexAny(ls, "fdl"); 0 <= i && strings.ContainsAny(ls, ".") || strings.ContainsAny(ls, "fdl") {
		i := strings.IndexAny(ls, "fdl")
		mant, exp := ls[:i], ls[i+1:]
		cls := map[byte]string{'f': "single", 'd': "double", 'l': "long"}[ls[i]]
		q, ok := new(big.Rat).SetString(mant + "e" + exp)
		if !ok {
			panic("bad float literal " + s)
		}
		switch cls {
		case "single":
			f, _ := strconv.ParseFloat(mant+"e"+exp, 32)
			q = new(big.Rat).SetFloat64(float64(float32(f)))
		case "double":
			f, _ := strconv.ParseFloat(mant+"e"+exp, 64)
			q = new(big.Rat).SetFloat64(f)
		}
		return q, cls
	}
	q, ok := new(big.Rat).SetString(s)
	if !ok {
		panic("bad literal " + s)
	}
	if !q.IsInt() {
		return q, "ratio"
	}
	if q.Num().IsInt64() {
		return q, "fix"
	}
	return q, "big"
}

func classOfExact(q *big.Rat) string {
	if !q.IsInt() {
		return "ratio"
	}
	if q.Num().IsInt64() {
		return "fix"
	}
	return "big"
}

// showRat is the canonical harness rendering of an exact rational.
func showRat(q *big.Rat) string {
	if q.IsInt() {
		return q.Num().String()
	}
	return q.Num().String() + "/" + q.Denom().String()
}

type expect struct {
	vals  []*big.Rat      // exact values (for numeric results)
	bool_ *bool           // for predicates
	err   bool            // an error condition is required (division by zero)
	any   bool            // no requirement (outside the property)
	loose bool            // value must be numerically equal; representation free (float operands)
	kinds map[string]bool // loose only: the representations the result may have
}

func ratInt(x *big.Int) *big.Rat { return new(big.Rat).SetInt(x) }

func divide(mode string, a, b *big.Rat) (q, r *big.Rat) {
	// q = mode(a/b), r = a - q*b
	quo := new(big.Rat).Quo(a, b)
	n, d := quo.Num(), quo.Denom()
	fl := new(big.Int).Div(n, d) // Euclidean; d>0 so this is floor
	m := new(big.Int).Mod(n, d)
	qi := new(big.Int).Set(fl)
	if m.Sign() != 0 {
		switch mode {
		case "floor":
		case "ceiling":
			qi.Add(qi, big.NewInt(1))
		case "truncate":
			if quo.Sign() < 0 {
				qi.Add(qi, big.NewInt(1))
			}
		case "round":
			// compare fractional part m/d with 1/2
			twice := new(big.Int).Lsh(m, 1)
			c := twice.Cmp(d)
			if 0 < c || (c == 0 && fl.Bit(0) == 1) {
				qi.Add(qi, big.NewInt(1))
			}
		}
	}
	q = ratInt(qi)
	r = new(big.Rat).Sub(a, new(big.Rat).Mul(q, b))
	return
}

func oracle(c Case, vals []*big.Rat, classes []string) expect {
	allRat := true
	allInt := true
	for _, cl := range classes {
		if cl == "other" {
			// a non-number operand: every operator must signal an error; a
			// comparison may answer before it reaches the operand
			switch c.Op {
			case "=", "/=", "<", "<=", ">", ">=":
				if 1 < len(vals) {
					return expect{any: true}
				}
			}
			return expect{err: true}
		}
	}
	for i, cl := range classes {
		if cl == "single" || cl == "double" || cl == "long" {
			allRat = false
		}
		if !vals[i].IsInt() {
			allInt = false
		}
	}
	tr, fa := true, false
	b := func(v bool) expect {
		if v {
			return expect{bool_: &tr}
		}
		return expect{bool_: &fa}
	}
	one := func(q *big.Rat) expect { return expect{vals: []*big.Rat{q}, loose: !allRat} }
	n := len(vals)
	switch c.Op {
	case "=", "/=", "<", "<=", ">", ">=":
		if n == 0 {
			return expect{err: true}
		}
		res := true
		if c.Op == "/=" {
			for i := 0; i < n; i++ {
				for j := i + 1; j < n; j++ {
					if vals[i].Cmp(vals[j]) == 0 {
						res = false
					}
				}
			}
			return b(res)
		}
		for i := 0; i+1 < n; i++ {
			k := vals[i].Cmp(vals[i+1])
			ok := map[string]bool{"=": k == 0, "<": k < 0, "<=": k <= 0, ">": 0 < k, ">=": 0 <= k}[c.Op]
			if !ok {
				res = false
			}
		}
		return b(res)
	case "zerop":
		return b(vals[0].Sign() == 0)
	case "plusp":
		return b(0 < vals[0].Sign())
	case "minusp":
		return b(vals[0].Sign() < 0)
	case "min", "max":
		if n == 0 {
			return expect{err: true}
		}
		m := vals[0]
		for _, v := range vals[1:] {
			if (c.Op == "min" && v.Cmp(m) < 0) || (c.Op == "max" && 0 < v.Cmp(m)) {
				m = v
			}
		}
		e := one(m)
		if e.loose {
			// the result is one of the arguments that attain the extreme, or
			// (float contagion) a float of a format present among the arguments
			e.kinds = map[string]bool{}
			for i, v := range vals {
				switch classes[i] {
				case "single", "double", "long":
					e.kinds[classes[i]] = true
				default:
					if v.Cmp(m) == 0 {
						e.kinds[classes[i]] = true
					}
				}
			}
		}
		return e
	}
	if !allRat {
		return expect{any: true}
	}
	switch c.Op {
	case "+":
		s := new(big.Rat)
		for _, v := range vals {
			s.Add(s, v)
		}
		return one(s)
	case "*":
		s := big.NewRat(1, 1)
		for _, v := range vals {
			s.Mul(s, v)
		}
		return one(s)
	case "-":
		if n == 1 {
			return one(new(big.Rat).Neg(vals[0]))
		}
		s := new(big.Rat).Set(vals[0])
		for _, v := range vals[1:] {
			s.Sub(s, v)
		}
		return one(s)
	case "/":
		if n == 1 {
			if vals[0].Sign() == 0 {
				return expect{err: true}
			}
			return one(new(big.Rat).Inv(vals[0]))
		}
		s := new(big.Rat).Set(vals[0])
		for _, v := range vals[1:] {
			if v.Sign() == 0 {
				return expect{err: true}
			}
			s.Quo(s, v)
		}
		return one(s)
	case "floor", "ceiling", "truncate", "round":
		d := big.NewRat(1, 1)
		if n == 2 {
			d = vals[1]
		}
		if d.Sign() == 0 {
			return expect{err: true}
		}
		q, r := divide(c.Op, vals[0], d)
		return expect{vals: []*big.Rat{q, r}}
	case "mod":
		if vals[1].Sign() == 0 {
			return expect{err: true}
		}
		_, r := divide("floor", vals[0], vals[1])
		return one(r)
	case "rem":
		if vals[1].Sign() == 0 {
			return expect{err: true}
		}
		_, r := divide("truncate", vals[0], vals[1])
		return one(r)
	case "abs":
		return one(new(big.Rat).Abs(vals[0]))
	case "1+":
		return one(new(big.Rat).Add(vals[0], big.NewRat(1, 1)))
	case "1-":
		return one(new(big.Rat).Sub(vals[0], big.NewRat(1, 1)))
	case "signum":
		return one(big.NewRat(int64(vals[0].Sign()), 1))
	case "numerator":
		return one(ratInt(vals[0].Num()))
	case "denominator":
		return one(ratInt(vals[0].Denom()))
	case "incf", "decf":
		d := big.NewRat(1, 1) // default delta
		if 1 < n {
			d = vals[1]
		}
		if c.Op == "decf" {
			return one(new(big.Rat).Sub(vals[0], d))
		}
		return one(new(big.Rat).Add(vals[0], d))
	}
	if !allInt {
		if c.Op == "expt" && vals[1].IsInt() {
			// rational base
		} else {
			return expect{any: true}
		}
	}
	switch c.Op {
	case "gcd":
		g := new(big.Int)
		for _, v := range vals {
			g.GCD(nil, nil, new(big.Int).Abs(g), new(big.Int).Abs(v.Num()))
		}
		return one(ratInt(g))
	case "lcm":
		l := big.NewInt(1)
		for _, v := range vals {
			x := new(big.Int).Abs(v.Num())
			if x.Sign() == 0 {
				return one(new(big.Rat))
			}
			g := new(big.Int).GCD(nil, nil, l, x)
			l.Mul(l, x)
			l.Div(l, g)
		}
		return one(ratInt(l))
	case "logand", "logior", "logxor":
		acc := big.NewInt(0)
		if c.Op == "logand" {
			acc = big.NewInt(-1)
		}
		for _, v := range vals {
			switch c.Op {
			case "logand":
				acc.And(acc, v.Num())
			case "logior":
				acc.Or(acc, v.Num())
			case "logxor":
				acc.Xor(acc, v.Num())
			}
		}
		return one(ratInt(acc))
	case "logeqv":
		acc := big.NewInt(-1)
		for _, v := range vals {
			acc.Not(acc.Xor(acc, v.Num()))
		}
		return one(ratInt(acc))
	case "lognand", "lognor", "logandc1", "logandc2", "logorc1", "logorc2", "logtest":
		if n != 2 {
			return expect{any: true}
		}
		a, bb := vals[0].Num(), vals[1].Num()
		na, nb := new(big.Int).Not(a), new(big.Int).Not(bb)
		z := new(big.Int)
		switch c.Op {
		case "lognand":
			z.Not(z.And(a, bb))
		case "lognor":
			z.Not(z.Or(a, bb))
		case "logandc1":
			z.And(na, bb)
		case "logandc2":
			z.And(a, nb)
		case "logorc1":
			z.Or(na, bb)
		case "logorc2":
			z.Or(a, nb)
		case "logtest":
			return b(z.And(a, bb).Sign() != 0)
		}
		return one(ratInt(z))
	case "logbitp":
		if vals[0].Sign() < 0 || !vals[0].Num().IsInt64() || 100000 < vals[0].Num().Int64() {
			return expect{any: true}
		}
		return b(vals[1].Num().Bit(int(vals[0].Num().Int64())) == 1)
	case "logcount":
		x := vals[0].Num()
		if x.Sign() < 0 {
			x = new(big.Int).Not(x)
		}
		cnt := 0
		for _, w := range x.Bits() {
			for ; w != 0; w &= w - 1 {
				cnt++
			}
		}
		return one(big.NewRat(int64(cnt), 1))
	case "integer-length":
		x := vals[0].Num()
		if x.Sign() < 0 {
			x = new(big.Int).Not(x)
		}
		return one(big.NewRat(int64(x.BitLen()), 1))
	case "evenp":
		return b(vals[0].Num().Bit(0) == 0)
	case "oddp":
		return b(vals[0].Num().Bit(0) == 1)
	case "lognot":
		return one(ratInt(new(big.Int).Not(vals[0].Num())))
	case "isqrt":
		if vals[0].Sign() < 0 {
			return expect{err: true}
		}
		return one(ratInt(new(big.Int).Sqrt(vals[0].Num())))
	case "ash":
		sh := vals[1].Num().Int64()
		x := vals[0].Num()
		if 0 <= sh {
			return one(ratInt(new(big.Int).Lsh(x, uint(sh))))
		}
		return one(ratInt(new(big.Int).Rsh(x, uint(-sh)))) // big.Int.Rsh is arithmetic (floor)
	case "expt":
		base := vals[0]
		if !vals[1].Num().IsInt64() {
			// an exponent beyond a machine word: the exact result exists as an
			// object only for the bases 0, 1 and -1
			neg := vals[1].Sign() < 0
			switch {
			case base.Sign() == 0 && neg:
				return expect{err: true}
			case base.Sign() == 0:
				return one(new(big.Rat))
			case base.Cmp(big.NewRat(1, 1)) == 0:
				return one(big.NewRat(1, 1))
			case base.Cmp(big.NewRat(-1, 1)) == 0:
				if vals[1].Num().Bit(0) == 1 {
					return one(big.NewRat(-1, 1))
				}
				return one(big.NewRat(1, 1))
			}
			return expect{any: true}
		}
		e := vals[1].Num().Int64()
		if base.Sign() == 0 && e < 0 {
			return expect{err: true}
		}
		ae := e
		if ae < 0 {
			ae = -ae
		}
		p := big.NewRat(1, 1)
		pn := new(big.Int).Exp(base.Num(), big.NewInt(ae), nil)
		pd := new(big.Int).Exp(base.Denom(), big.NewInt(ae), nil)
		p.SetFrac(pn, pd)
		if e < 0 {
			p.Inv(p)
		}
		return one(p)
	}
	return expect{any: true}
}

// exactOf converts a result object to an exact rational; kind names the
// representation; canon tells whether the representation is canonical.
func exactOf(obj slip.Object) (q *big.Rat, kind string, canon bool, ok bool) {
	switch to := obj.(type) {
	case slip.Fixnum:
		return new(big.Rat).SetInt64(int64(to)), "fix", true, true
	case *slip.Bignum:
		bi := (*big.Int)(to)
		return ratInt(bi), "big", !bi.IsInt64(), true
	case *slip.Ratio:
		br := (*big.Rat)(to)
		return new(big.Rat).Set(br), "ratio", !br.IsInt(), true
	case slip.SingleFloat:
		f := float64(to)
		if math.IsInf(f, 0) || math.IsNaN(f) {
			return nil, "single", true, false
		}
		return new(big.Rat).SetFloat64(f), "single", true, true
	case slip.DoubleFloat:
		f := float64(to)
		if math.IsInf(f, 0) || math.IsNaN(f) {
			return nil, "double", true, false
		}
		return new(big.Rat).SetFloat64(f), "double", true, true
	case *slip.LongFloat:
		bf := (*big.Float)(to)
		if bf.IsInf() {
			return nil, "long", true, false
		}
		r, _ := bf.Rat(nil)
		return r, "long", true, true
	}
	return nil, sl.Kind(obj), true, false
}

// sigClasses summarises the operands for a violation signature: the set of
// operand kinds (int, ratio, float) and a magnitude class - small: every
// operand and the exact result is below 2^31 in numerator and denominator;
// big otherwise. kinds is int (all integers), rat (some ratio) or float.
func sigClasses(vals []*big.Rat, classes []string, exp expect) string {
	kinds := map[string]bool{}
	mag := 0
	lim31 := new(big.Int).Lsh(big.NewInt(1), 31)
	lim63 := new(big.Int).Lsh(big.NewInt(1), 63)
	size := func(q *big.Rat) int {
		n := new(big.Int).Abs(q.Num())
		d := q.Denom()
		switch {
		case n.Cmp(lim31) < 0 && d.Cmp(lim31) < 0:
			return 0
		case n.Cmp(lim63) < 0 && d.Cmp(lim63) < 0:
			return 1
		}
		return 2
	}
	for i, cl := range classes {
		switch cl {
		case "fix", "big":
			kinds["int"] = true
		case "ratio":
			kinds["ratio"] = true
		case "other":
			kinds["other"] = true
			continue
		default:
			kinds["float"] = true
		}
		if m := size(vals[i]); mag < m {
			mag = m
		}
	}
	if mag == 0 {
		for _, v := range exp.vals {
			if 0 < size(v) {
				mag = 1
			}
		}
	}
	k := "int"
	if kinds["ratio"] {
		k = "rat"
	}
	if kinds["float"] {
		k = "float"
	}
	if kinds["other"] {
		k = "nonnum"
	}
	return "mag=" + []string{"small", "big", "big"}[mag] + " kinds=" + k
}

var varNames = []string{"a", "b", "c", "d", "e", "f"}

// sigOp names the construct in a signature: the operator, the place kind of
// incf/decf when it is not a variable, the route when the call is not direct,
// and for expt whether the exponent is beyond a machine word.
func sigOp(op, place, route string, vals []*big.Rat) string {
	if op == "expt" && len(vals) == 2 && vals[1] != nil && vals[1].IsInt() && !vals[1].Num().IsInt64() {
		op = "expt^big"
	}
	if place != "" {
		op += "@" + place
	}
	if route != "" {
		op += "/" + route
	}
	return op
}

// placeForm is the incf/decf application on a place holding the value of
// variable v, with the optional delta variable d; it returns two values: what
// the macro returned and what the place holds afterwards.
func placeForm(op, place, v, d string) string {
	if d != "" {
		d = " " + d
	}
	switch place {
	case "car":
		return fmt.Sprintf("(let ((z (list %s :x))) (values (%s (car z)%s) (car z)))", v, op, d)
	case "nth":
		return fmt.Sprintf("(let ((z (list :x %s))) (values (%s (nth 1 z)%s) (nth 1 z)))", v, op, d)
	case "aref":
		return fmt.Sprintf("(let ((z (vector :x %s))) (values (%s (aref z 1)%s) (aref z 1)))", v, op, d)
	case "gethash":
		return fmt.Sprintf("(let ((z (make-hash-table))) (setf (gethash :k z) %s) (values (%s (gethash :k z)%s) (nth-value 0 (gethash :k z))))", v, op, d)
	}
	return fmt.Sprintf("(let ((z %s)) (values (%s z%s) z))", v, op, d)
}

// callForm is the application of op to the named operands through a route.
// The routes apply and reduce take their operands from the list variable l.
func callForm(op, route string, names []string) string {
	switch route {
	case "funcall":
		return "(funcall #'" + op + " " + strings.Join(names, " ") + ")"
	case "apply":
		return "(apply #'" + op + " l)"
	case "reduce":
		return "(reduce #'" + op + " l)"
	}
	if len(names) == 0 {
		return "(" + op + ")"
	}
	return "(" + op + " " + strings.Join(names, " ") + ")"
}

// sameOperand tells whether obj still is the operand the literal denoted.
func sameOperand(obj slip.Object, q *big.Rat, class, lit string) bool {
	if class == "other" {
		return sl.Show(obj) == strings.ToLower(lit)
	}
	got, kind, _, ok := exactOf(obj)
	return ok && got.Cmp(q) == 0 && kind == class
}

// judge compares what an application returned (the list of its values, or an
// error) with the expectation. It reports every disagreement and tells
// whether the application agreed completely; got are the returned values.
func judge(x *fw.Ctx, src string, sig func(fail string) string, exp expect, res slip.Object, err *sl.Err) (got slip.List, ok bool) {
	if err != nil {
		if exp.err && !err.Internal {
			x.Cover("expected-error")
			return nil, true
		}
		k := "error:" + err.Class
		if err.Internal {
			k = "internal-fault"
		}
		x.Fail(sig(k), "%s => %s", src, err)
		return nil, false
	}
	got, _ = res.(slip.List)
	if exp.err {
		x.Fail(sig("no-error"), "%s must signal an error, returned %s", src, sl.Show(res))
		return got, false
	}
	if exp.bool_ != nil {
		want := "nil"
		if *exp.bool_ {
			want = "t"
		}
		x.Cover("predicates")
		if len(got) != 1 || sl.Show(got[0]) != want {
			x.Fail(sig("wrong-truth"), "%s => %s, exact answer is %s", src, sl.Show(res), want)
			return got, false
		}
		return got, true
	}
	if len(got) < len(exp.vals) {
		x.Fail(sig("missing-values"), "%s => %s, expected %d values", src, sl.Show(res), len(exp.vals))
		return got, false
	}
	ok = true
	for i, want := range exp.vals {
		q, kind, canon, isNum := exactOf(got[i])
		ex := classOfExact(want)
		bad := ""
		switch {
		case !isNum:
			bad = "not-a-number"
		case exp.loose:
			switch {
			case q.Cmp(want) != 0:
				bad = "wrong-value"
			case exp.kinds != nil && (!exp.kinds[kind] || !canon):
				bad = "wrong-kind"
			}
		case kind == "single" || kind == "double" || kind == "long":
			bad = "float-result"
		case q.Cmp(want) != 0:
			bad = "wrong-value"
		case !canon || kind != ex:
			bad = "non-canonical"
		}
		if bad != "" {
			ok = false
			x.Fail(sig(bad), "%s => %s (value %d held as %s), exact value %s of class %s", src, sl.Show(res), i, kind, showRat(want), ex)
		}
	}
	if ok {
		x.Cover("exact:" + classOfExact(exp.vals[0]))
	}
	return got, ok
}

func exec(x *fw.Ctx, c Case) {
	if c.Op == "prog" {
		execProg(x, c)
		return
	}
	if c.Route == "dolist" {
		execLoop(x, c)
		return
	}
	vals := make([]*big.Rat, len(c.Args))
	classes := make([]string, len(c.Args))
	for i, a := range c.Args {
		vals[i], classes[i] = parseLit(a)
	}
	use := c.Use
	if use == nil {
		for i := range c.Args {
			use = append(use, i)
		}
	}
	ovals := make([]*big.Rat, len(use))
	oclasses := make([]string, len(use))
	names := make([]string, len(use))
	alias := false
	for i, u := range use {
		ovals[i], oclasses[i], names[i] = vals[u], classes[u], varNames[u]
		for _, w := range use[:i] {
			alias = alias || w == u
		}
	}
	if c.Op == "compare" {
		execCompare(x, c, vals, classes, use)
		return
	}
	exp := oracle(c, ovals, oclasses)
	x.Cover("op:" + c.Op)
	if exp.any {
		x.Trivial()
		x.Cover("outside-property")
		return
	}
	x.Cover(fmt.Sprintf("arity:%d", len(use)))
	if len(oclasses) <= 2 {
		x.Cover("operands:" + strings.Join(oclasses, ","))
		switch c.Op {
		case "=", "/=", "<", "<=", ">", ">=", "min", "max":
			if len(oclasses) == 2 {
				x.Cover("cmp-kinds:" + strings.Join(oclasses, ","))
			}
		}
	}
	if alias {
		x.Cover("same-object-twice")
	}
	if c.Route != "" {
		x.Cover("route:" + c.Route)
	}
	incf := c.Op == "incf" || c.Op == "decf"
	if incf {
		p := c.Place
		if p == "" {
			p = "variable"
		}
		x.Cover("place:" + p)
		if len(use) == 1 {
			x.Cover("default-delta")
		}
		if len(exp.vals) == 1 { // the macro's value and the value stored in the place
			exp.vals = append(exp.vals, exp.vals[0])
		}
	}
	// program: bind operands to variables, apply, re-read the variables
	var sb strings.Builder
	sb.WriteString("(let (")
	for i, a := range c.Args {
		fmt.Fprintf(&sb, "(%s %s) ", varNames[i], a)
	}
	sb.WriteString(") ")
	viaList := c.Route == "apply" || c.Route == "reduce"
	if viaList {
		sb.WriteString("(let ((l (list " + strings.Join(names, " ") + "))) ")
	}
	sb.WriteString("(list (multiple-value-list ")
	if incf {
		d := ""
		if 1 < len(names) {
			d = names[1]
		}
		sb.WriteString(placeForm(c.Op, c.Place, names[0], d))
	} else {
		sb.WriteString(callForm(c.Op, c.Route, names))
	}
	sb.WriteString(")")
	for i := range c.Args {
		sb.WriteString(" " + varNames[i])
	}
	if viaList {
		sb.WriteString(" l)")
	}
	sb.WriteString("))")
	src := sb.String()
	scope := slip.NewScope()
	res, err := sl.Eval(scope, src)
	argc := sigClasses(ovals, oclasses, exp)
	sop := sigOp(c.Op, c.Place, c.Route, ovals)
	sig := func(fail string) string {
		return fmt.Sprintf("fail=%s op=%s %s", fail, sop, argc)
	}
	obs := map[string]any{"src": src}
	x.Observe(obs)
	var top slip.List
	if err != nil {
		obs["error"] = err.String()
		judge(x, src, sig, exp, nil, err)
		return
	}
	obs["result"] = sl.Show(res)
	top, _ = res.(slip.List)
	want := 1 + len(c.Args)
	if viaList {
		want++
	}
	if len(top) != want {
		x.Fail(sig("shape"), "%s => %s", src, sl.Show(res))
		return
	}
	// operands unchanged
	for i := range c.Args {
		if !sameOperand(top[1+i], vals[i], classes[i], c.Args[i]) {
			x.Fail(sig("operand-mutated"), "%s: operand %s is %s after the call, was %s", src, varNames[i], sl.Show(top[1+i]), c.Args[i])
		}
	}
	x.CoverN("operand-rereads", len(c.Args))
	if viaList {
		l, _ := top[want-1].(slip.List)
		same := len(l) == len(use)
		for i := 0; same && i < len(use); i++ {
			same = sameOperand(l[i], ovals[i], oclasses[i], c.Args[use[i]])
		}
		if !same {
			x.Fail(sig("operand-mutated"), "%s: the argument list is %s after the call", src, sl.Show(top[want-1]))
		}
		x.Cover("argument-list-rereads")
	}
	mvl := top[0]
	if mvl == nil {
		mvl = slip.List{}
	}
	judge(x, src, sig, exp, mvl, nil)
}

var compareOps = []string{"=", "/=", "<", "<=", ">", ">="}

// execCompare applies all six comparisons to one pair in both argument
// orders inside a single evaluation and checks every answer against the exact
// values, and that exactly one of <, =, > holds.
func execCompare(x *fw.Ctx, c Case, vals []*big.Rat, classes []string, use []int) {
	if len(use) != 2 {
		x.Trivial()
		return
	}
	a, b := varNames[use[0]], varNames[use[1]]
	ovals := []*big.Rat{vals[use[0]], vals[use[1]]}
	oclasses := []string{classes[use[0]], classes[use[1]]}
	var sb strings.Builder
	sb.WriteString("(let (")
	for i, lit := range c.Args {
		fmt.Fprintf(&sb, "(%s %s) ", varNames[i], lit)
	}
	sb.WriteString(") (list (list")
	for _, op := range compareOps {
		fmt.Fprintf(&sb, " (%s %s %s)", op, a, b)
	}
	for _, op := range compareOps {
		fmt.Fprintf(&sb, " (%s %s %s)", op, b, a)
	}
	sb.WriteString(")")
	for i := range c.Args {
		sb.WriteString(" " + varNames[i])
	}
	sb.WriteString("))")
	src := sb.String()
	x.Cover("op:compare")
	x.Cover("cmp-kinds:" + oclasses[0] + "," + oclasses[1])
	if use[0] == use[1] {
		x.Cover("same-object-twice")
	}
	argc := sigClasses(ovals, oclasses, expect{})
	sig := func(op, fail string) string {
		return fmt.Sprintf("fail=%s op=%s %s", fail, op, argc)
	}
	obs := map[string]any{"src": src}
	x.Observe(obs)
	res, err := sl.Eval(slip.NewScope(), src)
	if err != nil {
		obs["error"] = err.String()
		k := "error:" + err.Class
		if err.Internal {
			k = "internal-fault"
		}
		x.Fail(sig("compare", k), "%s => %s", src, err)
		return
	}
	obs["result"] = sl.Show(res)
	top, _ := res.(slip.List)
	var answers slip.List
	if 0 < len(top) {
		answers, _ = top[0].(slip.List)
	}
	if len(top) != 1+len(c.Args) || len(answers) != 12 {
		x.Fail(sig("compare", "shape"), "%s => %s", src, sl.Show(res))
		return
	}
	for i := range c.Args {
		if !sameOperand(top[1+i], vals[i], classes[i], c.Args[i]) {
			x.Fail(sig("compare", "operand-mutated"), "%s: operand %s is %s after the calls, was %s", src, varNames[i], sl.Show(top[1+i]), c.Args[i])
		}
	}
	x.CoverN("operand-rereads", len(c.Args))
	k := ovals[0].Cmp(ovals[1])
	truth := func(op string, k int) bool {
		switch op {
		case "=":
			return k == 0
		case "/=":
			return k != 0
		case "<":
			return k < 0
		case "<=":
			return k <= 0
		case ">":
			return 0 < k
		}
		return 0 <= k
	}
	for i, op := range append(append([]string{}, compareOps...), compareOps...) {
		kk := k
		l, r := a, b
		if 6 <= i {
			kk, l, r = -k, b, a
		}
		got := answers[i] != nil
		if sl.Show(answers[i]) != "t" && answers[i] != nil {
			x.Fail(sig(op, "not-a-boolean"), "%s: (%s %s %s) => %s", src, op, l, r, sl.Show(answers[i]))
			continue
		}
		if got != truth(op, kk) {
			x.Fail(sig(op, "wrong-truth"), "%s: (%s %s %s) => %s, exact answer is %v", src, op, l, r, sl.Show(answers[i]), truth(op, kk))
		}
	}
	x.CoverN("predicates", 12)
	// exactly one of <, =, > holds
	n := 0
	for _, i := range []int{0, 2, 4} {
		if answers[i] != nil {
			n++
		}
	}
	if n != 1 {
		x.Fail(sig("compare", "trichotomy"), "%s: %d of (< a b) (= a b) (> a b) hold: %s", src, n, sl.Show(top[0]))
	}
	x.Cover("trichotomy:" + []string{"lt", "eq", "gt"}[k+1])
}

func init() {
	fw.Register(fw.Spec[Case]{
		ID: "C05",
		Rule: "operator x operand tuple; first block = every ordered pair of the 20-value boundary grid for every binary operator (exhaustive), " +
			"the float-comparison grid (each grid integer against 9 float neighbours in 3 formats), the canonical-form block (sums, products, quotients landing on ratio->integer and bignum->fixnum boundaries), " +
			"the structured block (perfect squares +-1 for every root size 1..100 bits; dividends q*d+r with r around 0, d/2, d for quotients and divisors around 2^24..2^70; products landing on 2^24..2^65 +-1; integers around 2^24, 2^53, 10^15..10^22 against float neighbours; gcd/lcm with large common factors), " +
			"the extra block (every unary operator, one-argument comparison and default-delta incf/decf on the grid, its neighbours and boundary ratios; 3- and 4-argument integer operators on a boundary set; ratios against their float, integer and ratio neighbours and floats of different formats against each other with all six comparisons in both orders in one evaluation (exactly one of < = > must hold); " +
			"3-argument comparisons over mixed representations of equal and adjacent values; the same variable passed twice; funcall/apply/reduce routes with the argument list re-read; incf/decf on car, nth, aref and gethash places; expt with exponents beyond a machine word; " +
			"multi-step histories where operands are results of earlier steps, every variable is re-read after every step, a step may fail (division by zero, non-number operand) and the state is used afterwards), " +
			"then seeded tuples of integers up to 200 bits (isqrt half of the time next to a square, gcd/lcm half of the time with a common factor), ratios, floats adjacent to grid integers, and seeded aliases, routes, places and histories; distinct = distinct case; " +
			"non-trivial = the property pins the result (exact operands or comparison). Histories, routes, aliases and places avoid the operand combinations of the listed findings (bignum with ratio, floor by a negative divisor, negative exponent, a - whose bignum operands give a fixnum, logeqv of bignums); single applications keep producing them",
		N:           nCases,
		Gen:         gen,
		Exec:        exec,
		Batch:       4000,
		Assumptions: []string{"math/big is the trusted oracle", "integer/ratio/float literals are read correctly (checked by C02/C03)"},
	})
}
