package c05

import (
	"fmt"
	"math/big"
	"math/rand/v2"
	"regexp"
	"strconv"
	"strings"

	"github.com/ohler55/slip"

	"verif/internal/fw"
	"verif/internal/sl"
)

// Multi-step histories: the operands of a step are variables that hold the
// results of earlier steps (or the initial literals), the same variable may
// be used twice, incf/decf modify a variable in place, and a step may be one
// that has to fail. After every step every variable is re-read and compared
// with the model, so an operator that alters an operand, a result that shares
// storage with an operand which a later step changes, and state left behind
// by a failed step all show at the step that caused them.

var varRef = regexp.MustCompile(`^v[0-9]+$`)

// model value of a variable
type mval struct {
	q     *big.Rat
	class string
	lit   string
}

func isBigInt(q *big.Rat) bool { return q.IsInt() && !q.Num().IsInt64() }

// avoidKnown tells whether applying op to the exact operands lands in one of
// the listed findings of the pinned tree (FRAMEWORK rule 5); histories,
// routes, aliases and places stay clear of them.
func avoidKnown(op string, vals []*big.Rat) bool {
	for _, v := range vals {
		if v == nil {
			return false
		}
	}
	pair := func(a, b *big.Rat) bool {
		return (isBigInt(a) && !b.IsInt()) || (!a.IsInt() && isBigInt(b))
	}
	switch op {
	case "logeqv":
		for _, v := range vals {
			if isBigInt(v) {
				return true
			}
		}
	case "expt":
		return len(vals) == 2 && vals[1].Sign() < 0 && vals[0].Sign() != 0
	case "floor":
		if len(vals) == 2 && vals[1].Sign() < 0 {
			return true
		}
	}
	switch op {
	case "floor", "ceiling", "truncate", "round", "mod", "rem", "incf", "decf":
		// decf negates its delta first: the most negative fixnum becomes a bignum
		if len(vals) == 2 && (pair(vals[0], vals[1]) || pair(vals[0], new(big.Rat).Neg(vals[1]))) {
			return true
		}
	case "+", "-", "*", "/":
		// slip folds from the left; an intermediate ratio or bignum meets
		// the next operand just as an operand would
		beyond := func(q *big.Rat) bool { return !q.Num().IsInt64() || !q.Denom().IsInt64() }
		var acc *big.Rat
		anyBig, anyRatio := false, false
		for i, v := range vals {
			anyBig = anyBig || beyond(v)
			anyRatio = anyRatio || !v.IsInt()
			if i == 0 {
				acc = new(big.Rat).Set(v)
				continue
			}
			switch op {
			case "+":
				acc.Add(acc, v)
			case "-":
				acc.Sub(acc, v)
			case "*":
				acc.Mul(acc, v)
			case "/":
				if v.Sign() == 0 {
					return false
				}
				acc.Quo(acc, v)
			}
			if i < len(vals)-1 {
				anyBig = anyBig || beyond(acc)
				anyRatio = anyRatio || !acc.IsInt() || op == "/"
			}
		}
		if anyBig && anyRatio {
			return true
		}
		if op == "-" && 1 < len(vals) && anyBig && acc.IsInt() && acc.Num().IsInt64() {
			return true
		}
	}
	return false
}

func execProg(x *fw.Ctx, c Case) {
	scope := slip.NewScope()
	var model []mval
	name := func(i int) slip.Symbol { return slip.Symbol("v" + strconv.Itoa(i)) }
	bind := func(obj slip.Object, v mval) {
		scope.Let(name(len(model)), obj)
		model = append(model, v)
	}
	var trace []string
	obs := map[string]any{}
	x.Observe(obs)
	x.Cover("op:prog")
	for _, a := range c.Args {
		obj, err := sl.Eval(scope, a)
		if err != nil {
			x.Fail("fail=literal-unreadable op=prog", "%s => %s", a, err)
			return
		}
		q, cl := parseLit(a)
		bind(obj, mval{q, cl, a})
	}
	afterError, afterInPlace := false, false
	for si, st := range c.Steps {
		var (
			vals    []*big.Rat
			classes []string
			refs    []int
		)
		seen := map[string]bool{}
		alias, computed := false, 0
		for _, a := range st.Args {
			if varRef.MatchString(a) {
				k, _ := strconv.Atoi(a[1:])
				if len(model) <= k {
					x.Fail("harness-bad-prog", "step %d refers to %s", si, a)
					return
				}
				vals, classes, refs = append(vals, model[k].q), append(classes, model[k].class), append(refs, k)
				alias = alias || seen[a]
				seen[a] = true
				if len(c.Args) <= k {
					computed++
				}
				continue
			}
			q, cl := parseLit(a)
			vals, classes, refs = append(vals, q), append(classes, cl), append(refs, -1)
		}
		exp := oracle(Case{Op: st.Op}, vals, classes)
		if exp.any {
			x.Cover("prog-step-outside-property")
			continue
		}
		inPlace := (st.Op == "incf" || st.Op == "decf") && 0 <= refs[0]
		src := "(multiple-value-list " + callForm(st.Op, st.Route, st.Args) + ")"
		if st.Route == "apply" || st.Route == "reduce" {
			src = "(let ((l (list " + strings.Join(st.Args, " ") + "))) " + src + ")"
		}
		argc := sigClasses(vals, classes, exp)
		sop := sigOp(st.Op, "", st.Route, vals)
		sig := func(fail string) string {
			return fmt.Sprintf("fail=%s op=%s %s", fail, sop, argc)
		}
		res, err := sl.Eval(scope, src)
		if err != nil {
			trace = append(trace, src+" => "+err.String())
		} else {
			trace = append(trace, src+" => "+sl.Show(res))
		}
		obs["trace"] = trace
		where := fmt.Sprintf("step %d of %s", si, strings.Join(trace, "; "))
		x.Cover("prog-step:" + st.Op)
		x.Cover("prog-steps")
		x.CoverN("prog-operands-that-are-results", computed)
		if alias {
			x.Cover("prog-same-variable-twice")
		}
		if afterError {
			x.Cover("prog-steps-after-a-failed-step")
		}
		if afterInPlace {
			x.Cover("prog-steps-after-an-in-place-update")
		}
		if res == nil && err == nil {
			res = slip.List{}
		}
		got, ok := judge(x, where, sig, exp, res, err)
		if !ok {
			return
		}
		switch {
		case exp.err:
			afterError = true
			x.Cover("prog-failed-step:" + st.Op)
		case exp.bool_ != nil:
		case inPlace:
			w := exp.vals[0]
			model[refs[0]] = mval{w, classOfExact(w), showRat(w)}
			afterInPlace = true
			x.Cover("prog-in-place:" + classes[0] + "->" + classOfExact(w))
		default:
			for i, w := range exp.vals {
				bind(got[i], mval{w, classOfExact(w), showRat(w)})
			}
		}
		// every variable still holds what the model says
		for k, m := range model {
			obj := scope.Get(name(k))
			if !sameOperand(obj, m.q, m.class, m.lit) {
				x.Fail(sig("operand-mutated"), "%s: variable v%d is %s afterwards, must be %s (%s)", where, k, sl.Show(obj), m.lit, m.class)
				return
			}
		}
		x.CoverN("operand-rereads", len(model))
	}
	x.Cover(fmt.Sprintf("prog-length:%d", (len(c.Steps)+4)/5*5))
}

// ---- generation of histories

type progGen struct {
	r     *rand.Rand
	c     Case
	model []*big.Rat
	nInit int
}

func (g *progGen) ref(k int) string { return "v" + strconv.Itoa(k) }

// pick chooses a variable, preferring recent (computed) ones.
func (g *progGen) pick(pred func(*big.Rat) bool) (int, bool) {
	for try := 0; try < 8; try++ {
		k := g.r.IntN(len(g.model))
		if g.r.IntN(2) == 0 && g.nInit < len(g.model) {
			k = g.nInit + g.r.IntN(len(g.model)-g.nInit)
		}
		if pred == nil || pred(g.model[k]) {
			return k, true
		}
	}
	return 0, false
}

var (
	progArith  = []string{"+", "-", "*", "/", "+", "-", "*"}
	progDiv    = []string{"floor", "ceiling", "truncate", "round", "mod", "rem"}
	progUnary  = []string{"abs", "1+", "1-", "-", "numerator", "denominator", "signum", "floor", "ceiling", "truncate", "round"}
	progIntBin = []string{"gcd", "lcm", "logand", "logior", "logxor", "logandc2", "lognor"}
	progIntUn  = []string{"isqrt", "lognot", "integer-length", "logcount"}
	progCmp    = []string{"=", "/=", "<", "<=", ">", ">=", "min", "max", "zerop", "plusp", "minusp"}
)

const progMaxBits = 420

// step tries to append one random step; it gives up (false) when the drawn
// operands are outside the property, too large, or inside a listed finding.
func (g *progGen) step() bool {
	r := g.r
	isInt := func(q *big.Rat) bool { return q.IsInt() }
	var st Step
	failing := false
	operands := func(n int, pred func(*big.Rat) bool) bool {
		for i := 0; i < n; i++ {
			k, ok := g.pick(pred)
			if !ok {
				return false
			}
			if 0 < i && r.IntN(4) == 0 { // the same variable again
				st.Args = append(st.Args, st.Args[r.IntN(len(st.Args))])
				continue
			}
			st.Args = append(st.Args, g.ref(k))
		}
		return true
	}
	okArgs := true
	switch k := r.IntN(20); {
	case k < 5:
		st.Op = fw.Pick(r, progArith)
		okArgs = operands(2+r.IntN(3)/2, nil)
	case k < 8:
		st.Op = fw.Pick(r, progDiv)
		okArgs = operands(2, nil)
	case k < 10:
		st.Op = fw.Pick(r, progUnary)
		okArgs = operands(1, nil)
	case k < 12:
		st.Op = fw.Pick(r, progIntBin)
		n := 2
		switch st.Op {
		case "gcd", "lcm", "logand", "logior", "logxor":
			n += r.IntN(2)
		}
		okArgs = operands(n, isInt)
	case k < 13:
		st.Op = fw.Pick(r, progIntUn)
		okArgs = operands(1, func(q *big.Rat) bool { return q.IsInt() && (st.Op != "isqrt" || 0 <= q.Sign()) })
	case k < 14:
		okArgs = operands(1, isInt)
		if r.IntN(2) == 0 {
			st.Op = "ash"
			st.Args = append(st.Args, strconv.Itoa(r.IntN(141)-70))
		} else {
			st.Op = "expt"
			st.Args = append(st.Args, strconv.Itoa(r.IntN(6)))
		}
	case k < 16:
		st.Op = fw.Pick(r, progCmp)
		n := 2
		switch st.Op {
		case "zerop", "plusp", "minusp":
			n = 1
		case "min", "max", "<", "=":
			n += r.IntN(2)
		}
		okArgs = operands(n, nil)
	case k < 19: // in-place update of a variable
		st.Op = fw.Pick(r, []string{"incf", "decf"})
		okArgs = operands(1+(r.IntN(4)+2)/3, nil)
	default: // a step that has to fail
		failing = true
		okArgs = operands(1, nil)
		v := ""
		if okArgs {
			v = st.Args[0]
		}
		w, _ := g.pick(nil)
		switch r.IntN(9) {
		case 0:
			st = Step{Op: "/", Args: []string{v, "0"}}
		case 1:
			st = Step{Op: fw.Pick(r, progDiv), Args: []string{v, "0"}}
		case 2:
			st = Step{Op: fw.Pick(r, []string{"+", "*", "-", "max", "min"}), Args: []string{v, g.ref(w), ":k"}}
		case 3:
			st = Step{Op: fw.Pick(r, []string{"incf", "decf"}), Args: []string{v, ":k"}}
		case 4:
			st = Step{Op: "/", Args: []string{v, g.ref(w), "0"}}
		case 5:
			st = Step{Op: fw.Pick(r, []string{"abs", "1+", "1-", "zerop", "isqrt", "lognot", "evenp"}), Args: []string{":k"}}
		case 6:
			st = Step{Op: "isqrt", Args: []string{"-" + strconv.Itoa(1+r.IntN(9))}}
		case 7:
			st = Step{Op: "expt", Args: []string{"0", "-" + strconv.Itoa(1+r.IntN(3))}}
		case 8:
			st = Step{Op: fw.Pick(r, []string{"logand", "gcd", "lcm", "logxor"}), Args: []string{"5", ":k"}}
		}
	}
	if !okArgs {
		return false
	}
	if r.IntN(8) == 0 && !failing && st.Op != "incf" && st.Op != "decf" {
		st.Route = "funcall"
		if r.IntN(2) == 0 && 2 <= len(st.Args) {
			st.Route = "apply"
		}
	}
	return g.add(st, failing)
}

// add appends the step when the oracle pins it, the result is of moderate
// size and no listed finding is involved; it updates the model.
func (g *progGen) add(st Step, failing bool) bool {
	var (
		vals    []*big.Rat
		classes []string
		first   = -1
	)
	for i, a := range st.Args {
		if varRef.MatchString(a) {
			k, _ := strconv.Atoi(a[1:])
			if len(g.model) <= k {
				return false
			}
			if i == 0 {
				first = k
			}
			vals, classes = append(vals, g.model[k]), append(classes, classOfExact(g.model[k]))
			continue
		}
		q, cl := parseLit(a)
		vals, classes = append(vals, q), append(classes, cl)
	}
	if st.Op == "expt" && len(vals) == 2 && vals[0] != nil && progMaxBits < (vals[0].Num().BitLen()+vals[0].Denom().BitLen())*int(vals[1].Num().Int64()) {
		return false
	}
	if avoidKnown(st.Op, vals) {
		return false
	}
	exp := oracle(Case{Op: st.Op}, vals, classes)
	if exp.any || exp.err != failing {
		return false
	}
	for _, w := range exp.vals {
		if progMaxBits < w.Num().BitLen() || progMaxBits < w.Denom().BitLen() {
			return false
		}
	}
	g.c.Steps = append(g.c.Steps, st)
	switch {
	case exp.err, exp.bool_ != nil:
	case (st.Op == "incf" || st.Op == "decf") && 0 <= first:
		g.model[first] = exp.vals[0]
	default:
		g.model = append(g.model, exp.vals...)
	}
	return true
}

func newProgGen(r *rand.Rand, lits []string) *progGen {
	g := &progGen{r: r, c: Case{Op: "prog"}}
	for _, l := range lits {
		q, _ := parseLit(l)
		g.c.Args = append(g.c.Args, l)
		g.model = append(g.model, q)
	}
	g.nInit = len(lits)
	return g
}

// genProg draws a history of about n steps over 2..4 initial variables.
func genProg(r *rand.Rand, n int) Case {
	var lits []string
	for i, k := 0, 2+r.IntN(3); i < k; i++ {
		lits = append(lits, randRat(r))
	}
	g := newProgGen(r, lits)
	for try := 0; len(g.c.Steps) < n && try < 6*n; try++ {
		g.step()
	}
	return g.c
}

// execLoop evaluates ONE application form repeatedly inside a dolist over
// operand tuples of different kinds (route "dolist"): the form is read once,
// so whatever the evaluator keeps in the form between evaluations is used by
// the later iterations. For incf/decf the place variable is carried through
// the iterations: Args = start, delta1, delta2, ...; for every other operator
// Args are consecutive pairs.
func execLoop(x *fw.Ctx, c Case) {
	incf := c.Op == "incf" || c.Op == "decf"
	var src string
	var tuples [][]string
	if incf {
		if len(c.Args) < 2 {
			x.Trivial()
			return
		}
		src = fmt.Sprintf("(let ((z %s) (l (list %s)) (out nil)) (dolist (d l) (push (multiple-value-list (%s z d)) out)) (list (reverse out) l z))",
			c.Args[0], strings.Join(c.Args[1:], " "), c.Op)
		for _, d := range c.Args[1:] {
			tuples = append(tuples, []string{"", d})
		}
	} else {
		var sb strings.Builder
		for i := 0; i+1 < len(c.Args); i += 2 {
			fmt.Fprintf(&sb, " (list %s %s)", c.Args[i], c.Args[i+1])
			tuples = append(tuples, []string{c.Args[i], c.Args[i+1]})
		}
		src = fmt.Sprintf("(let ((l (list%s)) (out nil)) (dolist (p l) (push (multiple-value-list (%s (car p) (cadr p))) out)) (list (reverse out) l))", sb.String(), c.Op)
	}
	x.Cover("op:" + c.Op)
	x.Cover("route:dolist")
	obs := map[string]any{"src": src}
	x.Observe(obs)
	res, err := sl.Eval(slip.NewScope(), src)
	// expectations
	var cur *big.Rat
	if incf {
		cur, _ = parseLit(c.Args[0])
	}
	type want struct {
		exp     expect
		vals    []*big.Rat
		classes []string
	}
	var wants []want
	for _, t := range tuples {
		var w want
		for _, l := range t {
			if l == "" {
				w.vals, w.classes = append(w.vals, cur), append(w.classes, classOfExact(cur))
				continue
			}
			q, cl := parseLit(l)
			w.vals, w.classes = append(w.vals, q), append(w.classes, cl)
		}
		w.exp = oracle(Case{Op: c.Op}, w.vals, w.classes)
		if w.exp.any || w.exp.err {
			x.Trivial()
			x.Cover("outside-property")
			return
		}
		if incf {
			cur = w.exp.vals[0]
		}
		wants = append(wants, w)
	}
	sigFor := func(w want) func(string) string {
		argc := sigClasses(w.vals, w.classes, w.exp)
		sop := sigOp(c.Op, "", "dolist", w.vals)
		return func(fail string) string { return fmt.Sprintf("fail=%s op=%s %s", fail, sop, argc) }
	}
	if err != nil {
		obs["error"] = err.String()
		judge(x, src, sigFor(wants[0]), wants[0].exp, nil, err)
		return
	}
	obs["result"] = sl.Show(res)
	top, _ := res.(slip.List)
	n := 2
	if incf {
		n = 3
	}
	var outs, l slip.List
	if len(top) == n {
		outs, _ = top[0].(slip.List)
		l, _ = top[1].(slip.List)
	}
	if len(outs) != len(tuples) || len(l) != len(tuples) {
		x.Fail(sigFor(wants[0])("shape"), "%s => %s", src, sl.Show(res))
		return
	}
	for i, w := range wants {
		where := fmt.Sprintf("iteration %d of %s => %s", i, src, sl.Show(res))
		o := outs[i]
		if o == nil {
			o = slip.List{}
		}
		if _, ok := judge(x, where, sigFor(w), w.exp, o, nil); !ok {
			return
		}
		// the operands in the list are what they were
		if incf {
			if !sameOperand(l[i], w.vals[1], w.classes[1], tuples[i][1]) {
				x.Fail(sigFor(w)("operand-mutated"), "%s: delta %d is %s afterwards", src, i, sl.Show(l[i]))
			}
		} else {
			p, _ := l[i].(slip.List)
			if len(p) != 2 || !sameOperand(p[0], w.vals[0], w.classes[0], tuples[i][0]) || !sameOperand(p[1], w.vals[1], w.classes[1], tuples[i][1]) {
				x.Fail(sigFor(w)("operand-mutated"), "%s: operand pair %d is %s afterwards", src, i, sl.Show(l[i]))
			}
		}
	}
	if incf && !sameOperand(top[2], cur, classOfExact(cur), showRat(cur)) {
		x.Fail(sigFor(wants[len(wants)-1])("wrong-value"), "%s: the place holds %s after the loop, exact value %s", src, sl.Show(top[2]), showRat(cur))
	}
	x.CoverN("loop-iterations", len(tuples))
	x.CoverN("operand-rereads", len(c.Args))
}
