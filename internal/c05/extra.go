package c05

import (
	"math"
	"math/big"
	"math/rand/v2"
	"strconv"
	"strings"

	"verif/internal/fw"
)

// The extra block: deterministic (seed-independent) cases for the dimensions
// of the property the first four blocks do not reach - unary operators on the
// grid, n-ary integer operators, ratios and floats of different formats
// against their neighbours, the same object passed twice, call routes, incf
// and decf on places other than a variable, operators that must fail, and
// multi-step histories.

var extraCases []Case

func pow2(k uint) *big.Int { return new(big.Int).Lsh(big.NewInt(1), k) }

func plus(x *big.Int, k int64) *big.Int { return new(big.Int).Add(x, big.NewInt(k)) }

// unaryValues: the grid, its neighbours and boundary ratios.
func unaryValues() []string {
	seen := map[string]bool{}
	var out []string
	add := func(s string) {
		if !seen[s] {
			seen[s] = true
			out = append(out, s)
		}
	}
	for _, g := range grid {
		add(g.String())
		add(plus(g, 1).String())
		add(plus(g, -1).String())
	}
	for _, s := range []string{"1/2", "-1/2", "3/2", "-3/2", "2/3", "-2/3", "5/2", "-5/2", "7/2", "1/9223372036854775808", "9223372036854775808/3",
		"-18446744073709551617/2", "18446744073709551615/18446744073709551617", "-9223372036854775807/2", "9223372036854775809/2", "4611686018427387905/2"} {
		add(s)
	}
	return out
}

// the small boundary sets of the n-ary and pair blocks
var (
	nary9  = []string{"0", "1", "-1", "5", "4611686018427387904", "-9223372036854775808", "9223372036854775808", "-18446744073709551617", "18446744073709551615"}
	nary5  = []string{"1", "-1", "9223372036854775808", "-9223372036854775808", "18446744073709551617"}
	pair12 = []string{"0", "1", "-1", "7", "4611686018427387904", "9223372036854775807", "-9223372036854775808", "9223372036854775808", "-18446744073709551617", "1/2", "-7/3", "9223372036854775807/2"}
	pair7  = []string{"0", "-1", "7", "9223372036854775807", "-9223372036854775809", "1/2", "-7/3"}
)

var (
	naryOps3 = []string{"gcd", "lcm", "logand", "logior", "logxor", "logeqv", "+", "-", "*", "/", "min", "max", "=", "/=", "<", "<=", ">", ">="}
	naryOps4 = []string{"gcd", "lcm", "logand", "logior", "logxor", "+", "*", "-", "max", "min", "<", "<=", "=", "/="}
	routes   = []string{"funcall", "apply", "reduce"}
	places   = []string{"", "car", "nth", "aref", "gethash"}
)

// reducible: the operators for which (reduce #'op list) is the n-ary call.
func reducible(op string) bool {
	switch op {
	case "+", "*", "-", "/", "min", "max", "gcd", "lcm", "logand", "logior", "logxor", "logeqv":
		return true
	}
	return false
}

func intOnly(op string) bool {
	for _, o := range intBin {
		if o == op {
			return true
		}
	}
	for _, o := range unaryInt {
		if o == op && op != "signum" && op != "numerator" && op != "denominator" {
			return true
		}
	}
	switch op {
	case "ash", "logbitp":
		return true
	}
	return false
}

func litVals(lits []string) []*big.Rat {
	out := make([]*big.Rat, len(lits))
	for i, l := range lits {
		out[i], _ = parseLit(l)
	}
	return out
}

// clear tells whether applying op to the literals stays away from the listed
// findings and inside what the oracle pins.
func clear(op string, lits []string) bool {
	vals := litVals(lits)
	if intOnly(op) {
		for _, v := range vals {
			if v != nil && !v.IsInt() {
				return false
			}
		}
	}
	return !avoidKnown(op, vals)
}

// ratFloat renders float variant v (0..8) next to the exact rational q:
// single/double x {nearest, next up, next down}, and long = the dyadic
// rational round(q*2^20)/2^20 (+- 2^-20), which a long-float literal holds
// exactly.
func ratFloat(q *big.Rat, v int) string {
	f, _ := q.Float64()
	switch v / 3 {
	case 0:
		f32 := float32(f)
		switch v % 3 {
		case 1:
			f32 = math.Nextafter32(f32, float32(math.Inf(1)))
		case 2:
			f32 = math.Nextafter32(f32, float32(math.Inf(-1)))
		}
		if math.IsInf(float64(f32), 0) {
			f32 = 1.5
		}
		return strings.Replace(strconv.FormatFloat(float64(f32), 'e', -1, 32), "e", "f", 1)
	case 1:
		switch v % 3 {
		case 1:
			f = math.Nextafter(f, math.Inf(1))
		case 2:
			f = math.Nextafter(f, math.Inf(-1))
		}
		return strings.Replace(strconv.FormatFloat(f, 'e', -1, 64), "e", "d", 1)
	}
	// floor(q*2^20) (+1, -1) over 2^20 as an exact decimal
	n := new(big.Int).Mul(q.Num(), pow2(20))
	n.Div(n, q.Denom())
	switch v % 3 {
	case 1:
		n.Add(n, big.NewInt(1))
	case 2:
		n.Sub(n, big.NewInt(1))
	}
	d := new(big.Rat).SetFrac(n, pow2(20))
	return d.FloatString(20) + "L0"
}

func mix64(a, b int) uint64 {
	return rand.New(rand.NewPCG(uint64(a)*1000003+17, uint64(b)*7919+5)).Uint64()
}

// neighbourRatios: ratios whose comparison with a float, an integer or
// another ratio is decided by digits a float conversion loses.
func neighbourRatios() []*big.Rat {
	var out []*big.Rat
	rat := func(n, d *big.Int) { out = append(out, new(big.Rat).SetFrac(n, d)) }
	i := func(k int64) *big.Int { return big.NewInt(k) }
	rat(i(1), i(3))
	rat(i(-2), i(3))
	rat(i(1), i(10))
	rat(i(7), i(5))
	rat(i(22), i(7))
	rat(i(-1), i(7))
	rat(i(16777217), i(2))
	rat(i(1), i(16777217))
	rat(plus(pow2(53), 1), i(2))
	rat(plus(pow2(53), 1), i(4))
	rat(i(3), plus(pow2(53), 1))
	rat(pow2(63), i(3))
	rat(plus(pow2(64), 1), i(2))
	rat(new(big.Int).Neg(plus(pow2(64), 1)), i(3))
	rat(i(1), pow2(63))
	rat(i(1), plus(pow2(64), 1))
	rat(plus(pow2(64), -1), plus(pow2(64), 1))
	rat(plus(new(big.Int).Exp(i(10), i(20), nil), 1), i(7))
	rat(plus(pow2(100), 1), plus(pow2(40), 1))
	rat(plus(pow2(199), -1), plus(pow2(198), 1))
	for b := 5; b <= 195; b += 10 {
		n := new(big.Int).SetUint64(mix64(b, 1))
		n.Lsh(n, 64).Or(n, new(big.Int).SetUint64(mix64(b, 2)))
		n.Lsh(n, 64).Or(n, new(big.Int).SetUint64(mix64(b, 3)))
		n.Lsh(n, 64).Or(n, new(big.Int).SetUint64(mix64(b, 4)))
		n.Rsh(n, uint(n.BitLen()-b))
		d := new(big.Int).SetUint64(mix64(b, 5))
		d.Rsh(d, uint(b%60))
		d.SetBit(d, 0, 1)
		d.Add(d, big.NewInt(2))
		if b%20 == 5 {
			n.Neg(n)
		}
		q := new(big.Rat).SetFrac(n, d)
		if !q.IsInt() {
			out = append(out, q)
		}
	}
	return out
}

func extraBlock() []Case {
	if extraCases != nil {
		return extraCases
	}
	var out []Case
	add := func(c Case) { out = append(out, c) }
	uv := unaryValues()

	// E1 unary operators, one-argument n-ary operators and comparisons,
	// default-delta incf/decf, on the grid, its neighbours and boundary ratios
	un := map[string]bool{}
	var unOps []string
	for _, o := range append(append(append([]string{}, unaryRat...), unaryInt...), "=", "/=", "<", "<=", ">", ">=", "logcount", "integer-length", "lognot", "evenp", "oddp", "isqrt") {
		if !un[o] {
			un[o] = true
			unOps = append(unOps, o)
		}
	}
	for _, op := range unOps {
		for _, v := range uv {
			if clear(op, []string{v}) {
				add(Case{Op: op, Args: []string{v}})
			}
		}
	}
	for _, op := range []string{"incf", "decf"} {
		for _, pl := range places {
			for _, v := range uv {
				add(Case{Op: op, Args: []string{v}, Place: pl})
			}
		}
	}

	// E2 three- and four-argument integer operators on a boundary set
	for _, op := range naryOps3 {
		for _, a := range nary9 {
			for _, b := range nary9 {
				for _, c := range nary9 {
					add(Case{Op: op, Args: []string{a, b, c}})
				}
			}
		}
	}
	for _, op := range naryOps4 {
		for _, a := range nary5 {
			for _, b := range nary5 {
				for _, c := range nary5 {
					for _, d := range nary5 {
						add(Case{Op: op, Args: []string{a, b, c, d}})
					}
				}
			}
		}
	}

	// E3 ratios against their float, integer and ratio neighbours: all six
	// comparisons in both orders in one evaluation, min and max
	cmp3 := func(a, b string, k int) {
		add(Case{Op: "compare", Args: []string{a, b}})
		if k%2 == 0 {
			add(Case{Op: "min", Args: []string{a, b}})
			add(Case{Op: "max", Args: []string{b, a}})
		} else {
			add(Case{Op: "min", Args: []string{b, a}})
			add(Case{Op: "max", Args: []string{a, b}})
		}
	}
	for ri, q := range neighbourRatios() {
		qs := q.RatString()
		for v := 0; v < 9; v++ {
			cmp3(qs, ratFloat(q, v), ri+v)
		}
		fl := new(big.Int).Div(q.Num(), q.Denom())
		var nb []string
		nb = append(nb, fl.String(), plus(fl, 1).String(), qs)
		nb = append(nb, new(big.Rat).SetFrac(plus(q.Num(), 1), q.Denom()).RatString())
		nb = append(nb, new(big.Rat).SetFrac(plus(q.Num(), -1), q.Denom()).RatString())
		nb = append(nb, new(big.Rat).SetFrac(q.Num(), plus(q.Denom(), 1)).RatString())
		nb = append(nb, new(big.Rat).Neg(q).RatString())
		for k, o := range nb {
			cmp3(qs, o, ri+k)
		}
	}

	// E4 floats of different formats against each other around the integers
	// where the formats differ in precision
	fgrid := []*big.Int{big.NewInt(0), big.NewInt(1), big.NewInt(-1), pow2(24), plus(pow2(24), 1), pow2(31), new(big.Int).Neg(pow2(32)), pow2(53), plus(pow2(53), 1),
		pow2(62), pow2(63), new(big.Int).Neg(pow2(63)), plus(pow2(64), 1)}
	for gi, g := range fgrid {
		for v := 0; v < 9; v++ {
			for w := 0; w < 9; w++ {
				a, b := floatVariant(g, v), floatVariant(g, w)
				add(Case{Op: "compare", Args: []string{a, b}})
				if (gi+v+w)%2 == 0 {
					add(Case{Op: "max", Args: []string{a, b}})
				} else {
					add(Case{Op: "min", Args: []string{a, b}})
				}
			}
		}
	}

	// E5 three-argument comparisons over mixed representations of equal and
	// adjacent values
	mixed := []string{"1", "1f0", "1d0", "1.0L0", "3/2", "1.5d0", "2", "16777217", "1.6777216f7", "9007199254740993", "9.007199254740992d15", "1/3", "3.3333334f-1"}
	for _, op := range []string{"=", "/=", "<", "<=", ">", ">=", "min", "max"} {
		for _, a := range mixed {
			for _, b := range mixed {
				for _, c := range mixed {
					add(Case{Op: op, Args: []string{a, b, c}})
				}
			}
		}
	}

	// E6 the same variable passed twice
	binAll := gridOps()
	for _, op := range binAll {
		for _, v := range uv {
			args := []string{v}
			switch op {
			case "ash", "expt", "logbitp":
				if q, _ := parseLit(v); !q.IsInt() || !q.Num().IsInt64() || q.Num().Int64() < -3 || 70 < q.Num().Int64() {
					continue
				}
				if v == "70" || v == "65" || v == "64" || v == "63" {
					if op == "expt" {
						continue
					}
				}
			}
			if clear(op, []string{v, v}) {
				add(Case{Op: op, Args: args, Use: []int{0, 0}})
			}
		}
	}
	for _, v := range uv {
		add(Case{Op: "compare", Args: []string{v}, Use: []int{0, 0}})
	}
	for _, op := range naryOps3 {
		for _, a := range nary9 {
			for _, b := range nary9 {
				for ui, use := range [][]int{{0, 1, 0}, {0, 0, 1}, {1, 0, 0}, {0, 0, 0}} {
					lits := []string{a, b}
					ops := []string{lits[use[0]], lits[use[1]], lits[use[2]]}
					if ui == 3 && a != b {
						continue
					}
					if clear(op, ops) {
						add(Case{Op: op, Args: lits, Use: use})
					}
				}
			}
		}
	}

	// E7 call routes (argument list re-read) and incf/decf places
	for _, op := range append(append([]string{}, binAll...), "compare") {
		if op == "incf" || op == "decf" || op == "compare" {
			continue
		}
		for _, rt := range routes {
			if rt == "reduce" && !reducible(op) {
				continue
			}
			for _, a := range pair7 {
				for _, b := range pair7 {
					args := []string{a, b}
					switch op {
					case "ash", "expt":
						args[1] = map[string]string{"0": "0", "-1": "1", "7": "7", "9223372036854775807": "64", "-9223372036854775809": "3", "1/2": "2", "-7/3": "5"}[b]
						if op == "ash" && strings.Contains(a, "/") {
							continue
						}
					case "logbitp":
						args[0] = map[string]string{"0": "0", "-1": "1", "7": "7", "9223372036854775807": "64", "-9223372036854775809": "63", "1/2": "2", "-7/3": "65"}[a]
					}
					if clear(op, args) {
						add(Case{Op: op, Args: args, Route: rt})
					}
				}
			}
		}
	}
	for _, op := range []string{"+", "*", "-", "max", "min", "gcd", "lcm", "logand", "logior", "logxor", "=", "<", "/="} {
		for _, rt := range routes {
			if rt == "reduce" && !reducible(op) {
				continue
			}
			for _, a := range nary5 {
				for _, b := range nary5 {
					for _, c := range nary5 {
						if clear(op, []string{a, b, c}) {
							add(Case{Op: op, Args: []string{a, b, c}, Route: rt})
						}
					}
				}
			}
		}
	}
	for _, op := range []string{"incf", "decf"} {
		for _, pl := range places {
			for _, a := range pair12 {
				for _, b := range pair12 {
					if clear(op, []string{a, b}) {
						add(Case{Op: op, Args: []string{a, b}, Place: pl})
					}
				}
			}
		}
	}

	// E8 expt with an exponent beyond a machine word (the exact result is an
	// object only for the bases 0, 1, -1)
	for _, b := range []string{"0", "1", "-1"} {
		for _, e := range []string{"9223372036854775808", "9223372036854775809", "18446744073709551616", "18446744073709551617", "-9223372036854775809", "-9223372036854775810",
			"1606938044258990275541962092341162602522202993782792835301376", "1606938044258990275541962092341162602522202993782792835301377"} {
			add(Case{Op: "expt", Args: []string{b, e}})
		}
	}

	// E9 operators that must fail on a non-number operand, in every position
	for _, op := range append(append(append([]string{}, binOps...), intBin...), "ash", "expt", "logbitp") {
		if op == "incf" || op == "decf" {
			for _, pl := range places {
				add(Case{Op: op, Args: []string{"7", ":k"}, Place: pl})
				add(Case{Op: op, Args: []string{"18446744073709551617", ":k"}, Place: pl})
			}
			continue
		}
		for _, v := range []string{"7", "18446744073709551617", "1/2"} {
			if intOnly(op) && strings.Contains(v, "/") {
				continue
			}
			add(Case{Op: op, Args: []string{v, ":k"}})
			add(Case{Op: op, Args: []string{":k", v}})
			if op != "ash" && op != "expt" && op != "logbitp" && op != "mod" && op != "rem" && op != "floor" && op != "ceiling" && op != "truncate" && op != "round" &&
				op != "lognand" && op != "lognor" && op != "logandc1" && op != "logandc2" && op != "logorc1" && op != "logorc2" && op != "logtest" {
				add(Case{Op: op, Args: []string{v, v, ":k"}})
			}
		}
	}
	for _, op := range unOps {
		add(Case{Op: op, Args: []string{":k"}})
	}

	// E11 one application form evaluated repeatedly over operand pairs of
	// different kinds (dolist), incf/decf carried through the iterations
	for _, op := range binAll {
		if op == "incf" || op == "decf" {
			for si, st := range pair12 {
				var ds []string
				for k := 0; k < 9; k++ {
					d := pair12[(si*5+k*7)%len(pair12)]
					q, _ := parseLit(st)
					for _, e := range ds {
						w, _ := parseLit(e)
						if op == "incf" {
							q = new(big.Rat).Add(q, w)
						} else {
							q = new(big.Rat).Sub(q, w)
						}
					}
					if clear(op, []string{q.RatString(), d}) {
						ds = append(ds, d)
					}
				}
				if 2 <= len(ds) {
					add(Case{Op: op, Args: append([]string{st}, ds...), Route: "dolist"})
				}
			}
			continue
		}
		var flat []string
		for i, a := range pair7 {
			for j := range pair7 {
				b := pair7[(i+j*3)%len(pair7)]
				args := []string{a, b}
				switch op {
				case "ash", "expt":
					args[1] = strconv.Itoa((i*3 + j*5) % 9)
				case "logbitp":
					args[0] = strconv.Itoa((i*13 + j*5) % 70)
				}
				if !clear(op, args) {
					continue
				}
				if e := oracle(Case{Op: op}, litVals(args), []string{classOfExact(litVals(args)[0]), classOfExact(litVals(args)[1])}); e.any || e.err {
					continue
				}
				flat = append(flat, args...)
				if len(flat) == 14 {
					add(Case{Op: op, Args: flat, Route: "dolist"})
					flat = nil
				}
			}
		}
		if 4 <= len(flat) {
			add(Case{Op: op, Args: flat, Route: "dolist"})
		}
	}

	// E12 sign predicates on every float neighbour of the grid and on the
	// negative zeros; all six comparisons at once on every grid pair
	for _, op := range []string{"zerop", "plusp", "minusp"} {
		for _, g := range grid {
			for v := 0; v < 9; v++ {
				add(Case{Op: op, Args: []string{floatVariant(g, v)}})
			}
		}
		for _, z := range []string{"-0f0", "-0d0", "-0.0L0", "0f0", "0d0", "0.0L0"} {
			add(Case{Op: op, Args: []string{z}})
		}
	}
	for _, a := range grid {
		for _, b := range grid {
			add(Case{Op: "compare", Args: []string{a.String(), b.String()}})
		}
		for _, z := range []string{"-0f0", "-0d0", "-0.0L0"} {
			add(Case{Op: "compare", Args: []string{a.String(), z}})
		}
	}

	// E10 deterministic histories
	out = append(out, fixedProgs()...)

	extraCases = out
	return out
}

// fixedProgs: histories every seed runs.
func fixedProgs() []Case {
	var out []Case
	v := func(k int) string { return "v" + strconv.Itoa(k) }
	// (a) a variable walked across the fixnum/bignum boundary and back by
	// incf/decf, with every other variable re-read after every step
	starts := []string{"9223372036854775805", "-9223372036854775806", "4611686018427387904", "0", "18446744073709551614", "-18446744073709551618", "9223372036854775805/2", "1/3"}
	deltas := []string{"1", "2", "-1", "4611686018427387904", "9223372036854775807", "-9223372036854775808", "9223372036854775808", "1/2", "-3/2"}
	for _, s := range starts {
		for _, d := range deltas {
			g := newProgGen(nil, []string{s, d, s})
			ok := true
			for i := 0; ok && i < 5; i++ {
				ok = g.add(Step{Op: "incf", Args: []string{v(0), v(1)}}, false)
			}
			ok = ok && g.add(Step{Op: "=", Args: []string{v(2), s}}, false)
			for i := 0; ok && i < 5; i++ {
				ok = g.add(Step{Op: "decf", Args: []string{v(0), v(1)}}, false)
			}
			ok = ok && g.add(Step{Op: "=", Args: []string{v(0), v(2)}}, false)
			for i := 0; ok && i < 3; i++ {
				ok = g.add(Step{Op: "decf", Args: []string{v(0)}}, false) && g.add(Step{Op: "incf", Args: []string{v(2)}}, false)
			}
			ok = ok && g.add(Step{Op: "-", Args: []string{v(2), v(0)}}, false)
			if 4 <= len(g.c.Steps) {
				out = append(out, g.c)
			}
		}
	}
	// (b) a product grown past 2^64 and divided back down to 1; a sum grown
	// by doubling and halved again; a value shifted out and back
	for _, base := range []string{"1", "-1", "3", "4294967296", "2/3"} {
		g := newProgGen(nil, []string{base})
		last := 0
		var fs []string
		for k := 2; k <= 28; k++ {
			f := strconv.Itoa(k)
			if k%5 == 0 {
				f = "-" + f
			}
			if k%7 == 0 && base != "2/3" {
				f = plus(pow2(uint(20+k)), 1).String()
			}
			if !g.add(Step{Op: "*", Args: []string{v(last), f}}, false) {
				break
			}
			fs = append(fs, f)
			last = len(g.model) - 1
		}
		for i := len(fs) - 1; 0 <= i; i-- {
			if !g.add(Step{Op: "/", Args: []string{v(last), fs[i]}}, false) {
				break
			}
			last = len(g.model) - 1
		}
		g.add(Step{Op: "=", Args: []string{v(last), v(0)}}, false)
		out = append(out, g.c)
	}
	for _, base := range []string{"1", "-3", "4611686018427387903", "-4611686018427387905"} {
		g := newProgGen(nil, []string{base})
		last := 0
		for k := 0; k < 12; k++ {
			if !g.add(Step{Op: "+", Args: []string{v(last), v(last)}}, false) {
				break
			}
			last = len(g.model) - 1
		}
		for k := 0; k < 12; k++ {
			if !g.add(Step{Op: "/", Args: []string{v(last), "2"}}, false) {
				break
			}
			last = len(g.model) - 1
		}
		g.add(Step{Op: "=", Args: []string{v(last), v(0)}}, false)
		for _, sh := range []int{1, 31, 32, 62, 63, 64, 65, 130} {
			if g.add(Step{Op: "ash", Args: []string{v(0), strconv.Itoa(sh)}}, false) {
				up := len(g.model) - 1
				g.add(Step{Op: "ash", Args: []string{v(up), strconv.Itoa(-sh)}}, false)
				g.add(Step{Op: "=", Args: []string{v(len(g.model) - 1), v(0)}}, false)
			}
		}
		out = append(out, g.c)
	}
	// (c) a failed step between uses of the same variables
	type fail struct {
		op   string
		args []string
	}
	fails := []fail{{"/", []string{"v0", "0"}}, {"floor", []string{"v0", "0"}}, {"mod", []string{"v1", "0"}}, {"rem", []string{"v0", "0"}}, {"round", []string{"v1", "0"}},
		{"+", []string{"v0", "v1", ":k"}}, {"*", []string{"v0", "v1", ":k"}}, {"-", []string{"v0", "v1", ":k"}}, {"/", []string{"v0", "v1", "0"}}, {"max", []string{"v0", "v1", ":k"}},
		{"incf", []string{"v0", ":k"}}, {"decf", []string{"v1", ":k"}}, {"logand", []string{"5", ":k"}}, {"gcd", []string{"5", ":k"}}, {"isqrt", []string{"-4"}}, {"expt", []string{"0", "-1"}},
		{"abs", []string{":k"}}, {"1+", []string{":k"}}}
	for _, a := range pair12 {
		for _, b := range []string{"3", "-9223372036854775808", "18446744073709551617", "-5/2"} {
			for _, f := range fails {
				g := newProgGen(nil, []string{a, b})
				g.add(Step{Op: "*", Args: []string{v(0), v(1)}}, false)
				g.add(Step{Op: "max", Args: []string{v(0), v(1)}}, false)
				if !g.add(Step{Op: f.op, Args: f.args}, true) {
					continue
				}
				g.add(Step{Op: "*", Args: []string{v(0), v(1)}}, false)
				g.add(Step{Op: "+", Args: []string{v(0), v(1)}}, false)
				g.add(Step{Op: "incf", Args: []string{v(0), v(1)}}, false)
				g.add(Step{Op: "decf", Args: []string{v(0), v(1)}}, false)
				g.add(Step{Op: "=", Args: []string{v(0), a}}, false)
				out = append(out, g.c)
			}
		}
	}
	// (d) results that may share storage with an operand (min, max, abs,
	// identity sums and products, ash by 0) followed by an in-place update
	for _, a := range []string{"18446744073709551617", "-18446744073709551617", "9223372036854775807", "5/2", "-9223372036854775809/2"} {
		for _, mk := range []Step{{Op: "max", Args: []string{"v0", "v0"}}, {Op: "min", Args: []string{"v0", "v1"}}, {Op: "max", Args: []string{"v1", "v0"}}, {Op: "abs", Args: []string{"v0"}},
			{Op: "+", Args: []string{"v0"}}, {Op: "+", Args: []string{"v0", "0"}}, {Op: "*", Args: []string{"v0", "1"}}, {Op: "*", Args: []string{"v0"}}, {Op: "-", Args: []string{"v0", "0"}},
			{Op: "/", Args: []string{"v0", "1"}}, {Op: "ash", Args: []string{"v0", "0"}}, {Op: "logior", Args: []string{"v0", "0"}}, {Op: "logand", Args: []string{"v0", "-1"}},
			{Op: "logxor", Args: []string{"v0"}}, {Op: "gcd", Args: []string{"v0", "0"}}, {Op: "lcm", Args: []string{"v0", "1"}}, {Op: "numerator", Args: []string{"v0"}},
			{Op: "floor", Args: []string{"v0", "1"}}, {Op: "truncate", Args: []string{"v0"}}, {Op: "expt", Args: []string{"v0", "1"}}, {Op: "incf", Args: []string{"v0", "0"}}} {
			g := newProgGen(nil, []string{a, a})
			if !g.add(mk, false) {
				continue
			}
			nv := len(g.model) - 1
			for _, d := range []string{"1", "-1", "18446744073709551616"} {
				g.add(Step{Op: "incf", Args: []string{v(nv), d}}, false)
				g.add(Step{Op: "decf", Args: []string{v(0), d}}, false)
				g.add(Step{Op: "incf", Args: []string{v(0), d}}, false)
			}
			g.add(Step{Op: "=", Args: []string{v(0), v(1)}}, false)
			out = append(out, g.c)
		}
	}
	return out
}

// genExtra draws a seeded case of one of the extra kinds.
func genExtra(r *rand.Rand, k int) Case {
	switch k {
	case 0: // the same variable twice
		for try := 0; try < 20; try++ {
			op := fw.Pick(r, append(append(append([]string{}, binOps...), intBin...), cmpOps...))
			a, b := randRat(r), randRat(r)
			use := fw.Pick(r, [][]int{{0, 0}, {0, 0}, {0, 1, 0}, {1, 0, 0}, {0, 0, 1}, {0, 1, 1}})
			switch op {
			case "lognand", "lognor", "logandc1", "logandc2", "logorc1", "logorc2", "logtest", "mod", "rem", "floor", "ceiling", "truncate", "round", "incf", "decf":
				use = []int{0, 0}
			}
			lits := []string{a, b}
			var ops []string
			for _, u := range use {
				ops = append(ops, lits[u])
			}
			if len(use) == 2 {
				lits = lits[:1]
			}
			if clear(op, ops) {
				return Case{Op: op, Args: lits, Use: use}
			}
		}
		a := randRat(r)
		return Case{Op: "compare", Args: []string{a}, Use: []int{0, 0}}
	case 1: // routes
		for try := 0; try < 20; try++ {
			op := fw.Pick(r, append(append(append([]string{}, binOps...), intBin...), cmpOps...))
			if op == "incf" || op == "decf" {
				continue
			}
			rt := fw.Pick(r, routes)
			if rt == "reduce" && !reducible(op) {
				rt = "apply"
			}
			n := 2
			if reducible(op) || op == "=" || op == "<" {
				n += r.IntN(3)
			}
			var args []string
			for i := 0; i < n; i++ {
				args = append(args, randRat(r))
			}
			if clear(op, args) {
				return Case{Op: op, Args: args, Route: rt}
			}
		}
		return Case{Op: "max", Args: []string{randRat(r), randRat(r)}, Route: "apply"}
	case 2: // incf/decf on places, with and without a delta
		for try := 0; try < 20; try++ {
			op := fw.Pick(r, []string{"incf", "decf"})
			args := []string{randRat(r)}
			if r.IntN(3) != 0 {
				args = append(args, randRat(r))
			}
			pl := fw.Pick(r, places)
			if pl == "gethash" && r.IntN(4) != 0 {
				pl = "aref"
			}
			if len(args) == 1 || clear(op, args) {
				return Case{Op: op, Args: args, Place: pl}
			}
		}
		return Case{Op: "incf", Args: []string{randRat(r)}}
	case 3: // ratio against a neighbouring float, integer or ratio
		n, d := randInt(r), randInt(r)
		d.Abs(d)
		if d.Cmp(big.NewInt(2)) < 0 {
			d.SetInt64(3)
		}
		q := new(big.Rat).SetFrac(n, d)
		a := q.RatString()
		var b string
		switch r.IntN(4) {
		case 0:
			b = new(big.Rat).SetFrac(plus(q.Num(), int64(r.IntN(3)-1)), q.Denom()).RatString()
		case 1:
			b = plus(new(big.Int).Div(q.Num(), q.Denom()), int64(r.IntN(2))).String()
		default:
			b = ratFloat(q, r.IntN(9))
			if strings.Contains(b, "Inf") {
				b = "1.5d0"
			}
		}
		if r.IntN(2) == 0 {
			a, b = b, a
		}
		if r.IntN(3) == 0 {
			return Case{Op: fw.Pick(r, []string{"min", "max"}), Args: []string{a, b}}
		}
		return Case{Op: "compare", Args: []string{a, b}}
	case 4: // one form evaluated repeatedly
		for try := 0; try < 10; try++ {
			op := fw.Pick(r, append(append(append([]string{}, binOps...), intBin...), cmpOps...))
			var flat []string
			if op == "incf" || op == "decf" {
				flat = []string{randRat(r)}
				cur, _ := parseLit(flat[0])
				for k := 0; k < 3+r.IntN(5); k++ {
					d := randRat(r)
					if !clear(op, []string{cur.RatString(), d}) {
						continue
					}
					w, _ := parseLit(d)
					if op == "incf" {
						cur = new(big.Rat).Add(cur, w)
					} else {
						cur = new(big.Rat).Sub(cur, w)
					}
					flat = append(flat, d)
				}
				if 2 <= len(flat) {
					return Case{Op: op, Args: flat, Route: "dolist"}
				}
				continue
			}
			for k := 0; k < 3+r.IntN(5); k++ {
				args := []string{randRat(r), randRat(r)}
				if !clear(op, args) {
					continue
				}
				vs := litVals(args)
				if e := oracle(Case{Op: op}, vs, []string{classOfExact(vs[0]), classOfExact(vs[1])}); e.any || e.err {
					continue
				}
				flat = append(flat, args...)
			}
			if 4 <= len(flat) {
				return Case{Op: op, Args: flat, Route: "dolist"}
			}
		}
	}
	// histories
	return genProg(r, 4+r.IntN(14))
}
