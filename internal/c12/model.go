package c12

import (
	"sort"
	"strconv"
	"strings"
)

// This file is the oracle: a model of the property statement. It does not
// import slip and was written from the statement, not from pkg/clos.
//
//   precedence(C) = C, then L(C), then standard-object, t
//   L(C)          = the direct superclasses of C in the order written,
//                   followed by L(s) of each of them in that order; a class
//                   already on the list is not repeated (first occurrence wins)
//   slot of C     = a slot name defined by any class of precedence(C)
//   initargs      = every initarg named by any definition of the slot on
//                   precedence(C)
//   initform      = the initform of the first class on precedence(C) whose
//                   definition of the slot has one
//   make-instance = leftmost supplied initarg of the slot, else the initform,
//                   else unbound

// Slot is one slot specifier of a defclass form.
type Slot struct {
	Name     string   `json:"n"`            // s0..s3
	Initargs []string `json:"ia,omitempty"` // keyword names without the colon
	Form     string   `json:"f,omitempty"`  // initform source text, "" = none
	Val      string   `json:"v,omitempty"`  // harness rendering of the initform's value
	Reader   bool     `json:"r,omitempty"`
	Writer   bool     `json:"w,omitempty"`
	Accessor bool     `json:"a,omitempty"`
	Type     string   `json:"ty,omitempty"`  // :type (the same for every definition of the slot name in a case)
	Shared   bool     `json:"cls,omitempty"` // :allocation :class; only the slot name k0, which is outside the universe
}

// Default is one entry of a class's :default-initargs.
type Default struct {
	Arg  string `json:"a"`
	Form string `json:"f"`
	Val  string `json:"v"`
}

// Class is one defclass form; Supers are indices into Case.Classes in the
// order written.
type Class struct {
	Supers   []int     `json:"sup"`
	Slots    []Slot    `json:"slots"`
	Defaults []Default `json:"dflt,omitempty"`
}

type model struct {
	classes []Class
	gen     []int  // generation of each class definition (0 = first, 1 = redefined): names of its accessors
	base    string // implicit base class: standard-object or condition
	// rootParent: built-in class that classes without a parent name explicitly (0 = none)
	rootParent int
}

func newModel(c *Case, classes []Class) *model {
	m := &model{classes: classes, gen: make([]int, len(classes)), base: "standard-object"}
	if c.Cond != "" {
		m.base = "condition"
	}
	if c.Cond == "error" {
		m.rootParent = idError
	}
	return m
}

// Built-in condition classes named explicitly as parents have negative ids.
const (
	idError   = -1
	idSerious = -2
	idCond    = -3
)

var builtinName = map[int]string{idError: "error", idSerious: "serious-condition", idCond: "condition"}

func (m *model) lin(c int) []int {
	switch c {
	case idError:
		return []int{idSerious, idCond}
	case idSerious:
		return []int{idCond}
	case idCond:
		return nil
	}
	if m.rootParent != 0 && len(m.classes[c].Supers) == 0 {
		return append([]int{m.rootParent}, m.lin(m.rootParent)...)
	}
	var out []int
	seen := map[int]bool{}
	add := func(k int) {
		if !seen[k] {
			seen[k] = true
			out = append(out, k)
		}
	}
	for _, s := range m.classes[c].Supers {
		add(s)
	}
	for _, s := range m.classes[c].Supers {
		for _, k := range m.lin(s) {
			add(k)
		}
	}
	return out
}

func (m *model) prec(c int) []int {
	return append([]int{c}, m.lin(c)...)
}

// precNames renders the precedence list: the classes, then the implicit base
// class unless it is already on the list, then t.
func (m *model) precNames(c int) string {
	var sb strings.Builder
	sb.WriteByte('(')
	hasBase := false
	for _, k := range m.prec(c) {
		if k < 0 {
			sb.WriteString(builtinName[k] + " ")
			if builtinName[k] == m.base {
				hasBase = true
			}
			continue
		}
		sb.WriteString("@c" + strconv.Itoa(k) + " ")
	}
	if !hasBase {
		sb.WriteString(m.base + " ")
	}
	sb.WriteString("t)")
	return sb.String()
}

// baseMidList tells whether the implicit base class is on the list of c
// before some other class (only possible with an explicit built-in parent).
func (m *model) baseMidList(c int) bool {
	p := m.prec(c)
	for i, k := range p {
		if k < 0 && builtinName[k] == m.base && i != len(p)-1 {
			return true
		}
	}
	return false
}

func (m *model) inherits(c, d int) bool {
	for _, k := range m.prec(c) {
		if k == d {
			return true
		}
	}
	return false
}

// ancestors of c that are defined in the set.
func (m *model) ready(c int, defined map[int]bool) bool {
	for _, k := range m.prec(c) {
		if 0 <= k && !defined[k] {
			return false
		}
	}
	return true
}

// effSlot is the effective slot of a class.
type effSlot struct {
	name     string
	initargs []string // sorted union
	hasForm  bool
	form     string
	val      string
	formFrom int // class the initform comes from
	levels   int // number of classes on the precedence list defining the slot
	nForms   int // number of those definitions that have an initform
	formAt   int // position (1 = most specific) among the defining classes of the one whose initform is used
	typ      string
	direct   bool // the class itself defines the slot
	// initform of the class's own definition ("" = none)
	directForm, directVal string
}

// sharedSlot describes the class-allocated slot k0 of class c. The most
// specific definition of k0 on the precedence list decides the allocation
// (ANSI 7.5.3): when it says :allocation :class the slot is shared and its
// class owns the location; when it is an ordinary definition k0 is a local
// slot of c even though a less specific class allocates it in the class (see
// localOverShared). hasForm: some definition has an initform; overLocal: a
// less specific class defines k0 as a local slot; initargs: those of every
// definition of k0 on the list.
func (m *model) sharedSlot(c int) (owner int, hasForm, exists bool) {
	owner, hasForm, exists, _, _ = m.sharedSlotX(c)
	return
}

func (m *model) sharedSlotX(c int) (owner int, hasForm, exists, overLocal bool, initargs []string) {
	owner = -1
	decided := false
	for _, k := range m.prec(c) {
		if k < 0 {
			continue
		}
		for _, sd := range m.classes[k].Slots {
			if sd.Name != sharedName {
				continue
			}
			if !decided {
				decided = true
				if !sd.Shared {
					return -1, false, false, false, nil
				}
				owner, exists = k, true
			} else if !sd.Shared {
				overLocal = true
			}
			if sd.Form != "" {
				hasForm = true
			}
			for _, ia := range sd.Initargs {
				dup := false
				for _, have := range initargs {
					dup = dup || have == ia
				}
				if !dup {
					initargs = append(initargs, ia)
				}
			}
		}
	}
	return
}

// sharedName is the only slot name that is ever class-allocated.
const sharedName = "k0"

// k0State tells how class c sees the slot k0: "" = no such slot, "shared",
// or "local" (its most specific definition is an ordinary one); underShared:
// it is local although a less specific class allocates it in the class.
func (m *model) k0State(c int) (state string, underShared bool) {
	for _, k := range m.prec(c) {
		if k < 0 {
			continue
		}
		for _, sd := range m.classes[k].Slots {
			if sd.Name != sharedName {
				continue
			}
			if state == "" {
				state = "local"
				if sd.Shared {
					return "shared", false
				}
			} else if sd.Shared {
				underShared = true
			}
		}
	}
	return
}

// defaults lists the effective default initargs of c: for every initarg the
// entry of the most specific class naming it, in precedence order.
func (m *model) defaults(c int) (out []Default, from []int) {
	seen := map[string]bool{}
	for _, k := range m.prec(c) {
		if k < 0 {
			continue
		}
		for _, d := range m.classes[k].Defaults {
			if !seen[d.Arg] {
				seen[d.Arg] = true
				out = append(out, d)
				from = append(from, k)
			}
		}
	}
	return
}

func (m *model) slots(c int) []effSlot {
	byName := map[string]*effSlot{}
	alloc := map[string]bool{}
	var order []string
	for _, k := range m.prec(c) {
		if k < 0 {
			continue
		}
		for _, sd := range m.classes[k].Slots {
			if _, seen := alloc[sd.Name]; !seen {
				alloc[sd.Name] = sd.Shared // the most specific definition decides the allocation
			}
			if alloc[sd.Name] {
				continue // class-allocated slots are modelled by sharedSlot
			}
			es := byName[sd.Name]
			if es == nil {
				es = &effSlot{name: sd.Name, formFrom: -1}
				byName[sd.Name] = es
				order = append(order, sd.Name)
			}
			es.levels++
			for _, ia := range sd.Initargs {
				dup := false
				for _, have := range es.initargs {
					if have == ia {
						dup = true
					}
				}
				if !dup {
					es.initargs = append(es.initargs, ia)
				}
			}
			if sd.Form != "" {
				es.nForms++
			}
			if !es.hasForm && sd.Form != "" {
				es.hasForm, es.form, es.val, es.formFrom, es.formAt = true, sd.Form, sd.Val, k, es.levels
			}
			if sd.Type != "" {
				es.typ = sd.Type
			}
			if k == c {
				es.direct = true
				es.directForm, es.directVal = sd.Form, sd.Val
			}
		}
	}
	sort.Strings(order)
	out := make([]effSlot, 0, len(order))
	for _, n := range order {
		sort.Strings(byName[n].initargs)
		out = append(out, *byName[n])
	}
	return out
}

// initargs valid for class c, sorted.
func (m *model) initargs(c int) []string {
	set := map[string]bool{}
	for _, es := range m.slots(c) {
		for _, ia := range es.initargs {
			set[ia] = true
		}
	}
	var out []string
	for ia := range set {
		out = append(out, ia)
	}
	sort.Strings(out)
	return out
}

const (
	unbound = "unb" // rendering of "slot exists and is unbound"
	missing = "mis" // rendering of "no such slot"
)

// argVal is the value passed with initarg ia.
func argVal(ia string, all []string) string {
	for k, a := range all {
		if a == ia {
			return strconv.Itoa(9000 + k)
		}
	}
	return "9999"
}

// instance gives, for every slot name of the universe, the expected state of
// a fresh instance of c made with the initargs args (in call order), plus
// the features of that call that select a listed finding.
func (m *model) instance(c int, args []string, universe []string, allArgs []string) (state map[string]string, feats []string) {
	state, feats, _ = m.instanceX(c, args, universe, allArgs)
	return
}

// instanceX also tells, per slot name, where the value comes from (monitor
// counters: which clause of the statement the observation exercises).
func (m *model) instanceX(c int, args []string, universe []string, allArgs []string) (state map[string]string, feats []string, src map[string]string) {
	src = map[string]string{}
	state = map[string]string{}
	for _, n := range universe {
		state[n] = missing
	}
	fs := map[string]bool{}
	slots := m.slots(c)
	// the defaulted initarg list: explicit initargs, then every effective
	// default initarg that was not supplied explicitly (7.1.3)
	type supplied struct {
		arg, val string
		explicit bool
	}
	var list []supplied
	given := map[string]bool{}
	for _, a := range args {
		list = append(list, supplied{a, argVal(a, allArgs), true})
		given[a] = true
	}
	dfl, from := m.defaults(c)
	for k, d := range dfl {
		if !given[d.Arg] {
			list = append(list, supplied{d.Arg, d.Val, false})
			if from[k] != c {
				fs[featInheritedDefault] = true
			}
		}
	}
	for _, es := range slots {
		state[es.name] = unbound
		n, explicit := 0, 0
		for _, a := range list { // leftmost supplied initarg of the slot
			for _, ia := range es.initargs {
				if ia == a.arg {
					if n == 0 {
						state[es.name] = a.val
						switch {
						case !a.explicit:
							src[es.name] = "default-initarg"
						case es.hasForm:
							src[es.name] = "initarg-over-initform"
						default:
							src[es.name] = "initarg"
						}
					}
					n++
					if a.explicit {
						explicit++
					}
				}
			}
		}
		if 1 < explicit {
			fs["two-initargs-one-slot"] = true
		}
		switch {
		case n == 0 && es.hasForm:
			state[es.name] = es.val
			switch {
			case es.formFrom == c:
				src[es.name] = "initform-own"
			case es.formAt == 1:
				src[es.name] = "initform-inherited"
			default:
				src[es.name] = "initform-inherited-through-" + strconv.Itoa(es.formAt-1) + "-definitions-without"
			}
			if 1 < es.nForms {
				src[es.name] += "+hides-" + strconv.Itoa(es.nForms-1)
			}
		case n == 0:
			src[es.name] = "unbound"
		case 1 < n:
			src[es.name] += "+leftmost-of-" + strconv.Itoa(n)
		}
	}
	for _, a := range list {
		n := 0
		for _, es := range slots {
			for _, ia := range es.initargs {
				if ia == a.arg {
					n++
				}
			}
		}
		if 1 < n {
			fs["shared-initarg"] = true
		}
	}
	for f := range fs {
		feats = append(feats, f)
	}
	sort.Strings(feats)
	return
}

// constructs with a listed finding that the model can recognise
const (
	// a default initarg of a superclass is in force
	featInheritedDefault = "inherited-default-initarg"
	// the class-allocated slot is owned by a superclass
	featSharedInherited = "class-slot-inherited"
	// a class-allocated slot with an initform while another instance is made
	featSharedReset = "class-slot-reset-by-make-instance"
	// a reader or accessor applied to an instance whose slot is unbound
	featReaderUnbound = "reader-of-unbound-slot"
	// change-class to a class that inherits slots
	featChangeInherited = "change-class-inherited-slots"
	// change-class where a new slot must be initialised from an initform that needs evaluation or is inherited
	featChangeInitform = "change-class-new-slot-initform"
)

// selfEvaluating tells whether an initform's source is its own value.
func selfEvaluating(form string) bool {
	if form == "" || form == "nil" {
		return true
	}
	if form[0] == '"' {
		return true
	}
	_, err := strconv.Atoi(form)
	return err == nil
}

// changed gives the expected slot state after (change-class i y) of an
// instance of x in state before: slots of y that x also has keep their value
// or unboundness, new slots get y's initform or stay unbound, others vanish.
func (m *model) changed(x, y int, before map[string]string, universe []string) (state map[string]string, feats []string) {
	state = map[string]string{}
	for _, n := range universe {
		state[n] = missing
	}
	fs := map[string]bool{}
	for _, es := range m.slots(y) {
		if !es.direct {
			fs[featChangeInherited] = true
		}
		if before[es.name] != missing && before[es.name] != "" {
			state[es.name] = before[es.name]
			continue
		}
		state[es.name] = unbound
		if es.hasForm {
			state[es.name] = es.val
		}
		if es.direct && (es.directForm != es.form || !selfEvaluating(es.form)) {
			fs[featChangeInitform] = true
		}
	}
	for f := range fs {
		feats = append(feats, f)
	}
	sort.Strings(feats)
	return
}

// accessor names; gen distinguishes the accessors of a redefinition.
func accName(kind string, class, gen int, slot string) string {
	g := strings.Repeat("n", gen)
	return "@" + kind + g + "-c" + strconv.Itoa(class) + "-" + slot
}

type accessor struct {
	name  string
	kind  string // r w a
	class int
	slot  string
}

// accessors defined by class k.
func (m *model) accessorsOf(k int) []accessor {
	var out []accessor
	for _, sd := range m.classes[k].Slots {
		if sd.Reader {
			out = append(out, accessor{accName("r", k, m.gen[k], sd.Name), "r", k, sd.Name})
		}
		if sd.Writer {
			out = append(out, accessor{accName("w", k, m.gen[k], sd.Name), "w", k, sd.Name})
		}
		if sd.Accessor {
			out = append(out, accessor{accName("a", k, m.gen[k], sd.Name), "a", k, sd.Name})
		}
	}
	return out
}
