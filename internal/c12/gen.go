package c12

import (
	"fmt"
	"math/rand/v2"
	"strconv"
)

// Redef is the optional redefinition of one class.
type Redef struct {
	Class int   `json:"class"`
	Def   Class `json:"def"`
	// Skew places the redefinition in the sequence of forms: -1 = after all
	// defclass forms (the observations are made before and after it);
	// k >= 0 = k forms after the first definition of the class (clipped), so
	// it can come before some of the other classes exist.
	Skew int `json:"skew"`
}

// Case is one class DAG with everything that is done to it.
type Case struct {
	Note     string   `json:"note,omitempty"`
	Classes  []Class  `json:"classes"`
	Universe []string `json:"universe"` // slot names observed on every instance
	Redef    *Redef   `json:"redef,omitempty"`
	Meth     []int    `json:"meth"`            // classes the probe generics are specialised on
	MethTop  bool     `json:"methtop"`         // plus a method on t
	Meth2    [][2]int `json:"meth2,omitempty"` // class pairs the two-argument probe generic is specialised on
	Perms    []string `json:"perms,omitempty"` // definition orders ("30142"); empty = every permutation
	MaxArgs  int      `json:"maxargs"`         // cap on initargs enumerated per class (subsets = 2^MaxArgs)
	// Cond: the classes are condition classes (define-condition / make-condition);
	// "condition" = root classes name no parent, "error" = root classes name error.
	Cond string `json:"cond,omitempty"`
	// Redef2: a second redefinition (of the same or of another class) after the
	// observations that follow the first one; only with Redef.Skew < 0.
	Redef2 *Redef `json:"redef2,omitempty"`
	// Failed: malformed redefinitions of every class and a make-instance with an
	// unknown initarg are evaluated before every observation phase; they must
	// signal an error and leave no trace.
	Failed bool `json:"failed,omitempty"`
	// Twice: one initarg per class is also supplied twice (the leftmost value counts).
	Twice bool `json:"twice,omitempty"`
}

// allPerms lists the permutations of 0..n-1 in lexicographic order.
func allPerms(n int) [][]int {
	var out [][]int
	cur := make([]int, 0, n)
	used := make([]bool, n)
	var rec func()
	rec = func() {
		if len(cur) == n {
			out = append(out, append([]int{}, cur...))
			return
		}
		for k := 0; k < n; k++ {
			if !used[k] {
				used[k] = true
				cur = append(cur, k)
				rec()
				cur = cur[:len(cur)-1]
				used[k] = false
			}
		}
	}
	rec()
	return out
}

func permString(p []int) string {
	s := ""
	for _, k := range p {
		s += strconv.Itoa(k)
	}
	return s
}

func parsePerm(s string) []int {
	p := make([]int, len(s))
	for i := range s {
		p[i] = int(s[i] - '0')
	}
	return p
}

// form kinds for initforms: (source, rendering of the value)
func initform(r *rand.Rand, class, slot, gen int, dirtyNil bool) (string, string) {
	base := 100*(class+1) + 10*slot + 5*gen
	if dirtyNil {
		return "nil", "nil"
	}
	switch r.IntN(9) {
	case 8:
		return "nil", "nil"
	case 0:
		return fmt.Sprintf("(+ %d 1)", base), strconv.Itoa(base + 1)
	case 1:
		return fmt.Sprintf("'q%d", base), fmt.Sprintf("q%d", base)
	case 2:
		return fmt.Sprintf("\"t%d\"", base), fmt.Sprintf("\"t%d\"", base)
	case 3:
		return fmt.Sprintf("(list %d 'x)", base), fmt.Sprintf("(%d x)", base)
	}
	return strconv.Itoa(base), strconv.Itoa(base)
}

type genOpts struct {
	n         int
	sharedArg bool // an initarg named by two different slots (listed finding)
	nilForm   bool // force an :initform nil somewhere (also drawn as an ordinary initform kind)
	twoArgs   bool // a slot with two initargs, so that both can be supplied (listed finding)
	redef     bool
	redefMid  bool
	types     bool // one slot name carries a :type
	defaults  bool // :default-initargs (inherited ones have a listed finding)
	shared    bool // a class-allocated slot (inheriting it has a listed finding)
	redef2    bool // a second redefinition after the first (only when the first comes last)
	failed    bool // failing forms before every observation phase
	twice     bool // an initarg supplied twice (listed finding)
	mixedK0   bool // with shared: another class defines k0 as a local slot
	k0arg     bool // with shared: the class-allocated slot has an initarg
}

func genSlots(r *rand.Rand, class, gen int, nslots int, second map[int]bool) []Slot {
	var out []Slot
	for s := 0; s < nslots; s++ {
		if r.IntN(100) >= 50 {
			continue
		}
		sd := Slot{Name: "s" + strconv.Itoa(s)}
		if r.IntN(100) < 60 {
			sd.Initargs = append(sd.Initargs, "i"+strconv.Itoa(s))
		}
		if second[s] && r.IntN(100) < 60 {
			sd.Initargs = append(sd.Initargs, "j"+strconv.Itoa(s))
		}
		if r.IntN(100) < 55 {
			sd.Form, sd.Val = initform(r, class, s, gen, false)
		}
		sd.Reader = r.IntN(100) < 30
		sd.Writer = r.IntN(100) < 25
		sd.Accessor = r.IntN(100) < 30
		out = append(out, sd)
	}
	return out
}

// genDAG draws a class DAG. Classes are first laid out in a hidden
// topological order (a class only names classes after it), then relabelled
// at random so that names and definition order carry no information.
func genDAG(r *rand.Rand, o genOpts) Case {
	n := o.n
	nslots := 2 + r.IntN(3) // 2..4 slot names shared by all classes => shadowing
	second := map[int]bool{}
	if o.twoArgs {
		second[r.IntN(nslots)] = true
	}
	label := r.Perm(n)
	classes := make([]Class, n)
	for j := 0; j < n; j++ {
		var cl Class
		avail := n - 1 - j
		k := 0
		if 0 < avail {
			k = []int{0, 1, 1, 1, 2, 2, 2, 3}[r.IntN(8)]
			if avail < k {
				k = avail
			}
		}
		pick := r.Perm(avail)
		for _, p := range pick[:k] {
			cl.Supers = append(cl.Supers, label[j+1+p])
		}
		cl.Slots = genSlots(r, label[j], 0, nslots, second)
		classes[label[j]] = cl
	}
	// at least two levels of shadowing somewhere: make sure the first slot
	// name is defined by the most specific class and by one of its ancestors
	c := Case{Classes: classes, MaxArgs: 5}
	for s := 0; s < nslots; s++ {
		c.Universe = append(c.Universe, "s"+strconv.Itoa(s))
	}
	c.Universe = append(c.Universe, "zz") // never defined
	if o.sharedArg {
		// some slot definition names the initarg of another slot too
		k := r.IntN(n)
		if len(c.Classes[k].Slots) == 0 {
			c.Classes[k].Slots = []Slot{{Name: "s0"}}
		}
		sd := &c.Classes[k].Slots[r.IntN(len(c.Classes[k].Slots))]
		other := "i" + strconv.Itoa((int(sd.Name[1]-'0')+1)%nslots)
		sd.Initargs = append(sd.Initargs, other)
		// and make sure the other slot exists with that initarg in the same class
		found := false
		for q := range c.Classes[k].Slots {
			if c.Classes[k].Slots[q].Name == "s"+other[1:] {
				found = true
				has := false
				for _, ia := range c.Classes[k].Slots[q].Initargs {
					if ia == other {
						has = true
					}
				}
				if !has {
					c.Classes[k].Slots[q].Initargs = append(c.Classes[k].Slots[q].Initargs, other)
				}
			}
		}
		if !found {
			c.Classes[k].Slots = append(c.Classes[k].Slots, Slot{Name: "s" + other[1:], Initargs: []string{other}})
		}
	}
	if o.nilForm {
		k := r.IntN(n)
		if len(c.Classes[k].Slots) == 0 {
			c.Classes[k].Slots = []Slot{{Name: "s0", Initargs: []string{"i0"}}}
		}
		sd := &c.Classes[k].Slots[r.IntN(len(c.Classes[k].Slots))]
		sd.Form, sd.Val = "nil", "nil"
	}
	// probe generic: methods on a random subset
	for k := 0; k < n; k++ {
		if r.IntN(100) < 55 {
			c.Meth = append(c.Meth, k)
		}
	}
	c.MethTop = r.IntN(100) < 25
	if o.redef {
		// hidden rank of each label
		rank := make([]int, n)
		for j, l := range label {
			rank[l] = j
		}
		j := r.IntN(n)
		if r.IntN(100) < 60 { // prefer a class that has subclasses: not the most specific one
			j = 1 + r.IntN(n-1)
		}
		k := label[j]
		var def Class
		avail := n - 1 - j
		switch r.IntN(3) {
		case 0: // same supers
			def.Supers = append(def.Supers, c.Classes[k].Supers...)
		case 1: // same supers, other order
			def.Supers = append(def.Supers, c.Classes[k].Supers...)
			r.Shuffle(len(def.Supers), func(a, b int) { def.Supers[a], def.Supers[b] = def.Supers[b], def.Supers[a] })
		default: // new supers
			cnt := 0
			if 0 < avail {
				cnt = r.IntN(min(avail, 2) + 1)
			}
			for _, p := range r.Perm(avail)[:cnt] {
				def.Supers = append(def.Supers, label[j+1+p])
			}
		}
		def.Slots = genSlots(r, k, 1, nslots, second)
		if r.IntN(100) < 30 { // keep the slots, change only what they say
			def.Slots = nil
			for _, sd := range c.Classes[k].Slots {
				nd := Slot{Name: sd.Name, Initargs: append([]string{}, sd.Initargs...), Reader: sd.Reader, Accessor: sd.Accessor, Writer: sd.Writer}
				if r.IntN(100) < 70 {
					nd.Form, nd.Val = initform(r, k, int(sd.Name[1]-'0'), 1, false)
				}
				def.Slots = append(def.Slots, nd)
			}
		}
		if def.Supers == nil {
			def.Supers = []int{}
		}
		if def.Slots == nil {
			def.Slots = []Slot{}
		}
		c.Redef = &Redef{Class: k, Def: def, Skew: -1}
		if o.redefMid {
			c.Redef.Skew = r.IntN(n)
		}
	}
	backToFirst := false
	if o.redef2 && c.Redef != nil && c.Redef.Skew < 0 {
		// the supers of the second definition are a reordered subset of the
		// supers the class has at that time, so that the DAG stays acyclic
		cur := append([]Class{}, c.Classes...)
		cur[c.Redef.Class] = c.Redef.Def
		k := c.Redef.Class
		what := r.IntN(10)
		if 6 <= what {
			k = r.IntN(n)
		}
		var def Class
		if what < 3 {
			backToFirst = true // filled in below, once the first definition is complete
		} else {
			def.Supers = append([]int{}, cur[k].Supers...)
			r.Shuffle(len(def.Supers), func(a, b int) { def.Supers[a], def.Supers[b] = def.Supers[b], def.Supers[a] })
			if 0 < len(def.Supers) && r.IntN(3) == 0 {
				def.Supers = def.Supers[1:]
			}
			def.Slots = genSlots(r, k, 2, nslots, second)
		}
		if def.Supers == nil {
			def.Supers = []int{}
		}
		if def.Slots == nil {
			def.Slots = []Slot{}
		}
		c.Redef2 = &Redef{Class: k, Def: def, Skew: -1}
	}
	c.Failed, c.Twice = o.failed, o.twice
	if backToFirst {
		c.Redef2 = nil
	}
	decorate(r, &c, o, nslots)
	if backToFirst {
		first := c.Classes[c.Redef.Class]
		c.Redef2 = &Redef{Class: c.Redef.Class, Skew: -1, Def: Class{Supers: append([]int{}, first.Supers...),
			Slots: append([]Slot{}, first.Slots...), Defaults: append([]Default(nil), first.Defaults...)}}
	}
	for k := range c.Classes {
		if c.Classes[k].Supers == nil {
			c.Classes[k].Supers = []int{}
		}
		if c.Classes[k].Slots == nil {
			c.Classes[k].Slots = []Slot{}
		}
	}
	return c
}

// decorate adds :type, :default-initargs, the class-allocated slot k0 and the
// two-argument probe generic to a drawn case.
func decorate(r *rand.Rand, c *Case, o genOpts, nslots int) {
	n := len(c.Classes)
	defs := make([]*Class, 0, n+1) // every defclass form of the case
	gens := make([]int, 0, n+1)
	ids := make([]int, 0, n+1)
	for k := range c.Classes {
		defs, gens, ids = append(defs, &c.Classes[k]), append(gens, 0), append(ids, k)
	}
	if c.Redef != nil {
		defs, gens, ids = append(defs, &c.Redef.Def), append(gens, 1), append(ids, c.Redef.Class)
	}
	if c.Redef2 != nil {
		defs, gens, ids = append(defs, &c.Redef2.Def), append(gens, 2), append(ids, c.Redef2.Class)
	}
	if o.types {
		// one slot name is typed, the same way in every definition; its
		// initforms are integers so that every legal initialisation passes
		t := r.IntN(nslots)
		typ := []string{"fixnum", "integer", "number"}[r.IntN(3)]
		for q, d := range defs {
			for k := range d.Slots {
				sd := &d.Slots[k]
				if sd.Name != "s"+strconv.Itoa(t) {
					continue
				}
				sd.Type = typ
				if sd.Form != "" {
					v := 100*(ids[q]+1) + 10*t + 5*gens[q]
					sd.Form, sd.Val = strconv.Itoa(v), strconv.Itoa(v)
				}
			}
		}
	}
	if o.defaults {
		for q, d := range defs {
			if r.IntN(100) < 45 {
				continue
			}
			var cand []string
			for _, sd := range d.Slots {
				if !sd.Shared && 0 < len(sd.Initargs) {
					cand = append(cand, sd.Initargs[0])
				}
			}
			if len(cand) == 0 {
				continue
			}
			v := 8000 + 100*gens[q] + 10*ids[q] + len(d.Defaults)
			df := Default{Arg: cand[r.IntN(len(cand))], Form: strconv.Itoa(v), Val: strconv.Itoa(v)}
			if r.IntN(4) == 0 {
				df.Form = fmt.Sprintf("(+ %d 1)", v-1)
			}
			d.Defaults = append(d.Defaults, df)
		}
	}
	if o.shared {
		a := r.IntN(n)
		sd := Slot{Name: "k0", Shared: true}
		if r.IntN(100) < 60 {
			sd.Form, sd.Val = strconv.Itoa(50+a), strconv.Itoa(50+a)
		}
		c.Classes[a].Slots = append(c.Classes[a].Slots, sd)
		b := r.IntN(n)
		if b != a && r.IntN(100) < 45 {
			sd2 := Slot{Name: "k0", Shared: true}
			if r.IntN(100) < 50 {
				sd2.Form, sd2.Val = strconv.Itoa(50+b), strconv.Itoa(50+b)
			}
			c.Classes[b].Slots = append(c.Classes[b].Slots, sd2)
		}
		if c.Redef != nil && (c.Redef.Class == a) && r.IntN(2) == 0 {
			c.Redef.Def.Slots = append(c.Redef.Def.Slots, sd)
		}
		if o.k0arg {
			// the class-allocated slot has an initarg (in every form that defines it)
			for _, d := range defs {
				for k := range d.Slots {
					if d.Slots[k].Name == "k0" {
						d.Slots[k].Initargs = []string{"ik"}
					}
				}
			}
		}
		if o.mixedK0 {
			// another class defines k0 as an ordinary slot: below a class-allocated
			// definition it makes k0 local, above one it is hidden by it (listed finding)
			// first choice: a class below (2 of 3) or above the class that allocates
			// k0 in the class, so that the two definitions meet on a precedence list
			anc := map[int]bool{}
			var up func(k int)
			up = func(k int) {
				for _, s := range c.Classes[k].Supers {
					if !anc[s] {
						anc[s] = true
						up(s)
					}
				}
			}
			up(a)
			var above, below []int
			for k := 0; k < n; k++ {
				if anc[k] {
					above = append(above, k)
					continue
				}
				for a2 := range anc {
					delete(anc, a2)
				}
				up(k)
				if anc[a] {
					below = append(below, k)
				}
				for a2 := range anc {
					delete(anc, a2)
				}
				up(a)
			}
			e := r.IntN(n)
			switch pick := r.IntN(3); {
			case pick < 2 && 0 < len(below):
				e = below[r.IntN(len(below))]
			case 0 < len(above):
				e = above[r.IntN(len(above))]
			case 0 < len(below):
				e = below[r.IntN(len(below))]
			}
			has := false
			for _, sd := range c.Classes[e].Slots {
				has = has || sd.Name == "k0"
			}
			if !has {
				loc := Slot{Name: "k0"}
				if r.IntN(2) == 0 {
					loc.Form, loc.Val = strconv.Itoa(70+e), strconv.Itoa(70+e)
				}
				c.Classes[e].Slots = append(c.Classes[e].Slots, loc)
			}
		}
	}
	// two-argument probe generic
	np := 2 + r.IntN(4)
	seen := map[[2]int]bool{}
	for k := 0; k < np; k++ {
		pr := [2]int{r.IntN(n), r.IntN(n)}
		if !seen[pr] {
			seen[pr] = true
			c.Meth2 = append(c.Meth2, pr)
		}
	}
}

// fixed holds the deterministic, seed-independent block at the start of the
// case list: the shapes named by the property (forward references at every
// depth, shadowing over three levels, diamond, redefinition of the root of a
// chain) and every construct with a listed finding, so that the set of
// signatures does not depend on the seed.
func fixed() []Case {
	sl := func(name string, form string, ias ...string) Slot {
		return Slot{Name: name, Initargs: ias, Form: form, Val: form}
	}
	acc := func(s Slot, r, w, a bool) Slot { s.Reader, s.Writer, s.Accessor = r, w, a; return s }
	u := []string{"s0", "s1", "s2", "zz"}
	var out []Case
	// chain of three, shadowing over three levels, redefinition of the root
	chain := []Class{
		{Supers: []int{1}, Slots: []Slot{acc(sl("s0", "100", "i0"), true, false, false), sl("s1", "")}},
		{Supers: []int{2}, Slots: []Slot{acc(sl("s0", "", "i0"), false, true, false), acc(sl("s1", "211", "i1"), false, false, true)}},
		{Supers: []int{}, Slots: []Slot{sl("s0", "300"), sl("s1", "311"), acc(sl("s2", "322", "i2"), true, true, true)}},
	}
	out = append(out, Case{Note: "chain3", Classes: chain, Universe: u, Meth: []int{1, 2}, Meth2: [][2]int{{2, 2}, {1, 2}, {2, 0}, {1, 1}}, MaxArgs: 5})
	out = append(out, Case{Note: "chain3 redefine root", Classes: chain, Universe: u, Meth: []int{0, 2}, MaxArgs: 5,
		Redef: &Redef{Class: 2, Skew: -1, Def: Class{Supers: []int{}, Slots: []Slot{sl("s0", "305"), acc(sl("s2", "327", "i2"), true, false, true)}}}})
	out = append(out, Case{Note: "chain3 redefine middle", Classes: chain, Universe: u, Meth: []int{0, 2}, MethTop: true, MaxArgs: 5,
		Redef: &Redef{Class: 1, Skew: -1, Def: Class{Supers: []int{2}, Slots: []Slot{sl("s1", "216", "i1"), sl("s2", "226")}}}})
	out = append(out, Case{Note: "chain3 redefine middle, cut from root", Classes: chain, Universe: u, Meth: []int{2}, Meth2: [][2]int{{2, 2}, {1, 2}, {2, 1}}, MaxArgs: 5,
		Redef: &Redef{Class: 1, Skew: -1, Def: Class{Supers: []int{}, Slots: []Slot{acc(sl("s1", "216", "i1"), true, false, false)}}}})
	out = append(out, Case{Note: "chain3 redefine root early", Classes: chain, Universe: u, Meth: []int{0, 2}, MaxArgs: 5,
		Redef: &Redef{Class: 2, Skew: 0, Def: Class{Supers: []int{}, Slots: []Slot{sl("s0", "305"), sl("s2", "327", "i2")}}}})
	// diamond with a fifth class hanging off one arm
	diamond := []Class{
		{Supers: []int{1, 2}, Slots: []Slot{sl("s0", "", "i0")}},
		{Supers: []int{3}, Slots: []Slot{acc(sl("s1", "211", "i1"), true, false, false)}},
		{Supers: []int{4, 3}, Slots: []Slot{sl("s0", "300"), sl("s1", "311")}},
		{Supers: []int{}, Slots: []Slot{sl("s0", "400"), acc(sl("s2", "", "i2"), false, false, true)}},
		{Supers: []int{}, Slots: []Slot{sl("s2", "522")}},
	}
	out = append(out, Case{Note: "diamond5", Classes: diamond, Universe: u, Meth: []int{2, 3, 4}, Meth2: [][2]int{{3, 3}, {1, 4}, {2, 3}, {4, 1}, {3, 0}}, MaxArgs: 5})
	out = append(out, Case{Note: "diamond5 redefine arm", Classes: diamond, Universe: u, Meth: []int{1, 3, 4}, Meth2: [][2]int{{3, 3}, {2, 4}, {4, 2}, {1, 2}}, MaxArgs: 5,
		Redef: &Redef{Class: 2, Skew: -1, Def: Class{Supers: []int{3, 4}, Slots: []Slot{sl("s1", "316", "i1")}}}})
	out = append(out, Case{Note: "diamond5 redefine apex of diamond", Classes: diamond, Universe: u, Meth: []int{0, 3, 4}, MethTop: true, MaxArgs: 5,
		Redef: &Redef{Class: 3, Skew: -1, Def: Class{Supers: []int{4}, Slots: []Slot{sl("s0", "405", "i0"), sl("s1", "415")}}}})
	out = append(out, Case{Note: "diamond5 redefine arm mid-sequence with new super", Classes: diamond, Universe: u, Meth: []int{0, 3, 4}, MaxArgs: 5,
		Redef: &Redef{Class: 1, Skew: 1, Def: Class{Supers: []int{4, 3}, Slots: []Slot{sl("s1", "216", "i1")}}}})
	// redefinition that names a superclass defined later, while a subclass already exists
	out = append(out, Case{Note: "redefinition names a superclass that is defined later", Universe: u, Meth: []int{1, 2}, MaxArgs: 5,
		Classes: []Class{
			{Supers: []int{1}, Slots: []Slot{sl("s1", "111")}},
			{Supers: []int{}, Slots: []Slot{sl("s0", "200")}},
			{Supers: []int{}, Slots: []Slot{sl("s2", "322")}},
		},
		Redef: &Redef{Class: 1, Skew: 1, Def: Class{Supers: []int{2}, Slots: []Slot{sl("s0", "205")}}}})
	// a class naming a class and that class's ancestor, ancestor first
	out = append(out, Case{Note: "ancestor listed before descendant", Universe: u, Meth: []int{1, 2}, MaxArgs: 5, Classes: []Class{
		{Supers: []int{2, 1}, Slots: []Slot{sl("s0", "100")}},
		{Supers: []int{2}, Slots: []Slot{sl("s0", "200"), sl("s1", "211", "i1")}},
		{Supers: []int{}, Slots: []Slot{sl("s0", "300", "i0"), sl("s1", "311")}},
	}})
	// condition classes: the same machinery through define-condition / make-condition
	out = append(out, Case{Note: "condition chain3", Cond: "condition", Classes: chain, Universe: u, Meth: []int{1, 2}, MaxArgs: 5})
	out = append(out, Case{Note: "condition diamond5 under error, redefine apex", Cond: "error", Classes: diamond, Universe: u, Meth: []int{0, 3}, MaxArgs: 5,
		Redef: &Redef{Class: 3, Skew: -1, Def: Class{Supers: []int{}, Slots: []Slot{sl("s0", "405", "i0"), sl("s1", "415")}}}})
	// chain of four, redefinition of the root: two classes inherit it through another class
	out = append(out, Case{Note: "chain4 redefine root", Universe: u, Meth: []int{1, 3}, MaxArgs: 5,
		Classes: []Class{
			{Supers: []int{1}, Slots: []Slot{sl("s0", "100")}},
			{Supers: []int{2}, Slots: []Slot{sl("s1", "211", "i1")}},
			{Supers: []int{3}, Slots: []Slot{sl("s1", "")}},
			{Supers: []int{}, Slots: []Slot{sl("s2", "322", "i2")}},
		},
		Redef: &Redef{Class: 3, Skew: -1, Def: Class{Supers: []int{}, Slots: []Slot{sl("s2", "327"), sl("s0", "305", "i0")}}}})
	// condition classes whose root names error: the base class condition comes before c3 on the list of c0
	out = append(out, Case{Note: "condition base before another class", Cond: "error", Universe: u, Meth: []int{1, 3}, MaxArgs: 5,
		Classes: []Class{
			{Supers: []int{1, 2}, Slots: []Slot{sl("s0", "100")}},
			{Supers: []int{}, Slots: []Slot{sl("s1", "211", "i1")}},
			{Supers: []int{3}, Slots: []Slot{sl("s1", "")}},
			{Supers: []int{}, Slots: []Slot{sl("s2", "322", "i2")}},
		}})
	// :default-initargs: own, overriding an inherited one, and inherited (listed finding)
	out = append(out, Case{Note: "default-initargs", Universe: u, Meth: []int{1}, Meth2: [][2]int{{1, 1}, {0, 1}, {1, 0}}, MaxArgs: 5, Classes: []Class{
		{Supers: []int{1}, Slots: []Slot{sl("s2", "122", "i2")}, Defaults: []Default{{"i2", "8002", "8002"}, {"i0", "(+ 8000 3)", "8003"}}},
		{Supers: []int{}, Slots: []Slot{sl("s0", "200", "i0"), sl("s1", "", "i1")}, Defaults: []Default{{"i0", "8100", "8100"}, {"i1", "8101", "8101"}}},
	}})
	// class-allocated slot: with and without initform, inherited, owned twice (listed findings)
	shared := func(form string) Slot { return Slot{Name: "k0", Shared: true, Form: form, Val: form} }
	out = append(out, Case{Note: "class-allocated slot", Universe: u, Meth: []int{1}, Meth2: [][2]int{{1, 3}, {0, 2}}, MaxArgs: 5, Classes: []Class{
		{Supers: []int{1}, Slots: []Slot{sl("s0", "100", "i0")}},
		{Supers: []int{}, Slots: []Slot{sl("s1", "211"), shared("51")}},
		{Supers: []int{}, Slots: []Slot{shared(""), sl("s0", "300")}},
		{Supers: []int{2}, Slots: []Slot{sl("s1", "411")}},
	}})
	// :type on a slot defined at two levels
	typed := func(s Slot, t string) Slot { s.Type = t; return s }
	out = append(out, Case{Note: "typed slot", Universe: u, Meth: []int{0}, Meth2: [][2]int{{1, 1}}, MaxArgs: 5, Classes: []Class{
		{Supers: []int{1}, Slots: []Slot{typed(sl("s0", "100", "i0"), "fixnum")}},
		{Supers: []int{}, Slots: []Slot{typed(sl("s0", "", "j0"), "fixnum"), sl("s1", "211", "i1")}},
	}})
	// change-class between unrelated classes: a new slot whose initform needs evaluation (listed finding)
	out = append(out, Case{Note: "change-class to a class with an evaluated initform", Universe: u, Meth: []int{0}, Meth2: [][2]int{{0, 1}, {1, 0}}, MaxArgs: 5, Classes: []Class{
		{Supers: []int{}, Slots: []Slot{sl("s0", "100", "i0")}},
		{Supers: []int{}, Slots: []Slot{{Name: "s1", Form: "(+ 210 1)", Val: "211"}, sl("s0", "200")}},
	}})
	// listed findings
	out = append(out, Case{Note: "initarg shared by two slots", Universe: u, Meth: []int{0}, MaxArgs: 5, Classes: []Class{
		{Supers: []int{1}, Slots: []Slot{sl("s0", "100", "i0"), sl("s1", "111", "i0", "i1")}},
		{Supers: []int{}, Slots: []Slot{sl("s2", "222", "i1")}},
	}})
	out = append(out, Case{Note: "initform nil", Universe: u, Meth: []int{1}, MaxArgs: 5, Classes: []Class{
		{Supers: []int{1}, Slots: []Slot{sl("s0", "nil", "i0")}},
		{Supers: []int{}, Slots: []Slot{sl("s0", "200"), sl("s1", "nil")}},
	}})
	out = append(out, Case{Note: "two initargs for one slot", Universe: u, Meth: []int{1}, MaxArgs: 5, Classes: []Class{
		{Supers: []int{1}, Slots: []Slot{sl("s0", "100", "i0")}},
		{Supers: []int{}, Slots: []Slot{sl("s0", "200", "j0"), sl("s1", "211", "i1", "j1")}},
	}})
	// Redefinition of a class (c0) that has 3..6 subclasses, some of them through
	// another subclass and some unrelated to that chain: the new definition adds a
	// superclass (the last class), adds a slot and changes an initform, and must
	// reach every subclass. How the interpreter walks the subclasses depends on map
	// iteration order, so every shape is repeated 20 times with 8 drawn definition
	// orders each (fresh class names per order).
	shapes := []struct {
		note   string
		supers [][]int // supers of the subclasses c1..; c0 and the last class have none
	}{
		{"chain and sibling", [][]int{{0}, {1}, {0}}},
		{"chain and two siblings", [][]int{{0}, {1}, {0}, {0}}},
		{"two chains", [][]int{{0}, {1}, {0}, {3}}},
		{"diamond and sibling", [][]int{{0}, {0}, {1, 2}, {0}}},
		{"chain of three, chain of two, sibling", [][]int{{0}, {1}, {2}, {0}, {4}, {0}}},
	}
	for si, sh := range shapes {
		n := len(sh.supers) + 2
		z := n - 1
		classes := []Class{{Supers: []int{}, Slots: []Slot{acc(sl("s0", "100", "i0"), true, false, false), sl("s1", "111")}}}
		for k, sup := range sh.supers {
			cl := Class{Supers: sup}
			switch k % 3 {
			case 0:
				cl.Slots = []Slot{sl("s1", strconv.Itoa(211+100*k), "i1")}
			case 1:
				cl.Slots = []Slot{sl("s0", "")} // shadows without an initform: the initform of c0 shows through
			default:
				cl.Slots = []Slot{}
			}
			classes = append(classes, cl)
		}
		classes = append(classes, Class{Supers: []int{}, Slots: []Slot{sl("s2", "922", "i2")}})
		redef := &Redef{Class: 0, Skew: -1, Def: Class{Supers: []int{z},
			Slots: []Slot{acc(sl("s0", "105", "i0"), true, false, false), sl("s3", "135", "i3")}}}
		for rep := 0; rep < 20; rep++ {
			pr := rand.New(rand.NewPCG(uint64(1000+si), uint64(rep)))
			c := Case{Note: fmt.Sprintf("redefine class with subclasses: %s, repetition %d", sh.note, rep), Classes: classes,
				Universe: []string{"s0", "s1", "s2", "s3", "zz"}, Redef: redef, Meth: []int{z, 1 + rep%len(sh.supers)}, MethTop: rep%4 == 0,
				Meth2: [][2]int{{z, z}, {0, 1 + (rep+1)%len(sh.supers)}}, MaxArgs: 3}
			seen := map[string]bool{}
			for len(c.Perms) < 8 {
				ps := permString(pr.Perm(n))
				if !seen[ps] {
					seen[ps] = true
					c.Perms = append(c.Perms, ps)
				}
			}
			out = append(out, c)
		}
	}
	out = append(out, fixedHistories(chain, diamond, u, sl, acc)...)
	return out
}

// fixedHistories: multi-step histories, failed operations, boundary shapes and
// interactions of two features (added after the coverage review of the statement).
func fixedHistories(chain, diamond []Class, u []string, sl func(string, string, ...string) Slot, acc func(Slot, bool, bool, bool) Slot) []Case {
	var out []Case
	shared := func(form string, ias ...string) Slot {
		return Slot{Name: "k0", Shared: true, Form: form, Val: form, Initargs: ias}
	}
	local := func(form string) Slot { return Slot{Name: "k0", Form: form, Val: form} }
	rootB := Class{Supers: []int{}, Slots: []Slot{sl("s0", "305"), acc(sl("s2", "327", "i2"), true, false, true)}}
	// define / use / redefine / use / redefine / use
	out = append(out, Case{Note: "chain3 redefine root, then back to its first definition", Classes: chain, Universe: u, Meth: []int{0, 2}, Meth2: [][2]int{{2, 2}, {1, 2}, {2, 0}}, MaxArgs: 5,
		Redef: &Redef{Class: 2, Skew: -1, Def: rootB}, Redef2: &Redef{Class: 2, Skew: -1, Def: chain[2]}})
	out = append(out, Case{Note: "chain3 redefine root twice", Classes: chain, Universe: u, Meth: []int{1, 2}, MethTop: true, MaxArgs: 5,
		Redef:  &Redef{Class: 2, Skew: -1, Def: rootB},
		Redef2: &Redef{Class: 2, Skew: -1, Def: Class{Supers: []int{}, Slots: []Slot{sl("s1", "319", "i1"), sl("s2", "", "i2")}}}})
	out = append(out, Case{Note: "chain3 cut the middle from the root, then redefine the root", Classes: chain, Universe: u, Meth: []int{2}, Meth2: [][2]int{{2, 2}, {1, 2}, {2, 1}}, MaxArgs: 5,
		Redef:  &Redef{Class: 1, Skew: -1, Def: Class{Supers: []int{}, Slots: []Slot{acc(sl("s1", "216", "i1"), true, false, false)}}},
		Redef2: &Redef{Class: 2, Skew: -1, Def: rootB}})
	out = append(out, Case{Note: "diamond5 redefine arm, then apex", Classes: diamond, Universe: u, Meth: []int{1, 3, 4}, Meth2: [][2]int{{3, 3}, {2, 4}, {4, 2}, {1, 2}}, MaxArgs: 5,
		Redef:  &Redef{Class: 2, Skew: -1, Def: Class{Supers: []int{3, 4}, Slots: []Slot{sl("s1", "316", "i1")}}},
		Redef2: &Redef{Class: 3, Skew: -1, Def: Class{Supers: []int{4}, Slots: []Slot{sl("s0", "405", "i0"), sl("s1", "415")}}}})
	// a redefinition takes a slot and its initarg away from the subclasses, the next one brings them back
	takes := []Class{
		{Supers: []int{1}, Slots: []Slot{sl("s0", "100", "i0")}},
		{Supers: []int{2}, Slots: []Slot{sl("s1", "", "i1")}},
		{Supers: []int{}, Slots: []Slot{sl("s1", "311", "j1"), acc(sl("s2", "322", "i2"), true, false, false)}},
	}
	out = append(out, Case{Note: "redefinition takes an initarg away, the next brings it back", Classes: takes, Universe: u, Meth: []int{2}, MaxArgs: 5,
		Redef:  &Redef{Class: 2, Skew: -1, Def: Class{Supers: []int{}, Slots: []Slot{sl("s1", "316")}}},
		Redef2: &Redef{Class: 2, Skew: -1, Def: takes[2]}})
	out = append(out, Case{Note: "redefinition mid-sequence takes an initarg away", Classes: takes, Universe: u, Meth: []int{1}, MaxArgs: 5,
		Redef: &Redef{Class: 2, Skew: 1, Def: Class{Supers: []int{}, Slots: []Slot{sl("s1", "316")}}}})
	// five levels of shadowing; initforms show through definitions that have none
	chain5 := []Class{
		{Supers: []int{1}, Slots: []Slot{sl("s0", "", "i0"), sl("s1", "111")}},
		{Supers: []int{2}, Slots: []Slot{sl("s0", ""), sl("s1", "", "i1")}},
		{Supers: []int{3}, Slots: []Slot{sl("s0", "300", "j0"), sl("s1", "")}},
		{Supers: []int{4}, Slots: []Slot{sl("s0", ""), sl("s1", "411"), sl("s2", "")}},
		{Supers: []int{}, Slots: []Slot{sl("s0", "500"), sl("s1", "511"), acc(sl("s2", "522", "i2"), true, false, true)}},
	}
	c5 := Case{Note: "chain5, five levels of shadowing, redefine the middle without its initform", Classes: chain5, Universe: u, Meth: []int{1, 4}, Meth2: [][2]int{{4, 4}, {2, 3}, {0, 4}}, MaxArgs: 3,
		Redef: &Redef{Class: 2, Skew: -1, Def: Class{Supers: []int{3}, Slots: []Slot{sl("s0", "", "j0"), sl("s1", "316")}}}}
	pr := rand.New(rand.NewPCG(2000, 5))
	for seen := map[string]bool{}; len(c5.Perms) < 24; {
		if ps := permString(pr.Perm(5)); !seen[ps] {
			seen[ps] = true
			c5.Perms = append(c5.Perms, ps)
		}
	}
	out = append(out, c5)
	// state left behind by failed operations
	out = append(out, Case{Note: "failing forms: chain3 redefine root twice", Failed: true, Classes: chain, Universe: u, Meth: []int{0, 2}, MaxArgs: 5,
		Redef: &Redef{Class: 2, Skew: -1, Def: rootB}, Redef2: &Redef{Class: 2, Skew: -1, Def: chain[2]}})
	out = append(out, Case{Note: "failing forms: diamond5 redefine arm mid-sequence", Failed: true, Classes: diamond, Universe: u, Meth: []int{0, 3, 4}, Meth2: [][2]int{{3, 3}, {1, 4}}, MaxArgs: 5,
		Redef: &Redef{Class: 1, Skew: 1, Def: Class{Supers: []int{4, 3}, Slots: []Slot{sl("s1", "216", "i1")}}}})
	out = append(out, Case{Note: "failing forms: condition chain3", Failed: true, Cond: "condition", Classes: chain, Universe: u, Meth: []int{1, 2}, MaxArgs: 5})
	// the same initarg twice (listed finding)
	out = append(out, Case{Note: "initarg given twice", Twice: true, Classes: chain, Universe: u, Meth: []int{1}, MaxArgs: 5})
	// a default initarg and an explicit other initarg of the same slot; a default for a shared initarg
	out = append(out, Case{Note: "default initarg against an explicit other initarg of the slot", Universe: u, Meth: []int{1}, MaxArgs: 5, Classes: []Class{
		{Supers: []int{1}, Slots: []Slot{sl("s0", "100", "i0"), sl("s2", "122", "i2", "i1")}, Defaults: []Default{{"i1", "8001", "8001"}}},
		{Supers: []int{}, Slots: []Slot{sl("s0", "200", "j0"), sl("s1", "211", "i1")}, Defaults: []Default{{"j0", "8100", "8100"}}},
	}})
	// allocation of k0 decided by the most specific definition; an initarg on the class slot
	out = append(out, Case{Note: "class slot with an initarg; local definitions below and above a class-allocated one", Universe: u, Meth: []int{1, 3}, MaxArgs: 5, Classes: []Class{
		{Supers: []int{1}, Slots: []Slot{sl("s0", "100", "i0"), local("")}},
		{Supers: []int{}, Slots: []Slot{shared("51", "ik"), sl("s1", "211")}},
		{Supers: []int{3}, Slots: []Slot{shared("")}},
		{Supers: []int{}, Slots: []Slot{local("73"), sl("s0", "400")}},
		{Supers: []int{1}, Slots: []Slot{sl("s1", "511", "i1")}},
	}})
	// class slot x redefinition: new initform and initarg, then the slot is taken away
	owner := []Class{
		{Supers: []int{1}, Slots: []Slot{sl("s0", "100", "i0")}},
		{Supers: []int{2}, Slots: []Slot{sl("s1", "211")}},
		{Supers: []int{}, Slots: []Slot{shared("52"), sl("s2", "322", "i2")}},
		{Supers: []int{2}, Slots: []Slot{sl("s1", "411")}},
	}
	out = append(out, Case{Note: "class slot: owner redefined, then the slot is taken away", Classes: owner, Universe: u, Meth: []int{2}, MaxArgs: 5,
		Redef:  &Redef{Class: 2, Skew: -1, Def: Class{Supers: []int{}, Slots: []Slot{shared("57", "ik"), sl("s2", "327", "i2")}}},
		Redef2: &Redef{Class: 2, Skew: -1, Def: Class{Supers: []int{}, Slots: []Slot{sl("s2", "329", "i2")}}}})
	out = append(out, Case{Note: "class slot: a redefined middle class takes the slot over, then makes it local", Classes: owner, Universe: u, Meth: []int{1}, MaxArgs: 5,
		Redef:  &Redef{Class: 1, Skew: -1, Def: Class{Supers: []int{2}, Slots: []Slot{sl("s1", "216"), shared("")}}},
		Redef2: &Redef{Class: 1, Skew: -1, Def: Class{Supers: []int{2}, Slots: []Slot{sl("s1", "218"), local("75")}}}})
	out = append(out, Case{Note: "class slot: owner redefined mid-sequence without the slot", Classes: owner, Universe: u, Meth: []int{0}, MaxArgs: 5,
		Redef: &Redef{Class: 2, Skew: 1, Def: Class{Supers: []int{}, Slots: []Slot{sl("s2", "327", "i2")}}}})
	return out
}

var fixedCases = fixed()

func nCases(tier string) int {
	switch tier {
	case "thorough":
		return len(fixedCases) + 4000
	case "smoke": // development aid: fixed block and a few random DAGs
		return len(fixedCases) + 60
	}
	return len(fixedCases) + 600
}

func gen(r *rand.Rand, i int, tier string) Case {
	if i < len(fixedCases) {
		return fixedCases[i]
	}
	o := genOpts{}
	o.n = []int{2, 3, 3, 4, 4, 4, 5, 5, 5, 5}[r.IntN(10)]
	o.redef = r.IntN(100) < 60
	o.redefMid = o.redef && r.IntN(100) < 30
	// a slot with two initargs (supplying both has a listed finding) is kept to a minority
	switch r.IntN(20) {
	case 0, 1, 5:
		o.sharedArg = true
	case 2:
		o.nilForm = true
	case 3, 4:
		o.twoArgs = true
	}
	o.types = r.IntN(100) < 25
	switch r.IntN(20) {
	case 0, 1, 2, 3, 4:
		o.defaults = true
	case 5, 6, 7, 8:
		o.shared = true
	}
	o.redef2 = o.redef && !o.redefMid && r.IntN(100) < 30
	o.failed = r.IntN(100) < 20
	o.twice = r.IntN(100) < 8
	o.mixedK0 = o.shared && r.IntN(100) < 40
	o.k0arg = o.shared && r.IntN(100) < 40
	c := genDAG(r, o)
	switch r.IntN(20) {
	case 0, 1:
		c.Cond = "condition"
	case 2:
		c.Cond = "error"
	}
	if tier != "thorough" && o.n == 5 && r.IntN(100) < 50 {
		// quick tier: half of the 5-class DAGs get 30 sampled orders instead of all 120
		ps := allPerms(5)
		r.Shuffle(len(ps), func(a, b int) { ps[a], ps[b] = ps[b], ps[a] })
		for _, p := range ps[:30] {
			c.Perms = append(c.Perms, permString(p))
		}
	}
	return c
}
