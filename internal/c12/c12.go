// Package c12 monitors CLOS class definition: precedence lists, effective
// slots, instance initialisation, accessors, typep/class-of/subtypep and
// method applicability, for every definition order of a generated class DAG
// and after the redefinition of one of its classes. Every observation is made
// on the real interpreter and compared with the model in model.go.
package c12

import (
	"fmt"
	"math/bits"
	"sort"
	"strconv"
	"strings"

	"github.com/ohler55/slip"

	"verif/internal/fw"
	"verif/internal/sl"
)

// sub is one element of the list an item evaluates to.
type sub struct {
	kind string // what is observed (signature component)
	what string // human description
	want string
	tag  string // monitor counter "init:<tag>" when the observation holds: the clause of the statement it exercises
}

// item is one evaluation against the real interpreter.
type item struct {
	kind    string // item kind; used when the whole evaluation fails
	class   int
	src     string // "@" stands for the per-run name prefix
	subs    []sub
	wantErr bool     // the evaluation must signal an (ordinary) error
	errIsA  string   // ... whose class chain contains this class ("" = any)
	feats   []string // listed-finding constructs this evaluation exercises
}

func defclassSrc(c *Case, k int, cl Class, gen int) string {
	var sb strings.Builder
	if c.Cond != "" {
		fmt.Fprintf(&sb, "(define-condition @c%d (", k)
	} else {
		fmt.Fprintf(&sb, "(defclass @c%d (", k)
	}
	for i, s := range cl.Supers {
		if 0 < i {
			sb.WriteByte(' ')
		}
		fmt.Fprintf(&sb, "@c%d", s)
	}
	if c.Cond == "error" && len(cl.Supers) == 0 {
		sb.WriteString("error")
	}
	sb.WriteString(") (")
	for i, sd := range cl.Slots {
		if 0 < i {
			sb.WriteByte(' ')
		}
		plain := len(sd.Initargs) == 0 && sd.Form == "" && !sd.Reader && !sd.Writer && !sd.Accessor && sd.Type == "" && !sd.Shared
		if plain && i%2 == 0 {
			sb.WriteString(sd.Name)
			continue
		}
		sb.WriteString("(" + sd.Name)
		for _, ia := range sd.Initargs {
			sb.WriteString(" :initarg :" + ia)
		}
		if sd.Form != "" {
			sb.WriteString(" :initform " + sd.Form)
		}
		if sd.Reader {
			sb.WriteString(" :reader " + accName("r", k, gen, sd.Name))
		}
		if sd.Writer {
			sb.WriteString(" :writer " + accName("w", k, gen, sd.Name))
		}
		if sd.Accessor {
			sb.WriteString(" :accessor " + accName("a", k, gen, sd.Name))
		}
		if sd.Type != "" {
			sb.WriteString(" :type " + sd.Type)
		}
		if sd.Shared {
			sb.WriteString(" :allocation :class")
		}
		sb.WriteByte(')')
	}
	sb.WriteString(")")
	if 0 < len(cl.Defaults) {
		sb.WriteString(" (:default-initargs")
		for _, d := range cl.Defaults {
			sb.WriteString(" :" + d.Arg + " " + d.Form)
		}
		sb.WriteString(")")
	}
	sb.WriteString(")")
	return sb.String()
}

func makeSrc(cs *Case, c int, args, all []string) string {
	var sb strings.Builder
	if cs.Cond != "" {
		fmt.Fprintf(&sb, "(make-condition '@c%d", c)
	} else {
		fmt.Fprintf(&sb, "(make-instance '@c%d", c)
	}
	for _, a := range args {
		sb.WriteString(" :" + a + " " + argVal(a, all))
	}
	sb.WriteByte(')')
	return sb.String()
}

// stateFn is the name of the per-case helper function
//
//	(defun slot-states (i) (list (if (slot-exists-p i 's0) (if (slot-boundp i 's0) (slot-value i 's0) 'unb) 'mis) ...))
//
// that reads every slot name of the universe from an instance. "$ST" is
// replaced by a name unique to the case before evaluation.
const stateFn = "$ST"

func stateDefun(universe []string) string {
	var sb strings.Builder
	sb.WriteString("(defun " + stateFn + " (i) (list")
	for _, n := range universe {
		fmt.Fprintf(&sb, " (if (slot-exists-p i '%s) (if (slot-boundp i '%s) (slot-value i '%s) '%s) '%s)", n, n, n, unbound, missing)
	}
	sb.WriteString("))")
	return sb.String()
}

// stateSrc reads every slot name of the universe from instance i.
func stateSrc(universe []string) string {
	return "(" + stateFn + " i)"
}

func stateSubs(universe []string, state map[string]string, ctx string) []sub {
	subs := make([]sub, len(universe))
	for i, n := range universe {
		subs[i] = sub{kind: "slot", what: ctx + " slot " + n, want: state[n]}
	}
	return subs
}

// kinded gives every sub the kind k.
func kinded(subs []sub, k string) []sub {
	for i := range subs {
		subs[i].kind = k
	}
	return subs
}

// copyState copies a slot state.
func copyState(st map[string]string) map[string]string {
	out := make(map[string]string, len(st))
	for k, v := range st {
		out[k] = v
	}
	return out
}

// argsets enumerates the subsets of the initargs valid for a class, each as a
// call-order list: about half of the subsets are passed in ascending and half
// in descending order of the initarg names, so that "leftmost wins" and "the
// order of the call does not matter" are both exercised.
func argsets(all []string, maxArgs int) [][]string {
	if maxArgs < len(all) {
		all = all[:maxArgs]
	}
	var out [][]string
	for mask := 0; mask < 1<<len(all); mask++ {
		var as []string
		for k := range all {
			if mask&(1<<k) != 0 {
				as = append(as, all[k])
			}
		}
		if bits.OnesCount(uint(mask))%2 == 0 || mask%3 == 0 {
			for a, b := 0, len(as)-1; a < b; a, b = a+1, b-1 {
				as[a], as[b] = as[b], as[a]
			}
		}
		out = append(out, as)
	}
	return out
}

// :reader/:writer/:accessor options of define-condition slots
const featCondAcc = "condition-slot-accessor"

// baseOf picks the initargs the instances of class x are made with where the
// initialisation itself is not the subject: the first subset that does not
// supply two initargs of one slot (the empty one qualifies).
func baseOf(m *model, c *Case, x int) (base []string, baseState map[string]string, baseFeats []string) {
	all := m.initargs(x)
	for _, as := range argsets(all, c.MaxArgs) {
		state, feats := m.instance(x, as, c.Universe, all)
		if baseState == nil || (hasOpen(baseFeats) && !hasOpen(feats)) {
			base, baseState, baseFeats = as, state, feats
		}
	}
	return
}

// oldItems covers instances made before a redefinition at the end of the
// sequence. defs makes one instance per class; judged are the observations
// slip documents ("existing objects continue to reference the original
// class": the instance of the redefined class keeps its class name and slots
// and its class is no longer the one find-class returns) or that cannot be
// affected (unrelated classes); watched are instances of subclasses of the
// redefined class, whose fate is not documented: they are only counted.
func oldItems(m0, m1 *model, c *Case) (defs []string, judged, watched []item) {
	r := c.Redef.Class
	for x := range m0.classes {
		base, state, feats := baseOf(m0, c, x)
		defs = append(defs, fmt.Sprintf("(defvar @o%d %s)", x, makeSrc(c, x, base, m0.initargs(x))))
		src := fmt.Sprintf("(append (list (class-name (class-of @o%d)) (eq (class-of @o%d) (find-class '@c%d))) (%s @o%d))", x, x, x, stateFn, x)
		what := fmt.Sprintf("<c%d> made before the redefinition of c%d:", x, r)
		same := "t"
		if x == r {
			same = "nil"
		}
		subs := []sub{{"old-instance", what + " class name", "@c" + strconv.Itoa(x), ""}, {"old-instance", what + " (eq (class-of i) (find-class 'c" + strconv.Itoa(x) + "))", same, ""}}
		for _, sb := range stateSubs(c.Universe, state, what) {
			sb.kind = "old-instance"
			subs = append(subs, sb)
		}
		it := item{kind: "old-instance", class: x, feats: feats, src: src, subs: subs}
		if x == r || !m0.inherits(x, r) {
			judged = append(judged, it)
		} else {
			watched = append(watched, it)
		}
	}
	if c.Cond == "" {
		// the old instance of the redefined class is brought up to date with
		// change-class: it becomes an instance of the class find-class returns,
		// keeps the slots both definitions have and gets the new ones initialised
		_, state0, feats0 := baseOf(m0, c, r)
		state, feats := m1.changed(r, r, state0, c.Universe)
		what := fmt.Sprintf("<c%d> made before the redefinition of c%d, after (change-class i 'c%d):", r, r, r)
		subs := []sub{{kind: "old-instance-updated", what: what + " (eq (class-of i) (find-class 'c" + strconv.Itoa(r) + "))", want: "t"}}
		subs = append(subs, kinded(stateSubs(c.Universe, state, what), "old-instance-updated")...)
		judged = append(judged, item{kind: "old-instance-updated", class: r, feats: append(append([]string{}, feats0...), feats...),
			src:  fmt.Sprintf("(progn (change-class @o%d '@c%d) (append (list (eq (class-of @o%d) (find-class '@c%d))) (%s @o%d)))", r, r, r, r, stateFn, r),
			subs: subs})
	}
	return
}

// buildItems lists everything observed once all classes exist.
// phase 0 = before any redefinition, 1 = after the first, 2 = after the
// second one; prev is the model of the phase before (nil in phase 0).
func buildItems(m, prev *model, c *Case, phase int) []item {
	var items []item
	after := 0 < phase
	if prev == nil {
		prev = m
	}
	pool := initargPool(c)
	anyK0 := hasK0(c)
	n := len(m.classes)
	methOn := map[int]bool{}
	for _, k := range c.Meth {
		methOn[k] = true
	}
	for x := 0; x < n; x++ {
		prec := m.prec(x)
		items = append(items, item{kind: "precedence", class: x, src: fmt.Sprintf("(list (class-precedence '@c%d))", x),
			subs: []sub{{kind: "precedence", what: fmt.Sprintf("class-precedence of c%d", x), want: m.precNames(x)}}})
		all := m.initargs(x)
		sets := argsets(all, c.MaxArgs)
		// instance initialisation for every subset of the initargs
		base, baseState, baseFeats := baseOf(m, c, x)
		for _, as := range sets {
			state, feats, from := m.instanceX(x, as, c.Universe, all)
			ctx := fmt.Sprintf("c%d made with %v:", x, as)
			subs := stateSubs(c.Universe, state, ctx)
			for k, nme := range c.Universe {
				subs[k].tag = from[nme]
			}
			items = append(items, item{kind: "init", class: x, feats: feats,
				src:  "(let ((i " + makeSrc(c, x, as, all) + ")) " + stateSrc(c.Universe) + ")",
				subs: subs})
		}
		mk := makeSrc(c, x, base, all)
		// the same initarg supplied twice: the leftmost value is used (ANSI 7.1.4)
		if c.Twice && 0 < len(all) {
			a := all[(x+phase)%len(all)]
			state, feats := m.instance(x, []string{a}, c.Universe, all)
			twice := strings.TrimSuffix(makeSrc(c, x, []string{a}, all), ")") + " :" + a + " 2222)"
			items = append(items, item{kind: "init-twice", class: x, feats: append(append([]string{}, feats...), featTwice),
				src:  "(let ((i " + twice + ")) " + stateSrc(c.Universe) + ")",
				subs: kinded(stateSubs(c.Universe, state, fmt.Sprintf("c%d made with :%s given twice:", x, a)), "init-twice")})
		}
		// an initarg that no slot of the class names is rejected; first choice
		// are initargs that were valid before a redefinition took them away
		{
			valid := map[string]bool{}
			for _, a := range all {
				valid[a] = true
			}
			if _, _, ex, _, ias := m.sharedSlotX(x); ex {
				for _, a := range ias {
					valid[a] = true
				}
			}
			was := map[string]bool{}
			if after {
				for _, a := range prev.initargs(x) {
					was[a] = true
				}
				if _, _, ex, _, ias := prev.sharedSlotX(x); ex {
					for _, a := range ias {
						was[a] = true
					}
				}
			}
			var cand []string
			for _, a := range pool {
				if !valid[a] && was[a] {
					cand = append(cand, a)
				}
			}
			for _, a := range pool {
				if !valid[a] && !was[a] {
					cand = append(cand, a)
				}
			}
			cand = append(cand, "nope")
			for ci, a := range cand {
				if 2 <= ci {
					break
				}
				kind := "invalid-initarg"
				if was[a] {
					kind = "stale-initarg" // valid until the redefinition
				}
				items = append(items, item{kind: kind, class: x, wantErr: true, feats: baseFeats,
					src:  strings.TrimSuffix(mk, ")") + " :" + a + " 4444)",
					subs: []sub{{kind: kind, what: fmt.Sprintf("c%d made with :%s, which no slot of c%d names", x, a, x)}}})
			}
		}
		// the class designated by the class object instead of its name
		if c.Cond == "" {
			mko := strings.Replace(mk, fmt.Sprintf("'@c%d", x), fmt.Sprintf("(find-class '@c%d)", x), 1)
			subs := []sub{{kind: "via-class-object", what: fmt.Sprintf("(class-precedence (find-class 'c%d))", x), want: m.precNames(x)}}
			subs = append(subs, kinded(stateSubs(c.Universe, baseState, fmt.Sprintf("(make-instance (find-class 'c%d) ..):", x)), "via-class-object")...)
			items = append(items, item{kind: "via-class-object", class: x, feats: baseFeats,
				src:  fmt.Sprintf("(let ((i %s)) (append (list (class-precedence (find-class '@c%d))) %s))", mko, x, stateSrc(c.Universe)),
				subs: subs})
		}
		// typep / class-of / subtypep against every class of the DAG
		{
			var sb strings.Builder
			var subs []sub
			sb.WriteString("(let ((i " + mk + ")) (list")
			for y := 0; y < n; y++ {
				fmt.Fprintf(&sb, " (typep i '@c%d)", y)
				subs = append(subs, sub{kind: "typep", what: fmt.Sprintf("(typep <c%d> 'c%d)", x, y), want: tf(m.inherits(x, y))})
			}
			top := m.base
			sb.WriteString(" (typep i '" + top + ") (class-name (class-of i))")
			subs = append(subs, sub{"typep", fmt.Sprintf("(typep <c%d> '%s)", x, top), "t", ""},
				sub{"class-of", fmt.Sprintf("(class-name (class-of <c%d>))", x), "@c" + strconv.Itoa(x), ""})
			fmt.Fprintf(&sb, " (eq (class-of i) (find-class '@c%d))", x)
			subs = append(subs, sub{"class-of", fmt.Sprintf("(eq (class-of <c%d>) (find-class 'c%d))", x, x), "t", ""})
			for y := 0; y < n; y++ {
				fmt.Fprintf(&sb, " (values (subtypep '@c%d '@c%d))", x, y)
				subs = append(subs, sub{kind: "subtypep", what: fmt.Sprintf("(subtypep 'c%d 'c%d)", x, y), want: tf(m.inherits(x, y))})
			}
			// the implicit base class is on every precedence list (condition
			// classes only: slip has no class named standard-object for subtypep to find)
			if c.Cond != "" {
				fmt.Fprintf(&sb, " (values (subtypep '@c%d '%s))", x, top)
				subs = append(subs, sub{kind: "subtypep-base", what: fmt.Sprintf("(subtypep 'c%d '%s)", x, top), want: "t"})
			}
			if anyK0 {
				st, _ := m.k0State(x)
				sb.WriteString(" (slot-exists-p i 'k0)")
				subs = append(subs, sub{kind: "class-slot-exists", what: fmt.Sprintf("(slot-exists-p <c%d> 'k0)", x), want: tf(st != "")})
			}
			sb.WriteString("))")
			items = append(items, item{kind: "type", class: x, src: sb.String(), subs: subs, feats: baseFeats})
		}
		// dispatch of the probe generics
		want := ""
		for _, k := range prec {
			if methOn[k] {
				want = "m" + strconv.Itoa(k)
				break
			}
		}
		if want == "" && c.MethTop {
			want = "mtop"
		}
		gens := []string{"g"}
		if after {
			gens = append(gens, "h") // h is first called after the redefinition
		}
		for _, g := range gens {
			kind := "dispatch"
			if (g == "g" && after && c.Redef.Skew < 0) || phase == 2 {
				kind = "dispatch-again" // same generic already called on this class before the redefinition
			}
			if want == "" {
				items = append(items, item{kind: kind, class: x, wantErr: true, feats: baseFeats,
					src:  fmt.Sprintf("(@%s %s)", g, mk),
					subs: []sub{{kind: kind, what: fmt.Sprintf("(%s <c%d>) with no applicable method", g, x)}}})
			} else {
				items = append(items, item{kind: kind, class: x, feats: baseFeats,
					src:  fmt.Sprintf("(list (@%s %s))", g, mk),
					subs: []sub{{kind: kind, what: fmt.Sprintf("(%s <c%d>)", g, x), want: want}}})
			}
		}
		// (setf slot-value) and slot-makunbound act on the named slot only
		for si, es := range m.slots(x) {
			after := map[string]string{}
			for k, v := range baseState {
				after[k] = v
			}
			val := strconv.Itoa(6000 + si)
			after[es.name] = val
			subs := stateSubs(c.Universe, after, fmt.Sprintf("after (setf (slot-value <c%d> '%s) %s):", x, es.name, val))
			for k := range subs {
				subs[k].kind = "setf-slot-value"
			}
			items = append(items, item{kind: "setf-slot-value", class: x, feats: baseFeats,
				src: "(let ((i " + mk + ")) (setf (slot-value i '" + es.name + ") " + val + ") " + stateSrc(c.Universe) + ")", subs: subs})
			if (si+x)%2 == 0 {
				after2 := map[string]string{}
				for k, v := range baseState {
					after2[k] = v
				}
				after2[es.name] = unbound
				subs2 := stateSubs(c.Universe, after2, fmt.Sprintf("after (slot-makunbound <c%d> '%s):", x, es.name))
				for k := range subs2 {
					subs2[k].kind = "slot-makunbound"
				}
				items = append(items, item{kind: "slot-makunbound", class: x, feats: baseFeats,
					src: "(let ((i " + mk + ")) (slot-makunbound i '" + es.name + ") " + stateSrc(c.Universe) + ")", subs: subs2})
			}
		}
		// accessors: applicable ones read / write exactly their slot
		accFeats := baseFeats
		if c.Cond != "" {
			accFeats = append(append([]string{}, baseFeats...), featCondAcc)
		}
		var readers, writers, foreign []accessor
		for k := 0; k < n; k++ {
			for _, a := range m.accessorsOf(k) {
				if !m.inherits(x, k) {
					foreign = append(foreign, a)
					continue
				}
				if a.kind == "r" || a.kind == "a" {
					readers = append(readers, a)
				}
				if a.kind == "w" || a.kind == "a" {
					writers = append(writers, a)
				}
			}
		}
		if 0 < len(readers) {
			var sb strings.Builder
			var subs []sub
			sb.WriteString("(let ((i " + mk + ")) (list")
			for _, a := range readers {
				if baseState[a.slot] == unbound || baseState[a.slot] == missing {
					continue // reading an unbound slot through a reader is outside the statement
				}
				fmt.Fprintf(&sb, " (%s i)", a.name)
				subs = append(subs, sub{kind: "reader", what: fmt.Sprintf("reader of c%d.%s on <c%d>", a.class, a.slot, x), want: baseState[a.slot]})
			}
			sb.WriteString("))")
			if 0 < len(subs) {
				items = append(items, item{kind: "reader", class: x, src: sb.String(), subs: subs, feats: accFeats})
			}
		}
		for wi, a := range writers {
			if baseState[a.slot] == missing {
				continue
			}
			val := strconv.Itoa(7000 + wi)
			after := map[string]string{}
			for k, v := range baseState {
				after[k] = v
			}
			after[a.slot] = val
			call := fmt.Sprintf("(%s i %s)", a.name, val)
			kind := "writer"
			if a.kind == "a" {
				call = fmt.Sprintf("(setf (%s i) %s)", a.name, val)
				kind = "accessor-setf"
			}
			subs := stateSubs(c.Universe, after, fmt.Sprintf("after %s of c%d.%s on <c%d>:", kind, a.class, a.slot, x))
			for k := range subs {
				subs[k].kind = kind
			}
			items = append(items, item{kind: kind, class: x, feats: accFeats,
				src: "(let ((i " + mk + ")) " + call + " " + stateSrc(c.Universe) + ")", subs: subs})
		}
		// a reader applied to an instance whose slot was made unbound signals unbound-slot
		for _, a := range readers {
			if baseState[a.slot] == missing {
				continue
			}
			items = append(items, item{kind: "reader-unbound", class: x, wantErr: true, errIsA: "unbound-slot", feats: append(append([]string{}, accFeats...), featReaderUnbound),
				src:  fmt.Sprintf("(let ((i %s)) (slot-makunbound i '%s) (%s i))", mk, a.slot, a.name),
				subs: []sub{{kind: "reader-unbound", what: fmt.Sprintf("reader of c%d.%s on <c%d> after slot-makunbound", a.class, a.slot, x)}}})
			break
		}
		// :type validates initial values: a string for a slot typed as a number is rejected
		for _, es := range m.slots(x) {
			if es.typ == "" || len(es.initargs) == 0 {
				continue
			}
			as := []string{es.initargs[0]}
			_, feats := m.instance(x, as, c.Universe, all)
			var sb strings.Builder
			sb.WriteString(strings.TrimSuffix(makeSrc(c, x, nil, all), ")"))
			sb.WriteString(" :" + es.initargs[0] + " \"bad\")")
			items = append(items, item{kind: "type-check", class: x, wantErr: true, errIsA: "type-error", feats: feats, src: sb.String(),
				subs: []sub{{kind: "type-check", what: fmt.Sprintf("c%d made with a string for slot %s of :type %s", x, es.name, es.typ)}}})
		}
		// the slot k0: class-allocated, or local below/above a class-allocated definition
		shared := func(kind, what, src string, feats []string, want ...string) {
			subs := make([]sub, len(want))
			for k, w := range want {
				subs[k] = sub{kind: kind, what: what, want: w}
			}
			items = append(items, item{kind: kind, class: x, feats: append(append([]string{}, baseFeats...), feats...), src: src, subs: subs})
		}
		v1, v2 := strconv.Itoa(5100+x), strconv.Itoa(5200+x)
		if owner, hasForm, exists, overLocal, ias := m.sharedSlotX(x); exists {
			var ownFeats []string
			if owner != x {
				ownFeats = append(ownFeats, featSharedInherited)
			}
			if overLocal {
				ownFeats = append(ownFeats, featSharedOverLocal)
			}
			shared("class-slot-shared", fmt.Sprintf("k0 written through one <c%d>, read through another", x),
				fmt.Sprintf("(let ((a %s) (b %s)) (setf (slot-value a 'k0) %s) (list (slot-value b 'k0) (slot-value a 'k0)))", mk, mk, v1), ownFeats, v1, v1)
			resetFeats := ownFeats
			if hasForm {
				resetFeats = append(append([]string{}, ownFeats...), featSharedReset)
			}
			shared("class-slot-kept", fmt.Sprintf("k0 of <c%d> after another instance is made", x),
				fmt.Sprintf("(let ((a %s)) (setf (slot-value a 'k0) %s) %s (list (slot-value a 'k0)))", mk, v2, mk), resetFeats, v2)
			shared("class-slot-makunbound", fmt.Sprintf("k0 made unbound through one <c%d>, slot-boundp through another", x),
				fmt.Sprintf("(let ((a %s) (b %s)) (setf (slot-value a 'k0) %s) (slot-makunbound a 'k0) (list (slot-boundp b 'k0) (slot-boundp a 'k0)))", mk, mk, v1), ownFeats, "nil", "nil")
			if 0 < len(ias) {
				// an initarg of the shared slot sets it for every instance
				shared("class-slot-initarg", fmt.Sprintf("k0 of an earlier <c%d> after another is made with :%s 7777", x, ias[0]),
					fmt.Sprintf("(let ((a %s) (b %s)) (list (slot-value a 'k0) (slot-value b 'k0)))", mk, strings.TrimSuffix(mk, ")")+" :"+ias[0]+" 7777)"), ownFeats, "7777", "7777")
			}
			for y := 0; y < n; y++ {
				oy, _, ey, overY, _ := m.sharedSlotX(y)
				if y == x || !ey {
					continue
				}
				_, yFeats0 := m.instance(y, nil, c.Universe, m.initargs(y))
				feats := append([]string{}, yFeats0...)
				if owner != x || oy != y {
					feats = append(feats, featSharedInherited)
				}
				if overLocal || overY {
					feats = append(feats, featSharedOverLocal)
				}
				mky := makeSrc(c, y, nil, m.initargs(y))
				if oy == owner {
					shared("class-slot-shared", fmt.Sprintf("k0 written through <c%d>, read through <c%d> (same owner c%d)", x, y, owner),
						fmt.Sprintf("(let ((a %s) (b %s)) (setf (slot-value b 'k0) %s) (setf (slot-value a 'k0) %s) (list (slot-value b 'k0) (slot-value a 'k0)))", mk, mky, v2, v1), feats, v1, v1)
				} else {
					shared("class-slot-separate", fmt.Sprintf("k0 written through <c%d> (owner c%d), read through <c%d> (owner c%d)", x, owner, y, oy),
						fmt.Sprintf("(let ((a %s) (b %s)) (setf (slot-value b 'k0) %s) (setf (slot-value a 'k0) %s) (list (slot-value b 'k0) (slot-value a 'k0)))", mk, mky, v2, v1), feats, v2, v1)
				}
			}
		} else if st, under := m.k0State(x); st == "local" && anyShared(c) {
			// the most specific definition of k0 is an ordinary one: every
			// instance has its own k0, whatever less specific classes say
			var feats []string
			if under {
				feats = append(feats, "local-slot-over-class-slot")
			}
			shared("class-slot-local", fmt.Sprintf("k0, a local slot of c%d, written through two <c%d>", x, x),
				fmt.Sprintf("(let ((a %s) (b %s)) (setf (slot-value a 'k0) %s) (setf (slot-value b 'k0) %s) (list (slot-value a 'k0) (slot-value b 'k0)))", mk, mk, v1, v2), feats, v1, v2)
			for y := 0; y < n; y++ {
				_, _, ey, overY, _ := m.sharedSlotX(y)
				if y == x || !ey {
					continue
				}
				_, yFeats := m.instance(y, nil, c.Universe, m.initargs(y))
				yFeats = append(append([]string{}, yFeats...), feats...)
				if overY {
					yFeats = append(yFeats, featSharedOverLocal)
				}
				mky := makeSrc(c, y, nil, m.initargs(y))
				shared("class-slot-local", fmt.Sprintf("k0 written through <c%d> (local slot), read through <c%d> (class slot)", x, y),
					fmt.Sprintf("(let ((a %s) (b %s)) (setf (slot-value b 'k0) %s) (setf (slot-value a 'k0) %s) (list (slot-value b 'k0) (slot-value a 'k0)))", mk, mky, v2, v1), yFeats, v2, v1)
			}
		}
		// change-class (standard classes only)
		if c.Cond == "" {
			for d := 1; d <= 2 && d < n; d++ {
				y := (x + d) % n
				state, feats := m.changed(x, y, baseState, c.Universe)
				var sb strings.Builder
				fmt.Fprintf(&sb, "(let ((i %s)) (change-class i '@c%d) (append (list (class-name (class-of i)) (typep i '@c%d) (typep i '@c%d)) %s))", mk, y, y, x, stateSrc(c.Universe))
				what := fmt.Sprintf("<c%d> after (change-class i 'c%d):", x, y)
				subs := []sub{{"change-class", what + " class name", "@c" + strconv.Itoa(y), ""}, {"change-class", what + " typep new class", "t", ""},
					{"change-class", what + " typep old class", tf(m.inherits(y, x)), ""}}
				for _, sb2 := range stateSubs(c.Universe, state, what) {
					sb2.kind = "change-class"
					subs = append(subs, sb2)
				}
				items = append(items, item{kind: "change-class", class: x, feats: append(append([]string{}, baseFeats...), feats...), src: sb.String(), subs: subs})
				if d != 1 {
					continue
				}
				// operations on the result: the changed instance is dispatched on
				// and read like an instance of its new class, then changed back
				wantY := ""
				for _, k := range m.prec(y) {
					if methOn[k] {
						wantY = "m" + strconv.Itoa(k)
						break
					}
				}
				if wantY == "" && c.MethTop {
					wantY = "mtop"
				}
				if wantY == "" {
					items = append(items, item{kind: "changed-dispatch", class: x, wantErr: true, feats: append(append([]string{}, baseFeats...), feats...),
						src:  fmt.Sprintf("(let ((i %s)) (change-class i '@c%d) (@g i))", mk, y),
						subs: []sub{{kind: "changed-dispatch", what: fmt.Sprintf("(g <c%d changed to c%d>) with no applicable method", x, y)}}})
				}
				back, feats2 := m.changed(y, x, state, c.Universe)
				var cb strings.Builder
				var csubs []sub
				fmt.Fprintf(&cb, "(let ((i %s)) (change-class i '@c%d) (let ((mid (list", mk, y)
				if wantY != "" {
					cb.WriteString(" (@g i)")
					csubs = append(csubs, sub{kind: "changed-dispatch", what: fmt.Sprintf("(g <c%d changed to c%d>)", x, y), want: wantY})
				}
				for k := 0; k < n; k++ {
					if !m.inherits(y, k) {
						continue
					}
					for _, a := range m.accessorsOf(k) {
						if a.kind == "w" || state[a.slot] == unbound || state[a.slot] == missing || state[a.slot] == "" {
							continue
						}
						fmt.Fprintf(&cb, " (%s i)", a.name)
						csubs = append(csubs, sub{kind: "changed-reader", what: fmt.Sprintf("reader of c%d.%s on <c%d changed to c%d>", a.class, a.slot, x, y), want: state[a.slot]})
					}
				}
				fmt.Fprintf(&cb, "))) (change-class i '@c%d) (append mid (list (class-name (class-of i))) %s)))", x, stateSrc(c.Universe))
				csubs = append(csubs, sub{kind: "change-class-back", what: fmt.Sprintf("<c%d> changed to c%d and back: class name", x, y), want: "@c" + strconv.Itoa(x)})
				csubs = append(csubs, kinded(stateSubs(c.Universe, back, fmt.Sprintf("<c%d> changed to c%d and back:", x, y)), "change-class-back")...)
				items = append(items, item{kind: "change-class-back", class: x, feats: append(append(append([]string{}, baseFeats...), feats...), feats2...), src: cb.String(), subs: csubs})
			}
		}
		// two-argument probe generic: specificity is decided by the precedence
		// list of the first argument, then by that of the second
		if 0 < len(c.Meth2) {
			var sb strings.Builder
			var subs []sub
			sb.WriteString("(let ((i " + mk + ")) (list")
			rejected := false
			for y := 0; y < n; y++ {
				py := m.prec(y)
				want := ""
			search:
				for _, k1 := range prec {
					for _, k2 := range py {
						for _, pr := range c.Meth2 {
							if pr[0] == k1 && pr[1] == k2 {
								want = fmt.Sprintf("p%d-%d", k1, k2)
								break search
							}
						}
					}
				}
				mky := makeSrc(c, y, nil, m.initargs(y))
				if want == "" {
					if !rejected {
						rejected = true
						items = append(items, item{kind: "dispatch2", class: x, wantErr: true, feats: baseFeats,
							src:  fmt.Sprintf("(@g2 %s %s)", mk, mky),
							subs: []sub{{kind: "dispatch2", what: fmt.Sprintf("(g2 <c%d> <c%d>) with no applicable method", x, y)}}})
					}
					continue
				}
				fmt.Fprintf(&sb, " (@g2 i %s)", mky)
				subs = append(subs, sub{kind: "dispatch2", what: fmt.Sprintf("(g2 <c%d> <c%d>)", x, y), want: want})
			}
			sb.WriteString("))")
			if 0 < len(subs) {
				items = append(items, item{kind: "dispatch2", class: x, feats: baseFeats, src: sb.String(), subs: subs})
			}
		}
		// accessors of classes that are not on the precedence list are not applicable
		if after {
			sort.SliceStable(foreign, func(a, b int) bool {
				return prev.inherits(x, foreign[a].class) && !prev.inherits(x, foreign[b].class)
			})
		}
		for fi, a := range foreign {
			if 2 <= fi {
				break
			}
			call := fmt.Sprintf("(%s %s)", a.name, mk)
			switch a.kind {
			case "w":
				call = fmt.Sprintf("(%s %s 1)", a.name, mk)
			}
			kind := "foreign-accessor"
			if after && prev.gen[a.class] == m.gen[a.class] && prev.inherits(x, a.class) {
				kind = "foreign-accessor-again" // was applicable, and called, before the redefinition
			}
			items = append(items, item{kind: kind, class: x, wantErr: true, feats: accFeats, src: call,
				subs: []sub{{kind: kind, what: fmt.Sprintf("accessor of c%d.%s applied to <c%d>", a.class, a.slot, x)}}})
		}
	}
	return items
}

func tf(b bool) string {
	if b {
		return "t"
	}
	return "nil"
}

// allDefs lists every defclass form of the case.
func allDefs(c *Case) []Class {
	defs := append([]Class{}, c.Classes...)
	if c.Redef != nil {
		defs = append(defs, c.Redef.Def)
	}
	if c.Redef2 != nil {
		defs = append(defs, c.Redef2.Def)
	}
	return defs
}

// initargPool lists, sorted, every initarg named by any defclass form of the case.
func initargPool(c *Case) []string {
	set := map[string]bool{}
	for _, d := range allDefs(c) {
		for _, sd := range d.Slots {
			for _, ia := range sd.Initargs {
				set[ia] = true
			}
		}
	}
	out := make([]string, 0, len(set))
	for ia := range set {
		out = append(out, ia)
	}
	sort.Strings(out)
	return out
}

// hasK0: some form defines the slot k0; anyShared: some form allocates it in the class.
func hasK0(c *Case) bool {
	for _, d := range allDefs(c) {
		for _, sd := range d.Slots {
			if sd.Name == sharedName {
				return true
			}
		}
	}
	return false
}

func anyShared(c *Case) bool {
	for _, d := range allDefs(c) {
		for _, sd := range d.Slots {
			if sd.Shared {
				return true
			}
		}
	}
	return false
}

// failingForms lists evaluations that must signal an error and leave no
// trace: an attempt to redefine each class with a malformed form (another
// list of superclasses and other slots, but :initform twice in the last slot,
// or a built-in class as superclass) and a make-instance with an initarg no
// class names. They are evaluated before the observations of a phase.
func failingForms(m *model, c *Case, phase int) []item {
	var items []item
	n := len(m.classes)
	def := "defclass"
	if c.Cond != "" {
		def = "define-condition"
	}
	for k := 0; k < n; k++ {
		sup := ""
		if len(m.classes[k].Supers) == 0 && 1 < n && !m.inherits((k+1)%n, k) {
			sup = fmt.Sprintf("@c%d", (k+1)%n)
		}
		var src string
		switch (k + phase) % 3 {
		case 0:
			src = fmt.Sprintf("(%s @c%d (%s) ((s0 :initform 1 :initarg :if%d :reader @fr%d-%d) (s1 :initform 771 :initform 772)))", def, k, sup, k, k, phase)
		case 1:
			src = fmt.Sprintf("(%s @c%d (%s fixnum) ((s1 :initform 773 :initarg :ig%d)))", def, k, sup, k)
		default:
			src = fmt.Sprintf("(%s @c%d (%s) ((s2 :initform 774) (s0 :no-such-option 1)))", def, k, sup)
		}
		items = append(items, item{kind: "failed-defclass", class: k, wantErr: true, src: src,
			subs: []sub{{kind: "failed-defclass", what: fmt.Sprintf("malformed redefinition of c%d", k)}}})
		items = append(items, item{kind: "failed-make-instance", class: k, wantErr: true, src: strings.TrimSuffix(makeSrc(c, k, nil, nil), ")") + " :nope 1)",
			subs: []sub{{kind: "failed-make-instance", what: fmt.Sprintf("c%d made with :nope", k)}}})
	}
	return items
}

var uid int

// failure accumulates the violations of one case by signature.
type failure struct {
	msg   string
	perms int
	last  string
}

type run struct {
	x      *fw.Ctx
	c      *Case
	fails  map[string]*failure
	order  []string
	nperms int
	evals  int
	// first observation of every item (model-free relation between orders)
	first map[string]string
}

func (rn *run) fail(sig, perm string, format string, a ...any) {
	f := rn.fails[sig]
	if f == nil {
		f = &failure{msg: "order " + perm + ": " + fmt.Sprintf(format, a...)}
		rn.fails[sig] = f
		rn.order = append(rn.order, sig)
	}
	if f.last != perm {
		f.perms++
		f.last = perm
	}
}

// openFeat is the one construct with an open finding: two initargs of the
// same slot supplied together make make-instance signal "Duplicate initarg"
// (pinned by slip's own tests) where ANSI lets the leftmost one win.
const openFeat = "two-initargs-one-slot"

// Two more constructs with an open finding:
const (
	// the same initarg supplied twice: slip uses the rightmost value
	featTwice = "same-initarg-twice"
	// a class-allocated slot whose less specific definition is a local slot is not shared
	featSharedOverLocal = "class-slot-over-local-slot"
)

func hasFeat(feats []string, f string) bool {
	for _, g := range feats {
		if g == f {
			return true
		}
	}
	return false
}

func hasOpen(feats []string) bool {
	for _, f := range feats {
		if f == openFeat {
			return true
		}
	}
	return false
}

// sigOf names the failing construct. Only the Duplicate-initarg error of an
// evaluation that supplies two initargs of one slot is attributed to the
// listed finding; every other outcome of such an evaluation is judged like
// any other.
func sigOf(obs, fail, when string, feats []string) string {
	if fail == "duplicate-initarg" && hasOpen(feats) {
		return "construct=" + openFeat
	}
	if obs == "init-twice" && fail == "wrong" && hasFeat(feats, featTwice) {
		return "construct=" + featTwice
	}
	if strings.HasPrefix(obs, "class-slot-") && (fail == "wrong" || fail == "error") && hasFeat(feats, featSharedOverLocal) {
		// the instance's own copy hides the class slot; without an initform it is unbound
		return "construct=" + featSharedOverLocal
	}
	if obs == "subtypep-base" && fail == "wrong" {
		return "construct=subtypep-implicit-base"
	}
	return fmt.Sprintf("obs=%s fail=%s when=%s", obs, fail, when)
}

func errKind(e *sl.Err) string {
	if e.Internal {
		return "internal-fault"
	}
	if strings.Contains(e.Msg, "Duplicate initarg") {
		return "duplicate-initarg"
	}
	return "error"
}

// observe evaluates the items and judges them.
func (rn *run) observe(scope *slip.Scope, prefix, perm string, items []item, whenOf func(class int) string, phase string, extra func(class int) []string) {
	for ii := range items {
		it := &items[ii]
		if extra != nil {
			if more := extra(it.class); 0 < len(more) {
				cp := *it
				cp.feats = append(append([]string{}, it.feats...), more...)
				it = &cp
			}
		}
		src := strings.ReplaceAll(it.src, "@", prefix)
		res, err := sl.Eval(scope, src)
		rn.evals++
		when := whenOf(it.class)
		shown := strings.ReplaceAll(it.src, "@", "")
		if i := strings.Index(shown, "(slot-states-"); 0 <= i {
			if j := strings.Index(shown[i:], " "); 0 < j {
				shown = shown[:i] + "(slot-states" + shown[i+j:]
			}
		}
		if it.wantErr {
			switch {
			case err == nil:
				got := strings.ReplaceAll(sl.Show(res), prefix, "@")
				rn.fail(sigOf(it.kind, "no-error", when, it.feats), perm, "%s: must signal an error, returned %s; evaluated %s", it.subs[0].what, got, shown)
			case err.Internal:
				rn.fail(sigOf(it.kind, "internal-fault", when, it.feats), perm, "%s: %s; evaluated %s", it.subs[0].what, err, shown)
			case it.errIsA != "" && !err.IsA(it.errIsA):
				rn.fail(sigOf(it.kind, "wrong-error", when, it.feats), perm, "%s: must signal a %s, signalled %s; evaluated %s", it.subs[0].what, it.errIsA, err, shown)
			default:
				rn.x.Cover("held:" + it.kind + "-rejected")
			}
			continue
		}
		if err != nil {
			rn.fail(sigOf(it.kind, errKind(err), when, it.feats), perm, "%s => %s", shown, strings.ReplaceAll(err.String(), prefix, ""))
			continue
		}
		list, _ := res.(slip.List)
		if len(list) != len(it.subs) {
			rn.fail(sigOf(it.kind, "shape", when, it.feats), perm, "%s => %s", shown, sl.Show(res))
			continue
		}
		key := phase + "#" + strconv.Itoa(ii)
		whole := strings.ReplaceAll(sl.Show(res), prefix, "@")
		if prev, has := rn.first[key]; !has {
			rn.first[key] = whole
		} else if prev == whole {
			rn.x.Cover("relation:same-as-first-order")
		} else {
			rn.x.Cover("relation:differs-from-first-order")
		}
		for k, sb := range it.subs {
			got := strings.ReplaceAll(sl.Show(list[k]), prefix, "@")
			if got == sb.want {
				rn.x.Cover("held:" + sb.kind)
				if sb.tag != "" {
					rn.x.Cover("init:" + sb.tag)
				}
				continue
			}
			kind := sb.kind
			if kind == "slot" {
				switch {
				case got == missing || sb.want == missing:
					kind = "slot-exists"
				case got == unbound || sb.want == unbound:
					kind = "slot-bound"
				default:
					kind = "slot-value"
				}
			}
			rel := ""
			if prev := rn.first[key]; prev != whole {
				rel = fmt.Sprintf(" [order-dependent: the first order gave %s, this one %s]", strings.ReplaceAll(prev, "@", ""), strings.ReplaceAll(whole, "@", ""))
			}
			rn.fail(sigOf(kind, "wrong", when, it.feats), perm, "%s is %s, expected %s; evaluated %s%s", sb.what,
				strings.ReplaceAll(got, "@", ""), strings.ReplaceAll(sb.want, "@", ""), shown, rel)
		}
	}
}

func (rn *run) eval(scope *slip.Scope, prefix, src string) (slip.Object, *sl.Err) {
	rn.evals++
	return sl.Eval(scope, strings.ReplaceAll(src, "@", prefix))
}

func exec(x *fw.Ctx, c Case) {
	n := len(c.Classes)
	if n == 0 || 8 < n {
		x.Trivial()
		return
	}
	rn := &run{x: x, c: &c, fails: map[string]*failure{}, first: map[string]string{}}
	var perms [][]int
	if len(c.Perms) == 0 {
		perms = allPerms(n)
	} else {
		for _, p := range c.Perms {
			perms = append(perms, parsePerm(p))
		}
	}
	rn.nperms = len(perms)
	// models before and after the redefinition
	m0 := newModel(&c, c.Classes)
	m1 := m0
	if c.Redef != nil {
		cls := append([]Class{}, c.Classes...)
		cls[c.Redef.Class] = c.Redef.Def
		m1 = newModel(&c, cls)
		m1.gen[c.Redef.Class] = 1
	}
	m2 := m1
	if c.Redef2 != nil && c.Redef != nil && c.Redef.Skew < 0 {
		cls := append([]Class{}, m1.classes...)
		cls[c.Redef2.Class] = c.Redef2.Def
		m2 = newModel(&c, cls)
		copy(m2.gen, m1.gen)
		m2.gen[c.Redef2.Class]++
	}
	items0 := buildItems(m0, nil, &c, 0)
	var items1, items2 []item
	if c.Redef != nil {
		items1 = buildItems(m1, m0, &c, 1)
	}
	if m2 != m1 {
		items2 = buildItems(m2, m1, &c, 2)
	}
	var fail0, fail1, fail2 []item
	if c.Failed {
		fail0 = failingForms(m0, &c, 0)
		fail1 = failingForms(m1, &c, 1)
		fail2 = failingForms(m2, &c, 2)
	}
	var oldDefs []string
	var oldWatched []item
	if c.Redef != nil && c.Redef.Skew < 0 {
		var judged []item
		oldDefs, judged, oldWatched = oldItems(m0, m1, &c)
		items1 = append(items1, judged...)
	}
	uid++
	stName := fmt.Sprintf("slot-states-%d", uid)
	if _, err := sl.Eval(slip.NewScope(), strings.ReplaceAll(stateDefun(c.Universe), stateFn, stName)); err != nil {
		x.Fail("harness-defun", "%s", err)
		return
	}
	for _, its := range [][]item{items0, items1, items2, oldWatched} {
		for k := range its {
			its[k].src = strings.ReplaceAll(its[k].src, stateFn, stName)
		}
	}
	depth, shadow := shape(m0)
	x.Cover(fmt.Sprintf("shape:classes=%d", n))
	x.Cover(fmt.Sprintf("shape:depth=%d", depth))
	x.Cover(fmt.Sprintf("shape:max-shadow-levels=%d", shadow))
	for k := 0; k < n; k++ {
		if m0.baseMidList(k) {
			x.Cover("shape:condition-base-before-other-class")
			break
		}
	}
	if c.Redef != nil {
		for k := 0; k < n; k++ {
			if k != c.Redef.Class && m0.inherits(k, c.Redef.Class) {
				for _, y := range m0.prec(k) {
					if y != k && y != c.Redef.Class && m0.inherits(y, c.Redef.Class) {
						x.Cover("shape:redefined-class-has-indirect-subclass")
						k = n
						break
					}
				}
			}
		}
		if c.Redef.Skew < 0 {
			x.Cover("shape:redefinition-at-end")
		} else {
			x.Cover("shape:redefinition-mid-sequence")
		}
	}
	if c.Redef2 != nil && m2 != m1 {
		switch {
		case c.Redef2.Class != c.Redef.Class:
			x.Cover("shape:second-redefinition-of-another-class")
		case fmt.Sprint(c.Redef2.Def) == fmt.Sprint(c.Classes[c.Redef.Class]):
			x.Cover("shape:second-redefinition-back-to-the-first-definition")
		default:
			x.Cover("shape:second-redefinition-of-the-same-class")
		}
	}
	if c.Failed {
		x.Cover("shape:failing-forms-before-every-observation-phase")
	}
	k0Shapes := map[string]bool{}
	for _, m := range []*model{m0, m1, m2} {
		for k := 0; k < n; k++ {
			if _, _, ex, over, ias := m.sharedSlotX(k); ex {
				k0Shapes["shape:class-slot"] = true
				if over {
					k0Shapes["shape:class-slot-over-local-slot"] = true
				}
				if 0 < len(ias) {
					k0Shapes["shape:class-slot-with-initarg"] = true
				}
			} else if st, under := m.k0State(k); st == "local" && under {
				k0Shapes["shape:local-slot-over-class-slot"] = true
			}
		}
	}
	for k := range k0Shapes {
		x.Cover(k)
	}
	for _, it := range append(append(append([]item{}, items0...), items1...), items2...) {
		for _, f := range it.feats {
			if f == openFeat || f == featTwice || f == featSharedOverLocal {
				x.Cover("dirty:" + f)
			} else {
				x.Cover("exercised:" + f)
			}
		}
	}
	for _, perm := range perms {
		uid++
		prefix := fmt.Sprintf("k%dx", uid)
		ps := permString(perm)
		scope := slip.NewScope()
		defined := map[int]bool{}
		forward := map[int]bool{} // class was defined before one of its ancestors
		anyForward := false
		cur := newModel(&c, append([]Class{}, c.Classes...))
		redefAt := -1 // index in the sequence after which the redefinition is issued
		redefForward := false
		if c.Redef != nil && 0 <= c.Redef.Skew {
			pos := 0
			for i, k := range perm {
				if k == c.Redef.Class {
					pos = i
				}
			}
			redefAt = min(pos+c.Redef.Skew, n-1)
		}
		broken := false
		define := func(k int, cl Class, gen int) bool {
			_, err := rn.eval(scope, prefix, defclassSrc(&c, k, cl, gen))
			if err != nil {
				rn.fail(sigOf("defclass", errKind(err), "define", nil), ps, "%s => %s", strings.ReplaceAll(defclassSrc(&c, k, cl, gen), "@", ""), err)
				return false
			}
			return true
		}
		partial := func() {
			// every class whose ancestors all exist has its final precedence list already
			for k := 0; k < n; k++ {
				if !defined[k] {
					continue
				}
				res, err := rn.eval(scope, prefix, fmt.Sprintf("(class-precedence '@c%d)", k))
				if !cur.ready(k, defined) {
					x.Cover("partial:class-awaiting-superclass")
					continue
				}
				when := "ordered"
				if forward[k] {
					when = "forward"
				}
				if c.Redef != nil && cur.gen[c.Redef.Class] == 1 {
					when = "redef-mid"
				}
				got := ""
				if err != nil {
					got = err.String()
				} else {
					got = strings.ReplaceAll(sl.Show(res), prefix, "@")
				}
				if got != cur.precNames(k) {
					rn.fail(sigOf("precedence-partial", "wrong", when, nil), ps, "after defining %d of %d classes class-precedence of c%d is %s, expected %s",
						len(defined), n, k, strings.ReplaceAll(got, "@", ""), strings.ReplaceAll(cur.precNames(k), "@", ""))
				} else {
					x.Cover("held:precedence-partial")
				}
			}
		}
		for i, k := range perm {
			if !define(k, c.Classes[k], 0) {
				broken = true
				break
			}
			defined[k] = true
			if !cur.ready(k, defined) {
				forward[k] = true
				anyForward = true
			}
			if i < n-1 || redefAt == i {
				partial()
			}
			if redefAt == i {
				r := c.Redef
				cur.classes[r.Class] = r.Def
				cur.gen[r.Class] = 1
				if !define(r.Class, r.Def, 1) {
					broken = true
					break
				}
				if !cur.ready(r.Class, defined) {
					redefForward = true
				}
				if i < n-1 {
					partial()
				}
			}
		}
		if broken {
			continue
		}
		if anyForward {
			x.Cover("orders:with-forward-reference")
		} else {
			x.Cover("orders:supers-first")
		}
		// probe generics, defined once every class exists
		for _, g := range []string{"g", "h"} {
			if _, err := rn.eval(scope, prefix, fmt.Sprintf("(defgeneric @%s (o))", g)); err != nil {
				rn.fail(sigOf("defgeneric", errKind(err), "define", nil), ps, "%s", err)
				broken = true
			}
			for _, k := range c.Meth {
				if _, err := rn.eval(scope, prefix, fmt.Sprintf("(defmethod @%s ((o @c%d)) 'm%d)", g, k, k)); err != nil {
					rn.fail(sigOf("defmethod", errKind(err), "define", nil), ps, "%s", err)
					broken = true
				}
			}
			if c.MethTop {
				if _, err := rn.eval(scope, prefix, fmt.Sprintf("(defmethod @%s ((o t)) 'mtop)", g)); err != nil {
					rn.fail(sigOf("defmethod", errKind(err), "define", nil), ps, "%s", err)
					broken = true
				}
			}
		}
		if 0 < len(c.Meth2) {
			if _, err := rn.eval(scope, prefix, "(defgeneric @g2 (a b))"); err != nil {
				rn.fail(sigOf("defgeneric", errKind(err), "define", nil), ps, "%s", err)
				broken = true
			}
			for _, pr := range c.Meth2 {
				if _, err := rn.eval(scope, prefix, fmt.Sprintf("(defmethod @g2 ((a @c%d) (b @c%d)) 'p%d-%d)", pr[0], pr[1], pr[0], pr[1])); err != nil {
					rn.fail(sigOf("defmethod", errKind(err), "define", nil), ps, "%s", err)
					broken = true
				}
			}
		}
		if broken {
			continue
		}
		whenDef := func(k int) string {
			// a class counts as forward when it or one of its ancestors was
			// defined before one of its own ancestors
			for _, a := range m0.prec(k) {
				if forward[a] {
					return "forward"
				}
			}
			return "ordered"
		}
		// failing forms: each must signal an error; the observations after
		// them are judged as if they had never been evaluated
		failing := func(items []item) bool {
			for _, it := range items {
				_, err := rn.eval(scope, prefix, it.src)
				switch {
				case err == nil:
					rn.fail(sigOf(it.kind, "no-error", "define", nil), ps, "%s: must signal an error; evaluated %s", it.subs[0].what, strings.ReplaceAll(it.src, "@", ""))
					return false
				case err.Internal:
					rn.fail(sigOf(it.kind, "internal-fault", "define", nil), ps, "%s: %s; evaluated %s", it.subs[0].what, err, strings.ReplaceAll(it.src, "@", ""))
				default:
					x.Cover("held:" + it.kind + "-rejected")
				}
			}
			return true
		}
		switch {
		case c.Redef == nil:
			if !failing(fail0) {
				continue
			}
			rn.observe(scope, prefix, ps, items0, whenDef, "p0", nil)
		case c.Redef.Skew < 0:
			if !failing(fail0) {
				continue
			}
			rn.observe(scope, prefix, ps, items0, whenDef, "p0", nil)
			for _, d := range oldDefs {
				if _, err := rn.eval(scope, prefix, d); err != nil {
					rn.fail(sigOf("old-instance", errKind(err), "define", nil), ps, "%s => %s", strings.ReplaceAll(d, "@", ""), err)
				}
			}
			if !define(c.Redef.Class, c.Redef.Def, 1) {
				continue
			}
			for _, it := range oldWatched {
				// not documented: counted only
				res, err := rn.eval(scope, prefix, it.src)
				switch {
				case err != nil:
					x.Cover("old-subclass-instance:error")
				default:
					list, _ := res.(slip.List)
					keeps := len(list) == len(it.subs)
					for k := 0; keeps && k < len(list); k++ {
						if strings.ReplaceAll(sl.Show(list[k]), prefix, "@") != it.subs[k].want {
							keeps = false
						}
					}
					if keeps {
						x.Cover("old-subclass-instance:unchanged")
					} else {
						x.Cover("old-subclass-instance:changed")
					}
				}
			}
			if !failing(fail1) {
				continue
			}
			rn.observe(scope, prefix, ps, items1, func(k int) string {
				if m0.inherits(k, c.Redef.Class) || m1.inherits(k, c.Redef.Class) {
					return "redef"
				}
				return "redef-unrelated"
			}, "p1", nil)
			if m2 == m1 {
				break
			}
			// the second redefinition: define / use / redefine / use / redefine / use
			if !define(c.Redef2.Class, c.Redef2.Def, m2.gen[c.Redef2.Class]) {
				continue
			}
			if !failing(fail2) {
				continue
			}
			rn.observe(scope, prefix, ps, items2, func(k int) string {
				if m1.inherits(k, c.Redef2.Class) || m2.inherits(k, c.Redef2.Class) {
					return "redef2"
				}
				if m0.inherits(k, c.Redef.Class) || m1.inherits(k, c.Redef.Class) {
					return "redef2-after-redef"
				}
				return "redef-unrelated"
			}, "p2", nil)
		default:
			w := "redef-mid"
			if redefForward {
				w = "redef-mid-forward"
				x.Cover("orders:redefinition-names-undefined-super")
			}
			if !failing(fail1) {
				continue
			}
			rn.observe(scope, prefix, ps, items1, func(k int) string {
				if m0.inherits(k, c.Redef.Class) || m1.inherits(k, c.Redef.Class) {
					return w
				}
				return "redef-unrelated"
			}, "p1", nil)
		}
	}
	x.CoverN("evaluations", rn.evals)
	x.CoverN("definition-orders", len(perms))
	x.CoverN("items-per-order", len(items0)+len(items1)+len(items2))
	sort.Strings(rn.order)
	for _, sig := range rn.order {
		f := rn.fails[sig]
		x.Fail(sig, "%s (in %d of %d definition orders)", f.msg, f.perms, rn.nperms)
	}
	x.Observe(map[string]any{"orders": len(perms), "evaluations": rn.evals, "items_per_order": len(items0) + len(items1) + len(items2),
		"sample_precedence": strings.ReplaceAll(m2.precNames(0), "@", ""), "violations": len(rn.order)})
}

// shape gives the depth of the DAG and the largest number of classes on one
// precedence list defining the same slot.
func shape(m *model) (depth, shadow int) {
	var d func(k int) int
	d = func(k int) int {
		best := 0
		for _, s := range m.classes[k].Supers {
			if v := d(s); best < v {
				best = v
			}
		}
		return best + 1
	}
	for k := range m.classes {
		if v := d(k); depth < v {
			depth = v
		}
		for _, es := range m.slots(k) {
			if shadow < es.levels {
				shadow = es.levels
			}
		}
	}
	return
}

func init() {
	fw.Register(fw.Spec[Case]{
		ID: "C12",
		Rule: "case = a class DAG of 2..5 classes (random supers in written order, 2..4 slot names shared by all classes so that slots shadow over several levels, " +
			"initargs, initforms, readers/writers/accessors; some cases with a :type on one slot name, :default-initargs, a slot k0 that is class-allocated (in 40% of those also a local slot of a class below or above it, in 40% with an initarg); ~15% as condition classes), " +
			"optionally one redefinition (after all classes or mid-sequence, possibly naming a not yet defined super) and, for 30% of the redefinitions that come last, a second one of the same class (new definition, or back to the first) or of another class; " +
			"20% of the cases evaluate failing forms (malformed redefinition of every class, make-instance with an unknown initarg) before every observation phase; one-argument probe generics specialised on a subset of the classes and a two-argument one specialised on class pairs; " +
			"every case is run once per definition order (all n! orders; quick samples 30 of the 120 for half of the 5-class DAGs) under fresh class names, " +
			"and after each order every class is observed: class-precedence (also after every intermediate defclass), a fresh instance for every subset of its initargs " +
			"(slot-exists-p/slot-boundp/slot-value of every slot name; default initargs applied), an initarg no slot names (first choice: one that a redefinition took away), the class named by its class object, (setf slot-value), slot-makunbound, reader after slot-makunbound, wrong-typed initarg, " +
			"class-slot sharing/separation/persistence/makunbound/initarg/existence and local slots below a class-allocated definition, change-class to two other classes (then dispatch and readers on the changed instance, and back), typep/class-of/subtypep against every class, " +
			"one- and two-argument dispatch, every applicable reader/writer/accessor, non-applicable accessors, instances made before a redefinition (also brought up to date with change-class). " +
			fmt.Sprintf("The first %d cases are fixed and seed-independent: 22 shapes (chains, diamond, redefinition of root/middle/apex, every construct that had a finding), 5 shapes of a redefined class with 3..6 direct and indirect subclasses x 20 repetitions x 8 drawn orders, ", len(fixedCases)) +
			fmt.Sprintf("and %d histories (", len(fixedCases)-122) + "two redefinitions in a row, an initarg taken away and brought back, five levels of shadowing, failing forms, a class slot whose owner is redefined / loses the slot / is taken over). " +
			"distinct = distinct case JSON; every case is non-trivial (>= 2 classes, >= 2 orders, >= 100 evaluations). " +
			"Kept to a minority of cases: a slot with two initargs (10%), the same initarg twice (8%), a class-allocated slot above a local definition (about 3%), because each has an open finding.",
		N:        nCases,
		Gen:      gen,
		Exec:     exec,
		Batch:    6,
		HangSecs: 600,
		Assumptions: []string{
			"the model of the statement in model.go is the oracle: precedence = class, direct supers as written, then their lists in that order, first occurrence wins, then standard-object, t",
			"defgeneric/defmethod/eq/list/let/if evaluate correctly (C01/C10)",
			"class names are made unique per definition order by a prefix; the prefix does not influence behaviour",
		},
	})
}
