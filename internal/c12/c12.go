// Package c12 monitors CLOS class definition: precedence lists, effective
// slots, instance initialisation, accessors, typep/class-of/subtypep and
// method applicability, for every definition order of a generated class DAG
// and after the redefinition of one of its classes. Every observation is made
// on the real interpreter and compared with the model in model.go.
package c12

import (
	"fmt"
	"math/bits"
	"sort"
	"strconv"
	"strings"

	"github.com/ohler55/slip"

	"verif/internal/fw"
	"verif/internal/sl"
)

// sub is one element of the list an item evaluates to.
type sub struct {
	kind string // what is observed (signature component)
	what string // human description
	want string
}

// item is one evaluation against the real interpreter.
type item struct {
	kind    string // item kind; used when the whole evaluation fails
	class   int
	src     string // "@" stands for the per-run name prefix
	subs    []sub
	wantErr bool     // the evaluation must signal an (ordinary) error
	errIsA  string   // ... whose class chain contains this class ("" = any)
	feats   []string // listed-finding constructs this evaluation exercises
}

func defclassSrc(c *Case, k int, cl Class, gen int) string {
	var sb strings.Builder
	if c.Cond != "" {
		fmt.Fprintf(&sb, "(define-condition @c%d (", k)
	} else {
		fmt.Fprintf(&sb, "(defclass @c%d (", k)
	}
	for i, s := range cl.Supers {
		if 0 < i {
			sb.WriteByte(' ')
		}
		fmt.Fprintf(&sb, "@c%d", s)
	}
	if c.Cond == "error" && len(cl.Supers) == 0 {
		sb.WriteString("error")
	}
	sb.WriteString(") (")
	for i, sd := range cl.Slots {
		if 0 < i {
			sb.WriteByte(' ')
		}
		plain := len(sd.Initargs) == 0 && sd.Form == "" && !sd.Reader && !sd.Writer && !sd.Accessor && sd.Type == "" && !sd.Shared
		if plain && i%2 == 0 {
			sb.WriteString(sd.Name)
			continue
		}
		sb.WriteString("(" + sd.Name)
		for _, ia := range sd.Initargs {
			sb.WriteString(" :initarg :" + ia)
		}
		if sd.Form != "" {
			sb.WriteString(" :initform " + sd.Form)
		}
		if sd.Reader {
			sb.WriteString(" :reader " + accName("r", k, gen, sd.Name))
		}
		if sd.Writer {
			sb.WriteString(" :writer " + accName("w", k, gen, sd.Name))
		}
		if sd.Accessor {
			sb.WriteString(" :accessor " + accName("a", k, gen, sd.Name))
		}
		if sd.Type != "" {
			sb.WriteString(" :type " + sd.Type)
		}
		if sd.Shared {
			sb.WriteString(" :allocation :class")
		}
		sb.WriteByte(')')
	}
	sb.WriteString(")")
	if 0 < len(cl.Defaults) {
		sb.WriteString(" (:default-initargs")
		for _, d := range cl.Defaults {
			sb.WriteString(" :" + d.Arg + " " + d.Form)
		}
		sb.WriteString(")")
	}
	sb.WriteString(")")
	return sb.String()
}

func makeSrc(cs *Case, c int, args, all []string) string {
	var sb strings.Builder
	if cs.Cond != "" {
		fmt.Fprintf(&sb, "(make-condition '@c%d", c)
	} else {
		fmt.Fprintf(&sb, "(make-instance '@c%d", c)
	}
	for _, a := range args {
		sb.WriteString(" :" + a + " " + argVal(a, all))
	}
	sb.WriteByte(')')
	return sb.String()
}

// stateFn is the name of the per-case helper function
//
//	(defun slot-states (i) (list (if (slot-exists-p i 's0) (if (slot-boundp i 's0) (slot-value i 's0) 'unb) 'mis) ...))
//
// that reads every slot name of the universe from an instance. "$ST" is
// replaced by a name unique to the case before evaluation.
const stateFn = "$ST"

func stateDefun(universe []string) string {
	var sb strings.Builder
	sb.WriteString("(defun " + stateFn + " (i) (list")
	for _, n := range universe {
		fmt.Fprintf(&sb, " (if (slot-exists-p i '%s) (if (slot-boundp i '%s) (slot-value i '%s) '%s) '%s)", n, n, n, unbound, missing)
	}
	sb.WriteString("))")
	return sb.String()
}

// stateSrc reads every slot name of the universe from instance i.
func stateSrc(universe []string) string {
	return "(" + stateFn + " i)"
}

func stateSubs(universe []string, state map[string]string, ctx string) []sub {
	subs := make([]sub, len(universe))
	for i, n := range universe {
		subs[i] = sub{kind: "slot", what: ctx + " slot " + n, want: state[n]}
	}
	return subs
}

// argsets enumerates the subsets of the initargs valid for a class, each as a
// call-order list: about half of the subsets are passed in ascending and half
// in descending order of the initarg names, so that "leftmost wins" and "the
// order of the call does not matter" are both exercised.
func argsets(all []string, maxArgs int) [][]string {
	if maxArgs < len(all) {
		all = all[:maxArgs]
	}
	var out [][]string
	for mask := 0; mask < 1<<len(all); mask++ {
		var as []string
		for k := range all {
			if mask&(1<<k) != 0 {
				as = append(as, all[k])
			}
		}
		if bits.OnesCount(uint(mask))%2 == 0 || mask%3 == 0 {
			for a, b := 0, len(as)-1; a < b; a, b = a+1, b-1 {
				as[a], as[b] = as[b], as[a]
			}
		}
		out = append(out, as)
	}
	return out
}

// :reader/:writer/:accessor options of define-condition slots
const featCondAcc = "condition-slot-accessor"

// baseOf picks the initargs the instances of class x are made with where the
// initialisation itself is not the subject: the first subset that does not
// supply two initargs of one slot (the empty one qualifies).
func baseOf(m *model, c *Case, x int) (base []string, baseState map[string]string, baseFeats []string) {
	all := m.initargs(x)
	for _, as := range argsets(all, c.MaxArgs) {
		state, feats := m.instance(x, as, c.Universe, all)
		if baseState == nil || (hasOpen(baseFeats) && !hasOpen(feats)) {
			base, baseState, baseFeats = as, state, feats
		}
	}
	return
}

// oldItems covers instances made before a redefinition at the end of the
// sequence. defs makes one instance per class; judged are the observations
// slip documents ("existing objects continue to reference the original
// class": the instance of the redefined class keeps its class name and slots
// and its class is no longer the one find-class returns) or that cannot be
// affected (unrelated classes); watched are instances of subclasses of the
// redefined class, whose fate is not documented: they are only counted.
func oldItems(m0 *model, c *Case) (defs []string, judged, watched []item) {
	r := c.Redef.Class
	for x := range m0.classes {
		base, state, feats := baseOf(m0, c, x)
		defs = append(defs, fmt.Sprintf("(defvar @o%d %s)", x, makeSrc(c, x, base, m0.initargs(x))))
		src := fmt.Sprintf("(append (list (class-name (class-of @o%d)) (eq (class-of @o%d) (find-class '@c%d))) (%s @o%d))", x, x, x, stateFn, x)
		what := fmt.Sprintf("<c%d> made before the redefinition of c%d:", x, r)
		same := "t"
		if x == r {
			same = "nil"
		}
		subs := []sub{{"old-instance", what + " class name", "@c" + strconv.Itoa(x)}, {"old-instance", what + " (eq (class-of i) (find-class 'c" + strconv.Itoa(x) + "))", same}}
		for _, sb := range stateSubs(c.Universe, state, what) {
			sb.kind = "old-instance"
			subs = append(subs, sb)
		}
		it := item{kind: "old-instance", class: x, feats: feats, src: src, subs: subs}
		if x == r || !m0.inherits(x, r) {
			judged = append(judged, it)
		} else {
			watched = append(watched, it)
		}
	}
	return
}

// buildItems lists everything observed once all classes exist.
func buildItems(m *model, c *Case, final bool) []item {
	var items []item
	prev := newModel(c, c.Classes)
	n := len(m.classes)
	methOn := map[int]bool{}
	for _, k := range c.Meth {
		methOn[k] = true
	}
	for x := 0; x < n; x++ {
		prec := m.prec(x)
		items = append(items, item{kind: "precedence", class: x, src: fmt.Sprintf("(list (class-precedence '@c%d))", x),
			subs: []sub{{kind: "precedence", what: fmt.Sprintf("class-precedence of c%d", x), want: m.precNames(x)}}})
		all := m.initargs(x)
		sets := argsets(all, c.MaxArgs)
		// instance initialisation for every subset of the initargs
		base, baseState, baseFeats := baseOf(m, c, x)
		for _, as := range sets {
			state, feats := m.instance(x, as, c.Universe, all)
			ctx := fmt.Sprintf("c%d made with %v:", x, as)
			items = append(items, item{kind: "init", class: x, feats: feats,
				src:  "(let ((i " + makeSrc(c, x, as, all) + ")) " + stateSrc(c.Universe) + ")",
				subs: stateSubs(c.Universe, state, ctx)})
		}
		mk := makeSrc(c, x, base, all)
		// typep / class-of / subtypep against every class of the DAG
		{
			var sb strings.Builder
			var subs []sub
			sb.WriteString("(let ((i " + mk + ")) (list")
			for y := 0; y < n; y++ {
				fmt.Fprintf(&sb, " (typep i '@c%d)", y)
				subs = append(subs, sub{kind: "typep", what: fmt.Sprintf("(typep <c%d> 'c%d)", x, y), want: tf(m.inherits(x, y))})
			}
			top := m.base
			sb.WriteString(" (typep i '" + top + ") (class-name (class-of i))")
			subs = append(subs, sub{"typep", fmt.Sprintf("(typep <c%d> '%s)", x, top), "t"},
				sub{"class-of", fmt.Sprintf("(class-name (class-of <c%d>))", x), "@c" + strconv.Itoa(x)})
			fmt.Fprintf(&sb, " (eq (class-of i) (find-class '@c%d))", x)
			subs = append(subs, sub{"class-of", fmt.Sprintf("(eq (class-of <c%d>) (find-class 'c%d))", x, x), "t"})
			for y := 0; y < n; y++ {
				fmt.Fprintf(&sb, " (values (subtypep '@c%d '@c%d))", x, y)
				subs = append(subs, sub{kind: "subtypep", what: fmt.Sprintf("(subtypep 'c%d 'c%d)", x, y), want: tf(m.inherits(x, y))})
			}
			sb.WriteString("))")
			items = append(items, item{kind: "type", class: x, src: sb.String(), subs: subs, feats: baseFeats})
		}
		// dispatch of the probe generics
		want := ""
		for _, k := range prec {
			if methOn[k] {
				want = "m" + strconv.Itoa(k)
				break
			}
		}
		if want == "" && c.MethTop {
			want = "mtop"
		}
		gens := []string{"g"}
		if final && c.Redef != nil {
			gens = append(gens, "h") // h is first called after the redefinition
		}
		for _, g := range gens {
			kind := "dispatch"
			if g == "g" && final && c.Redef != nil && c.Redef.Skew < 0 {
				kind = "dispatch-again" // same generic already called on this class before the redefinition
			}
			if want == "" {
				items = append(items, item{kind: kind, class: x, wantErr: true, feats: baseFeats,
					src:  fmt.Sprintf("(@%s %s)", g, mk),
					subs: []sub{{kind: kind, what: fmt.Sprintf("(%s <c%d>) with no applicable method", g, x)}}})
			} else {
				items = append(items, item{kind: kind, class: x, feats: baseFeats,
					src:  fmt.Sprintf("(list (@%s %s))", g, mk),
					subs: []sub{{kind: kind, what: fmt.Sprintf("(%s <c%d>)", g, x), want: want}}})
			}
		}
		// (setf slot-value) and slot-makunbound act on the named slot only
		for si, es := range m.slots(x) {
			after := map[string]string{}
			for k, v := range baseState {
				after[k] = v
			}
			val := strconv.Itoa(6000 + si)
			after[es.name] = val
			subs := stateSubs(c.Universe, after, fmt.Sprintf("after (setf (slot-value <c%d> '%s) %s):", x, es.name, val))
			for k := range subs {
				subs[k].kind = "setf-slot-value"
			}
			items = append(items, item{kind: "setf-slot-value", class: x, feats: baseFeats,
				src: "(let ((i " + mk + ")) (setf (slot-value i '" + es.name + ") " + val + ") " + stateSrc(c.Universe) + ")", subs: subs})
			if (si+x)%2 == 0 {
				after2 := map[string]string{}
				for k, v := range baseState {
					after2[k] = v
				}
				after2[es.name] = unbound
				subs2 := stateSubs(c.Universe, after2, fmt.Sprintf("after (slot-makunbound <c%d> '%s):", x, es.name))
				for k := range subs2 {
					subs2[k].kind = "slot-makunbound"
				}
				items = append(items, item{kind: "slot-makunbound", class: x, feats: baseFeats,
					src: "(let ((i " + mk + ")) (slot-makunbound i '" + es.name + ") " + stateSrc(c.Universe) + ")", subs: subs2})
			}
		}
		// accessors: applicable ones read / write exactly their slot
		accFeats := baseFeats
		if c.Cond != "" {
			accFeats = append(append([]string{}, baseFeats...), featCondAcc)
		}
		var readers, writers, foreign []accessor
		for k := 0; k < n; k++ {
			for _, a := range m.accessorsOf(k) {
				if !m.inherits(x, k) {
					foreign = append(foreign, a)
					continue
				}
				if a.kind == "r" || a.kind == "a" {
					readers = append(readers, a)
				}
				if a.kind == "w" || a.kind == "a" {
					writers = append(writers, a)
				}
			}
		}
		if 0 < len(readers) {
			var sb strings.Builder
			var subs []sub
			sb.WriteString("(let ((i " + mk + ")) (list")
			for _, a := range readers {
				if baseState[a.slot] == unbound || baseState[a.slot] == missing {
					continue // reading an unbound slot through a reader is outside the statement
				}
				fmt.Fprintf(&sb, " (%s i)", a.name)
				subs = append(subs, sub{kind: "reader", what: fmt.Sprintf("reader of c%d.%s on <c%d>", a.class, a.slot, x), want: baseState[a.slot]})
			}
			sb.WriteString("))")
			if 0 < len(subs) {
				items = append(items, item{kind: "reader", class: x, src: sb.String(), subs: subs, feats: accFeats})
			}
		}
		for wi, a := range writers {
			if baseState[a.slot] == missing {
				continue
			}
			val := strconv.Itoa(7000 + wi)
			after := map[string]string{}
			for k, v := range baseState {
				after[k] = v
			}
			after[a.slot] = val
			call := fmt.Sprintf("(%s i %s)", a.name, val)
			kind := "writer"
			if a.kind == "a" {
				call = fmt.Sprintf("(setf (%s i) %s)", a.name, val)
				kind = "accessor-setf"
			}
			subs := stateSubs(c.Universe, after, fmt.Sprintf("after %s of c%d.%s on <c%d>:", kind, a.class, a.slot, x))
			for k := range subs {
				subs[k].kind = kind
			}
			items = append(items, item{kind: kind, class: x, feats: accFeats,
				src: "(let ((i " + mk + ")) " + call + " " + stateSrc(c.Universe) + ")", subs: subs})
		}
		// a reader applied to an instance whose slot was made unbound signals unbound-slot
		for _, a := range readers {
			if baseState[a.slot] == missing {
				continue
			}
			items = append(items, item{kind: "reader-unbound", class: x, wantErr: true, errIsA: "unbound-slot", feats: append(append([]string{}, accFeats...), featReaderUnbound),
				src:  fmt.Sprintf("(let ((i %s)) (slot-makunbound i '%s) (%s i))", mk, a.slot, a.name),
				subs: []sub{{kind: "reader-unbound", what: fmt.Sprintf("reader of c%d.%s on <c%d> after slot-makunbound", a.class, a.slot, x)}}})
			break
		}
		// :type validates initial values: a string for a slot typed as a number is rejected
		for _, es := range m.slots(x) {
			if es.typ == "" || len(es.initargs) == 0 {
				continue
			}
			as := []string{es.initargs[0]}
			_, feats := m.instance(x, as, c.Universe, all)
			var sb strings.Builder
			sb.WriteString(strings.TrimSuffix(makeSrc(c, x, nil, all), ")"))
			sb.WriteString(" :" + es.initargs[0] + " \"bad\")")
			items = append(items, item{kind: "type-check", class: x, wantErr: true, errIsA: "type-error", feats: feats, src: sb.String(),
				subs: []sub{{kind: "type-check", what: fmt.Sprintf("c%d made with a string for slot %s of :type %s", x, es.name, es.typ)}}})
		}
		// the class-allocated slot k0
		if owner, hasForm, exists := m.sharedSlot(x); exists {
			var ownFeats []string
			if owner != x {
				ownFeats = append(ownFeats, featSharedInherited)
			}
			shared := func(kind, what, src string, feats []string, want ...string) {
				subs := make([]sub, len(want))
				for k, w := range want {
					subs[k] = sub{kind: kind, what: what, want: w}
				}
				items = append(items, item{kind: kind, class: x, feats: append(append([]string{}, baseFeats...), feats...), src: src, subs: subs})
			}
			v1, v2 := strconv.Itoa(5100+x), strconv.Itoa(5200+x)
			shared("class-slot-shared", fmt.Sprintf("k0 written through one <c%d>, read through another", x),
				fmt.Sprintf("(let ((a %s) (b %s)) (setf (slot-value a 'k0) %s) (list (slot-value b 'k0) (slot-value a 'k0)))", mk, mk, v1), ownFeats, v1, v1)
			resetFeats := ownFeats
			if hasForm {
				resetFeats = append(append([]string{}, ownFeats...), featSharedReset)
			}
			shared("class-slot-kept", fmt.Sprintf("k0 of <c%d> after another instance is made", x),
				fmt.Sprintf("(let ((a %s)) (setf (slot-value a 'k0) %s) %s (list (slot-value a 'k0)))", mk, v2, mk), resetFeats, v2)
			for y := 0; y < n; y++ {
				oy, _, ey := m.sharedSlot(y)
				if y == x || !ey {
					continue
				}
				_, yFeats0 := m.instance(y, nil, c.Universe, m.initargs(y))
				feats := append([]string{}, yFeats0...)
				if owner != x || oy != y {
					feats = append(feats, featSharedInherited)
				}
				mky := makeSrc(c, y, nil, m.initargs(y))
				if oy == owner {
					shared("class-slot-shared", fmt.Sprintf("k0 written through <c%d>, read through <c%d> (same owner c%d)", x, y, owner),
						fmt.Sprintf("(let ((a %s) (b %s)) (setf (slot-value b 'k0) %s) (setf (slot-value a 'k0) %s) (list (slot-value b 'k0) (slot-value a 'k0)))", mk, mky, v2, v1), feats, v1, v1)
				} else {
					shared("class-slot-separate", fmt.Sprintf("k0 written through <c%d> (owner c%d), read through <c%d> (owner c%d)", x, owner, y, oy),
						fmt.Sprintf("(let ((a %s) (b %s)) (setf (slot-value b 'k0) %s) (setf (slot-value a 'k0) %s) (list (slot-value b 'k0) (slot-value a 'k0)))", mk, mky, v2, v1), feats, v2, v1)
				}
			}
		}
		// change-class (standard classes only)
		if c.Cond == "" {
			for d := 1; d <= 2 && d < n; d++ {
				y := (x + d) % n
				state, feats := m.changed(x, y, baseState, c.Universe)
				var sb strings.Builder
				fmt.Fprintf(&sb, "(let ((i %s)) (change-class i '@c%d) (append (list (class-name (class-of i)) (typep i '@c%d) (typep i '@c%d)) %s))", mk, y, y, x, stateSrc(c.Universe))
				what := fmt.Sprintf("<c%d> after (change-class i 'c%d):", x, y)
				subs := []sub{{"change-class", what + " class name", "@c" + strconv.Itoa(y)}, {"change-class", what + " typep new class", "t"},
					{"change-class", what + " typep old class", tf(m.inherits(y, x))}}
				for _, sb2 := range stateSubs(c.Universe, state, what) {
					sb2.kind = "change-class"
					subs = append(subs, sb2)
				}
				items = append(items, item{kind: "change-class", class: x, feats: append(append([]string{}, baseFeats...), feats...), src: sb.String(), subs: subs})
			}
		}
		// two-argument probe generic: specificity is decided by the precedence
		// list of the first argument, then by that of the second
		if 0 < len(c.Meth2) {
			var sb strings.Builder
			var subs []sub
			sb.WriteString("(let ((i " + mk + ")) (list")
			rejected := false
			for y := 0; y < n; y++ {
				py := m.prec(y)
				want := ""
			search:
				for _, k1 := range prec {
					for _, k2 := range py {
						for _, pr := range c.Meth2 {
							if pr[0] == k1 && pr[1] == k2 {
								want = fmt.Sprintf("p%d-%d", k1, k2)
								break search
							}
						}
					}
				}
				mky := makeSrc(c, y, nil, m.initargs(y))
				if want == "" {
					if !rejected {
						rejected = true
						items = append(items, item{kind: "dispatch2", class: x, wantErr: true, feats: baseFeats,
							src:  fmt.Sprintf("(@g2 %s %s)", mk, mky),
							subs: []sub{{kind: "dispatch2", what: fmt.Sprintf("(g2 <c%d> <c%d>) with no applicable method", x, y)}}})
					}
					continue
				}
				fmt.Fprintf(&sb, " (@g2 i %s)", mky)
				subs = append(subs, sub{kind: "dispatch2", what: fmt.Sprintf("(g2 <c%d> <c%d>)", x, y), want: want})
			}
			sb.WriteString("))")
			if 0 < len(subs) {
				items = append(items, item{kind: "dispatch2", class: x, feats: baseFeats, src: sb.String(), subs: subs})
			}
		}
		// accessors of classes that are not on the precedence list are not applicable
		if final && c.Redef != nil {
			sort.SliceStable(foreign, func(a, b int) bool {
				return prev.inherits(x, foreign[a].class) && !prev.inherits(x, foreign[b].class)
			})
		}
		for fi, a := range foreign {
			if 2 <= fi {
				break
			}
			call := fmt.Sprintf("(%s %s)", a.name, mk)
			switch a.kind {
			case "w":
				call = fmt.Sprintf("(%s %s 1)", a.name, mk)
			}
			kind := "foreign-accessor"
			if final && c.Redef != nil && prev.gen[a.class] == m.gen[a.class] && prev.inherits(x, a.class) {
				kind = "foreign-accessor-again" // was applicable, and called, before the redefinition
			}
			items = append(items, item{kind: kind, class: x, wantErr: true, feats: accFeats, src: call,
				subs: []sub{{kind: kind, what: fmt.Sprintf("accessor of c%d.%s applied to <c%d>", a.class, a.slot, x)}}})
		}
	}
	return items
}

func tf(b bool) string {
	if b {
		return "t"
	}
	return "nil"
}

var uid int

// failure accumulates the violations of one case by signature.
type failure struct {
	msg   string
	perms int
	last  string
}

type run struct {
	x      *fw.Ctx
	c      *Case
	fails  map[string]*failure
	order  []string
	nperms int
	evals  int
	// first observation of every item (model-free relation between orders)
	first map[string]string
}

func (rn *run) fail(sig, perm string, format string, a ...any) {
	f := rn.fails[sig]
	if f == nil {
		f = &failure{msg: "order " + perm + ": " + fmt.Sprintf(format, a...)}
		rn.fails[sig] = f
		rn.order = append(rn.order, sig)
	}
	if f.last != perm {
		f.perms++
		f.last = perm
	}
}

// openFeat is the one construct with an open finding: two initargs of the
// same slot supplied together make make-instance signal "Duplicate initarg"
// (pinned by slip's own tests) where ANSI lets the leftmost one win.
const openFeat = "two-initargs-one-slot"

func hasOpen(feats []string) bool {
	for _, f := range feats {
		if f == openFeat {
			return true
		}
	}
	return false
}

// sigOf names the failing construct. Only the Duplicate-initarg error of an
// evaluation that supplies two initargs of one slot is attributed to the
// listed finding; every other outcome of such an evaluation is judged like
// any other.
func sigOf(obs, fail, when string, feats []string) string {
	if fail == "duplicate-initarg" && hasOpen(feats) {
		return "construct=" + openFeat
	}
	return fmt.Sprintf("obs=%s fail=%s when=%s", obs, fail, when)
}

func errKind(e *sl.Err) string {
	if e.Internal {
		return "internal-fault"
	}
	if strings.Contains(e.Msg, "Duplicate initarg") {
		return "duplicate-initarg"
	}
	return "error"
}

// observe evaluates the items and judges them.
func (rn *run) observe(scope *slip.Scope, prefix, perm string, items []item, whenOf func(class int) string, phase string, extra func(class int) []string) {
	for ii := range items {
		it := &items[ii]
		if extra != nil {
			if more := extra(it.class); 0 < len(more) {
				cp := *it
				cp.feats = append(append([]string{}, it.feats...), more...)
				it = &cp
			}
		}
		src := strings.ReplaceAll(it.src, "@", prefix)
		res, err := sl.Eval(scope, src)
		rn.evals++
		when := whenOf(it.class)
		shown := strings.ReplaceAll(it.src, "@", "")
		if i := strings.Index(shown, "(slot-states-"); 0 <= i {
			if j := strings.Index(shown[i:], " "); 0 < j {
				shown = shown[:i] + "(slot-states" + shown[i+j:]
			}
		}
		if it.wantErr {
			switch {
			case err == nil:
				got := strings.ReplaceAll(sl.Show(res), prefix, "@")
				rn.fail(sigOf(it.kind, "no-error", when, it.feats), perm, "%s: must signal an error, returned %s; evaluated %s", it.subs[0].what, got, shown)
			case err.Internal:
				rn.fail(sigOf(it.kind, "internal-fault", when, it.feats), perm, "%s: %s; evaluated %s", it.subs[0].what, err, shown)
			case it.errIsA != "" && !err.IsA(it.errIsA):
				rn.fail(sigOf(it.kind, "wrong-error", when, it.feats), perm, "%s: must signal a %s, signalled %s; evaluated %s", it.subs[0].what, it.errIsA, err, shown)
			default:
				rn.x.Cover("held:" + it.kind + "-rejected")
			}
			continue
		}
		if err != nil {
			rn.fail(sigOf(it.kind, errKind(err), when, it.feats), perm, "%s => %s", shown, strings.ReplaceAll(err.String(), prefix, ""))
			continue
		}
		list, _ := res.(slip.List)
		if len(list) != len(it.subs) {
			rn.fail(sigOf(it.kind, "shape", when, it.feats), perm, "%s => %s", shown, sl.Show(res))
			continue
		}
		key := phase + "#" + strconv.Itoa(ii)
		whole := strings.ReplaceAll(sl.Show(res), prefix, "@")
		if prev, has := rn.first[key]; !has {
			rn.first[key] = whole
		} else if prev == whole {
			rn.x.Cover("relation:same-as-first-order")
		} else {
			rn.x.Cover("relation:differs-from-first-order")
		}
		for k, sb := range it.subs {
			got := strings.ReplaceAll(sl.Show(list[k]), prefix, "@")
			if got == sb.want {
				rn.x.Cover("held:" + sb.kind)
				continue
			}
			kind := sb.kind
			if kind == "slot" {
				switch {
				case got == missing || sb.want == missing:
					kind = "slot-exists"
				case got == unbound || sb.want == unbound:
					kind = "slot-bound"
				default:
					kind = "slot-value"
				}
			}
			rel := ""
			if prev := rn.first[key]; prev != whole {
				rel = fmt.Sprintf(" [order-dependent: the first order gave %s, this one %s]", strings.ReplaceAll(prev, "@", ""), strings.ReplaceAll(whole, "@", ""))
			}
			rn.fail(sigOf(kind, "wrong", when, it.feats), perm, "%s is %s, expected %s; evaluated %s%s", sb.what,
				strings.ReplaceAll(got, "@", ""), strings.ReplaceAll(sb.want, "@", ""), shown, rel)
		}
	}
}

func (rn *run) eval(scope *slip.Scope, prefix, src string) (slip.Object, *sl.Err) {
	rn.evals++
	return sl.Eval(scope, strings.ReplaceAll(src, "@", prefix))
}

func exec(x *fw.Ctx, c Case) {
	n := len(c.Classes)
	if n == 0 || 8 < n {
		x.Trivial()
		return
	}
	rn := &run{x: x, c: &c, fails: map[string]*failure{}, first: map[string]string{}}
	var perms [][]int
	if len(c.Perms) == 0 {
		perms = allPerms(n)
	} else {
		for _, p := range c.Perms {
			perms = append(perms, parsePerm(p))
		}
	}
	rn.nperms = len(perms)
	// models before and after the redefinition
	m0 := newModel(&c, c.Classes)
	m1 := m0
	if c.Redef != nil {
		cls := append([]Class{}, c.Classes...)
		cls[c.Redef.Class] = c.Redef.Def
		m1 = newModel(&c, cls)
		m1.gen[c.Redef.Class] = 1
	}
	items0 := buildItems(m0, &c, c.Redef == nil)
	var items1 []item
	if c.Redef != nil {
		items1 = buildItems(m1, &c, true)
	}
	var oldDefs []string
	var oldWatched []item
	if c.Redef != nil && c.Redef.Skew < 0 {
		var judged []item
		oldDefs, judged, oldWatched = oldItems(m0, &c)
		items1 = append(items1, judged...)
	}
	uid++
	stName := fmt.Sprintf("slot-states-%d", uid)
	if _, err := sl.Eval(slip.NewScope(), strings.ReplaceAll(stateDefun(c.Universe), stateFn, stName)); err != nil {
		x.Fail("harness-defun", "%s", err)
		return
	}
	for _, its := range [][]item{items0, items1, oldWatched} {
		for k := range its {
			its[k].src = strings.ReplaceAll(its[k].src, stateFn, stName)
		}
	}
	depth, shadow := shape(m0)
	x.Cover(fmt.Sprintf("shape:classes=%d", n))
	x.Cover(fmt.Sprintf("shape:depth=%d", depth))
	x.Cover(fmt.Sprintf("shape:max-shadow-levels=%d", shadow))
	for k := 0; k < n; k++ {
		if m0.baseMidList(k) {
			x.Cover("shape:condition-base-before-other-class")
			break
		}
	}
	if c.Redef != nil {
		for k := 0; k < n; k++ {
			if k != c.Redef.Class && m0.inherits(k, c.Redef.Class) {
				for _, y := range m0.prec(k) {
					if y != k && y != c.Redef.Class && m0.inherits(y, c.Redef.Class) {
						x.Cover("shape:redefined-class-has-indirect-subclass")
						k = n
						break
					}
				}
			}
		}
		if c.Redef.Skew < 0 {
			x.Cover("shape:redefinition-at-end")
		} else {
			x.Cover("shape:redefinition-mid-sequence")
		}
	}
	for _, it := range append(append([]item{}, items0...), items1...) {
		for _, f := range it.feats {
			if f == openFeat {
				x.Cover("dirty:" + f)
			} else {
				x.Cover("exercised:" + f)
			}
		}
	}
	for _, perm := range perms {
		uid++
		prefix := fmt.Sprintf("k%dx", uid)
		ps := permString(perm)
		scope := slip.NewScope()
		defined := map[int]bool{}
		forward := map[int]bool{} // class was defined before one of its ancestors
		anyForward := false
		cur := newModel(&c, append([]Class{}, c.Classes...))
		redefAt := -1 // index in the sequence after which the redefinition is issued
		redefForward := false
		if c.Redef != nil && 0 <= c.Redef.Skew {
			pos := 0
			for i, k := range perm {
				if k == c.Redef.Class {
					pos = i
				}
			}
			redefAt = min(pos+c.Redef.Skew, n-1)
		}
		broken := false
		define := func(k int, cl Class, gen int) bool {
			_, err := rn.eval(scope, prefix, defclassSrc(&c, k, cl, gen))
			if err != nil {
				rn.fail(sigOf("defclass", errKind(err), "define", nil), ps, "%s => %s", strings.ReplaceAll(defclassSrc(&c, k, cl, gen), "@", ""), err)
				return false
			}
			return true
		}
		partial := func() {
			// every class whose ancestors all exist has its final precedence list already
			for k := 0; k < n; k++ {
				if !defined[k] {
					continue
				}
				res, err := rn.eval(scope, prefix, fmt.Sprintf("(class-precedence '@c%d)", k))
				if !cur.ready(k, defined) {
					x.Cover("partial:class-awaiting-superclass")
					continue
				}
				when := "ordered"
				if forward[k] {
					when = "forward"
				}
				if c.Redef != nil && cur.gen[c.Redef.Class] == 1 {
					when = "redef-mid"
				}
				got := ""
				if err != nil {
					got = err.String()
				} else {
					got = strings.ReplaceAll(sl.Show(res), prefix, "@")
				}
				if got != cur.precNames(k) {
					rn.fail(sigOf("precedence-partial", "wrong", when, nil), ps, "after defining %d of %d classes class-precedence of c%d is %s, expected %s",
						len(defined), n, k, strings.ReplaceAll(got, "@", ""), strings.ReplaceAll(cur.precNames(k), "@", ""))
				} else {
					x.Cover("held:precedence-partial")
				}
			}
		}
		for i, k := range perm {
			if !define(k, c.Classes[k], 0) {
				broken = true
				break
			}
			defined[k] = true
			if !cur.ready(k, defined) {
				forward[k] = true
				anyForward = true
			}
			if i < n-1 || redefAt == i {
				partial()
			}
			if redefAt == i {
				r := c.Redef
				cur.classes[r.Class] = r.Def
				cur.gen[r.Class] = 1
				if !define(r.Class, r.Def, 1) {
					broken = true
					break
				}
				if !cur.ready(r.Class, defined) {
					redefForward = true
				}
				if i < n-1 {
					partial()
				}
			}
		}
		if broken {
			continue
		}
		if anyForward {
			x.Cover("orders:with-forward-reference")
		} else {
			x.Cover("orders:supers-first")
		}
		// probe generics, defined once every class exists
		for _, g := range []string{"g", "h"} {
			if _, err := rn.eval(scope, prefix, fmt.Sprintf("(defgeneric @%s (o))", g)); err != nil {
				rn.fail(sigOf("defgeneric", errKind(err), "define", nil), ps, "%s", err)
				broken = true
			}
			for _, k := range c.Meth {
				if _, err := rn.eval(scope, prefix, fmt.Sprintf("(defmethod @%s ((o @c%d)) 'm%d)", g, k, k)); err != nil {
					rn.fail(sigOf("defmethod", errKind(err), "define", nil), ps, "%s", err)
					broken = true
				}
			}
			if c.MethTop {
				if _, err := rn.eval(scope, prefix, fmt.Sprintf("(defmethod @%s ((o t)) 'mtop)", g)); err != nil {
					rn.fail(sigOf("defmethod", errKind(err), "define", nil), ps, "%s", err)
					broken = true
				}
			}
		}
		if 0 < len(c.Meth2) {
			if _, err := rn.eval(scope, prefix, "(defgeneric @g2 (a b))"); err != nil {
				rn.fail(sigOf("defgeneric", errKind(err), "define", nil), ps, "%s", err)
				broken = true
			}
			for _, pr := range c.Meth2 {
				if _, err := rn.eval(scope, prefix, fmt.Sprintf("(defmethod @g2 ((a @c%d) (b @c%d)) 'p%d-%d)", pr[0], pr[1], pr[0], pr[1])); err != nil {
					rn.fail(sigOf("defmethod", errKind(err), "define", nil), ps, "%s", err)
					broken = true
				}
			}
		}
		if broken {
			continue
		}
		whenDef := func(k int) string {
			// a class counts as forward when it or one of its ancestors was
			// defined before one of its own ancestors
			for _, a := range m0.prec(k) {
				if forward[a] {
					return "forward"
				}
			}
			return "ordered"
		}
		switch {
		case c.Redef == nil:
			rn.observe(scope, prefix, ps, items0, whenDef, "p0", nil)
		case c.Redef.Skew < 0:
			rn.observe(scope, prefix, ps, items0, whenDef, "p0", nil)
			for _, d := range oldDefs {
				if _, err := rn.eval(scope, prefix, d); err != nil {
					rn.fail(sigOf("old-instance", errKind(err), "define", nil), ps, "%s => %s", strings.ReplaceAll(d, "@", ""), err)
				}
			}
			if !define(c.Redef.Class, c.Redef.Def, 1) {
				continue
			}
			for _, it := range oldWatched {
				// not documented: counted only
				res, err := rn.eval(scope, prefix, it.src)
				switch {
				case err != nil:
					x.Cover("old-subclass-instance:error")
				default:
					list, _ := res.(slip.List)
					keeps := len(list) == len(it.subs)
					for k := 0; keeps && k < len(list); k++ {
						if strings.ReplaceAll(sl.Show(list[k]), prefix, "@") != it.subs[k].want {
							keeps = false
						}
					}
					if keeps {
						x.Cover("old-subclass-instance:unchanged")
					} else {
						x.Cover("old-subclass-instance:changed")
					}
				}
			}
			rn.observe(scope, prefix, ps, items1, func(k int) string {
				if m0.inherits(k, c.Redef.Class) || m1.inherits(k, c.Redef.Class) {
					return "redef"
				}
				return "redef-unrelated"
			}, "p1", nil)
		default:
			w := "redef-mid"
			if redefForward {
				w = "redef-mid-forward"
				x.Cover("orders:redefinition-names-undefined-super")
			}
			rn.observe(scope, prefix, ps, items1, func(k int) string {
				if m0.inherits(k, c.Redef.Class) || m1.inherits(k, c.Redef.Class) {
					return w
				}
				return "redef-unrelated"
			}, "p1", nil)
		}
	}
	x.CoverN("evaluations", rn.evals)
	x.CoverN("definition-orders", len(perms))
	x.CoverN("items-per-order", len(items0)+len(items1))
	sort.Strings(rn.order)
	for _, sig := range rn.order {
		f := rn.fails[sig]
		x.Fail(sig, "%s (in %d of %d definition orders)", f.msg, f.perms, rn.nperms)
	}
	x.Observe(map[string]any{"orders": len(perms), "evaluations": rn.evals, "items_per_order": len(items0) + len(items1),
		"sample_precedence": strings.ReplaceAll(m1.precNames(0), "@", ""), "violations": len(rn.order)})
}

// shape gives the depth of the DAG and the largest number of classes on one
// precedence list defining the same slot.
func shape(m *model) (depth, shadow int) {
	var d func(k int) int
	d = func(k int) int {
		best := 0
		for _, s := range m.classes[k].Supers {
			if v := d(s); best < v {
				best = v
			}
		}
		return best + 1
	}
	for k := range m.classes {
		if v := d(k); depth < v {
			depth = v
		}
		for _, es := range m.slots(k) {
			if shadow < es.levels {
				shadow = es.levels
			}
		}
	}
	return
}

func init() {
	fw.Register(fw.Spec[Case]{
		ID: "C12",
		Rule: "case = a class DAG of 2..5 classes (random supers in written order, 2..4 slot names shared by all classes so that slots shadow over several levels, " +
			"initargs, initforms, readers/writers/accessors; some cases with a :type on one slot name, :default-initargs, a class-allocated slot k0; ~15% as condition classes), optionally one redefinition " +
			"(after all classes or mid-sequence, possibly naming a not yet defined super), one-argument probe generics specialised on a subset of the classes and a two-argument one specialised on class pairs; " +
			"every case is run once per definition order (all n! orders; quick samples 30 of the 120 for half of the 5-class DAGs) under fresh class names, " +
			"and after each order every class is observed: class-precedence (also after every intermediate defclass), a fresh instance for every subset of its initargs " +
			"(slot-exists-p/slot-boundp/slot-value of every slot name; default initargs applied), (setf slot-value), slot-makunbound, reader after slot-makunbound, wrong-typed initarg, class-slot sharing/separation/persistence, " +
			"change-class to two other classes, typep/class-of/subtypep against every class, one- and two-argument dispatch, every applicable reader/writer/accessor, non-applicable accessors, and instances made before a redefinition. " +
			"The first 122 cases are fixed and seed-independent: 22 shapes (chains, diamond, redefinition of root/middle/apex, every construct that had a finding) and 5 shapes of a redefined class with 3..6 direct and indirect subclasses x 20 repetitions x 8 drawn orders. " +
			"distinct = distinct case JSON; every case is non-trivial (>= 2 classes, >= 2 orders, >= 100 evaluations). " +
			"Kept to a minority of cases (10%): a slot with two initargs, because supplying both has the one open finding (Duplicate initarg error instead of leftmost wins).",
		N:        nCases,
		Gen:      gen,
		Exec:     exec,
		Batch:    6,
		HangSecs: 600,
		Assumptions: []string{
			"the model of the statement in model.go is the oracle: precedence = class, direct supers as written, then their lists in that order, first occurrence wins, then standard-object, t",
			"defgeneric/defmethod/eq/list/let/if evaluate correctly (C01/C10)",
			"class names are made unique per definition order by a prefix; the prefix does not influence behaviour",
		},
	})
}
