package c19

import (
	"fmt"
	"math/rand/v2"
	"strings"

	"verif/internal/fw"
)

// Vectors with a history. A vector that is saved is rarely the fresh result
// of make-array: elements were pushed (up to the capacity, or with
// vector-push-extend within or beyond it), popped, the fill pointer was
// moved, the vector was adjusted to another size. The generator keeps a small
// model of size and fill pointer, only to emit operations slip accepts.

type elType struct {
	name  string // "" = t
	elems func(r *rand.Rand, n int) []string
}

func nOf(r *rand.Rand, n int, f func() string) []string {
	es := make([]string, n)
	for i := range es {
		es[i] = f()
	}
	return es
}

// elemTypes are the element types the check knows, with elements as they are
// written inside a quoted :initial-contents list.
var elemTypes = []elType{
	{"", func(r *rand.Rand, n int) []string { return nOf(r, n, func() string { return genElem(r, 1, 1) }) }},
	{"fixnum", func(r *rand.Rand, n int) []string {
		return nOf(r, n, func() string { return fmt.Sprint(r.IntN(200) - 100) })
	}},
	{"float", func(r *rand.Rand, n int) []string {
		return nOf(r, n, func() string { return fw.Pick(r, []string{"0.5", "-0.25", "1.5", "3.25", "100.0"}) })
	}},
	{"character", func(r *rand.Rand, n int) []string { return nOf(r, n, func() string { return fw.Pick(r, charLits) }) }},
	{"symbol", func(r *rand.Rand, n int) []string { return nOf(r, n, func() string { return fw.Pick(r, symNames) }) }},
	{"string", func(r *rand.Rand, n int) []string {
		return nOf(r, n, func() string { return litString(fw.Pick(r, words)) })
	}},
}

type vecOpts struct {
	grown  bool // vector-push-extend beyond the capacity (avoid set: vector-grown)
	notAdj bool // made with :adjustable nil (avoid set: not-adjustable)
}

// quoted turns an element written for a quoted list into an expression.
func quoted(e string) string {
	if e == "" {
		return e
	}
	switch c := e[0]; {
	case c == '"' || c == '#' && strings.HasPrefix(e, `#\`) || c == ':' || c == '-' || '0' <= c && c <= '9':
		return e
	}
	if e == "t" || e == "nil" {
		return e
	}
	return "'" + e
}

// vecHistory yields an expression whose value is a vector that went through
// 0-5 operations after it was made.
func vecHistory(r *rand.Rand, o vecOpts) string {
	et := fw.Pick(r, elemTypes)
	if r.IntN(2) == 0 {
		et = elemTypes[0]
	}
	one := func() string { return quoted(et.elems(r, 1)[0]) }
	n := []int{0, 1, 2, 3, 3, 5, 8}[r.IntN(7)]
	// the fill pointer: none, 0, inside, equal to the size (given as a number or as t)
	fill, fp := -1, ""
	switch k := r.IntN(6); {
	case k == 0 && !o.grown:
	case k == 1:
		fill, fp = 0, "0"
	case k == 2:
		fill = n / 2
		fp = fmt.Sprint(fill)
	case k == 3:
		fill = n
		fp = fmt.Sprint(n)
	case k == 4:
		fill, fp = n, "t"
	default:
		fill = r.IntN(n + 1)
		fp = fmt.Sprint(fill)
	}
	var b strings.Builder
	fmt.Fprintf(&b, "(let ((v (make-array %d", n)
	if et.name != "" {
		fmt.Fprintf(&b, " :element-type '%s", et.name)
	}
	if r.IntN(4) == 0 {
		fmt.Fprintf(&b, " :initial-element %s", one())
	} else {
		fmt.Fprintf(&b, " :initial-contents '(%s)", strings.Join(et.elems(r, n), " "))
	}
	switch {
	case o.notAdj:
		b.WriteString(" :adjustable nil")
	case r.IntN(2) == 0:
		b.WriteString(" :adjustable t")
	}
	if fp != "" {
		fmt.Fprintf(&b, " :fill-pointer %s", fp)
	}
	b.WriteString(")))")
	nops := r.IntN(6)
	if o.grown && nops == 0 {
		nops = 1
	}
	for k := 0; k < nops; k++ {
		op := r.IntN(7)
		if o.grown && k == nops-1 {
			// fill the vector up, then one or two elements more
			for ; fill < n; fill++ {
				fmt.Fprintf(&b, " (vector-push %s v)", one())
			}
			for j, m := 0, 1+r.IntN(2); j < m; j++ {
				fmt.Fprintf(&b, " (vector-push-extend %s v)", one())
				n++
				fill++
			}
			break
		}
		switch {
		case op == 0 && 0 <= fill:
			// at the capacity vector-push leaves the vector alone and yields nil
			fmt.Fprintf(&b, " (vector-push %s v)", one())
			if fill < n {
				fill++
			}
		case op == 1 && 0 <= fill && fill < n:
			fmt.Fprintf(&b, " (vector-push-extend %s v)", one())
			fill++
		case op == 2 && 0 < fill && fill < n:
			b.WriteString(" (vector-pop v)")
			fill--
		case op == 3 && 0 <= fill && 0 < n:
			// (slip refuses a fill pointer equal to the size here)
			fill = r.IntN(n)
			fmt.Fprintf(&b, " (setf (fill-pointer v) %d)", fill)
		case op == 4 && 0 < n:
			fmt.Fprintf(&b, " (setf (aref v %d) %s)", r.IntN(n), one())
		case op == 5:
			// another size: smaller, the same, larger; the fill pointer is kept,
			// moved, put at the new end or (for a vector without one) added
			m := max(0, n+r.IntN(7)-3)
			fmt.Fprintf(&b, " (setq v (adjust-array v %d :initial-element %s", m, one())
			switch j := r.IntN(4); {
			case j == 0 && 0 <= fill && fill <= m:
			case j == 1:
				fill = m
				b.WriteString(" :fill-pointer t")
			case j == 2 || 0 <= fill:
				fill = r.IntN(m + 1)
				fmt.Fprintf(&b, " :fill-pointer %d", fill)
			}
			b.WriteString("))")
			n = m
		}
	}
	b.WriteString(" v)")
	return b.String()
}

// attrObj yields an expression whose value is an object with attributes that
// a literal inside quoted data cannot show: a vector with a fill pointer or an
// element type, a hash table, an adjustable array.
func attrObj(r *rand.Rand) string {
	switch r.IntN(5) {
	case 0:
		n := 2 + r.IntN(3)
		return fmt.Sprintf("(make-array %d :fill-pointer %d :initial-contents '(%s))", n, r.IntN(n), strings.Join(elemTypes[1].elems(r, n), " "))
	case 1:
		n := 1 + r.IntN(3)
		et := fw.Pick(r, elemTypes[1:])
		return fmt.Sprintf("(make-array %d :element-type '%s :initial-contents '(%s))", n, et.name, strings.Join(et.elems(r, n), " "))
	case 2:
		return fmt.Sprintf("(let ((h (make-hash-table))) (setf (gethash %s h) %s) h)", fw.Pick(r, kwNames), genAtom(r))
	case 3:
		return "(make-array '(1 2) :adjustable t :initial-contents '((1 2)))"
	}
	return "(make-hash-table)"
}
