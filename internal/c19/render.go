package c19

import (
	"fmt"
	"regexp"
	"sort"
	"strconv"
	"strings"

	"github.com/ohler55/slip"

	"verif/internal/sl"
)

// deep renders an object with the harness's own notion of "equal": it is
// sl.Show (type switch, never slip's printer or Equal) extended with the
// containers the property names - hash tables as a sorted key=>value map,
// arrays with dimensions, element type and adjustability, vectors with
// their fill pointer - applied recursively.
func deep(obj slip.Object) string {
	var b strings.Builder
	deepTo(&b, obj, 0)
	return b.String()
}

func deepAll(obj slip.Object) string {
	if vs, ok := obj.(slip.Values); ok {
		parts := make([]string, len(vs))
		for i, v := range vs {
			parts[i] = deep(v)
		}
		return "#<values " + strings.Join(parts, " ") + ">"
	}
	return deep(obj)
}

func deepTo(b *strings.Builder, obj slip.Object, depth int) {
	if 100 < depth {
		b.WriteString("#<deep>")
		return
	}
	switch to := obj.(type) {
	case slip.List:
		if len(to) == 0 {
			b.WriteString("nil")
			return
		}
		b.WriteByte('(')
		for i, e := range to {
			if 0 < i {
				b.WriteByte(' ')
			}
			if t, ok := e.(slip.Tail); ok {
				b.WriteString(". ")
				deepTo(b, t.Value, depth+1)
				continue
			}
			deepTo(b, e, depth+1)
		}
		b.WriteByte(')')
	case slip.Tail:
		b.WriteString(". ")
		deepTo(b, to.Value, depth+1)
	case *slip.Vector:
		// the active part is what sequence functions see, the storage behind
		// the fill pointer is still reached by aref and array-dimensions
		fmt.Fprintf(b, "#<vector et=%s adj=%v fill=%d dims=%v ", elemType(to.ElementType()), to.Adjustable(), to.FillPtr, to.Dimensions())
		active := to.AsList()
		deepTo(b, active, depth+1)
		if all := to.Elements(); len(active) < len(all) {
			b.WriteString(" hidden=")
			deepTo(b, slip.List(all[len(active):]), depth+1)
		}
		b.WriteByte('>')
	case *slip.BitVector:
		fmt.Fprintf(b, "#<bit-vector adj=%v fill=%d ", to.Adjustable(), to.FillPtr)
		for i := uint(0); i < to.Len; i++ {
			if to.At(i) {
				b.WriteByte('1')
			} else {
				b.WriteByte('0')
			}
		}
		b.WriteByte('>')
	case *slip.Array:
		fmt.Fprintf(b, "#<array dims=%v et=%s adj=%v ", to.Dimensions(), elemType(to.ElementType()), to.Adjustable())
		deepTo(b, to.AsList(), depth+1)
		b.WriteByte('>')
	case slip.HashTable:
		entries := make([]string, 0, len(to))
		for k, v := range to {
			var eb strings.Builder
			deepTo(&eb, k, depth+1)
			eb.WriteString("=>")
			deepTo(&eb, v, depth+1)
			entries = append(entries, eb.String())
		}
		sort.Strings(entries)
		b.WriteString("#<hash-table ")
		b.WriteString(strings.Join(entries, ", "))
		b.WriteByte('>')
	case *slip.Lambda:
		b.WriteString("#<lambda>")
	case slip.Funky:
		// a function object held as data, such as the reader's 'x
		b.WriteString("#<call ")
		b.WriteString(strings.ToLower(to.GetName()))
		for _, a := range to.GetArgs() {
			b.WriteByte(' ')
			deepTo(b, a, depth+1)
		}
		b.WriteByte('>')
	default:
		b.WriteString(sl.Show(obj))
	}
}

// arrayProbe is evaluated with c19-v bound to an array: what slip's own
// accessors say about it.
const arrayProbe = `(list (array-has-fill-pointer-p c19-v) (if (array-has-fill-pointer-p c19-v) (fill-pointer c19-v) 'none)
 (array-dimensions c19-v) (adjustable-array-p c19-v) (array-element-type c19-v) (array-rank c19-v)
 (if (vectorp c19-v) (list (length c19-v) (coerce c19-v 'list)) 'array))`

var vecShape = regexp.MustCompile(`#<vector et=(\S+) adj=(\S+) fill=(-?\d+) dims=\[(\d+)\]`)

// vectorShapes counts what kinds of vectors a rendering holds: position of
// the fill pointer, size, element type, adjustability.
func vectorShapes(rendered string, cover func(string)) {
	for _, m := range vecShape.FindAllStringSubmatch(rendered, -1) {
		fill, _ := strconv.Atoi(m[3])
		n, _ := strconv.Atoi(m[4])
		switch {
		case fill < 0:
			cover("vector-fill:none")
		case fill == n:
			cover("vector-fill:at-size")
			if n == 0 {
				cover("vector-fill:at-size-0")
			}
		case fill == 0:
			cover("vector-fill:zero")
		case n < fill:
			cover("vector-fill:past-dims")
		default:
			cover("vector-fill:inside")
		}
		switch {
		case n <= 1:
			cover(fmt.Sprintf("vector-size:%d", n))
		default:
			cover("vector-size:2+")
		}
		cover("vector-et:" + m[1])
		cover("vector-adjustable:" + m[2])
	}
}

func elemType(s slip.Symbol) string {
	if s == "" {
		return "t"
	}
	return strings.ToLower(string(s))
}

// clip shortens a text for messages.
func clip(s string, n int) string {
	if len(s) <= n {
		return s
	}
	return s[:n] + "…"
}
