package c19

import (
	"fmt"
	"math/rand/v2"
	"strings"

	"verif/internal/fw"
)

// Generator of data objects (numbers, strings, symbols, lists, vectors,
// arrays, hash tables) as slip source text. A generated value is "clean"
// unless a feature label says otherwise; the features are the constructs
// with a listed finding on the pinned tree (the avoid set).

var (
	symNames = []string{"a", "b", "foo", "bar", "x1", "some-long-symbol-name", "q", "zed", "alpha-beta", "k9", "*star*", "+plus+"}
	kwNames  = []string{":k", ":key", ":a-long-keyword", ":x", ":test", ":zz9"}
	strAlpha = []rune("abc XYZ 019 \"\\\n\t;()|#',`~é λ漢-_/.:")
	words    = []string{"alpha", "beta", "gamma", "delta", "snapshot", "of", "the", "world", "is", "saved", "as", "source", "code", "and", "re-read", "x", "(paren)", "semi;colon", "quote\"d", "back\\slash"}
)

// litString renders a Go string as a slip string literal.
func litString(s string) string {
	var b strings.Builder
	b.WriteByte('"')
	for _, c := range s {
		switch c {
		case '"':
			b.WriteString("\\\"")
		case '\\':
			b.WriteString("\\\\")
		default:
			b.WriteRune(c)
		}
	}
	b.WriteByte('"')
	return b.String()
}

func genString(r *rand.Rand) string {
	switch r.IntN(5) {
	case 0: // short, nasty alphabet
		n := r.IntN(12)
		rs := make([]rune, n)
		for i := range rs {
			rs[i] = fw.Pick(r, strAlpha)
		}
		return string(rs)
	case 1: // long enough to pass the margin
		n := 8 + r.IntN(25)
		ws := make([]string, n)
		for i := range ws {
			ws[i] = fw.Pick(r, words)
		}
		return strings.Join(ws, " ")
	case 2:
		return ""
	}
	n := 1 + r.IntN(4)
	ws := make([]string, n)
	for i := range ws {
		ws[i] = fw.Pick(r, words)
	}
	return strings.Join(ws, " ")
}

var numLits = []string{
	"0", "1", "-1", "7", "42", "-100", "65536", "4611686018427387904", "-9223372036854775808", "9223372036854775807",
	"123456789012345678901234567890", "-340282366920938463463374607431768211456",
	"1/2", "-7/3", "22/7", "123456789/1000000007",
	"0.5", "-0.25", "0.1", "3.141592653589793", "1.0e10", "1.0e100", "-2.5e-7", "123456.789", "1.0e-300",
	"0.1s0", "2.5s0", "-1.5s3", "1.5L0", "-0.25L0", "1.0d0", "6.02d23",
	"#C(1 2)", "#C(0.5 -1.5)",
}

// #\; #\( #\" are not accepted by the reader (C02's concern)
var charLits = []string{`#\a`, `#\Z`, `#\0`, `#\Space`, `#\-`, `#\*`, `#\λ`, `#\Newline`}

// genAtom yields a clean atom: a number, string, keyword, t, nil or character.
func genAtom(r *rand.Rand) string {
	switch r.IntN(10) {
	case 0, 1, 2:
		return fmt.Sprint(r.IntN(201) - 100)
	case 3, 4:
		return fw.Pick(r, numLits)
	case 5, 6:
		return litString(genString(r))
	case 7:
		return fw.Pick(r, kwNames)
	case 8:
		return fw.Pick(r, []string{"t", "nil", "nil"})
	}
	return fw.Pick(r, charLits)
}

// genElem yields the inside of a quoted literal: atoms, lists, vectors and -
// if syms - plain symbols.
func genElem(r *rand.Rand, depth int, syms int) string {
	k := r.IntN(10)
	switch {
	case k < 2 && 0 < depth:
		return genListBody(r, depth-1, syms, true)
	case k == 2 && 0 < depth:
		return vecLit(r, depth-1)
	case k == 3 && 0 < syms:
		if syms == 2 && r.IntN(4) == 0 {
			// a quote nested in the data
			if r.IntN(2) == 0 {
				return "'" + fw.Pick(r, symNames)
			}
			return "(quote " + fw.Pick(r, symNames) + ")"
		}
		return fw.Pick(r, symNames)
	}
	return genAtom(r)
}

// builtList yields a list built at run time that holds an object a literal
// cannot show (a vector with a fill pointer or element type, a hash table).
func builtList(r *rand.Rand) string {
	n := 1 + r.IntN(4)
	es := make([]string, n)
	for i := range es {
		es[i] = genAtom(r)
	}
	es[r.IntN(n)] = attrObj(r)
	return "(list " + strings.Join(es, " ") + ")"
}

// vecLit yields a vector literal.
func vecLit(r *rand.Rand, depth int) string {
	return "#" + genListBody(r, depth, 2, false)
}

// genListBody yields "(e1 e2 ...)" (possibly dotted) without the quote.
func genListBody(r *rand.Rand, depth int, syms int, dotOK bool) string {
	n := r.IntN(7)
	if r.IntN(8) == 0 {
		n = 8 + r.IntN(12)
	}
	var b strings.Builder
	b.WriteByte('(')
	for i := 0; i < n; i++ {
		if 0 < i {
			b.WriteByte(' ')
		}
		b.WriteString(genElem(r, depth, syms))
	}
	if dotOK && 0 < n && r.IntN(10) == 0 {
		b.WriteString(" . ")
		tail := genAtom(r)
		if tail == "nil" {
			tail = "3"
		}
		b.WriteString(tail)
	}
	b.WriteByte(')')
	return b.String()
}

var valueKinds = []string{"number", "string", "symbol", "character", "list", "vector", "array", "hash-table"}

// valueFeats are the avoid-set features of the value mode.
var valueFeats = map[string][]string{
	"number":     {"long-float-digits"},
	"symbol":     {"plain-symbol"},
	"list":       {"quote-in-list"},
	"vector":     {"vector-grown", "not-adjustable", "nested-attr", "bit-vector-attrs"},
	"array":      {"not-adjustable", "nested-attr"},
	"hash-table": {"nested-attr"},
}

// genValue yields the source of an expression whose value is an object of
// the kind, carrying the feature (or none).
func genValue(r *rand.Rand, kind, feat string) string {
	switch kind {
	case "number":
		if feat == "long-float-digits" {
			return fw.Pick(r, []string{"0.1L0", "3.14159L0", "-2.7L3", "1.0L-5"})
		}
		if r.IntN(2) == 0 {
			return fw.Pick(r, numLits)
		}
		return fmt.Sprint(r.Int64N(2000001) - 1000000)
	case "string":
		return litString(genString(r))
	case "character":
		return fw.Pick(r, charLits)
	case "symbol":
		if feat == "plain-symbol" {
			return "'" + fw.Pick(r, symNames)
		}
		return fw.Pick(r, append([]string{"t"}, kwNames...))
	case "list":
		if feat == "quote-in-list" {
			// the reader holds 'b inside quoted data as a quote object
			if r.IntN(4) == 0 {
				// the quote object itself is the value
				return "''" + fw.Pick(r, symNames)
			}
			body := genListBody(r, 1, 0, false)
			return "'(1 '" + fw.Pick(r, symNames) + " " + body[1:]
		}
		if feat == "symbol-in-list" {
			body := genListBody(r, 2, 1, true)
			// make sure a symbol is there
			return "'(" + fw.Pick(r, symNames) + " " + body[1:]
		}
		// plain symbols are data like everything else in a quoted list
		body := genListBody(r, 3, r.IntN(2), true)
		if body == "()" {
			body = "(1)"
		}
		return "'" + body
	case "vector":
		switch {
		case feat == "vector-grown":
			return vecHistory(r, vecOpts{grown: true})
		case feat == "not-adjustable":
			return vecHistory(r, vecOpts{notAdj: true})
		case feat == "bit-vector-attrs":
			// a bit vector that is adjustable or has a fill pointer
			n := 1 + r.IntN(9)
			src := fmt.Sprintf("(make-array %d :element-type 'bit :initial-element %d", n, r.IntN(2))
			if r.IntN(2) == 0 {
				src += fmt.Sprintf(" :fill-pointer %d", r.IntN(n))
			}
			return src + ")"
		case feat == "nested-attr":
			// an element that is itself an object with attributes a literal cannot show
			n := 1 + r.IntN(3)
			es := make([]string, n)
			for i := range es {
				es[i] = genAtom(r)
			}
			es[r.IntN(n)] = attrObj(r)
			return "(vector " + strings.Join(es, " ") + ")"
		case feat == "empty-vector" || (feat == "" && r.IntN(12) == 0):
			return fw.Pick(r, []string{"#()", "(make-array 0)", "(vector)", "(make-array '(0))", "(make-array 0 :fill-pointer 0)", "(make-array 0 :fill-pointer t)"})
		case feat == "fill-pointer" || (feat == "" && r.IntN(6) == 0):
			// the fill pointer at every position: 0, inside, equal to the size
			n := 1 + r.IntN(6)
			fp := fmt.Sprint(r.IntN(n + 1))
			switch r.IntN(4) {
			case 0:
				fp = fmt.Sprint(n)
			case 1:
				fp = "t"
			}
			return fmt.Sprintf("(make-array %d :fill-pointer %s :initial-contents '%s)", n, fp, fixedList(r, n, 2))
		case feat == "" && r.IntN(3) == 0:
			return vecHistory(r, vecOpts{})
		case feat == "plain-attrs":
			return vecLit(r, 2)
		case r.IntN(12) == 0:
			// (a bit vector literal: not adjustable, no fill pointer)
			return fw.Pick(r, []string{"#*1011", "#*", "#*0", "#*111000111000"})
		case r.IntN(3) == 0:
			n := 1 + r.IntN(5)
			src := fmt.Sprintf("(make-array %d :initial-contents '%s", n, fixedList(r, n, 2))
			if r.IntN(2) == 0 {
				src += " :adjustable t"
			}
			return src + ")"
		case r.IntN(4) == 0:
			n := 1 + r.IntN(5)
			et := fw.Pick(r, elemTypes[1:])
			return fmt.Sprintf("(make-array %d :element-type '%s :initial-contents '(%s))", n, et.name, strings.Join(et.elems(r, n), " "))
		}
		return vecLit(r, 2)
	case "array":
		rank := 2 + r.IntN(2)
		dims := make([]int, rank)
		for i := range dims {
			dims[i] = 1 + r.IntN(3)
		}
		if feat == "plain-attrs" {
			return fmt.Sprintf("#%dA%s", rank, nestedContents(r, dims))
		}
		if feat == "nested-attr" {
			return fmt.Sprintf("(make-array '(1 2) :initial-contents (list (list %s %s)))", genAtom(r), attrObj(r))
		}
		src := fmt.Sprintf("(make-array '%s", intList(dims))
		if feat == "" && r.IntN(4) == 0 {
			// an element type other than t
			et := fw.Pick(r, elemTypes[1:])
			src += fmt.Sprintf(" :element-type '%s :initial-element %s", et.name, quoted(et.elems(r, 1)[0]))
		} else {
			src += " :initial-contents '" + nestedContents(r, dims)
		}
		switch {
		case feat == "not-adjustable":
			src += " :adjustable nil"
		case r.IntN(3) == 0:
			src += " :adjustable t"
		}
		return src + ")"
	case "hash-table":
		n := r.IntN(7)
		if feat == "nested-attr" {
			n++
		}
		var b strings.Builder
		b.WriteString("(let ((h (make-hash-table)))")
		seen := map[string]bool{}
		for i := 0; i < n; i++ {
			var key string
			switch r.IntN(5) {
			case 0:
				key = fmt.Sprint(r.IntN(50))
			case 1:
				key = litString(fw.Pick(r, words))
			case 2:
				key = "'" + fw.Pick(r, symNames)
			case 3:
				key = fw.Pick(r, []string{`#\a`, `#\Z`, `#\0`})
			default:
				key = fw.Pick(r, kwNames)
			}
			if seen[key] {
				continue
			}
			seen[key] = true
			var val string
			switch r.IntN(9) {
			case 0:
				val = vecLit(r, 1)
			case 1:
				val = "'" + fw.Pick(r, symNames)
			case 2:
				val = "'(" + fw.Pick(r, symNames) + " 2 \"s\")"
			case 3:
				// lists of every small length
				val = "'" + fw.Pick(r, []string{"(a)", "(1)", "(\"s\")", "(a b)", "((a))", "(a . b)", "(nil)"})
			default:
				val = genAtom(r)
			}
			if feat == "nested-attr" && i == 0 {
				val = attrObj(r)
			}
			fmt.Fprintf(&b, " (setf (gethash %s h) %s)", key, val)
		}
		b.WriteString(" h)")
		return b.String()
	}
	panic("unknown value kind " + kind)
}

func intList(xs []int) string {
	ss := make([]string, len(xs))
	for i, x := range xs {
		ss[i] = fmt.Sprint(x)
	}
	return "(" + strings.Join(ss, " ") + ")"
}

// fixedList yields a list literal body of exactly n elements.
func fixedList(r *rand.Rand, n int, syms int) string {
	es := make([]string, n)
	for i := range es {
		es[i] = genElem(r, 1, syms)
	}
	return "(" + strings.Join(es, " ") + ")"
}

func nestedContents(r *rand.Rand, dims []int) string {
	if len(dims) == 1 {
		es := make([]string, dims[0])
		for i := range es {
			if r.IntN(4) == 0 {
				es[i] = fw.Pick(r, symNames)
			} else {
				es[i] = genAtom(r)
			}
		}
		return "(" + strings.Join(es, " ") + ")"
	}
	es := make([]string, dims[0])
	for i := range es {
		es[i] = nestedContents(r, dims[1:])
	}
	return "(" + strings.Join(es, " ") + ")"
}
