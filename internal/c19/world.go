package c19

import (
	"encoding/json"
	"fmt"
	"os"
	"path/filepath"
	"runtime/debug"
	"sort"
	"strings"
	"time"

	"github.com/ohler55/slip"
	"github.com/ohler55/slip/pkg/generic"
	"github.com/ohler55/slip/pp"

	"verif/internal/fw"
	"verif/internal/sl"
)

// A world is one slip process image. Cases that need a fresh world (the
// reload of a definition, both sides of a snapshot round trip) describe what
// is to happen there as a list of steps and run them in a fresh process of
// this same binary (fw.RunSub); the steps are executed by the real
// interpreter linked into that process.

// Step is one action in a world.
type Step struct {
	Op     string `json:"op"`               // eval | load | snapshot | loadform | funcform
	Src    string `json:"src,omitempty"`    // eval: forms; loadform: expression yielding the object; funcform: function name
	Margin int    `json:"margin,omitempty"` // snapshot, loadform, funcform: *print-right-margin*
	Path   string `json:"path,omitempty"`   // load, snapshot: file
	// Again (snapshot): the session was saved to the same file before, when it still
	// held a long variable and a function that are gone by now (the user saves,
	// removes definitions, saves again): the file must hold the second save only.
	Again bool `json:"again,omitempty"`
	// Bind (snapshot): a further printer variable binding around the call, e.g.
	// "(*print-base* 16)": the saved text does not depend on it.
	Bind string `json:"bind,omitempty"`
}

// Out is what a step produced.
type Out struct {
	Val  string  `json:"val,omitempty"`  // harness rendering of the value
	Err  *sl.Err `json:"err,omitempty"`  // condition raised
	Text string  `json:"text,omitempty"` // snapshot / pretty printed load form
}

// Req is a world request.
type Req struct {
	Steps []Step `json:"steps"`
}

// Resp is the world's answer; Done counts the steps that returned.
type Resp struct {
	Outs []Out `json:"outs"`
}

// loadFormOf asks the object for its load form the way make-load-form does
// (generic.ObjectLoadForm), except that a symbol is asked directly instead
// of being taken as the name of something.
func loadFormOf(obj slip.Object) (form slip.Object, err *sl.Err) {
	err = sl.Catch(func() {
		if sym, ok := obj.(slip.Symbol); ok {
			form = sym.LoadForm()
			return
		}
		form = generic.ObjectLoadForm(obj, true)
	})
	return
}

// ppText pretty prints form exactly as snapshot and pretty-print do.
func ppText(form slip.Object, margin int) (text string, err *sl.Err) {
	err = sl.Catch(func() {
		ps := slip.NewScope()
		ps.Let(slip.Symbol("*print-right-margin*"), slip.Fixnum(margin))
		text = string(pp.Append(nil, ps, form))
	})
	return
}

// evalForms reads src and evaluates its forms one by one.
func evalForms(scope *slip.Scope, src string) (result slip.Object, err *sl.Err) {
	err = sl.Catch(func() {
		code := slip.ReadString(src, scope)
		for _, form := range code {
			result = scope.Eval(form, 0)
		}
	})
	return
}

func doStep(scope *slip.Scope, st Step) (out Out) {
	switch st.Op {
	case "eval":
		res, err := evalForms(scope, st.Src)
		if err != nil {
			out.Err = err
			return
		}
		out.Val = deepAll(res)
	case "load":
		res, err := evalForms(scope, fmt.Sprintf("(load %q)", st.Path))
		if err != nil {
			out.Err = err
			return
		}
		out.Val = deepAll(res)
	case "snapshot":
		if st.Again {
			pad := strings.Repeat("earlier save ", 60)
			if _, err := evalForms(scope, fmt.Sprintf("(defvar *c19-earlier-pad* %q) (defun c19-earlier-zulu (a b) (list a b %q)) (snapshot %q) (makunbound '*c19-earlier-pad*) (fmakunbound 'c19-earlier-zulu)", pad, pad, st.Path)); err != nil {
				err.Class = "harness"
				err.Msg = "earlier save: " + err.Msg
				out.Err = err
				return
			}
		}
		_, err := evalForms(scope, fmt.Sprintf("(let ((*print-right-margin* %d) %s) (snapshot %q))", st.Margin, st.Bind, st.Path))
		if err != nil {
			out.Err = err
			return
		}
		data, rerr := os.ReadFile(st.Path)
		if rerr != nil {
			out.Err = &sl.Err{Class: "harness", Msg: rerr.Error()}
			return
		}
		out.Text = string(data)
	case "loadform", "funcform":
		var obj slip.Object
		if st.Op == "funcform" {
			fi := slip.FindFunc(st.Src)
			if fi == nil {
				out.Err = &sl.Err{Class: "harness", Msg: "no function " + st.Src}
				return
			}
			obj = fi
		} else {
			var err *sl.Err
			if obj, err = evalForms(scope, st.Src); err != nil {
				err.Msg = "evaluating the object: " + err.Msg
				err.Class = "harness"
				out.Err = err
				return
			}
		}
		form, err := loadFormOf(obj)
		if err != nil {
			err.Msg = "LoadForm: " + err.Msg
			out.Err = err
			return
		}
		out.Val = sl.Show(form)
		if out.Text, err = ppText(form, st.Margin); err != nil {
			err.Msg = "pretty printer: " + err.Msg
			out.Err = err
		}
	case "pkginfo":
		p := slip.FindPackage(st.Src)
		if p == nil {
			out.Val = "no-package"
			return
		}
		var uses []string
		for _, u := range p.Uses {
			uses = append(uses, u.Name)
		}
		exports := append([]string{}, p.Exports...)
		sort.Strings(exports)
		out.Val = fmt.Sprintf("name=%s nicknames=%v uses=%v exports=%v doc=%q", p.Name, p.Nicknames, uses, exports, p.Doc)
	default:
		out.Err = &sl.Err{Class: "harness", Msg: "unknown op " + st.Op}
	}
	return
}

// worldMain is the sub-process entry: args = request file, response file.
func worldMain(args []string) int {
	if len(args) != 2 {
		return 2
	}
	data, err := os.ReadFile(args[0])
	if err != nil {
		fmt.Fprintln(os.Stderr, err)
		return 2
	}
	var req Req
	if err = json.Unmarshal(data, &req); err != nil {
		fmt.Fprintln(os.Stderr, err)
		return 2
	}
	// a runaway recursion is to end the process quickly, not after filling
	// a gigabyte of stack
	debug.SetMaxStack(64 << 20)
	scope := slip.NewScope()
	var resp Resp
	flush := func() {
		b, _ := json.Marshal(&resp)
		_ = os.WriteFile(args[1], b, 0o644)
	}
	for _, st := range req.Steps {
		// the answer so far is on disk before each step, so that a fatal
		// fault of the process leaves the steps before it readable
		flush()
		resp.Outs = append(resp.Outs, doStep(scope, st))
	}
	flush()
	return 0
}

// WorldResult is the outcome of running a world.
type WorldResult struct {
	Resp   Resp
	Fatal  string // non-empty: the process died (first lines of its stderr)
	Hung   bool
	Broken string // harness trouble (could not start, unreadable answer)
}

var worldSeq int

// runWorld runs the steps in a fresh process.
func runWorld(dir string, req *Req) (wr WorldResult) {
	worldSeq++
	rf := filepath.Join(dir, fmt.Sprintf("w%d.req", worldSeq))
	of := filepath.Join(dir, fmt.Sprintf("w%d.out", worldSeq))
	b, _ := json.Marshal(req)
	if err := os.WriteFile(rf, b, 0o644); err != nil {
		wr.Broken = err.Error()
		return
	}
	var res fw.SubResult
	for attempt := 0; attempt < 2; attempt++ {
		res = fw.RunSub("c19-world", []string{rf, of}, nil, dir, 45*time.Second)
		if !res.TimedOut {
			break
		}
	}
	data, err := os.ReadFile(of)
	if err == nil {
		err = json.Unmarshal(data, &wr.Resp)
	}
	switch {
	case res.TimedOut:
		wr.Hung = true
	case res.Exit != 0:
		wr.Fatal = fatalSummary(string(res.Stderr))
		if wr.Fatal == "" {
			wr.Fatal = fmt.Sprintf("exit status %d", res.Exit)
		}
	case err != nil:
		wr.Broken = "unreadable answer: " + err.Error()
	}
	return
}

// fatalSummary keeps the informative head of a Go fatal error report.
func fatalSummary(stderr string) string {
	var keep []string
	for _, line := range strings.Split(stderr, "\n") {
		if strings.HasPrefix(line, "fatal error:") || strings.HasPrefix(line, "panic:") ||
			strings.HasPrefix(line, "runtime: goroutine stack exceeds") {
			keep = append(keep, line)
		}
		if strings.HasPrefix(line, "github.com/ohler55/slip") && len(keep) < 8 && 0 < len(keep) {
			keep = append(keep, line)
		}
	}
	return strings.Join(keep, " | ")
}

func init() {
	fw.RegisterSub("c19-world", worldMain)
}
