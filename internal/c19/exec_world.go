package c19

import (
	"fmt"
	"math/rand/v2"
	"os"
	"regexp"
	"sort"
	"strings"
	"sync"

	"verif/internal/fw"
)

// ------------------------------------------------------------- fixed block

var (
	fixedOnce  sync.Once
	fixedBlock []Case
)

// fixedCases is the seed-independent head of the case list: hand-written
// examples of every kind plus, for every avoid-set construct, a few cases
// built by the generators from fixed seeds - so that every listed finding is
// re-observed (and a change of its failure mode noticed) on every seed.
func fixedCases() []Case {
	fixedOnce.Do(func() {
		m := []int{20, 60, 120}
		val := func(kind, src string) {
			fixedBlock = append(fixedBlock, Case{Mode: "value", Kind: kind, Src: src, Margins: m})
		}
		val("number", "0")
		val("number", "-7/3")
		val("number", "123456789012345678901234567890")
		val("number", "0.1")
		val("number", "0.1s0")
		val("number", "1.5L0")
		val("string", `""`)
		val("string", `"a \"quoted\" \\ string; with (parens) and a
newline"`)
		val("symbol", ":keyword")
		val("symbol", "t")
		val("character", `#\a`)
		val("character", `#\Space`)
		val("list", `'(1 "two" :three 4.5 (5 (6)) #(7 8) #\9 nil t)`)
		val("list", `'(1 2 . 3)`)
		val("list", `'((1 . 2) (3 . 4))`)
		val("vector", `#(1 "two" three (4 5) #(6))`)
		val("vector", `(make-array 3 :initial-element 0)`)
		val("vector", `(make-array 3 :element-type 'fixnum :initial-contents '(1 2 3))`)
		val("array", `(make-array '(2 3) :initial-contents '((1 2 3) (a "b" :c)))`)
		val("array", `(make-array '(2 2 2) :initial-element 7 :adjustable t)`)
		val("hash-table", `(make-hash-table)`)
		val("hash-table", `(let ((h (make-hash-table))) (setf (gethash 'a h) 1) (setf (gethash "b" h) "two") (setf (gethash 3 h) :three) (setf (gethash :k h) #(1 2)) h)`)
		for _, kind := range valueKinds {
			for k, feat := range valueFeats[kind] {
				for j := 0; j < 3; j++ {
					r := rand.New(rand.NewPCG(uint64(1000+k), uint64(j)+fw.Hash64([]byte(kind))))
					fixedBlock = append(fixedBlock, Case{Mode: "value", Kind: kind, Feat: feat, Src: genValue(r, kind, feat), Margins: []int{30, 100}})
				}
			}
		}
		code := func(kind, name, src string, probes ...string) {
			fixedBlock = append(fixedBlock, Case{Mode: "code", Kind: kind, Name: name, Src: src, Probes: probes, Margins: m})
		}
		code("defun", "fx-add", `(defun fx-add (x &optional (y 2)) "adds two numbers" (+ x y))`, "1", "1 5")
		code("defun", "fx-key", `(defun fx-key (x &key (scale 3) (label "l")) (list (* x scale) label))`, "1", "2 :scale 4", "2 :label \"z\"")
		code("defun", "fx-rest", `(defun fx-rest (x &rest more) (let ((total x)) (dolist (v more total) (setq total (+ total v)))))`, "1", "1 2 3")
		code("defun", "fx-ctl", `(defun fx-ctl (n) (block out (dotimes (i 10) (if (> i n) (return-from out (list 'at i)))) 'none))`, "3", "20")
		code("defun", "fx-cond", `(defun fx-cond (n) (cond ((< n 0) 'neg) ((= n 0)) ((< n 5) (setq n (* n 2)) n) (t "big")))`, "-1", "0", "3", "9")
		code("defun", "fx-str", `(defun fx-str (n) (with-output-to-string (s) (format s "~a-~s" n "q") (princ n s)))`, "4")
		code("defun", "fx-do", `(defun fx-do (n) (do ((i 0 (1+ i)) (acc nil (cons i acc))) ((>= i n) acc)))`, "0", "3")
		code("defmacro", "fx-mac", "(defmacro fx-mac (a &rest body) \"a macro\" (cons 'progn (cons a body)))", "1", "1 2 3")
		fixedBlock = append(fixedBlock,
			Case{Mode: "code", Kind: "defun", Name: "fx-bq", Src: "(defun fx-bq (n) `(a ,n ,@(list n n) b))", Probes: []string{"1"}, Margins: m},
			Case{Mode: "code", Kind: "defmacro", Name: "fx-bqm", Src: "(defmacro fx-bqm (a &rest body) `(progn ,a ,@body))", Probes: []string{"1", "1 2 3"}, Margins: m},
			Case{Mode: "code", Kind: "call", Name: "", Src: deepNest(14), Margins: []int{20}})
		code("lambda", "", `(lambda (x) (* x 2))`, "4")
		code("lambda", "", `(lambda (x &optional (y 3)) "doc" (list x y))`, "1", "1 2")
		code("call", "", `(let ((a 1) (b (* 2 3))) (list a b (if (< a b) "lt" "ge")))`)
		code("call", "", `(mapcar (lambda (v) (* v v)) '(1 2 3))`)
		seed := uint64(0)
		rnd := func() *rand.Rand { seed++; return rand.New(rand.NewPCG(77, seed)) }
		for _, kind := range []string{"defun", "lambda", "defmacro", "call"} {
			for j := 0; j < 2; j++ {
				fixedBlock = append(fixedBlock, buildCodeCase(rnd(), kind, "", fmt.Sprintf("x%d", seed)))
			}
		}
		for _, kind := range []string{"package", "flavor", "flavor-instance", "class", "class-instance", "generic"} {
			for j := 0; j < 4; j++ {
				fixedBlock = append(fixedBlock, buildDefCase(rnd(), kind, ""))
			}
			for _, feat := range defFeats[kind] {
				for j := 0; j < 3; j++ {
					fixedBlock = append(fixedBlock, buildDefCase(rnd(), kind, feat))
				}
			}
		}
		for j := 0; j < 4; j++ {
			fixedBlock = append(fixedBlock, buildSessionCase(rnd(), "", 6+j*3))
		}
		// redefinition histories: what is saved is the last definition
		fixedBlock = append(fixedBlock,
			Case{Mode: "code", Kind: "defun", Name: "fx-area", Prior: []string{`(defun fx-area (w) "sq" (* w w))`},
				Src: `(defun fx-area (w h) "rect" (* w h))`, Probes: []string{"3 4", "2 2"}, Margins: m},
			Case{Mode: "code", Kind: "defun", Name: "fx-twice", Prior: []string{`(defun fx-twice (a &optional (b 2)) (list a b))`, `(defun fx-twice (a b c) "three" (+ a b c))`},
				Src: `(defun fx-twice (a &key (k 1)) (* a k))`, Probes: []string{"3", "3 :k 4"}, Margins: m},
			Case{Mode: "code", Kind: "defmacro", Name: "fx-remac", Prior: []string{`(defmacro fx-remac (a) "one" (list 'list a))`},
				Src: `(defmacro fx-remac (a b) "two" (list 'list b a))`, Probes: []string{"1 2"}, Margins: m},
			Case{Mode: "session", Kind: "session", Margins: []int{70}, Items: []Item{
				{Kind: "fun", Name: "fx-area", Redef: 1, Forms: []string{`(defun fx-area (w) "sq" (* w w))`, `(defun fx-area (w h) "rect" (* w h))`},
					Probes: []string{"(fx-area 3 4)", "(documentation 'fx-area 'function)"}},
				{Kind: "macro", Name: "fx-remac", Redef: 1, Forms: []string{`(defmacro fx-remac (a) "one" (list 'list a))`, `(defmacro fx-remac (a b) "two" (list 'list b a))`},
					Probes: []string{"(fx-remac 1 2)"}},
				{Kind: "var", Name: "*fx-revar*", Redef: 2, Forms: []string{`(defvar *fx-revar* 1 "first")`, `(defparameter *fx-revar* '(2 b) "second")`, `(setq *fx-revar* "third")`},
					Probes: []string{"*fx-revar*", "(documentation '*fx-revar* 'variable)"}},
				{Kind: "flavor", Name: "fx-refl", Redef: 1, Forms: []string{
					`(defflavor fx-refl ((a 1) (b 2)) () :gettable-instance-variables)`, `(undefflavor 'fx-refl)`,
					`(defflavor fx-refl ((a 5) (c "x")) () :gettable-instance-variables :settable-instance-variables (:documentation "again"))`},
					Probes: []string{"(let ((i (make-instance 'fx-refl))) (list (send i :a) (send i :c) (progn (send i :set-a 7) (send i :a))))", "(send (make-instance 'fx-refl) :b)", "(documentation 'fx-refl 'type)"}},
				{Kind: "generic", Name: "fx-regf", Redef: 1, Forms: []string{
					`(defgeneric fx-regf (x))`, `(defmethod fx-regf ((x fixnum)) "first" (list 'first x))`, `(defmethod fx-regf ((x string)) (list 'str x))`,
					`(defmethod fx-regf ((x fixnum)) "second" (list 'second (* x 2)))`},
					Probes: []string{"(fx-regf 3)", `(fx-regf "s")`}},
			}},
			Case{Mode: "def", Kind: "class", Margins: []int{60}, Items: []Item{{Kind: "class", Name: "fx-recls", Redef: 1, Forms: []string{
				`(defclass fx-recls () ((a :initarg :a :initform 1) (b :initform 2)) (:documentation "first"))`,
				`(defclass fx-recls () ((a :initarg :a :initform 5) (c :initarg :c :initform "x")) (:documentation "second"))`},
				Obj: "(find-class 'fx-recls)", Probes: []string{
					"(let ((i (make-instance 'fx-recls :c 3))) (list (slot-value i 'a) (slot-value i 'c) (slot-exists-p i 'b)))", "(documentation 'fx-recls 'type)"}}}},
			Case{Mode: "def", Kind: "flavor", Margins: []int{60}, Items: []Item{{Kind: "flavor", Name: "fx-refl", Redef: 1, Forms: []string{
				`(defflavor fx-refl ((a 1) (b 2)) () :gettable-instance-variables)`, `(undefflavor 'fx-refl)`,
				`(defflavor fx-refl ((a 5) (c "x")) () :gettable-instance-variables :settable-instance-variables (:documentation "again"))`},
				Obj: "(find-flavor 'fx-refl)", Probes: []string{
					"(let ((i (make-instance 'fx-refl))) (list (send i :a) (send i :c) (progn (send i :set-a 7) (send i :a))))", "(send (make-instance 'fx-refl) :b)"}}}},
			Case{Mode: "def", Kind: "generic", Margins: []int{60}, Items: []Item{{Kind: "generic", Name: "fx-regf", Redef: 1, Forms: []string{
				`(defgeneric fx-regf (x))`, `(defmethod fx-regf ((x fixnum)) "first" (list 'first x))`, `(defmethod fx-regf ((x string)) (list 'str x))`,
				`(defmethod fx-regf ((x fixnum)) "second" (list 'second (* x 2)))`},
				Obj: "fx-regf", Probes: []string{"(fx-regf 3)", `(fx-regf "s")`}}}})
		// a three level chain whose leaf re-declares a variable with the
		// default of its grandparent, shadowing the parent's
		base := `(defflavor fx-base ((size 1) (tag "b")) () :gettable-instance-variables :settable-instance-variables :inittable-instance-variables)`
		mid := `(defflavor fx-mid ((size 2) (weight 5)) (fx-base) :gettable-instance-variables :settable-instance-variables :inittable-instance-variables)`
		leaf := `(defflavor fx-leaf ((size 1) (tag "b") (weight 6) (extra :k)) (fx-mid) :gettable-instance-variables :inittable-instance-variables)`
		chainProbes := func(fl string) []string {
			return []string{
				fmt.Sprintf("(let ((i (make-instance '%s))) (list (slot-value i 'size) (slot-value i 'tag) (send i :size)))", fl),
				fmt.Sprintf("(let ((i (make-instance '%s))) (send i :set-size 9) (send i :size))", fl),
			}
		}
		leafProbes := append(chainProbes("fx-leaf"),
			"(let ((i (make-instance 'fx-leaf :weight 7))) (list (slot-value i 'weight) (slot-value i 'extra) (slot-value i 'size)))",
			"(let ((i (make-instance 'fx-leaf))) (send i :which-operations))")
		fixedBlock = append(fixedBlock,
			Case{Mode: "def", Kind: "flavor", Margins: []int{60}, Items: []Item{{Kind: "flavor", Name: "fx-leaf", Info: "inherits:3",
				Pre: []string{base, mid}, Forms: []string{leaf}, Obj: "(find-flavor 'fx-leaf)", Probes: leafProbes}}},
			Case{Mode: "def", Kind: "flavor", Margins: []int{24}, Items: []Item{{Kind: "flavor", Name: "fx-mid", Info: "inherits:2",
				Pre: []string{base}, Forms: []string{mid}, Obj: "(find-flavor 'fx-mid)", Probes: chainProbes("fx-mid")}}},
			Case{Mode: "session", Kind: "session", Margins: []int{80}, Items: []Item{
				{Kind: "flavor", Name: "fx-base", Forms: []string{base}, Probes: chainProbes("fx-base")},
				{Kind: "flavor", Name: "fx-mid", Info: "inherits:2", Forms: []string{mid}, Probes: chainProbes("fx-mid")},
				{Kind: "flavor", Name: "fx-leaf", Info: "inherits:3", Forms: []string{leaf, "(defvar *fx-leaf-inst* (make-instance 'fx-leaf :extra 3))"},
					Probes: append(leafProbes, "(list (slot-value *fx-leaf-inst* 'size) (slot-value *fx-leaf-inst* 'extra))")},
			}},
			// instances whose variables were set to nil (and other empty values)
			// away from non-nil own and inherited defaults
			Case{Mode: "session", Kind: "session", Margins: []int{80}, Items: []Item{
				{Kind: "flavor", Name: "fx-base", Forms: []string{base}, Probes: chainProbes("fx-base")},
				{Kind: "flavor", Name: "fx-mid", Info: "inherits:2", Forms: []string{mid,
					"(defvar *fx-nil-inst* (make-instance 'fx-mid :tag nil))",
					"(send *fx-nil-inst* :set-size nil)",
					"(setf (slot-value *fx-nil-inst* 'weight) nil)",
					"(defvar *fx-empty-inst* (make-instance 'fx-mid))",
					"(send *fx-empty-inst* :set-size 0)", "(send *fx-empty-inst* :set-tag \"\")", "(send *fx-empty-inst* :set-weight 5)",
					"(defvar *fx-t-inst* (make-instance 'fx-base :size t))"},
					Probes: []string{
						"(list (slot-value *fx-nil-inst* 'size) (slot-value *fx-nil-inst* 'tag) (slot-value *fx-nil-inst* 'weight))",
						"(list (slot-value *fx-empty-inst* 'size) (slot-value *fx-empty-inst* 'tag) (slot-value *fx-empty-inst* 'weight))",
						"(list (slot-value *fx-t-inst* 'size) (slot-value *fx-t-inst* 'tag))"}},
			}})
		// vectors with the fill pointer at every position (none, 0, inside,
		// equal to the size) reached by every route: make-array, vector-push up
		// to the capacity, vector-push-extend within the capacity, vector-pop,
		// adjust-array; as values and as variables of a session (seeded C19e)
		var vecItems []Item
		for k, src := range vectorBoundaries {
			val("vector", src)
			vecItems = append(vecItems, vectorVarItem(fmt.Sprintf("*fx-vec%d*", k), src))
		}
		fixedBlock = append(fixedBlock,
			Case{Mode: "session", Kind: "session", Margins: []int{70}, Items: vecItems},
			Case{Mode: "session", Kind: "session", Margins: []int{28}, Items: vecItems[len(vecItems)/2:]})
		// variables and constants holding the empty values
		{
			var items []Item
			for k, v := range []string{"nil", "t", "0", `""`, "'()", "#()", "(make-hash-table)", "(list nil)", "'(nil . nil)", ":k", "(make-array '(1 1) :initial-element nil)"} {
				name := fmt.Sprintf("*fx-empty%d*", k)
				head := []string{"defvar", "defparameter"}[k%2]
				items = append(items, Item{Kind: "var", Name: name, Forms: []string{fmt.Sprintf("(%s %s %s)", head, name, v)},
					Probes: []string{name, fmt.Sprintf("(boundp '%s)", name)}})
			}
			items = append(items,
				Item{Kind: "var", Name: "*fx-declared*", Forms: []string{"(defvar *fx-declared*)"}, Probes: []string{"(boundp '*fx-declared*)"}},
				Item{Kind: "var", Name: "*fx-set-nil*", Forms: []string{"(defvar *fx-set-nil* 5 \"was five\")", "(setq *fx-set-nil* nil)"},
					Probes: []string{"*fx-set-nil*", "(boundp '*fx-set-nil*)", "(documentation '*fx-set-nil* 'variable)"}},
				Item{Kind: "const", Name: "+fx-nil+", Forms: []string{"(defconstant +fx-nil+ nil)"}, Probes: []string{"+fx-nil+"}},
				Item{Kind: "const", Name: "+fx-empty+", Forms: []string{"(defconstant +fx-empty+ \"\" \"empty\")"}, Probes: []string{"+fx-empty+", "(documentation '+fx-empty+ 'variable)"}})
			fixedBlock = append(fixedBlock, Case{Mode: "session", Kind: "session", Margins: []int{70}, Items: items})
		}
		// every kind of failed operation and of removed definition once
		{
			s := newSctx(rnd(), "")
			s.session = true
			var items []Item
			for k := 0; k < nFailed; k++ {
				items = append(items, s.failedItem(k))
			}
			for k := 0; k < nRemoved; k++ {
				if k != 2 { // (a removed flavor is the avoid-set construct flavor-removed)
					items = append(items, s.removedItem(k))
				}
			}
			fixedBlock = append(fixedBlock, Case{Mode: "session", Kind: "session", Margins: []int{70}, Items: items})
		}
		// a component flavor with list and symbol defaults, re-declared by the child
		lp := `(defflavor fx-lp ((a '(1 2)) (b 'sym) (c 3)) () :gettable-instance-variables :settable-instance-variables :inittable-instance-variables)`
		lc := `(defflavor fx-lc ((d 1) (a '(1 2)) (b 'other)) (fx-lp) :gettable-instance-variables)`
		lprobes := []string{"(let ((i (make-instance 'fx-lc))) (list (send i :a) (send i :b) (send i :c) (send i :d)))",
			"(let ((i (make-instance 'fx-lc))) (send i :set-a '(9)) (send i :a))", "(send (make-instance 'fx-lc) :which-operations)"}
		fixedBlock = append(fixedBlock,
			Case{Mode: "def", Kind: "flavor", Margins: []int{60}, Items: []Item{{Kind: "flavor", Name: "fx-lc", Info: "inherits:2",
				Pre: []string{lp}, Forms: []string{lc}, Obj: "(find-flavor 'fx-lc)", Probes: lprobes}}},
			Case{Mode: "session", Kind: "session", Margins: []int{60}, Items: []Item{
				{Kind: "flavor", Name: "fx-lp", Forms: []string{lp}, Probes: []string{"(send (make-instance 'fx-lp) :a)"}},
				{Kind: "flavor", Name: "fx-lc", Info: "inherits:2", Pre: []string{lp}, Forms: []string{lc}, Probes: lprobes}}})
		for _, feat := range codeFeats {
			for _, kind := range []string{"defun", "lambda", "defmacro"} {
				for j := 0; j < 2; j++ {
					fixedBlock = append(fixedBlock, buildCodeCase(rnd(), kind, feat, fmt.Sprintf("y%d", seed)))
				}
			}
		}
		for _, feat := range sessionFeats {
			// the first one holds nothing but the construct: the smallest witness
			for j := 0; j < 4; j++ {
				fixedBlock = append(fixedBlock, buildSessionCase(rnd(), feat, j*2))
			}
		}
	})
	return fixedBlock
}

var vectorBoundaries = []string{
	`(make-array 3 :fill-pointer 0 :initial-contents '(1 2 3))`,
	`(make-array 3 :fill-pointer 1 :initial-contents '(1 2 3))`,
	`(make-array 3 :fill-pointer 3 :initial-contents '(1 2 3))`,
	`(make-array 3 :fill-pointer t :initial-contents '(a "b" :c))`,
	`(make-array 0 :fill-pointer 0)`,
	`(make-array 0 :fill-pointer t :adjustable t)`,
	`(make-array 1 :fill-pointer 1 :initial-element 'x)`,
	`(make-array 1 :fill-pointer 0 :initial-element 'x)`,
	`(make-array 3 :element-type 'fixnum :fill-pointer 3 :initial-contents '(1 2 3))`,
	`(make-array 2 :element-type 'character :fill-pointer t :initial-contents '(#\a #\b))`,
	`(make-array 2 :element-type 'float :fill-pointer 1 :initial-contents '(0.5 1.5))`,
	`(make-array 3 :adjustable t :fill-pointer 3 :initial-element 0)`,
	`(let ((v (make-array 3 :fill-pointer 1 :initial-contents '(1 2 3)))) (vector-push 'a v) (vector-push 'b v) v)`,
	`(let ((v (make-array 3 :fill-pointer 3 :initial-contents '(1 2 3)))) (vector-push 'a v) v)`,
	`(let ((v (make-array 3 :fill-pointer 1 :initial-contents '(1 2 3)))) (vector-push-extend 'a v) v)`,
	`(let ((v (make-array 3 :fill-pointer 2 :initial-contents '(1 2 3)))) (vector-push-extend 'a v) v)`,
	`(let ((v (make-array 4 :fill-pointer 0 :initial-element nil))) (dotimes (i 4) (vector-push-extend (* i i) v)) v)`,
	`(let ((v (make-array 3 :fill-pointer 2 :initial-contents '(1 2 3)))) (vector-pop v) v)`,
	`(let ((v (make-array 3 :fill-pointer 1 :initial-contents '(1 2 3)))) (vector-pop v) v)`,
	`(let ((v (make-array 3 :fill-pointer 0 :initial-contents '(1 2 3)))) (setf (fill-pointer v) 2) v)`,
	`(adjust-array (make-array 3 :adjustable t :initial-contents '(1 2 3)) 5 :initial-element 'z :fill-pointer 5)`,
	`(adjust-array (make-array 3 :adjustable t :initial-contents '(1 2 3)) 5 :initial-element 'z :fill-pointer t)`,
	`(adjust-array (make-array 4 :fill-pointer 2 :initial-contents '(1 2 3 4)) 2)`,
	`(adjust-array (make-array 3 :fill-pointer 3 :initial-contents '(1 2 3)) 5 :initial-element 0)`,
	`(adjust-array (make-array 3 :initial-contents '(1 2 3)) 3 :fill-pointer t)`,
	`(adjust-array (make-array 3 :fill-pointer 1 :initial-contents '(1 2 3)) 1)`,
	`(adjust-array (make-array 3 :adjustable t :initial-contents '(1 2 3)) 5 :initial-element 'z)`,
	`(adjust-array (make-array 3 :adjustable t :initial-contents '(1 2 3)) 1)`,
}

// deepNest yields a call nested deeply enough to run the pretty printer out
// of its indentation buffer at a narrow margin.
func deepNest(n int) string {
	s := "1"
	for i := 0; i < n; i++ {
		s = fmt.Sprintf("(let ((a-long-variable-name%d %s)) (cond ((< a-long-variable-name%d 0) 0) (t a-long-variable-name%d)))", i, s, i, i)
	}
	return s
}

// ------------------------------------------------------------------ def mode

func worldTrouble(x *fw.Ctx, c Case, which string, wr WorldResult) bool {
	switch {
	case wr.Broken != "":
		x.Fail("harness-world", "world %s could not be run: %s", which, wr.Broken)
		return true
	case wr.Hung:
		x.Fail(sigOf(c, "hang-"+which), "the %s process did not finish within 45 s (tried twice); last completed step %d", which, len(wr.Resp.Outs))
		return true
	}
	return false
}

var formHead = regexp.MustCompile(`^\((?:ignore-errors \()?([a-z*-]+)[ )]`)

var usedBy = regexp.MustCompile(`Used By: .*? (Variables|Classes):`)

func probeOut(src string, o Out) string {
	if o.Err != nil {
		return "error:" + errClass(o.Err)
	}
	if strings.HasPrefix(src, "(documentation ") || strings.HasPrefix(src, "(with-output-to-string (s) (describe") {
		// documentation is re-flowed by the printer and by describe
		v := flat(o.Val)
		if strings.Contains(src, "(describe (find-package") {
			// the users of a package are listed in the order they were defined
			v = usedBy.ReplaceAllStringFunc(v, func(m string) string {
				names := strings.Fields(m)
				sort.Strings(names[2 : len(names)-1])
				return strings.Join(names, " ")
			})
		}
		return v
	}
	return o.Val
}

func execDef(x *fw.Ctx, c Case) {
	if len(c.Items) != 1 || len(c.Margins) == 0 {
		x.Fail("harness-case", "def case needs one item and a margin")
		return
	}
	it := c.Items[0]
	m := c.Margins[0]
	x.Cover("def:" + c.Kind)
	if 0 < it.Redef {
		x.CoverN("redefined:"+c.Kind, it.Redef)
	}
	if strings.HasPrefix(it.Info, "inherits:") {
		x.Cover("flavor-" + it.Info)
		if strings.Contains(strings.Join(it.Pre, " "), " '(") {
			x.Cover("flavor-component-with-list-default")
		}
	}
	if c.Feat != "" {
		x.Cover("dirty:" + c.Feat)
	} else {
		x.Cover("def-clean")
		x.Cover("avoided:all-avoid-set-constructs")
	}
	x.Cover(fmt.Sprintf("margin:%d-%d", m/20*20, m/20*20+19))
	dir := caseDir(x)
	defer os.RemoveAll(dir)
	obs := map[string]any{"forms": it.Forms}
	x.Observe(obs)

	// world A: the original
	var a Req
	for _, f := range it.Pre {
		a.Steps = append(a.Steps, Step{Op: "eval", Src: f})
	}
	for _, f := range it.Forms {
		a.Steps = append(a.Steps, Step{Op: "eval", Src: f})
	}
	nsetup := len(a.Steps)
	switch {
	case it.Bind:
		a.Steps = append(a.Steps, Step{Op: "eval", Src: "(defparameter *c19-obj* " + it.Obj + ")"})
		nsetup++
		a.Steps = append(a.Steps, Step{Op: "loadform", Src: "*c19-obj*", Margin: m})
	case c.Kind == "generic":
		a.Steps = append(a.Steps, Step{Op: "funcform", Src: it.Name, Margin: m})
	default:
		a.Steps = append(a.Steps, Step{Op: "loadform", Src: it.Obj, Margin: m})
	}
	if it.Info != "" && c.Kind == "package" {
		a.Steps = append(a.Steps, Step{Op: "pkginfo", Src: it.Info})
	}
	nprobe0 := len(a.Steps)
	for _, p := range it.Probes {
		a.Steps = append(a.Steps, Step{Op: "eval", Src: p})
	}
	wa := runWorld(dir, &a)
	if worldTrouble(x, c, "original", wa) {
		return
	}
	outs := wa.Resp.Outs
	for i := 0; i < nsetup && i < len(outs); i++ {
		if outs[i].Err != nil {
			obs["src_error"] = a.Steps[i].Src + " => " + outs[i].Err.String()
			x.Cover("constructor-rejected")
			x.Cover("constructor-rejected:" + c.Kind)
			x.Trivial()
			return
		}
	}
	if wa.Fatal != "" {
		x.Fail(sigOf(c, "fatal-original"), "the process died while defining %v / taking its load form (step %d): %s", it.Forms, len(outs), wa.Fatal)
		return
	}
	lf := outs[nsetup]
	if lf.Err != nil {
		fail := "loadform-error"
		if strings.HasPrefix(lf.Err.Msg, "pretty printer:") {
			fail = "pp-error"
		}
		if lf.Err.Class == "harness" {
			x.Fail("harness-def", "%s", lf.Err)
			return
		}
		if fail == "pp-error" {
			ppFailure(x, c, strings.Join(it.Forms, " "), m, lf.Err)
			return
		}
		x.Fail(sigOf(c, fail), "%v: %s", it.Forms, lf.Err)
		return
	}
	text := lf.Text
	obs["text"] = clip(text, 800)

	// world B: a fresh process evaluates the text
	var b Req
	for _, f := range it.Pre {
		b.Steps = append(b.Steps, Step{Op: "eval", Src: f})
	}
	npre := len(b.Steps)
	if it.Bind {
		b.Steps = append(b.Steps, Step{Op: "eval", Src: "(defparameter *c19-obj* " + text + ")"})
	} else {
		b.Steps = append(b.Steps, Step{Op: "eval", Src: text})
	}
	if it.Info != "" && c.Kind == "package" {
		b.Steps = append(b.Steps, Step{Op: "pkginfo", Src: it.Info})
	}
	nprobe1 := len(b.Steps)
	for _, p := range it.Probes {
		b.Steps = append(b.Steps, Step{Op: "eval", Src: p})
	}
	wb := runWorld(dir, &b)
	if worldTrouble(x, c, "reload", wb) {
		return
	}
	bouts := wb.Resp.Outs
	if wb.Fatal != "" {
		x.Fail(sigOf(c, "fatal-reload"), "%v: the fresh process died at step %d while evaluating the load form text or probing it: %s\n%s",
			it.Forms, len(bouts), wb.Fatal, clip(text, 600))
		return
	}
	if e := bouts[npre].Err; e != nil {
		x.Fail(sigOf(c, "reload-error"), "%v: load form text (margin %d) cannot be evaluated in a fresh process: %s\n%s", it.Forms, m, e, clip(text, 600))
		return
	}
	if nprobe1-npre == 2 {
		ia, ib := outs[nprobe0-1], bouts[nprobe1-1]
		if ia.Val != ib.Val {
			x.Fail(sigOf(c, "structure"), "%v: package structure differs after reload: original %s, rebuilt %s\n%s", it.Forms, ia.Val, ib.Val, clip(text, 600))
			return
		}
		x.Cover("structure-equal")
	}
	var pa, pb []string
	for k := range it.Probes {
		pa = append(pa, probeOut(it.Probes[k], outs[nprobe0+k]))
		pb = append(pb, probeOut(it.Probes[k], bouts[nprobe1+k]))
	}
	obs["probes_original"] = pa
	for k := range pa {
		if strings.HasPrefix(pa[k], "error:") {
			x.Cover("probe-error-in-original:" + c.Kind)
		} else {
			x.Cover("probe-value-in-original:" + c.Kind)
		}
		if pa[k] != pb[k] {
			x.Fail(sigOf(c, "behaviour"), "%v: probe %s gives %s in the original world and %s after reloading the load form text (margin %d)\n%s",
				it.Forms, it.Probes[k], clip(pa[k], 300), clip(pb[k], 300), m, clip(text, 600))
			return
		}
	}
	x.CoverN("behaviour-equal", len(pa))
	x.Cover("def-round-trips")
}

// -------------------------------------------------------------- session mode

func stripHeader(s string) string {
	if strings.HasPrefix(s, ";;;;") {
		if i := strings.IndexByte(s, '\n'); 0 <= i {
			return s[i+1:]
		}
	}
	return s
}

// topForms splits snapshot text into its top level forms (blank-line and
// column-0 paren structure of the pretty printer).
func topForms(s string) []string {
	var out []string
	var cur []string
	for _, line := range strings.Split(s, "\n") {
		if strings.HasPrefix(line, "(") && 0 < len(cur) {
			out = append(out, strings.Join(cur, "\n"))
			cur = nil
		}
		if line == "" {
			continue
		}
		cur = append(cur, line)
	}
	if 0 < len(cur) {
		out = append(out, strings.Join(cur, "\n"))
	}
	return out
}

func itemOfText(c Case, text string) string {
	best := ""
	bestLen := 0
	for _, it := range c.Items {
		if it.Name != "" && strings.Contains(text, it.Name) && bestLen < len(it.Name) {
			best, bestLen = it.Kind, len(it.Name)
		}
	}
	if best == "" {
		return "-"
	}
	return best
}

func execSession(x *fw.Ctx, c Case) {
	if len(c.Margins) == 0 {
		x.Fail("harness-case", "session case needs a margin")
		return
	}
	m := c.Margins[0]
	x.Cover("session")
	if c.Feat != "" {
		x.Cover("dirty:" + c.Feat)
	} else {
		x.Cover("session-clean")
		x.Cover("avoided:all-avoid-set-constructs")
	}
	x.Cover(fmt.Sprintf("margin:%d-%d", m/20*20, m/20*20+19))
	dir := caseDir(x)
	defer os.RemoveAll(dir)
	// In a session that carries an avoid-set construct, a failure of the whole
	// round trip or of the item carrying the construct is attributed to the
	// construct; a failure of any other item names that item.
	feat := c.Feat
	if feat == "" {
		feat = "-"
	}
	sig := func(fail, item string) string {
		if item == "-" || item == "" {
			return fmt.Sprintf("session feat=%s fail=%s", feat, fail)
		}
		if c.Feat != "" {
			// an item that does not carry the session's construct fails
			return fmt.Sprintf("session-other feat=%s fail=%s item=%s", feat, fail, item)
		}
		return fmt.Sprintf("session feat=%s fail=%s item=%s", feat, fail, item)
	}
	dirtyKind := func(kind string) string {
		// the kind of an item for the signature: "-" if it is (one of) the
		// item(s) carrying the session's construct
		for _, it := range c.Items {
			if it.Feat != "" && it.Feat == c.Feat && it.Kind == kind {
				return "-"
			}
		}
		if kind == "flavor" && (c.Feat == "multi-flavor" || c.Feat == "flavor-parent") {
			return "-"
		}
		return kind
	}
	obs := map[string]any{}
	x.Observe(obs)

	type pref struct{ item, k int }
	var a Req
	var formItem []int
	for i, it := range c.Items {
		for _, f := range it.Forms {
			a.Steps = append(a.Steps, Step{Op: "eval", Src: f})
			formItem = append(formItem, i)
		}
	}
	nforms := len(a.Steps)
	s1 := dir + "/s1.lisp"
	s2 := dir + "/s2.lisp"
	bind := ""
	if k := m + 2*len(c.Items); k%4 == 1 {
		// the user saves from inside a binding of printer variables
		binds := []string{"(*print-base* 16)", "(*print-radix* t)", "(*print-length* 2)", "(*print-level* 1)", "(*print-escape* nil)",
			"(*print-readably* nil)", "(*print-case* :upcase)", "(*print-base* 2) (*print-radix* t)", "(*print-array* nil)", "(*print-pretty* nil)"}
		bind = binds[k/4%len(binds)]
	}
	a.Steps = append(a.Steps, Step{Op: "snapshot", Margin: m, Path: s1, Again: (m+len(c.Items))%3 == 0, Bind: bind})
	var probes []pref
	for i, it := range c.Items {
		for k, p := range it.Probes {
			a.Steps = append(a.Steps, Step{Op: "eval", Src: p})
			probes = append(probes, pref{i, k})
		}
	}
	wa := runWorld(dir, &a)
	if worldTrouble(x, c, "original", wa) {
		return
	}
	outs := wa.Resp.Outs
	rejected := map[int]bool{}
	for i := 0; i < nforms && i < len(outs); i++ {
		if outs[i].Err != nil {
			rejected[formItem[i]] = true
			x.Cover("item-rejected:" + c.Items[formItem[i]].Kind)
			obs["rejected"] = a.Steps[i].Src + " => " + outs[i].Err.String()
		}
	}
	if len(outs) <= nforms {
		// died or stopped before the snapshot was reached
		if len(outs) < nforms {
			x.Fail(sig("fatal-building", dirtyKind(c.Items[formItem[len(outs)]].Kind)), "the process died while evaluating %s: %s", a.Steps[len(outs)].Src, wa.Fatal)
			return
		}
		x.Fail(sig("fatal-snapshot", "-"), "the process died while taking the snapshot of the session: %s", wa.Fatal)
		return
	}
	for i, it := range c.Items {
		if !rejected[i] {
			x.Cover("item:" + it.Kind)
			if strings.HasPrefix(it.Info, "failed:") || strings.HasPrefix(it.Info, "removed:") {
				x.Cover(it.Info)
			}
			for _, f := range it.Forms {
				// the defining operators of the session, as the quantifier lists them
				if m := formHead.FindStringSubmatch(f); m != nil {
					x.Cover("form:" + m[1])
				}
			}
			if 0 < it.Redef {
				x.CoverN("redefined:"+it.Kind, it.Redef)
			}
			if strings.HasPrefix(it.Info, "inherits:") {
				x.Cover("flavor-" + it.Info)
				if strings.Contains(strings.Join(it.Pre, " "), " '(") {
					x.Cover("flavor-component-with-list-default")
				}
			}
		}
	}
	if len(rejected) == len(c.Items) {
		x.Trivial()
		return
	}
	snap := outs[nforms]
	if snap.Err != nil {
		if snap.Err.Internal && strings.Contains(snap.Err.Msg, "slice bounds out of range") && strings.Contains(snap.Err.Msg, "with length 257") {
			ppFailure(x, c, "snapshot of a session", m, snap.Err)
			return
		}
		x.Fail(sig("snapshot-error", "-"), "snapshot of the session fails: %s", snap.Err)
		return
	}
	t1 := stripHeader(snap.Text)
	obs["snapshot_bytes"] = len(t1)
	x.CoverN("snapshot-bytes", len(t1))
	if wa.Fatal != "" {
		x.Fail(sig("fatal-probing", "-"), "the original process died while being probed (step %d): %s", len(outs), wa.Fatal)
		return
	}

	// world B: fresh process, load, snapshot again, probe
	var b Req
	b.Steps = append(b.Steps, Step{Op: "load", Path: s1}, Step{Op: "snapshot", Margin: m, Path: s2})
	for _, p := range probes {
		b.Steps = append(b.Steps, Step{Op: "eval", Src: c.Items[p.item].Probes[p.k]})
	}
	wb := runWorld(dir, &b)
	if worldTrouble(x, c, "reload", wb) {
		return
	}
	bouts := wb.Resp.Outs
	if len(bouts) == 0 {
		x.Fail(sig("fatal-load", "-"), "the fresh process died while loading the snapshot: %s", wb.Fatal)
		return
	}
	if e := bouts[0].Err; e != nil {
		x.Fail(sig("load-error", "-"), "the snapshot cannot be loaded into a fresh process: %s\nsnapshot (user part):\n%s", e, clip(userPart(t1), 1500))
		return
	}
	x.Cover("snapshot-loaded")
	if len(bouts) == 1 {
		x.Fail(sig("fatal-second-snapshot", "-"), "the fresh process died while taking the second snapshot: %s", wb.Fatal)
		return
	}
	if e := bouts[1].Err; e != nil {
		x.Fail(sig("second-snapshot-error", "-"), "the second snapshot fails: %s", e)
		return
	}
	t2 := stripHeader(bouts[1].Text)
	if t1 != t2 {
		f1, f2 := topForms(t1), topForms(t2)
		k := 0
		for k < len(f1) && k < len(f2) && f1[k] == f2[k] {
			k++
		}
		var d1, d2 string
		if k < len(f1) {
			d1 = f1[k]
		}
		if k < len(f2) {
			d2 = f2[k]
		}
		item := itemOfText(c, d1)
		if item == "-" {
			item = itemOfText(c, d2)
		}
		x.Fail(sig("not-fixed-point", dirtyKind(item)), "the snapshot of the reloaded session differs from the snapshot it was loaded from (margin %d); first differing form\nfirst:\n%s\nsecond:\n%s",
			m, clip(d1, 600), clip(d2, 600))
		return
	}
	x.Cover("snapshot-fixed-point")
	if wb.Fatal != "" {
		x.Fail(sig("fatal-probing-reload", "-"), "the fresh process died while being probed (step %d): %s", len(bouts), wb.Fatal)
		return
	}
	nprobeA := nforms + 1
	same := 0
	for k, p := range probes {
		if rejected[p.item] {
			continue
		}
		src := c.Items[p.item].Probes[p.k]
		pa, pb := probeOut(src, outs[nprobeA+k]), probeOut(src, bouts[2+k])
		if strings.HasPrefix(pa, "error:") {
			x.Cover("probe-error-in-original:" + c.Items[p.item].Kind)
		} else {
			x.Cover("probe-value-in-original:" + c.Items[p.item].Kind)
		}
		if c.Items[p.item].Kind == "var" && src == c.Items[p.item].Name {
			vectorShapes(pa, func(k string) { x.Cover("var-" + k) })
		}
		if pa != pb {
			it := c.Items[p.item]
			ik := it.Kind
			if it.Feat != "" && it.Feat == c.Feat {
				ik = "-"
			}
			x.Fail(sig("behaviour", ik), "%s gives %s in the session and %s in the fresh process that loaded its snapshot (margin %d); definition %v",
				it.Probes[p.k], clip(pa, 300), clip(pb, 300), m, it.Forms)
			return
		}
		same++
	}
	x.CoverN("behaviour-equal", same)
	x.Cover("session-round-trips")
}

// userPart drops the setq lines of the standard variables from a snapshot
// (for messages only).
func userPart(s string) string {
	var keep []string
	for _, f := range topForms(s) {
		if strings.HasPrefix(f, "(setq common-lisp::") || strings.HasPrefix(f, "(setq bag::") || strings.HasPrefix(f, "(setq net::") {
			continue
		}
		keep = append(keep, f)
	}
	return strings.Join(keep, "\n")
}
