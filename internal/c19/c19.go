// Package c19 monitors load forms and snapshots: an object's pretty printed
// load form, read and evaluated again, must rebuild an equal object; a
// snapshot of a session loaded into a fresh process must restore the same
// definitions and reproduce its own text.
package c19

import (
	"fmt"
	"math/rand/v2"
	"os"
	"path/filepath"
	"regexp"
	"strings"

	"github.com/ohler55/slip"

	"verif/internal/fw"
	"verif/internal/sl"
)

// Case is one monitored round trip.
type Case struct {
	Mode    string `json:"mode"`           // value | code | def | session
	Kind    string `json:"kind"`           // what is round-tripped
	Feat    string `json:"feat,omitempty"` // the avoid-set construct the case carries on purpose ("" = clean)
	Margins []int  `json:"margins"`

	// value, code
	Src    string   `json:"src,omitempty"`
	Name   string   `json:"name,omitempty"`
	Probes []string `json:"probes,omitempty"`
	// code: earlier definitions of the same name, evaluated before Src (the
	// load form has to be that of the last definition)
	Prior []string `json:"prior,omitempty"`

	// def, session
	Items []Item `json:"items,omitempty"`
}

func pickMargin(r *rand.Rand) int {
	switch r.IntN(4) {
	case 0:
		return 20 + r.IntN(21)
	case 1:
		return 120
	}
	return 20 + r.IntN(101)
}

const (
	cycle = 20
)

func nCases(tier string) int {
	if tier == "thorough" {
		return len(fixedCases()) + cycle*3500
	}
	return len(fixedCases()) + cycle*350
}

func gen(r *rand.Rand, i int, tier string) Case {
	fixed := fixedCases()
	if i < len(fixed) {
		return fixed[i]
	}
	j := (i - len(fixed)) % cycle
	switch {
	case j < 10:
		return genValueCase(r)
	case j < 16:
		return genCodeCase(r, i)
	case j < 18:
		return genDefCase(r)
	}
	return genSessionCase(r)
}

func genValueCase(r *rand.Rand) Case {
	kind := fw.Pick(r, valueKinds)
	feat := ""
	if fs := valueFeats[kind]; 0 < len(fs) && r.IntN(6) == 0 {
		feat = fw.Pick(r, fs)
	}
	src := genValue(r, kind, feat)
	if kind == "list" && feat == "" && r.IntN(6) == 0 {
		// (a list's own load form asks every element for its load form; a
		// snapshot writes a list as quoted data: avoid-set construct var-nested-attr)
		src = builtList(r)
	}
	return Case{Mode: "value", Kind: kind, Feat: feat, Src: src, Margins: []int{pickMargin(r), pickMargin(r)}}
}

// codeFeats are the avoid-set features of the code mode.
var codeFeats = []string{"string-body", "doc-escape", "doc-underscore", "case-keys", "function-form"}

func genCodeCase(r *rand.Rand, i int) Case {
	kind := fw.Pick(r, []string{"defun", "defun", "defun", "lambda", "lambda", "defmacro", "call", "call"})
	feat := ""
	if kind != "call" && r.IntN(8) == 0 {
		feat = fw.Pick(r, codeFeats)
	}
	return buildCodeCase(r, kind, feat, fmt.Sprint(i))
}

func buildCodeCase(r *rand.Rand, kind, feat, tag string) Case {
	c := Case{Mode: "code", Kind: kind, Feat: feat, Margins: []int{pickMargin(r), pickMargin(r)}}
	depth := 2 + r.IntN(3)
	// a documentation string long enough to be re-flowed by the printer is
	// compared modulo white space
	o := codeOpts{backquote: r.IntN(4) == 0, longDoc: r.IntN(8) == 0}
	switch {
	case feat == "string-body":
		o = codeOpts{stringBody: 2}
	case feat == "doc-escape":
		o = codeOpts{specialDoc: 1}
	case feat == "doc-underscore":
		o = codeOpts{specialDoc: 2}
	case feat == "function-form":
		o = codeOpts{fnForm: true}
		if kind == "defmacro" {
			kind = "defun"
			c.Kind = kind
		}
	case feat == "case-keys":
		o = codeOpts{caseKeys: true}
		if kind == "defmacro" {
			kind = "defun"
			c.Kind = kind
		}
	case kind != "call" && r.IntN(20) == 0:
		o = codeOpts{stringBody: 1}
	}
	switch kind {
	case "defun":
		c.Name = fmt.Sprintf("k%s-%s", tag, fw.Pick(r, []string{"f", "compute", "a-rather-long-function-name", "fn"}))
		for k, n := 0, []int{0, 0, 0, 1, 1, 2}[r.IntN(6)]; k < n; k++ {
			fd, _ := genFunction(r, c.Name, 1+r.IntN(2), codeOpts{})
			c.Prior = append(c.Prior, fd.Src)
		}
		fd, _ := genFunction(r, c.Name, depth, o)
		c.Src, c.Probes = fd.Src, fd.Probes
	case "lambda":
		fd, _ := genFunction(r, "", depth, o)
		c.Src, c.Probes = fd.Src, fd.Probes
	case "defmacro":
		c.Name = fmt.Sprintf("k%s-%s", tag, fw.Pick(r, []string{"m", "with-something", "mac"}))
		for k, n := 0, []int{0, 0, 0, 1, 1, 2}[r.IntN(6)]; k < n; k++ {
			c.Prior = append(c.Prior, genMacro(r, c.Name, codeOpts{}).Src)
		}
		fd := genMacro(r, c.Name, o)
		c.Src, c.Probes = fd.Src, fd.Probes
	default:
		g := newCG(r)
		g.bq = o.backquote
		switch r.IntN(3) {
		case 0:
			c.Src = g.Int(depth + 1)
		case 1:
			c.Src = g.List(depth + 1)
		default:
			c.Src = g.Result(depth)
		}
		if o.backquote && !g.bqUsed {
			c.Src = "(list " + c.Src + " `(1 ,(+ 1 2) ,@(list 3 4) 5))"
		}
		if !strings.HasPrefix(c.Src, "(") {
			c.Src = "(list " + c.Src + ")"
		}
	}
	return c
}

// ---------------------------------------------------------------- value mode

func sigOf(c Case, fail string) string {
	feat := c.Feat
	if feat == "" {
		feat = "-"
	}
	return fmt.Sprintf("%s feat=%s kind=%s fail=%s", c.Mode, feat, c.Kind, fail)
}

// ppFailure reports a pretty printer failure. Running out of the printer's
// 256-column indentation buffer is one defect whatever is being printed, so
// it has one signature for all modes and kinds.
func ppFailure(x *fw.Ctx, c Case, what string, m int, err *sl.Err) {
	if err.Internal && strings.Contains(err.Msg, "slice bounds out of range") && strings.Contains(err.Msg, "with length 257") {
		x.Fail("pp fail=indent-overflow", "%s: pretty printing at margin %d fails: %s", clip(what, 300), m, err)
		return
	}
	x.Fail(sigOf(c, "pp-error"), "%s: pretty printing the load form at margin %d fails: %s", clip(what, 300), m, err)
}

var wsRun = regexp.MustCompile(`(\\n|\\t|\s)+`)

// flat collapses white space (also in its escaped form inside a rendered
// string): documentation strings are compared modulo re-flowing.
func flat(s string) string { return wsRun.ReplaceAllString(s, " ") }

func errClass(e *sl.Err) string {
	if e == nil {
		return "ok"
	}
	if e.Internal {
		return "internal-fault"
	}
	return e.Class
}

var vecOpNames = []string{"vector-push", "vector-push-extend", "vector-pop", "adjust-array", "setf (fill-pointer", "setf (aref"}

func execValue(x *fw.Ctx, c Case) {
	x.Cover("value:" + c.Kind)
	if c.Feat != "" {
		x.Cover("dirty:" + c.Feat)
	} else {
		x.Cover("value-clean")
		x.Cover("avoided:all-avoid-set-constructs")
	}
	scope := slip.NewScope()
	obj, err := evalForms(scope, c.Src)
	obs := map[string]any{"src": c.Src}
	x.Observe(obs)
	if err != nil {
		// the constructor itself is not accepted: nothing to round-trip
		obs["src_error"] = err.String()
		x.Cover("constructor-rejected")
		x.Trivial()
		return
	}
	orig := deep(obj)
	obs["original"] = clip(orig, 300)
	vectorShapes(orig, func(k string) { x.Cover(k) })
	for _, op := range vecOpNames {
		if n := strings.Count(c.Src, "("+op+" "); 0 < n {
			x.CoverN("vector-op:"+op, n)
		}
	}
	// what slip's own accessors say about an array, before and after
	accessors := func(o slip.Object) string {
		switch o.(type) {
		case *slip.Vector, *slip.Array, *slip.BitVector:
		default:
			return ""
		}
		ps := slip.NewScope()
		ps.Let(slip.Symbol("c19-v"), o)
		res, err := evalForms(ps, arrayProbe)
		if err != nil {
			return "error:" + errClass(err)
		}
		return deep(res)
	}
	origAcc := accessors(obj)
	form, err := loadFormOf(obj)
	if err != nil {
		x.Fail(sigOf(c, "loadform-error"), "%s: LoadForm of %s fails: %s", c.Src, clip(orig, 200), err)
		return
	}
	obs["form"] = clip(sl.Show(form), 300)
	for _, m := range c.Margins {
		x.Cover(fmt.Sprintf("margin:%d-%d", m/20*20, m/20*20+19))
		text, err := ppText(form, m)
		if err != nil {
			ppFailure(x, c, c.Src, m, err)
			continue
		}
		obs["text"] = clip(text, 400)
		if 1 < strings.Count(strings.TrimRight(text, "\n"), "\n")+1 {
			x.Cover("multi-line-text")
		}
		rs := slip.NewScope()
		var back slip.Object
		var nforms int
		err = sl.Catch(func() {
			code := slip.ReadString(text, rs)
			nforms = len(code)
			for _, f := range code {
				back = rs.Eval(f, 0)
			}
		})
		if err != nil {
			x.Fail(sigOf(c, "reload-error"), "%s: load form text at margin %d\n%s\ncannot be read and evaluated: %s", c.Src, m, clip(text, 400), err)
			return
		}
		if nforms != 1 {
			x.Fail(sigOf(c, "form-count"), "%s: load form text at margin %d reads as %d forms:\n%s", c.Src, m, nforms, clip(text, 400))
			return
		}
		got := deep(back)
		if got != orig {
			x.Fail(sigOf(c, "not-equal"), "%s: original %s, rebuilt from load form text (margin %d) %s\ntext: %s", c.Src, clip(orig, 300), m, clip(got, 300), clip(text, 300))
			return
		}
		if origAcc != "" {
			if gotAcc := accessors(back); gotAcc != origAcc {
				x.Fail(sigOf(c, "accessors"), "%s: (fill-pointer-p fill-pointer dimensions adjustable element-type rank contents) of the original %s, of the object rebuilt from the load form text (margin %d) %s\ntext: %s",
					c.Src, clip(origAcc, 300), m, clip(gotAcc, 300), clip(text, 300))
				return
			}
			x.Cover("array-accessors-equal")
		}
		x.Cover("value-round-trips")
	}
}

// ---------------------------------------------------------------- code mode

// firstDiff walks two read structures and names the head symbol of the
// innermost list in which they differ.
func firstDiff(a, b slip.Object, head string) (string, string, string, bool) {
	a, b = unfunk(a), unfunk(b)
	la, oka := a.(slip.List)
	lb, okb := b.(slip.List)
	if oka && okb {
		h := head
		if 0 < len(la) {
			if s, ok := la[0].(slip.Symbol); ok {
				h = strings.ToLower(string(s))
			}
		}
		if len(la) != len(lb) {
			return h, showForm(a), showForm(b), true
		}
		for i := range la {
			if hh, sa, sb, diff := firstDiff(la[i], lb[i], h); diff {
				return hh, sa, sb, true
			}
		}
		return "", "", "", false
	}
	sa, sb := showForm(a), showForm(b)
	if sa != sb {
		return head, sa, sb, true
	}
	return "", "", "", false
}

// unfunk turns the function objects the reader builds on its own (quote,
// backquote, comma ...) back into the list they were read from.
func unfunk(obj slip.Object) slip.Object {
	if f, ok := obj.(slip.Funky); ok {
		l := slip.List{slip.Symbol(f.GetName())}
		return append(l, f.GetArgs()...)
	}
	return obj
}

// showForm renders read structure with function objects unfolded.
func showForm(obj slip.Object) string {
	obj = unfunk(obj)
	if l, ok := obj.(slip.List); ok && 0 < len(l) {
		parts := make([]string, len(l))
		for i, e := range l {
			if t, ok := e.(slip.Tail); ok {
				parts[i] = ". " + showForm(t.Value)
				continue
			}
			parts[i] = showForm(e)
		}
		return "(" + strings.Join(parts, " ") + ")"
	}
	return sl.Show(obj)
}

func readOne(src string) (obj slip.Object, n int, err *sl.Err) {
	err = sl.Catch(func() {
		code := slip.ReadString(src, slip.NewScope())
		n = len(code)
		if 0 < n {
			obj = code[0]
		}
	})
	return
}

// probeAll evaluates the probes of a function-like object and renders the
// outcomes.
func probeAll(scope *slip.Scope, c Case) []string {
	var outs []string
	run := func(src string) {
		res, err := evalForms(scope, src)
		if err != nil {
			outs = append(outs, "error:"+errClass(err))
			return
		}
		outs = append(outs, deepAll(res))
	}
	switch c.Kind {
	case "call":
		// nothing: the call's own value is compared
	case "lambda":
		for _, p := range c.Probes {
			run("(funcall c19-fn " + p + ")")
		}
	case "defmacro":
		for _, p := range c.Probes {
			run("(" + c.Name + " " + p + ")")
		}
	default:
		for _, p := range c.Probes {
			run("(" + c.Name + " " + p + ")")
		}
		run("(documentation '" + c.Name + " 'function)")
		outs[len(outs)-1] = flat(outs[len(outs)-1])
	}
	return outs
}

func execCode(x *fw.Ctx, c Case) {
	x.Cover("code:" + c.Kind)
	if c.Feat != "" {
		x.Cover("dirty:" + c.Feat)
	} else {
		x.Cover("code-clean")
		x.Cover("avoided:all-avoid-set-constructs")
	}
	obs := map[string]any{"src": c.Src}
	x.Observe(obs)
	scope := slip.NewScope()
	sigH := func(fail, head string) string {
		if head == "" {
			return sigOf(c, fail)
		}
		return sigOf(c, fail) + " head=" + head
	}
	// the original
	var (
		obj   slip.Object
		value string
	)
	srcRead, _, rerr := readOne(c.Src)
	if rerr != nil {
		x.Cover("constructor-rejected")
		x.Trivial()
		obs["src_error"] = rerr.String()
		return
	}
	countHeads(x, srcRead)
	switch c.Kind {
	case "call":
		res, err := evalForms(scope, c.Src)
		if err != nil {
			value = "error:" + errClass(err)
		} else {
			value = deepAll(res)
		}
		if err := sl.Catch(func() {
			code := slip.ReadString(c.Src, scope)
			code.Compile()
			obj = code[0]
		}); err != nil {
			x.Cover("constructor-rejected")
			x.Trivial()
			obs["src_error"] = err.String()
			return
		}
	case "lambda":
		res, err := evalForms(scope, c.Src)
		if err != nil {
			x.Cover("constructor-rejected")
			x.Trivial()
			obs["src_error"] = err.String()
			return
		}
		obj = res
		scope.Let(slip.Symbol("c19-fn"), obj)
	default:
		for _, prior := range c.Prior {
			if _, err := evalForms(scope, prior); err != nil {
				x.Cover("constructor-rejected")
				x.Trivial()
				obs["src_error"] = err.String()
				return
			}
			x.Cover("redefined:" + c.Kind)
		}
		if _, err := evalForms(scope, c.Src); err != nil {
			x.Cover("constructor-rejected")
			x.Trivial()
			obs["src_error"] = err.String()
			return
		}
		fi := slip.FindFunc(c.Name)
		if fi == nil {
			x.Fail(sigH("not-defined", ""), "%s: the function is not defined after evaluating its definition", c.Src)
			return
		}
		obj = fi
	}
	before := probeAll(scope, c)
	obs["probes_original"] = before
	form, err := loadFormOf(obj)
	if err != nil {
		x.Fail(sigH("loadform-error", ""), "%s: LoadForm fails: %s", c.Src, err)
		return
	}
	for _, m := range c.Margins {
		x.Cover(fmt.Sprintf("margin:%d-%d", m/20*20, m/20*20+19))
		text, err := ppText(form, m)
		if err != nil {
			ppFailure(x, c, c.Src, m, err)
			continue
		}
		obs["text"] = clip(text, 600)
		// structure: the text must read as the definition that was given
		back, n, err := readOne(text)
		if err != nil {
			x.Fail(sigH("reread-error", ""), "%s: text at margin %d cannot be read: %s\n%s", c.Src, m, err, clip(text, 600))
			return
		}
		if n != 1 {
			x.Fail(sigH("form-count", ""), "%s: text at margin %d reads as %d forms\n%s", c.Src, m, n, clip(text, 600))
			return
		}
		if head, sa, sb, diff := firstDiff(flatDoc(c.Kind, srcRead), flatDoc(c.Kind, back), ""); diff {
			x.Fail(sigH("structure", head), "%s: text at margin %d reads differently inside a %s form: given %s, re-read %s\n%s",
				c.Src, m, head, clip(sa, 200), clip(sb, 200), clip(text, 600))
			return
		}
		x.Cover("structure-equal")
		if lam, ok := obj.(*slip.Lambda); ok {
			// snapshot hands a variable's lambda value to the printer as the
			// object itself (pp.Append builds the node from the Lambda, not
			// from its load form): that text must read the same too
			otext, err := ppText(lam, m)
			if err != nil {
				ppFailure(x, c, c.Src, m, err)
				continue
			}
			oback, n, err := readOne(otext)
			if err != nil || n != 1 {
				x.Fail(sigH("reread-error", ""), "%s: the lambda object printed at margin %d cannot be read as one form: %v\n%s", c.Src, m, err, clip(otext, 600))
				return
			}
			// (the printer leaves a lambda object's documentation string out;
			// nothing in the property makes that observable, so it is not compared)
			if head, sa, sb, diff := firstDiff(dropDoc(srcRead), dropDoc(oback), ""); diff {
				x.Fail(sigH("structure", head), "%s: the lambda object printed at margin %d reads differently inside a %s form: given %s, re-read %s\n%s",
					c.Src, m, head, clip(sa, 200), clip(sb, 200), clip(otext, 600))
				return
			}
			x.Cover("lambda-object-structure-equal")
		}
		// behaviour: evaluate the text in a fresh scope and probe again
		rs := slip.NewScope()
		res, err := evalForms(rs, text)
		if err != nil && c.Kind == "call" && value == "error:"+errClass(err) {
			// the call fails in the same way before and after
			x.Cover("behaviour-equal")
			continue
		}
		if err != nil {
			x.Fail(sigH("reload-error", ""), "%s: text at margin %d cannot be evaluated: %s\n%s", c.Src, m, err, clip(text, 600))
			return
		}
		var obj2 slip.Object
		switch c.Kind {
		case "call":
			if got := deepAll(res); got != value {
				x.Fail(sigH("behaviour", ""), "%s => %s, its reloaded load form => %s\n%s", c.Src, value, got, clip(text, 600))
				return
			}
			x.Cover("behaviour-equal")
			continue
		case "lambda":
			obj2 = res
			rs.Let(slip.Symbol("c19-fn"), res)
		default:
			if fi := slip.FindFunc(c.Name); fi != nil {
				obj2 = fi
			}
		}
		after := probeAll(rs, c)
		for k := range before {
			if k < len(after) && before[k] != after[k] {
				x.Fail(sigH("behaviour", ""), "%s: probe %d gives %s on the original and %s on the reloaded definition\n%s",
					c.Src, k, clip(before[k], 200), clip(after[k], 200), clip(text, 600))
				return
			}
		}
		x.CoverN("behaviour-equal", len(before))
		// Whether the reloaded object prints the same text again is observed
		// only: the property asks for a fixed point of snapshots (judged in
		// session mode), not of single load forms; re-flowed documentation
		// strings make the two texts differ.
		if obj2 != nil {
			if form2, err := loadFormOf(obj2); err == nil {
				if text2, err := ppText(form2, m); err == nil && text2 != text {
					x.Cover("load-form-text-changes-on-second-print")
				} else {
					x.Cover("load-form-text-fixed-point")
				}
			}
		}
	}
}

// flatDoc returns the definition with the white space of its documentation
// string collapsed (the pretty printer re-flows documentation).
func flatDoc(kind string, obj slip.Object) slip.Object {
	l, ok := obj.(slip.List)
	pos := 3
	if kind == "lambda" {
		pos = 2
	}
	if !ok || kind == "call" || len(l) <= pos+1 {
		return obj
	}
	if doc, ok := l[pos].(slip.String); ok {
		l2 := append(slip.List{}, l...)
		l2[pos] = slip.String(strings.TrimSpace(flat(string(doc))))
		return l2
	}
	return obj
}

// layoutHeads are the head symbols with a pretty printer layout of their own
// (pp/append.go buildCall) plus the other special forms the generator uses.
var layoutHeads = map[string]bool{
	"quote": true, "let": true, "let*": true, "lambda": true, "defun": true, "defmacro": true, "cond": true, "progn": true,
	"block": true, "dotimes": true, "dolist": true, "do": true, "do*": true, "dovector": true, "with-input-from-string": true,
	"with-output-to-string": true, "with-standard-io-syntax": true, "backquote": true, "case": true, "typecase": true,
	"if": true, "when": true, "unless": true, "tagbody": true, "multiple-value-bind": true, "prog1": true, "setq": true,
	"return-from": true, "funcall": true, "apply": true, "mapcar": true, "and": true, "or": true, "incf": true, "push": true,
}

// dropDoc removes the documentation string of a lambda expression.
func dropDoc(obj slip.Object) slip.Object {
	l, ok := obj.(slip.List)
	if !ok || len(l) < 4 {
		return obj
	}
	if _, ok := l[2].(slip.String); ok {
		l2 := append(slip.List{}, l[:2]...)
		return append(l2, l[3:]...)
	}
	return obj
}

func countHeads(x *fw.Ctx, obj slip.Object) {
	l, ok := unfunk(obj).(slip.List)
	if !ok || len(l) == 0 {
		return
	}
	if s, ok := l[0].(slip.Symbol); ok && layoutHeads[strings.ToLower(string(s))] {
		x.Cover("head:" + strings.ToLower(string(s)))
	}
	for _, e := range l {
		countHeads(x, e)
	}
}

// ------------------------------------------------------------------ dispatch

func caseDir(x *fw.Ctx) string {
	base := os.Getenv("VERIF_WORKDIR")
	if base == "" {
		base = os.TempDir()
	}
	dir := filepath.Join(base, fmt.Sprintf("c19-%d-%d", os.Getpid(), x.Index))
	if x.Index < 0 {
		dir = filepath.Join(base, fmt.Sprintf("c19-%d-w%d", os.Getpid(), -x.Index))
	}
	_ = os.MkdirAll(dir, 0o755)
	return dir
}

func exec(x *fw.Ctx, c Case) {
	defer sl.Reset()
	switch c.Mode {
	case "value":
		execValue(x, c)
	case "code":
		execCode(x, c)
	case "def":
		execDef(x, c)
	case "session":
		execSession(x, c)
	default:
		x.Fail("harness-mode", "unknown mode %q", c.Mode)
	}
}

func init() {
	fw.Register(fw.Spec[Case]{
		ID: "C19",
		Rule: "a fixed, seed-independent block of ~140 cases (hand-written examples of every load-formable kind, redefinition histories, three-level " +
			"flavor chains, instances whose variables were set to nil and other empty values; for every avoid-set construct 3-4 generated cases, the " +
			"first of them holding nothing but the construct), then seeded cases in the ratio 10 data objects (number, string, symbol, character, list, " +
			"vector, array, hash table) : 6 code objects (defun, defmacro, lambda, compiled call, from a typed generator of pure code that reaches every " +
			"pretty-printer layout) : 2 definitions (package with a use graph, flavor, flavor instance, class, class instance, generic function with " +
			"before/after/around methods; reloaded from their load form text in a fresh process) : 2 sessions (5-25 defvar/defparameter/defconstant/" +
			"defun/defmacro/defflavor(+instance whose variables are changed after creation)/defgeneric+defmethod/defpackage/setq-of-a-standard-variable " +
			"items -> snapshot -> fresh process -> load -> snapshot -> probes: values through the harness renderer, calls on probe arguments, describe " +
			"output, class precedence, which-operations), each at margins drawn from 20..120; distinct = distinct case JSON; non-trivial = slip " +
			"accepted the original definition. Flavors come in inheritance chains of up to three levels whose children re-declare inherited variables " +
			"with an ancestor's or a new default. Functions, macros, variables, flavors, classes and generic methods are redefined 0-2 times before " +
			"their load form or the snapshot is taken: what is saved has to be the last definition. About one case in eight carries exactly one avoid-set " +
			"construct (feat=...; counters dirty:<construct>), all others avoid all of them: plain symbols at top level, quotes inside quoted lists, " +
			"long floats with inexact decimal digits, slot accessors in class load forms, unbound slots with an initform, a child flavor re-declaring " +
			"a component's variable with the same default, list defaults in a component flavor, classes in sessions, variables and functions of user " +
			"packages in sessions, closures over let bindings. Repaired constructs (backquote templates, wrapped documentation, deep indentation, " +
			"symbols in lists, empty vectors, array attributes, quoted flavor defaults, flavor methods/daemons/whoppers, several unrelated flavors, " +
			"package exports and use graphs, undefined callees, a failed send before the snapshot) are generated in the clean stream",
		N:        nCases,
		Gen:      gen,
		Exec:     exec,
		Batch:    250,
		HangSecs: 300,
		Assumptions: []string{
			"the reader is trusted to read the printed text (checked by C02/C03); structure is compared through the harness's own renderer",
			"behavioural equality is judged on a finite set of probe calls per definition",
		},
	})
}
