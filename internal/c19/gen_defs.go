package c19

import (
	"fmt"
	"math/rand/v2"
	"strings"

	"verif/internal/fw"
)

// Item is one definition of a session (or the single target of a def case).
type Item struct {
	Kind   string   `json:"kind"`
	Feat   string   `json:"feat,omitempty"`
	Name   string   `json:"name,omitempty"`
	Forms  []string `json:"forms"`
	Probes []string `json:"probes,omitempty"`
	// def mode
	Obj  string   `json:"obj,omitempty"`  // expression yielding the object whose load form is taken
	Bind bool     `json:"bind,omitempty"` // the reloaded value is bound to *c19-obj* for the probes
	Pre  []string `json:"pre,omitempty"`  // what the fresh world needs before the reload
	Info string   `json:"info,omitempty"` // package name for the Go-level structure probe
	// Redef counts how often the item is defined again before the snapshot
	Redef int `json:"redef,omitempty"`
}

// sctx is the state of one generated session.
type sctx struct {
	r            *rand.Rand
	n            int
	feat         string   // the one avoid-set construct this session carries ("" = none)
	used         bool     // the feature has been placed
	flavors      []string // names defined so far (their defining forms are in defs)
	defs         map[string][]string
	funs         []string
	session      bool   // the items are part of a session (def mode otherwise)
	needInitform bool   // the first slot of the next class has an initform
	plain        bool   // no quoted-data or computed defaults (the item's instances are load-formed)
	redefining   bool   // the item being built replaces an earlier definition of the same name
	final        bool   // the item being built is the last version of its name
	override     string // the name the next item has to take (redefinition)
	capture      bool   // remember the next generated name
	captured     string
	pkgs         []string // user packages defined so far
	fl           map[string]*flInfo
	last         string // the most derived flavor of the session's chain
	placed       string // feature placed by a helper on the item being built
	nflavor      int
}

func newSctx(r *rand.Rand, feat string) *sctx {
	return &sctx{r: r, feat: feat, final: true, defs: map[string][]string{}, fl: map[string]*flInfo{}}
}

var nameWords = []string{"alpha", "beta", "gamma", "delta", "omega", "x", "tmp", "counter", "a-quite-long-descriptive-name", "zz"}

func (s *sctx) name(prefix string) string {
	if s.override != "" {
		// a redefinition: the item's own name is the one already in use
		n := s.override
		s.override = ""
		s.n++
		return n
	}
	s.n++
	n := fmt.Sprintf("%s%s%d", prefix, fw.Pick(s.r, nameWords), s.n)
	if s.capture {
		s.captured, s.capture = n, false
	}
	return n
}

// redefined builds an item and then defines it again, times more times,
// under the same name with whatever the generator draws next (another lambda
// list, documentation, body, variable set ...). All versions are evaluated in
// order before the snapshot; the probes are those of the last version: the
// restored world has to behave like the last definitions.
func (s *sctx) redefined(times int, build func() Item) Item {
	s.capture = true
	prevLast, prevN := s.last, s.nflavor
	s.final = times == 0
	it := build()
	s.capture = false
	inner := s.captured
	for k := 0; k < times && inner != ""; k++ {
		s.override = inner
		s.redefining = true
		s.final = k == times-1
		s.last, s.nflavor = prevLast, prevN
		nx := build()
		s.override = ""
		s.redefining = false
		it.Forms = append(it.Forms, nx.Forms...)
		it.Probes, it.Obj, it.Info, it.Bind = nx.Probes, nx.Obj, nx.Info, nx.Bind
		if it.Feat == "" {
			it.Feat = nx.Feat
		}
		it.Redef++
	}
	s.final = true
	if fi := s.fl[it.Name]; fi != nil && it.Feat != "" {
		fi.capable = false
	}
	return it
}

// times draws how often an item is redefined: mostly never.
func (s *sctx) times() int {
	switch s.r.IntN(8) {
	case 0:
		return 2
	case 1, 2:
		return 1
	}
	return 0
}

// want tells whether this item is to carry the session's feature.
func (s *sctx) want(feat string) bool {
	if s.feat == feat && !s.used {
		s.used = true
		return true
	}
	return false
}

// docFeats are the avoid-set constructs of documentation strings.
var docFeats = []string{"doc-escape", "doc-underscore"}

func docOpt(r *rand.Rand) string {
	if r.IntN(3) != 0 {
		return ""
	}
	return fw.Pick(r, shortDocs)
}

// doc yields an optional short documentation string, or a long one that
// wraps when this item is to carry the doc-wraps feature.
func (s *sctx) doc() string {
	for k, feat := range docFeats {
		if s.want(feat) {
			s.placed = feat
			return specialDoc(s.r, k+1)
		}
	}
	if s.r.IntN(10) == 0 {
		// long enough to be re-flowed at a narrow margin
		return longDoc(s.r)
	}
	return docOpt(s.r)
}

// cleanVarValue yields (kind, source) of a value a snapshot is expected to
// carry: it is what genValue calls clean.
func cleanVarValue(r *rand.Rand) (string, string) {
	kind := fw.Pick(r, []string{"number", "number", "string", "string", "symbol", "character", "list", "list", "vector", "array", "hash-table"})
	return kind, genValue(r, kind, "")
}

func (s *sctx) varItem() Item {
	r := s.r
	name := "*" + s.name("v-") + "*"
	head := fw.Pick(r, []string{"defvar", "defparameter"})
	if s.redefining {
		// defvar would leave the value alone
		head = "defparameter"
	}
	kind, val := cleanVarValue(r)
	it := Item{Kind: "var", Name: name}
	switch {
	case s.want("var-closure"):
		// a lambda that closes over a let binding
		val, kind = fmt.Sprintf("(let ((n %d) (tag \"c\")) (lambda (x) (list tag (+ x n))))", r.IntN(20)), "lambda"
		it.Feat = "var-closure"
		it.Probes = append(it.Probes, fmt.Sprintf("(funcall %s 1)", name), fmt.Sprintf("(funcall %s -4)", name))
	case r.IntN(12) == 0:
		// a symbol as a value (snapshot has to quote it)
		val, kind = "'"+fw.Pick(r, symNames), "symbol"
	case s.want("var-long-float"):
		val, kind = genValue(r, "number", "long-float-digits"), "number"
		it.Feat = "var-long-float"
	case s.want("var-nested-attr"):
		// a container holding an object with attributes a literal cannot show
		kind = fw.Pick(r, []string{"list", "vector", "array", "hash-table"})
		if val = builtList(r); kind != "list" {
			val = genValue(r, kind, "nested-attr")
		}
		it.Feat = "var-nested-attr"
	case s.want("var-quote-value"):
		// the value is the reader's quote object
		val, kind = "''"+fw.Pick(r, symNames), "quote"
		if r.IntN(3) == 0 {
			val = "'(1 '" + fw.Pick(r, symNames) + ")"
		}
		it.Feat = "var-quote-value"
	case s.want("var-vector-grown"):
		val, kind = vecHistory(r, vecOpts{grown: true}), "vector"
		it.Feat = "var-vector-grown"
	case s.want("var-not-adjustable"):
		val, kind = vecHistory(r, vecOpts{notAdj: true}), "vector"
		it.Feat = "var-not-adjustable"
	case r.IntN(16) == 0:
		// the empty values
		val = fw.Pick(r, []string{"nil", "t", "0", `""`, "'()", ":k"})
		kind = "atom"
	case r.IntN(20) == 0:
		val, kind = "#()", "vector"
	case s.want("var-lambda"):
		fd, _ := genFunction(r, "", 2, codeOpts{})
		val, kind = fd.Src, "lambda"
		for _, p := range fd.Probes {
			it.Probes = append(it.Probes, fmt.Sprintf("(funcall %s %s)", name, p))
		}
	}
	doc := s.doc()
	if s.placed != "" {
		it.Feat, s.placed = s.placed, ""
	}
	if doc != "" {
		it.Forms = []string{fmt.Sprintf("(%s %s %s %s)", head, name, val, litString(doc))}
		it.Probes = append(it.Probes, fmt.Sprintf("(documentation '%s 'variable)", name))
	} else {
		it.Forms = []string{fmt.Sprintf("(%s %s %s)", head, name, val)}
	}
	if kind != "lambda" {
		it.Probes = append(it.Probes, name)
	}
	if kind == "vector" || kind == "array" {
		it.Probes = append(it.Probes, arrayProbes(name)...)
	}
	if r.IntN(4) == 0 && kind == "number" {
		// the value a session leaves behind need not be the initial one
		it.Forms = append(it.Forms, fmt.Sprintf("(setq %s (+ %s 1))", name, name))
	}
	return it
}

// arrayProbes ask slip's own accessors about the array held by a variable,
// then use it: an element is pushed (the outcome tells a full vector, a
// vector with room and a vector without a fill pointer apart).
func arrayProbes(name string) []string {
	return []string{
		"(let ((c19-v " + name + ")) " + arrayProbe + ")",
		"(vector-push 'zz " + name + ")",
		"(length " + name + ")",
	}
}

// vectorVarItem is a variable holding the vector that src yields.
func vectorVarItem(name, src string) Item {
	return Item{Kind: "var", Name: name, Forms: []string{fmt.Sprintf("(defvar %s %s)", name, src)},
		Probes: append([]string{name}, arrayProbes(name)...)}
}

func (s *sctx) constItem() Item {
	r := s.r
	name := "+" + s.name("c-") + "+"
	val := fw.Pick(r, []func() string{
		func() string { return fmt.Sprint(r.IntN(1000)) },
		func() string { return fw.Pick(r, numLits) },
		func() string { return litString(genString(r)) },
		func() string { return fw.Pick(r, kwNames) },
	})()
	it := Item{Kind: "const", Name: name}
	switch r.IntN(10) {
	case 0:
		val = fw.Pick(r, []string{"'(1 2 3)", "'(a \"b\" :c)", "'((1 . 2) (3 4))"})
	case 1:
		val = "'" + fw.Pick(r, symNames)
	}
	if doc := s.doc(); doc != "" {
		if s.placed != "" {
			it.Feat, s.placed = s.placed, ""
		}
		it.Forms = []string{fmt.Sprintf("(defconstant %s %s %s)", name, val, litString(doc))}
		it.Probes = append(it.Probes, fmt.Sprintf("(documentation '%s 'variable)", name))
	} else {
		it.Forms = []string{fmt.Sprintf("(defconstant %s %s)", name, val)}
	}
	it.Probes = append(it.Probes, name)
	return it
}

func (s *sctx) funItem() Item {
	r := s.r
	name := s.name("fn-")
	o := codeOpts{backquote: r.IntN(5) == 0, longDoc: r.IntN(10) == 0}
	feat := ""
	switch {
	case s.want("fun-string-body"):
		o, feat = codeOpts{stringBody: 2}, "fun-string-body"
	case s.want("doc-escape"):
		o, feat = codeOpts{specialDoc: 1}, "doc-escape"
	case s.want("doc-underscore"):
		o, feat = codeOpts{specialDoc: 2}, "doc-underscore"
	case s.want("fun-case-keys"):
		o, feat = codeOpts{caseKeys: true}, "fun-case-keys"
	case s.want("fun-function-form"):
		o, feat = codeOpts{fnForm: true}, "fun-function-form"
	case r.IntN(25) == 0:
		o = codeOpts{stringBody: 1}
	}
	fd, _ := genFunction(r, name, 2+r.IntN(2), o)
	it := Item{Kind: "fun", Name: name, Feat: feat, Forms: []string{fd.Src}}
	for _, p := range fd.Probes {
		it.Probes = append(it.Probes, fmt.Sprintf("(%s %s)", name, p))
	}
	it.Probes = append(it.Probes, fmt.Sprintf("(documentation '%s 'function)", name),
		fmt.Sprintf("(with-output-to-string (s) (describe '%s s))", name))
	switch {
	case s.want("fun-closure"):
		// a function defined inside a let keeps the binding alive
		it.Feat = "fun-closure"
		it.Forms = []string{fmt.Sprintf("(let ((counter %d)) (defun %s (p0) (setq counter (+ counter p0)) counter))", r.IntN(9), name)}
		it.Probes = []string{fmt.Sprintf("(list (%s 1) (%s 2))", name, name)}
	case r.IntN(15) == 0:
		// a function whose callee is not defined (yet) when the snapshot is taken
		it.Forms = []string{fmt.Sprintf("(defun %s (p0) (%s p0))", name, s.name("not-yet-"))}
		it.Probes = []string{fmt.Sprintf("(documentation '%s 'function)", name)}
	case r.IntN(10) == 0:
		// mutual recursion: the first function is defined before its callee
		later := s.name("later-")
		it.Forms = []string{
			fmt.Sprintf("(defun %s (p0) (if (< p0 1) 0 (%s (- p0 1))))", name, later),
			fmt.Sprintf("(defun %s (p0) (+ 1 (%s p0)))", later, name),
		}
		it.Probes = []string{fmt.Sprintf("(%s 3)", name), fmt.Sprintf("(%s 0)", later)}
	}
	s.funs = append(s.funs, name)
	return it
}

func (s *sctx) macroItem() Item {
	name := s.name("mac-")
	o := codeOpts{backquote: s.r.IntN(2) == 0, longDoc: s.r.IntN(10) == 0}
	feat := ""
	for k, f := range docFeats {
		if s.want(f) {
			o, feat = codeOpts{specialDoc: k + 1}, f
		}
	}
	fd := genMacro(s.r, name, o)
	it := Item{Kind: "macro", Name: name, Feat: feat, Forms: []string{fd.Src}}
	for _, p := range fd.Probes {
		it.Probes = append(it.Probes, fmt.Sprintf("(%s %s)", name, p))
	}
	it.Probes = append(it.Probes, fmt.Sprintf("(with-output-to-string (s) (describe '%s s))", name))
	return it
}

const (
	nFailed  = 9
	nRemoved = 5
)

// failedItem is a definition followed by an operation on it that fails (the
// condition is handled): what the failed operation left behind must not
// reach the snapshot, the world is the one before it.
func (s *sctx) failedItem(k int) Item {
	r := s.r
	n := s.name("k-")
	it := Item{Kind: "failed", Name: n}
	if k < 0 {
		k = r.IntN(nFailed)
	}
	it.Info = fmt.Sprint("failed:", k)
	switch k {
	case 0:
		v := "*" + n + "*"
		it.Name = v
		it.Forms = []string{fmt.Sprintf("(defvar %s %d)", v, r.IntN(50)), fmt.Sprintf("(ignore-errors (setq %s (car 3)))", v)}
		it.Probes = []string{v}
	case 1:
		v := "*" + n + "*"
		it.Name = v
		it.Forms = []string{fmt.Sprintf("(ignore-errors (defvar %s (car 3)))", v)}
		it.Probes = []string{fmt.Sprintf("(boundp '%s)", v), v}
	case 2:
		it.Forms = []string{fmt.Sprintf("(defun %s (a) (+ a %d))", n, r.IntN(9)), fmt.Sprintf("(ignore-errors (defun %s \"not a lambda list\" 1))", n)}
		it.Probes = []string{fmt.Sprintf("(%s 1)", n), fmt.Sprintf("(documentation '%s 'function)", n)}
	case 3:
		c := "+" + n + "+"
		it.Name = c
		it.Forms = []string{fmt.Sprintf("(defconstant %s %d)", c, r.IntN(50)), fmt.Sprintf("(ignore-errors (defconstant %s :other))", c), fmt.Sprintf("(ignore-errors (setq %s 99))", c)}
		it.Probes = []string{c}
	case 4:
		it.Forms = []string{fmt.Sprintf("(defflavor %s ((a %d)) () :gettable-instance-variables)", n, r.IntN(50)),
			fmt.Sprintf("(ignore-errors (defflavor %s ((b 2)) () :settable-instance-variables))", n)}
		it.Probes = []string{fmt.Sprintf("(send (make-instance '%s) :a)", n), fmt.Sprintf("(send (make-instance '%s) :b)", n)}
	case 5:
		it.Forms = []string{fmt.Sprintf("(ignore-errors (defflavor %s ((a 1)) (no-such-component-%s)))", n, n)}
		it.Probes = []string{fmt.Sprintf("(slot-value (make-instance '%s) 'a)", n)}
	case 6:
		// a generic function cannot take the name of an ordinary function, and
		// a call without an applicable method fails
		g := n + "-gf"
		it.Forms = []string{fmt.Sprintf("(defun %s (a) (list 'plain a))", n), fmt.Sprintf("(ignore-errors (defgeneric %s (x)))", n),
			fmt.Sprintf("(ignore-errors (defmethod %s ((x fixnum)) (list 'fix x)))", n),
			fmt.Sprintf("(defgeneric %s (x))", g), fmt.Sprintf("(defmethod %s ((x fixnum)) (list 'fix x))", g), fmt.Sprintf("(ignore-errors (%s \"no method\"))", g)}
		it.Probes = []string{fmt.Sprintf("(%s 3)", n), fmt.Sprintf("(%s 3)", g), fmt.Sprintf("(%s \"s\")", g)}
	case 7:
		v := "*" + n + "*"
		it.Forms = []string{fmt.Sprintf("(defflavor %s ((a %d) (b nil)) () :gettable-instance-variables :settable-instance-variables)", n, r.IntN(50)),
			fmt.Sprintf("(defvar %s (make-instance '%s))", v, n),
			fmt.Sprintf("(ignore-errors (setf (slot-value %s 'no-such-slot) 1))", v),
			fmt.Sprintf("(ignore-errors (send %s :set-b (car 3)))", v),
			fmt.Sprintf("(ignore-errors (send %s :set-a))", v)}
		it.Probes = []string{fmt.Sprintf("(list (send %s :a) (send %s :b))", v, v), fmt.Sprintf("(slot-value %s 'no-such-slot)", v)}
	default:
		v := "*" + n + "*"
		it.Name = v
		it.Forms = []string{fmt.Sprintf("(defvar %s %d)", v, r.IntN(50)), "(ignore-errors (load \"/no/such/file.lisp\"))",
			fmt.Sprintf("(ignore-errors (let ((%s 5)) (car %s)))", v, v)}
		it.Probes = []string{v}
	}
	return it
}

// removedItem is a definition that is taken back before the snapshot: it
// must not come back with the reload.
func (s *sctx) removedItem(k int) Item {
	r := s.r
	n := s.name("gone-")
	it := Item{Kind: "removed", Name: n}
	if k < 0 {
		// (a removed flavor is the avoid-set construct flavor-removed)
		if k = fw.Pick(r, []int{0, 1, 3, 4}); s.want("flavor-removed") {
			k = 2
			it.Feat = "flavor-removed"
		}
	}
	it.Info = fmt.Sprint("removed:", k)
	switch k {
	case 0:
		it.Forms = []string{fmt.Sprintf("(defun %s (a) (list a %d))", n, r.IntN(9)), fmt.Sprintf("(fmakunbound '%s)", n)}
		it.Probes = []string{fmt.Sprintf("(fboundp '%s)", n), fmt.Sprintf("(%s 1)", n)}
	case 1:
		v := "*" + n + "*"
		it.Name = v
		it.Forms = []string{fmt.Sprintf("(defvar %s %d \"helper\")", v, r.IntN(50)), fmt.Sprintf("(makunbound '%s)", v)}
		it.Probes = []string{fmt.Sprintf("(boundp '%s)", v), v}
	case 2:
		it.Forms = []string{fmt.Sprintf("(defflavor %s ((a 1)) () :gettable-instance-variables)", n), fmt.Sprintf("(undefflavor '%s)", n)}
		it.Probes = []string{fmt.Sprintf("(send (make-instance '%s) :a)", n), fmt.Sprintf("(boundp '%s)", n), fmt.Sprintf("(null (find-flavor '%s))", n)}
	case 3:
		it.Forms = []string{fmt.Sprintf("(defmacro %s (a) (list 'list a a))", n), fmt.Sprintf("(fmakunbound '%s)", n)}
		it.Probes = []string{fmt.Sprintf("(fboundp '%s)", n), fmt.Sprintf("(%s 1)", n)}
	default:
		// defined, removed and defined again in another way
		it.Forms = []string{fmt.Sprintf("(defun %s (a) \"first\" (list a 1))", n), fmt.Sprintf("(fmakunbound '%s)", n), fmt.Sprintf("(defun %s (a b) (list b a))", n)}
		it.Probes = []string{fmt.Sprintf("(%s 1 2)", n), fmt.Sprintf("(documentation '%s 'function)", n)}
	}
	return it
}

// refVarItem is a variable whose value is a definition of the session reached
// by a second route: the package or the flavor object itself.
func (s *sctx) refVarItem() (Item, bool) {
	r := s.r
	var expr, what string
	switch {
	case 0 < len(s.pkgs) && r.IntN(2) == 0:
		what = fw.Pick(r, s.pkgs)
		expr = fmt.Sprintf("(find-package '%s)", what)
	case 0 < len(s.flavors):
		what = fw.Pick(r, s.flavors)
		expr = fmt.Sprintf("(find-flavor '%s)", what)
	default:
		return Item{}, false
	}
	v := "*" + s.name("ref-") + "*"
	it := Item{Kind: "refvar", Name: v, Forms: []string{fmt.Sprintf("(defvar %s %s)", v, expr)}}
	if strings.HasPrefix(expr, "(find-package") {
		it.Probes = []string{fmt.Sprintf("(package-name %s)", v), fmt.Sprintf("(eq %s %s)", v, expr)}
	} else {
		it.Probes = []string{fmt.Sprintf("(flavor-name %s)", v), fmt.Sprintf("(eq %s %s)", v, expr)}
	}
	return it, true
}

// clvarItem changes one of the standard variables, as a session may. The
// reader variables are left alone: they would change how the rest of the
// generated session is read (C02's concern).
func (s *sctx) clvarItem() Item {
	r := s.r
	c := fw.Pick(r, []struct{ name, val string }{
		{"*print-right-margin*", fmt.Sprint(40 + r.IntN(60))},
		{"*print-base*", fw.Pick(r, []string{"16", "2", "8"})},
		{"*print-radix*", "t"},
		{"*print-length*", "5"},
		{"*print-level*", "3"},
		{"*print-escape*", "nil"},
		{"*print-readably*", "t"},
		{"*print-array*", "t"},
		{"*print-case*", ":upcase"},
		{"*print-pretty*", "nil"},
		{"*gensym-counter*", fmt.Sprint(1000 + r.IntN(1000))},
	})
	it := Item{Kind: "clvar", Name: c.name, Forms: []string{fmt.Sprintf("(setq %s %s)", c.name, c.val)}, Probes: []string{c.name}}
	return it
}

// interestingValue yields a value an instance variable or slot is changed
// to: the empty ones first of all (a variable set to nil is not the same as
// a variable left at a non-nil default).
func interestingValue(r *rand.Rand, def string) string {
	switch r.IntN(9) {
	case 0, 1, 2:
		return "nil"
	case 3:
		return "t"
	case 4:
		return "0"
	case 5:
		return `""`
	case 6:
		if def != "" {
			return def
		}
	case 7:
		if r.IntN(3) == 0 {
			// the result of operations on a vector
			return vecHistory(r, vecOpts{})
		}
	}
	return genAtom(r)
}

// literalValue is interestingValue without the values a literal cannot show
// (an instance's own load form writes slot values as literal data: avoid-set
// construct instance-slot-attr).
func literalValue(r *rand.Rand) string {
	for {
		if v := interestingValue(r, ""); !strings.HasPrefix(v, "(let ((v (make-array") {
			return v
		}
	}
}

// ----- flavors

type fvar struct {
	name string
	def  string // default source, "" = none
}

// flInfo is what later flavors of a session need to know about an earlier one.
type flInfo struct {
	vars    []fvar              // effective instance variables, inherited ones first
	hist    map[string][]string // every default a variable had along the chain
	capable bool                // every variable gettable, settable and inittable, nothing abstract: may be a parent in the clean stream
	depth   int
}

// flavorItem defines a flavor. role "" = free choice, "capable" = fit to be
// a parent in the clean stream, "hidden-parent" = a parent with a variable
// that has no accessor (the avoid-set construct flavor-parent needs it).
//
// Inheritance in the clean stream: ancestors have every variable gettable,
// settable and inittable (a child's load form says :gettable-instance-variables
// for "all of mine", which on reload also covers inherited variables); a session
// holds at most one chain, so that the order of the flavors in a snapshot is
// determined. Children re-declare inherited variables with the default of
// any ancestor or a new one.
func (s *sctx) flavorItem(withInstance bool, role string) Item {
	r := s.r
	redefining := s.redefining
	name := s.name("fl-")
	it := Item{Kind: "flavor", Name: name}
	if !s.final {
		withInstance = false
	}
	info := &flInfo{hist: map[string][]string{}}
	var parent *flInfo
	var parents []string
	dirtyParent := false
	included := ""
	if p := s.fl[s.last]; p != nil && role != "hidden-parent" {
		switch {
		case !p.capable && s.want("flavor-parent"):
			it.Feat = "flavor-parent"
			dirtyParent = true
			parent = p
		case p.capable && p.depth < 3:
			parent = p
		}
		if parent != nil {
			parents = []string{s.last}
			if !dirtyParent && r.IntN(4) == 0 {
				// the same flavor as an included flavor instead of a component:
				// its variables and methods come in after the components'
				parents = nil
				included = s.last
			}
			it.Pre = append(it.Pre, s.defs[s.last]...)
			info.depth = parent.depth
			for k, v := range parent.hist {
				info.hist[k] = append([]string{}, v...)
			}
		}
	}
	info.depth++
	genDef := func() string {
		switch r.IntN(5) {
		case 0:
			if r.IntN(4) == 0 {
				// an explicit default that is empty
				return fw.Pick(r, []string{"nil", "0", `""`})
			}
			return ""
		case 1:
			return litString(fw.Pick(r, words))
		case 2:
			return fw.Pick(r, kwNames)
		}
		return fmt.Sprint(r.IntN(100))
	}
	var vars []fvar // declared by this flavor
	if parent != nil {
		for _, pv := range parent.vars {
			if r.IntN(3) != 0 || dirtyParent {
				continue
			}
			// re-declare with the default of some ancestor or a new one
			v := fvar{name: pv.name, def: genDef()}
			if h := info.hist[pv.name]; 0 < len(h) && r.IntN(3) != 0 {
				v.def = fw.Pick(r, h)
			}
			vars = append(vars, v)
		}
	}
	nv := 1 + r.IntN(4)
	for i := 0; i < nv; i++ {
		vars = append(vars, fvar{name: fmt.Sprintf("%s%d", fw.Pick(r, []string{"size", "w", "label", "count", "val"}), s.n*10+i), def: genDef()})
	}
	if dirtyParent {
		// re-declare the parent's hidden variable with the parent's default:
		// the load form takes it for inherited and drops it with its getter
		vars = append([]fvar{{name: parent.vars[0].name, def: parent.vars[0].def}}, vars...)
	}
	if role == "hidden-parent" {
		vars = []fvar{{name: fmt.Sprintf("hid%d", s.n), def: "7"}, {name: fmt.Sprintf("shown%d", s.n), def: "8"}}
	}
	switch {
	case r.IntN(8) == 0 && (role == "" || role == "capable"):
		vars[len(vars)-1].def = fw.Pick(r, []string{"'(1 2)", "'sym", "'(a b)"})
	case r.IntN(8) == 0 && !s.plain && role == "":
		vars[len(vars)-1].def = "(+ 1 2)"
	}
	var vs []string
	for _, v := range vars {
		if v.def == "" {
			vs = append(vs, v.name)
		} else {
			vs = append(vs, fmt.Sprintf("(%s %s)", v.name, v.def))
		}
	}
	// effective variables
	if parent != nil {
		for _, pv := range parent.vars {
			ev := pv
			for _, v := range vars {
				if v.name == pv.name {
					ev = v
				}
			}
			info.vars = append(info.vars, ev)
		}
	}
	for _, v := range vars {
		found := false
		for _, ev := range info.vars {
			if ev.name == v.name {
				found = true
			}
		}
		if !found {
			info.vars = append(info.vars, v)
		}
		if v.def != "" && v.def[0] != '(' {
			info.hist[v.name] = append(info.hist[v.name], v.def)
		}
	}
	// options
	var opts []string
	names := func(set []fvar) string {
		ns := make([]string, len(set))
		for i, v := range set {
			ns[i] = v.name
		}
		return strings.Join(ns, " ")
	}
	mode := func(opt string) []fvar {
		switch r.IntN(4) {
		case 0:
			return nil
		case 1:
			var sub []fvar
			for _, v := range vars {
				if r.IntN(2) == 0 {
					sub = append(sub, v)
				}
			}
			if len(sub) == 0 {
				return nil
			}
			opts = append(opts, fmt.Sprintf("(%s %s)", opt, names(sub)))
			return sub
		}
		opts = append(opts, opt)
		return vars
	}
	var settable []fvar
	switch {
	case role == "hidden-parent":
		opts = append(opts, fmt.Sprintf("(:gettable-instance-variables %s)", vars[1].name))
	case dirtyParent:
		// all of its own variables, by name: the load form abbreviates this
		// to the bare option, which on reload covers the inherited ones too
		opts = append(opts, fmt.Sprintf("(:gettable-instance-variables %s)", names(vars)))
	case role == "capable" || (role == "" && r.IntN(2) == 0):
		info.capable = true
		opts = append(opts, ":gettable-instance-variables", ":settable-instance-variables", ":inittable-instance-variables")
		settable = vars
	default:
		mode(":gettable-instance-variables")
		settable = mode(":settable-instance-variables")
	}
	inittable := vars
	switch {
	case info.capable:
	case parent != nil:
		// (inittable is not inherited, and a child's load form abbreviates
		// "all of my own" to the bare option, which on reload means all
		// effective variables: a child names none or all)
		// [the abbreviation is repaired for this option: a child also names exactly its own
		// variables, or some of them; the load form must then keep the list]
		switch inittable = nil; r.IntN(4) {
		case 0:
			inittable = info.vars
			opts = append(opts, ":inittable-instance-variables")
		case 1:
			inittable = vars
			opts = append(opts, fmt.Sprintf("(:inittable-instance-variables %s)", names(vars)))
		case 2:
			inittable = vars[:1]
			opts = append(opts, fmt.Sprintf("(:inittable-instance-variables %s)", names(vars[:1])))
		}
	default:
		inittable = mode(":inittable-instance-variables")
	}
	if included != "" {
		opts = append(opts, fmt.Sprintf("(:included-flavors %s)", included))
	}
	if parent != nil && !dirtyParent && included == "" && r.IntN(4) == 0 {
		// (the flavor has as many ancestors as its component then)
		opts = append(opts, ":no-vanilla-flavor")
	}
	aok := false
	doc := docOpt(r)
	s.nflavor++
	if doc != "" {
		opts = append(opts, fmt.Sprintf("(:documentation %s)", litString(doc)))
	}
	if 0 < len(inittable) && r.IntN(4) == 0 {
		// one to three keywords
		plist := ""
		for k, n := 0, min(len(inittable), 1+r.IntN(3)); k < n; k++ {
			plist += fmt.Sprintf(" (:%s %d)", inittable[k].name, r.IntN(50))
		}
		if r.IntN(3) == 0 {
			plist = " (:allow-other-keys t)" + plist
			aok = true
		}
		opts = append(opts, "(:default-init-plist"+plist+")")
	} else if r.IntN(8) == 0 {
		// nothing but the permission to pass unknown keywords
		opts = append(opts, "(:default-init-plist (:allow-other-keys t))")
		aok = true
	}
	switch {
	case withInstance || s.plain || info.capable || role != "" || dirtyParent:
	case r.IntN(12) == 0:
		opts = append(opts, ":abstract-flavor")
	case r.IntN(12) == 0:
		opts = append(opts, ":abstract-flavor", "(:required-methods :frob)", "(:required-instance-variables extra)")
	}
	def := fmt.Sprintf("(defflavor %s (%s) (%s)", name, strings.Join(vs, " "), strings.Join(parents, " "))
	if 0 < len(opts) {
		def += " " + strings.Join(opts, " ")
	}
	def += ")"
	it.Forms = []string{def}
	if redefining {
		// slip refuses to define a flavor that exists: it is removed first
		it.Forms = []string{fmt.Sprintf("(undefflavor '%s)", name), def}
	}
	it.Obj = fmt.Sprintf("(find-flavor '%s)", name)
	// probes
	args := ""
	for _, v := range inittable {
		if r.IntN(2) == 0 {
			args += fmt.Sprintf(" :%s %d", v.name, 100+r.IntN(100))
		}
	}
	mk := fmt.Sprintf("(make-instance '%s%s)", name, args)
	var gets []string
	for _, v := range info.vars {
		gets = append(gets, fmt.Sprintf("(slot-value i '%s)", v.name))
	}
	it.Probes = append(it.Probes, fmt.Sprintf("(let ((i %s)) (list %s))", mk, strings.Join(gets, " ")))
	it.Probes = append(it.Probes, fmt.Sprintf("(let ((i (make-instance '%s))) (list %s))", name, strings.Join(gets, " ")))
	if aok || r.IntN(6) == 0 {
		// a keyword no flavor of the chain knows: accepted or refused alike before and after
		it.Probes = append(it.Probes, fmt.Sprintf("(let ((i (make-instance '%s :c19-unknown-key 1))) (list %s))", name, strings.Join(gets, " ")))
	}
	isIn := func(set []fvar, v fvar) bool {
		for _, x := range set {
			if x.name == v.name {
				return true
			}
		}
		return false
	}
	for _, v := range info.vars {
		// a getter or setter that was not asked for must stay absent: the
		// error outcome is compared too
		it.Probes = append(it.Probes, fmt.Sprintf("(send %s :%s)", mk, v.name))
		if isIn(settable, v) || r.IntN(3) == 0 {
			it.Probes = append(it.Probes, fmt.Sprintf("(let ((i %s)) (send i :set-%s 77) (slot-value i '%s))", mk, v.name, v.name))
		}
		if !isIn(inittable, v) && r.IntN(2) == 0 {
			it.Probes = append(it.Probes, fmt.Sprintf("(slot-value (make-instance '%s :%s 5) '%s)", name, v.name, v.name))
		}
	}
	if doc != "" {
		it.Probes = append(it.Probes, fmt.Sprintf("(documentation '%s 'type)", name))
	}
	if parent != nil {
		it.Probes = append(it.Probes, fmt.Sprintf("(let ((i (make-instance '%s))) (send i :which-operations))", name))
		x := "inherits:" + fmt.Sprint(info.depth)
		it.Info = x
	}
	it.Probes = append(it.Probes, fmt.Sprintf("(with-output-to-string (s) (describe-flavor '%s s))", name))
	if s.session && r.IntN(3) == 0 && role != "hidden-parent" {
		// (a flavor's own load form does not hold its methods, a snapshot does)
		// a primary method with documentation and any of a :before daemon, an
		// :after daemon and a whopper; the daemons leave their mark in a variable
		msg := ":" + fw.Pick(r, []string{"total", "grow", "frob"})
		g := newCG(r)
		g.ints = []string{"p0"}
		mdoc := ""
		if r.IntN(2) == 0 {
			mdoc = litString(fw.Pick(r, shortDocs)) + " "
		}
		v0 := vars[0].name
		it.Forms = append(it.Forms, fmt.Sprintf("(defmethod (%s %s) (p0) %s(setq %s (list 'primary %s)) %s)", name, msg, mdoc, v0, v0, g.Result(2)))
		if r.IntN(2) == 0 {
			it.Forms = append(it.Forms, fmt.Sprintf("(defmethod (%s :before %s) (p0) (setq %s (list 'before p0)))", name, msg, v0))
		}
		if r.IntN(2) == 0 {
			it.Forms = append(it.Forms, fmt.Sprintf("(defmethod (%s :after %s) (p0) (setq %s (list 'after %s)))", name, msg, v0, v0))
		}
		if r.IntN(2) == 0 {
			it.Forms = append(it.Forms, fmt.Sprintf("(defwhopper (%s %s) (p0) (list 'whopper (continue-whopper (+ p0 1))))", name, msg))
		}
		if r.IntN(3) == 0 {
			// a second message with a method of its own
			it.Forms = append(it.Forms, fmt.Sprintf("(defmethod (%s :other) (p0 &optional (p1 2)) (list p0 p1 %s))", name, v0))
			it.Probes = append(it.Probes, fmt.Sprintf("(send %s :other 1)", mk))
		}
		it.Probes = append(it.Probes,
			fmt.Sprintf("(let ((i %s)) (list (send i %s 3) (slot-value i '%s)))", mk, msg, v0),
			fmt.Sprintf("(with-output-to-string (s) (describe-method '%s %s s))", name, msg))
	}
	if withInstance {
		iv := "*" + s.name("inst-") + "*"
		it.Forms = append(it.Forms, fmt.Sprintf("(defvar %s %s)", iv, mk))
		// the instance lives on after its creation: variables are changed to
		// nil, t, 0, "", back to the default, to something else
		for _, v := range info.vars {
			if r.IntN(2) == 0 {
				continue
			}
			val := interestingValue(r, v.def)
			if isIn(settable, v) && r.IntN(2) == 0 {
				it.Forms = append(it.Forms, fmt.Sprintf("(send %s :set-%s %s)", iv, v.name, val))
			} else {
				it.Forms = append(it.Forms, fmt.Sprintf("(setf (slot-value %s '%s) %s)", iv, v.name, val))
			}
		}
		if r.IntN(6) == 0 {
			// a message the instance does not handle (the error is not to leave a trace in the instance)
			it.Forms = append(it.Forms, fmt.Sprintf("(ignore-errors (send %s :no-such-message 1))", iv))
		}
		it.Probes = append(it.Probes, fmt.Sprintf("(list %s)", strings.ReplaceAll(strings.Join(gets, " "), "slot-value i ", "slot-value "+iv+" ")))
	}
	if it.Feat != "" {
		// a flavor carrying an avoid-set construct gets no children: their
		// failures would be the construct's
		info.capable = false
	}
	s.flavors = append(s.flavors, name)
	s.defs[name] = append(append([]string{}, it.Pre...), def)
	s.fl[name] = info
	s.last = name
	return it
}

// flavorInstanceItem (def mode): an instance whose slots hold values.
func (s *sctx) flavorInstanceItem() Item {
	r := s.r
	s.plain = true
	for k, n := 0, r.IntN(3); k < n; k++ {
		_ = s.flavorItem(false, "capable")
	}
	base := s.flavorItem(false, "")
	fl := base.Name
	it := Item{Kind: "flavor-instance", Name: fl, Bind: true, Pre: append(append([]string{}, base.Pre...), base.Forms[0])}
	it.Feat = base.Feat
	slotAttr := s.want("instance-slot-attr")
	// slot names are in the probes of the base; rebuild from the defflavor text is
	// fragile, so set slots through slot-value on names taken from the probe
	var slots []string
	for _, f := range strings.Split(base.Probes[0], "(slot-value i '")[1:] {
		slots = append(slots, f[:strings.IndexByte(f, ')')])
	}
	var b strings.Builder
	fmt.Fprintf(&b, "(let ((i (make-instance '%s)))", fl)
	for k, sn := range slots {
		if r.IntN(3) == 0 && !(k == 0 && slotAttr) {
			continue
		}
		val := literalValue(r)
		switch r.IntN(8) {
		case 0:
			val = vecLit(r, 1)
		case 1:
			val = fw.Pick(r, []string{"'(1 2)", "'sym", "'(a \"b\")", "'(k9 (nested list) . 3)"})
		}
		if k == 0 && slotAttr {
			// a value with attributes a literal cannot show
			val = attrObj(r)
		}
		fmt.Fprintf(&b, " (setf (slot-value i '%s) %s)", sn, val)
	}
	b.WriteString(" i)")
	it.Obj = b.String()
	var gets []string
	for _, sn := range slots {
		gets = append(gets, fmt.Sprintf("(slot-value *c19-obj* '%s)", sn))
	}
	it.Probes = []string{
		fmt.Sprintf("(list %s)", strings.Join(gets, " ")),
		"(flavor-name (send *c19-obj* :flavor))",
	}
	return it
}

// ----- classes

type cslot struct {
	name, initarg, initarg2, initform, reader, writer, accessor, typ, doc string
	classAlloc                                                            bool
}

func (s *sctx) classItem(parent *Item) Item {
	r := s.r
	name := s.name("cls-")
	it := Item{Kind: "class", Name: name}
	ns := 1 + r.IntN(4)
	var slots []cslot
	accFeat := s.want("class-accessor")
	for i := 0; i < ns; i++ {
		sl := cslot{name: fmt.Sprintf("%s%d", fw.Pick(r, []string{"slot", "w", "title", "n"}), s.n*10+i)}
		if r.IntN(3) != 0 {
			sl.initarg = ":" + sl.name
			if r.IntN(5) == 0 {
				sl.initarg2 = ":alt-" + sl.name
			}
		}
		switch r.IntN(5) {
		case 0:
		case 1:
			sl.initform = litString(fw.Pick(r, words))
		case 2:
			sl.initform = fw.Pick(r, kwNames)
		default:
			sl.initform = fmt.Sprint(r.IntN(100))
		}
		if r.IntN(5) == 0 {
			sl.doc = "slot " + fw.Pick(r, words[:10])
		}
		if r.IntN(6) == 0 && sl.initform != "" && sl.initform[0] != '"' && sl.initform[0] != ':' {
			sl.typ = "fixnum"
		}
		slots = append(slots, sl)
	}
	if s.needInitform && slots[0].initform == "" {
		slots[0].initform = "49"
	}
	if accFeat {
		it.Feat = "class-accessor"
		switch r.IntN(3) {
		case 0:
			slots[0].reader = name + "-" + slots[0].name
		case 1:
			slots[0].accessor = name + "-" + slots[0].name
		default:
			slots[0].writer = "set-" + name + "-" + slots[0].name
		}
	}
	switch r.IntN(8) {
	case 0:
		if !s.plain {
			slots[0].initform = fw.Pick(r, []string{"'(1 2)", "'sym", "(+ 1 2)"})
		}
	case 1:
		slots[0].classAlloc = true
	}
	var ss []string
	for _, sl := range slots {
		p := []string{sl.name}
		if sl.initarg != "" {
			p = append(p, ":initarg", sl.initarg)
		}
		if sl.initarg2 != "" {
			p = append(p, ":initarg", sl.initarg2)
		}
		if sl.initform != "" {
			p = append(p, ":initform", sl.initform)
		}
		if sl.reader != "" {
			p = append(p, ":reader", sl.reader)
		}
		if sl.writer != "" {
			p = append(p, ":writer", sl.writer)
		}
		if sl.accessor != "" {
			p = append(p, ":accessor", sl.accessor)
		}
		if sl.typ != "" {
			p = append(p, ":type", sl.typ)
		}
		if sl.doc != "" {
			p = append(p, ":documentation", litString(sl.doc))
		}
		if sl.classAlloc {
			p = append(p, ":allocation", ":class")
		}
		ss = append(ss, "("+strings.Join(p, " ")+")")
	}
	supers := ""
	if parent != nil {
		supers = parent.Name
		it.Pre = append(append([]string{}, parent.Pre...), parent.Forms[0])
	}
	def := fmt.Sprintf("(defclass %s (%s) (%s)", name, supers, strings.Join(ss, " "))
	doc := docOpt(r)
	if doc != "" {
		def += fmt.Sprintf(" (:documentation %s)", litString(doc))
	}
	if r.IntN(5) == 0 {
		for _, sl := range slots {
			if sl.initarg != "" {
				def += fmt.Sprintf(" (:default-initargs %s %d)", sl.initarg, r.IntN(50))
				break
			}
		}
	}
	def += ")"
	it.Forms = []string{def}
	it.Obj = fmt.Sprintf("(find-class '%s)", name)
	args := ""
	for _, sl := range slots {
		if sl.initarg != "" && r.IntN(2) == 0 {
			args += fmt.Sprintf(" %s %d", sl.initarg, 100+r.IntN(100))
		}
	}
	mk := fmt.Sprintf("(make-instance '%s%s)", name, args)
	slotProbe := func(inst string) string {
		var gets []string
		for _, sl := range slots {
			gets = append(gets, fmt.Sprintf("(if (slot-boundp %s '%s) (slot-value %s '%s) 'unbound)", inst, sl.name, inst, sl.name))
		}
		return "(list " + strings.Join(gets, " ") + ")"
	}
	it.Probes = []string{
		fmt.Sprintf("(let ((i %s)) %s)", mk, slotProbe("i")),
		fmt.Sprintf("(let ((i (make-instance '%s))) %s)", name, slotProbe("i")),
		fmt.Sprintf("(mapcar 'class-name (class-supers (find-class '%s)))", name),
		fmt.Sprintf("(class-precedence (find-class '%s))", name),
		fmt.Sprintf("(with-output-to-string (s) (describe '%s s))", name),
	}
	for _, sl := range slots {
		if sl.initarg2 != "" {
			it.Probes = append(it.Probes, fmt.Sprintf("(slot-value (make-instance '%s %s 77) '%s)", name, sl.initarg2, sl.name))
		}
	}
	if doc != "" {
		it.Probes = append(it.Probes, fmt.Sprintf("(documentation '%s 'type)", name))
	}
	for _, sl := range slots {
		if sl.reader != "" {
			it.Probes = append(it.Probes, fmt.Sprintf("(%s %s)", sl.reader, mk))
		}
		if sl.accessor != "" {
			it.Probes = append(it.Probes, fmt.Sprintf("(%s %s)", sl.accessor, mk), fmt.Sprintf("(let ((i %s)) (setf (%s i) 5) (slot-value i '%s))", mk, sl.accessor, sl.name))
		}
		if sl.writer != "" {
			it.Probes = append(it.Probes, fmt.Sprintf("(let ((i %s)) (%s i 5) (slot-value i '%s))", mk, sl.writer, sl.name))
		}
		if sl.initarg == "" {
			it.Probes = append(it.Probes, fmt.Sprintf("(make-instance '%s :%s 1)", name, sl.name))
		}
	}
	// stash for instance items
	it.Info = strings.Join(func() []string {
		var ns []string
		for _, sl := range slots {
			ns = append(ns, sl.name)
		}
		return ns
	}(), " ")
	return it
}

func (s *sctx) classInstanceItem() Item {
	r := s.r
	s.plain = true
	unbound := s.want("instance-slot-unbound")
	slotAttr := s.want("instance-slot-attr")
	s.needInitform = unbound
	base := s.classItem(nil)
	if unbound {
		base.Feat = "instance-slot-unbound"
	}
	it := Item{Kind: "class-instance", Name: base.Name, Bind: true, Feat: base.Feat, Pre: []string{base.Forms[0]}}
	slots := strings.Fields(base.Info)
	var b strings.Builder
	fmt.Fprintf(&b, "(let ((i (make-instance '%s)))", base.Name)
	for k, sn := range slots {
		if r.IntN(3) == 0 && !(k == 0 && slotAttr) {
			continue
		}
		val := literalValue(r)
		switch r.IntN(8) {
		case 0:
			val = vecLit(r, 1)
		case 1:
			val = fw.Pick(r, []string{"'(1 2)", "'sym", "'(a \"b\")", "'(k9 (nested list) . 3)"})
		}
		if k == 0 && slotAttr {
			val = attrObj(r)
		}
		if k == 0 && unbound {
			// a slot with an initform made unbound again
			fmt.Fprintf(&b, " (slot-makunbound i '%s)", sn)
			continue
		}
		fmt.Fprintf(&b, " (setf (slot-value i '%s) %s)", sn, val)
	}
	b.WriteString(" i)")
	it.Obj = b.String()
	var gets []string
	for _, sn := range slots {
		gets = append(gets, fmt.Sprintf("(if (slot-boundp *c19-obj* '%s) (slot-value *c19-obj* '%s) 'unbound)", sn, sn))
	}
	it.Probes = []string{
		"(list " + strings.Join(gets, " ") + ")",
		"(class-name (class-of *c19-obj*))",
	}
	return it
}

// ----- generic functions

var specTypes = []struct{ typ, arg, arg2 string }{
	{"fixnum", "7", "-2"},
	{"string", `"str"`, `""`},
	{"symbol", "'sym", "'other"},
	{"float", "1.5", "0.25"},
	{"list", "'(1 2)", "nil"},
}

func (s *sctx) genericItem() Item {
	r := s.r
	name := s.name("gf-")
	it := Item{Kind: "generic", Name: name}
	// qualified methods leave their mark in a variable (slip's princ cannot
	// be redirected by rebinding *standard-output*)
	tr := "*trace-" + name + "*"
	it.Pre = []string{fmt.Sprintf("(defvar %s nil)", tr)}
	it.Forms = append(it.Forms, it.Pre[0])
	nreq := 1 + r.IntN(2)
	params := []string{"p0", "p1"}[:nreq]
	opt := r.IntN(5) == 0
	ll := strings.Join(params, " ")
	if opt {
		ll += " &optional o0"
	}
	doc := docOpt(r)
	def := fmt.Sprintf("(defgeneric %s (%s)", name, ll)
	if doc != "" {
		def += fmt.Sprintf(" (:documentation %s)", litString(doc))
	}
	def += ")"
	if r.IntN(4) != 0 {
		it.Forms = append(it.Forms, def)
	}
	// one method may leave its last required parameter unspecialized
	unspec := r.IntN(4) == 0
	nm := 1 + r.IntN(4)
	seen := map[string]bool{}
	var primaries [][]int
	for k := 0; k < nm; k++ {
		spec := make([]int, nreq)
		var sp []string
		for i := range spec {
			spec[i] = r.IntN(len(specTypes))
			sp = append(sp, fmt.Sprintf("(%s %s)", params[i], specTypes[spec[i]].typ))
		}
		if unspec && k == 0 {
			sp[len(sp)-1] = params[len(sp)-1]
			spec[len(sp)-1] = -1
		}
		key := fmt.Sprint(spec)
		if seen[key] {
			continue
		}
		seen[key] = true
		primaries = append(primaries, spec)
		mll := strings.Join(sp, " ")
		if opt {
			mll += fmt.Sprintf(" &optional (o0 %d)", r.IntN(9))
		}
		g := newCG(r)
		for i, t := range spec {
			if 0 <= t && specTypes[t].typ == "fixnum" {
				g.ints = append(g.ints, params[i])
			}
		}
		body := fmt.Sprintf("(setq %s (cons 'm%d %s)) (list 'm%d %s %s)", tr, k, tr, k, strings.Join(params, " "), g.Int(2))
		mdoc := ""
		if r.IntN(5) == 0 {
			mdoc = litString("method "+fw.Pick(r, words[:10])) + " "
		}
		it.Forms = append(it.Forms, fmt.Sprintf("(defmethod %s (%s) %s%s)", name, mll, mdoc, body))
		if r.IntN(5) == 0 {
			// the same specializers again: the method is replaced
			g2 := newCG(r)
			g2.ints = g.ints
			body = fmt.Sprintf("(setq %s (cons 'r%d %s)) (list 'r%d %s %s)", tr, k, tr, k, g2.Int(2), strings.Join(params, " "))
			mdoc = ""
			if r.IntN(3) == 0 {
				mdoc = litString("again "+fw.Pick(r, words[:10])) + " "
			}
			it.Forms = append(it.Forms, fmt.Sprintf("(defmethod %s (%s) %s%s)", name, mll, mdoc, body))
			it.Redef++
		}
	}
	// qualified methods on the first primary's specializers: any of :before,
	// :after and (at most one, C10 knows a hang with two) :around
	if 0 < len(primaries) && r.IntN(2) == 0 && primaries[0][len(primaries[0])-1] != -1 {
		var sp []string
		// (a qualifier method names its parameters as it likes)
		qparams, qopt := params, "(o0 1)"
		if r.IntN(2) == 0 {
			qparams, qopt = []string{"q0", "q1"}[:nreq], "(oq 2)"
		}
		for i, t := range primaries[0] {
			sp = append(sp, fmt.Sprintf("(%s %s)", qparams[i], specTypes[t].typ))
		}
		mll := strings.Join(sp, " ")
		if opt {
			mll += " &optional " + qopt
		}
		pick := 1 + r.IntN(7) // a non-empty subset of the three
		if pick&1 != 0 {
			it.Forms = append(it.Forms, fmt.Sprintf("(defmethod %s :before (%s) (setq %s (cons (list 'before %s) %s)))", name, mll, tr, qparams[nreq-1], tr))
		}
		if pick&2 != 0 {
			it.Forms = append(it.Forms, fmt.Sprintf("(defmethod %s :after (%s) (setq %s (cons (list 'after %s) %s)))", name, mll, tr, qparams[0], tr))
		}
		if pick&4 != 0 {
			it.Forms = append(it.Forms, fmt.Sprintf("(defmethod %s :around (%s) (setq %s (cons 'around %s)) (list 'around (call-next-method)))", name, mll, tr, tr))
		}
	}
	// probes: every primary once, plus random tuples (some have no applicable method)
	call := func(ts []int, alt bool) string {
		var as []string
		for _, t := range ts {
			if t < 0 {
				t = r.IntN(len(specTypes))
			}
			if alt {
				as = append(as, specTypes[t].arg2)
			} else {
				as = append(as, specTypes[t].arg)
			}
		}
		return fmt.Sprintf("(progn (setq %s nil) (list (%s %s) %s))", tr, name, strings.Join(as, " "), tr)
	}
	for _, p := range primaries {
		it.Probes = append(it.Probes, call(p, false))
	}
	for k := 0; k < 3; k++ {
		ts := make([]int, nreq)
		for i := range ts {
			ts[i] = r.IntN(len(specTypes))
		}
		it.Probes = append(it.Probes, call(ts, k%2 == 1))
	}
	if doc != "" {
		it.Probes = append(it.Probes, fmt.Sprintf("(documentation '%s 'function)", name))
	}
	it.Probes = append(it.Probes, fmt.Sprintf("(with-output-to-string (s) (describe '%s s))", name))
	it.Obj = name // funcform
	return it
}

// ----- packages

func (s *sctx) packageItem(content string) Item {
	r := s.r
	name := s.name("pk-")
	it := Item{Kind: "package", Name: name, Info: name}
	use := `(:use "cl"`
	if 0 < len(s.pkgs) && r.IntN(2) == 0 {
		// a use graph among the user packages
		r.Shuffle(len(s.pkgs), func(i, j int) { s.pkgs[i], s.pkgs[j] = s.pkgs[j], s.pkgs[i] })
		for _, u := range s.pkgs[:1+r.IntN(min(2, len(s.pkgs)))] {
			use += " " + litString(u)
			it.Pre = append(it.Pre, s.defs[u]...)
		}
	}
	if r.IntN(3) == 0 {
		// packages the snapshot does not write itself: the user package and other built-in ones
		use += " " + litString([]string{"cl-user", "common-lisp-user", "gi", "bag", "flavors", "cl-user"}[r.IntN(6)])
		if r.IntN(3) == 0 {
			use += " " + litString([]string{"gi", "clos", "test"}[r.IntN(3)])
		}
	}
	opts := []string{use + ")"}
	if r.IntN(2) == 0 {
		var nn []string
		for i, n := 0, 1+r.IntN(2); i < n; i++ {
			nn = append(nn, litString(fmt.Sprintf("%s-n%d", name, i)))
		}
		opts = append(opts, "(:nicknames "+strings.Join(nn, " ")+")")
	}
	vname := "*" + name + "-var*"
	fname := name + "-fun"
	if r.IntN(2) == 0 {
		opts = append(opts, fmt.Sprintf("(:export %s %s)", litString(vname), litString(fname)))
	}
	if doc := docOpt(r); doc != "" {
		opts = append(opts, "(:documentation "+litString(doc)+")")
	}
	// option order is free
	r.Shuffle(len(opts), func(i, j int) { opts[i], opts[j] = opts[j], opts[i] })
	def := fmt.Sprintf("(defpackage '%s %s)", name, strings.Join(opts, " "))
	it.Forms = []string{def}
	it.Obj = fmt.Sprintf("(find-package '%s)", name)
	it.Probes = append(it.Probes,
		fmt.Sprintf("(mapcar 'package-name (package-use-list (find-package '%s)))", name),
		fmt.Sprintf("(with-output-to-string (s) (describe (find-package '%s) s))", name))
	s.defs[name] = append(append([]string{}, it.Pre...), def)
	s.pkgs = append(s.pkgs, name)
	switch content {
	case "package-var":
		_, val := cleanVarValue(r)
		it.Forms = append(it.Forms,
			fmt.Sprintf("(in-package '%s)", name),
			fmt.Sprintf("(defvar %s %s)", vname, val),
			"(in-package 'cl-user)")
		it.Probes = append(it.Probes, fmt.Sprintf("%s::%s", name, vname))
	case "package-fun":
		fd, _ := genFunction(r, fname, 2, codeOpts{})
		it.Forms = append(it.Forms,
			fmt.Sprintf("(in-package '%s)", name),
			fd.Src,
			"(in-package 'cl-user)")
		for _, p := range fd.Probes {
			it.Probes = append(it.Probes, fmt.Sprintf("(%s::%s %s)", name, fname, p))
		}
		it.Probes = append(it.Probes, fmt.Sprintf("(fboundp '%s)", fname))
	}
	it.Probes = append(it.Probes, "(package-name *package*)")
	return it
}

// ------------------------------------------------------------ case builders

var defKinds = []string{"package", "flavor", "flavor", "flavor-instance", "flavor-instance", "class", "class", "class-instance", "class-instance", "generic", "generic"}

var defFeats = map[string][]string{
	"flavor":          {"flavor-parent"},
	"class":           {"class-accessor"},
	"class-instance":  {"instance-slot-unbound", "instance-slot-attr"},
	"flavor-instance": {"instance-slot-attr"},
}

func genDefCase(r *rand.Rand) Case {
	kind := fw.Pick(r, defKinds)
	feat := ""
	if fs := defFeats[kind]; 0 < len(fs) && r.IntN(5) == 0 {
		feat = fw.Pick(r, fs)
	}
	return buildDefCase(r, kind, feat)
}

func buildDefCase(r *rand.Rand, kind, feat string) Case {
	s := newSctx(r, feat)
	var it Item
	switch kind {
	case "package":
		it = s.packageItem("")
	case "flavor":
		s.feat = ""
		if feat == "flavor-parent" {
			_ = s.flavorItem(false, "hidden-parent")
		} else {
			// up to two ancestors
			for k, n := 0, r.IntN(3); k < n; k++ {
				_ = s.flavorItem(false, "capable")
			}
		}
		s.feat = feat
		it = s.redefined(s.times(), func() Item { return s.flavorItem(false, "") })
	case "flavor-instance":
		it = s.flavorInstanceItem()
	case "class":
		if r.IntN(3) == 0 {
			sf := s.feat
			s.feat = ""
			p := s.classItem(nil)
			s.feat = sf
			it = s.redefined(s.times(), func() Item { return s.classItem(&p) })
		} else {
			it = s.redefined(s.times(), func() Item { return s.classItem(nil) })
		}
	case "class-instance":
		it = s.classInstanceItem()
	case "generic":
		it = s.genericItem()
	}
	it.Feat = feat
	return Case{Mode: "def", Kind: kind, Feat: feat, Margins: []int{pickMargin(r)}, Items: []Item{it}}
}

var sessionFeats = []string{
	"class", "flavor-parent", "var-long-float", "package-var", "package-fun", "var-closure", "fun-closure",
	"var-nested-attr", "var-quote-value", "var-vector-grown", "var-not-adjustable", "fun-string-body", "doc-escape", "doc-underscore", "flavor-removed", "fun-case-keys", "fun-function-form",
}

func genSessionCase(r *rand.Rand) Case {
	feat := ""
	if r.IntN(5) == 0 {
		feat = fw.Pick(r, sessionFeats)
	}
	return buildSessionCase(r, feat, 5+r.IntN(21))
}

func buildSessionCase(r *rand.Rand, feat string, n int) Case {
	s := newSctx(r, feat)
	s.session = true
	c := Case{Mode: "session", Kind: "session", Feat: feat, Margins: []int{pickMargin(r)}}
	for len(c.Items) < n {
		var it Item
		switch k := r.IntN(21); {
		case k == 20:
			var ok bool
			if it, ok = s.refVarItem(); !ok {
				continue
			}
		case k == 19:
			it = s.removedItem(-1)
		case k == 18:
			it = s.failedItem(-1)
		case k == 17:
			it = s.clvarItem()
		case k < 5:
			it = s.redefined(s.times(), s.varItem)
		case k < 7:
			it = s.constItem()
		case k < 11:
			it = s.redefined(s.times(), s.funItem)
		case k < 13:
			it = s.redefined(s.times(), s.macroItem)
		case k < 15:
			if feat == "flavor-parent" {
				continue
			}
			if p := s.fl[s.last]; p != nil && (!p.capable || 3 <= p.depth || r.IntN(3) == 0) {
				// an unrelated flavor starts a chain of its own
				s.last = ""
			}
			wi := r.IntN(3) == 0
			it = s.redefined(s.times(), func() Item { return s.flavorItem(wi, "") })
		case k < 16:
			it = s.genericItem()
		default:
			it = s.packageItem("")
		}
		c.Items = append(c.Items, it)
	}
	// place the feature if the random walk did not
	for tries := 0; feat != "" && !s.used && tries < 3; tries++ {
		var it Item
		switch {
		case feat == "class":
			s.used = true
			it = s.classItem(nil)
			it.Feat = "class"
			if r.IntN(2) == 0 {
				// an instance in a variable whose slots were changed after creation
				iv := "*" + s.name("obj-") + "*"
				it.Forms = append(it.Forms, fmt.Sprintf("(defvar %s (make-instance '%s))", iv, it.Name))
				var gets []string
				for _, sn := range strings.Fields(it.Info) {
					switch r.IntN(4) {
					case 0:
						it.Forms = append(it.Forms, fmt.Sprintf("(slot-makunbound %s '%s)", iv, sn))
					case 1, 2:
						it.Forms = append(it.Forms, fmt.Sprintf("(setf (slot-value %s '%s) %s)", iv, sn, interestingValue(r, "")))
					}
					gets = append(gets, fmt.Sprintf("(if (slot-boundp %s '%s) (slot-value %s '%s) 'unbound)", iv, sn, iv, sn))
				}
				it.Probes = append(it.Probes, "(list "+strings.Join(gets, " ")+")")
			}
		case strings.HasPrefix(feat, "package-"):
			s.used = true
			it = s.packageItem(feat)
			it.Feat = feat
		case feat == "flavor-parent":
			s.feat = ""
			c.Items = append(c.Items, s.flavorItem(false, "hidden-parent"))
			s.feat = feat
			it = s.flavorItem(false, "")
		case strings.HasPrefix(feat, "generic-"):
			it = s.genericItem()
		case strings.HasPrefix(feat, "var-"):
			it = s.varItem()
		case strings.HasPrefix(feat, "const-"):
			it = s.constItem()
		case strings.HasPrefix(feat, "fun-") || strings.HasPrefix(feat, "doc-"):
			it = s.funItem()
		case feat == "flavor-removed":
			it = s.removedItem(-1)
		case strings.HasPrefix(feat, "macro-"):
			it = s.macroItem()
		}
		c.Items = append(c.Items, it)
	}
	return c
}
