package c19

import (
	"fmt"
	"math/rand/v2"
	"strings"

	"verif/internal/fw"
)

// Typed generator of pure, terminating code over small integers, lists of
// integers, booleans and strings. It reaches every head symbol for which the
// pretty printer has a layout of its own (let, let*, cond, progn, block,
// dotimes, dolist, do, do*, dovector, lambda, quote, with-input-from-string,
// with-output-to-string, with-standard-io-syntax, defun, defmacro) and a
// spread of ordinary calls. Integer leaves are small and multiplication is
// by a literal only, so C05's overflow findings cannot surface.

type cg struct {
	r      *rand.Rand
	ints   []string
	lists  []string
	n      int
	blocks []string
	heads  map[string]int  // head symbols produced (coverage)
	ro     map[string]bool // variables that must not be assigned (loop counters)
	bq     bool            // backquote templates allowed (avoid set: feature "backquote")
	bqUsed bool
}

func newCG(r *rand.Rand) *cg { return &cg{r: r, heads: map[string]int{}, ro: map[string]bool{}} }

var varPool = []string{"a", "b", "c", "d", "m", "n", "u", "v", "w", "x", "y", "z", "acc", "total", "item", "count", "left", "right"}

func (g *cg) fresh() string {
	g.n++
	base := varPool[g.r.IntN(len(varPool))]
	return fmt.Sprintf("%s%d", base, g.n)
}

func (g *cg) hd(h string) { g.heads[h]++ }

func (g *cg) lit() string { return fmt.Sprint(g.r.IntN(13) - 3) }

func (g *cg) poslit() string { return fmt.Sprint(1 + g.r.IntN(4)) }

func (g *cg) withInts(vs []string, f func() string) string {
	old := g.ints
	g.ints = append(append([]string{}, g.ints...), vs...)
	s := f()
	g.ints = old
	return s
}

func (g *cg) withLists(vs []string, f func() string) string {
	old := g.lists
	g.lists = append(append([]string{}, g.lists...), vs...)
	s := f()
	g.lists = old
	return s
}

func (g *cg) intVar() (string, bool) {
	if len(g.ints) == 0 {
		return "", false
	}
	return g.ints[g.r.IntN(len(g.ints))], true
}

func (g *cg) Int(d int) string {
	if d <= 0 || g.r.IntN(6) == 0 {
		if v, ok := g.intVar(); ok && g.r.IntN(3) != 0 {
			return v
		}
		return g.lit()
	}
	d--
	switch g.r.IntN(30) {
	case 0, 1:
		g.hd("+")
		return fmt.Sprintf("(+ %s %s)", g.Int(d), g.Int(d))
	case 2:
		g.hd("-")
		return fmt.Sprintf("(- %s %s)", g.Int(d), g.Int(d))
	case 3:
		g.hd("*")
		return fmt.Sprintf("(* %s %s)", g.Int(d), g.poslit())
	case 4:
		g.hd("if")
		return fmt.Sprintf("(if %s %s %s)", g.Bool(d), g.Int(d), g.Int(d))
	case 5, 6:
		g.hd("let")
		v, w := g.fresh(), g.fresh()
		iv, iw := g.Int(d), g.Int(d)
		return g.withInts([]string{v, w}, func() string {
			return fmt.Sprintf("(let ((%s %s) (%s %s)) %s)", v, iv, w, iw, g.Body(d))
		})
	case 7:
		g.hd("let*")
		v, w := g.fresh(), g.fresh()
		iv := g.Int(d)
		return g.withInts([]string{v}, func() string {
			iw := g.Int(d)
			return g.withInts([]string{w}, func() string {
				return fmt.Sprintf("(let* ((%s %s) (%s %s)) %s)", v, iv, w, iw, g.Body(d))
			})
		})
	case 8, 9:
		g.hd("cond")
		var b strings.Builder
		b.WriteString("(cond")
		for i, n := 0, 1+g.r.IntN(3); i < n; i++ {
			if g.r.IntN(3) == 0 {
				fmt.Fprintf(&b, " (%s %s %s)", g.Bool(d), g.Stmt(d), g.Int(d))
			} else {
				fmt.Fprintf(&b, " (%s %s)", g.Bool(d), g.Int(d))
			}
		}
		fmt.Fprintf(&b, " (t %s))", g.Int(d))
		return b.String()
	case 10:
		g.hd("case")
		if g.r.IntN(3) == 0 {
			// dispatch on a symbol: the key lists are data in an unquoted position
			return fmt.Sprintf("(case '%s ((%s %s) %s) (%s %s) ((%s) %s) (t %s))", fw.Pick(g.r, symNames[:6]),
				symNames[0], symNames[1], g.Int(d), symNames[2], g.Int(d), symNames[3], g.Int(d), g.Int(d))
		}
		return fmt.Sprintf("(case (mod %s 4) (0 %s) ((1 2) %s) (t %s))", g.Int(d), g.Int(d), g.Int(d), g.Int(d))
	case 11:
		g.hd("progn")
		return fmt.Sprintf("(progn %s %s)", g.Stmt(d), g.Int(d))
	case 12:
		g.hd("block")
		g.hd("dotimes")
		g.hd("return-from")
		name := fmt.Sprintf("blk%d", g.r.IntN(100))
		i := g.fresh()
		g.ro[i] = true
		final := g.Int(d)
		return g.withInts([]string{i}, func() string {
			return fmt.Sprintf("(block %s (dotimes (%s %s) (if %s (return-from %s %s))) %s)",
				name, i, g.poslit(), g.Bool(d), name, g.Int(d), final)
		})
	case 13:
		g.hd("length")
		return fmt.Sprintf("(length %s)", g.List(d))
	case 14:
		g.hd("funcall")
		g.hd("lambda")
		p, q := g.fresh(), g.fresh()
		body := g.withInts([]string{p, q}, func() string { return g.Body(d) })
		if g.r.IntN(2) == 0 {
			return fmt.Sprintf("(funcall (lambda (%s &optional (%s %s)) %s) %s)", p, q, g.lit(), body, g.Int(d))
		}
		return fmt.Sprintf("(funcall (lambda (%s %s) %s) %s %s)", p, q, body, g.Int(d), g.Int(d))
	case 15:
		g.hd("multiple-value-bind")
		q, rr := g.fresh(), g.fresh()
		num := g.Int(d)
		return g.withInts([]string{q, rr}, func() string {
			return fmt.Sprintf("(multiple-value-bind (%s %s) (floor %s %s) %s)", q, rr, num, g.poslit(), g.Int(d))
		})
	case 16:
		h := fw.Pick(g.r, []string{"do", "do*"})
		g.hd(h)
		i, acc := g.fresh(), g.fresh()
		g.ro[i], g.ro[acc] = true, true
		init := g.Int(d)
		return g.withInts([]string{i, acc}, func() string {
			return fmt.Sprintf("(%s ((%s 0 (1+ %s)) (%s %s (+ %s %s))) ((>= %s %s) %s))", h, i, i, acc, init, acc, g.Int(d-1), i, g.poslit(), acc)
		})
	case 17:
		g.hd("prog1")
		return fmt.Sprintf("(prog1 %s %s)", g.Int(d), g.Stmt(d))
	case 18:
		h := fw.Pick(g.r, []string{"when", "unless"})
		g.hd(h)
		return fmt.Sprintf("(or (%s %s %s %s) %s)", h, g.Bool(d), g.Stmt(d), g.Int(d), g.Int(d))
	case 19:
		g.hd("dolist")
		s, x := g.fresh(), g.fresh()
		g.ro[s], g.ro[x] = true, true
		l := g.List(d)
		return g.withInts([]string{s, x}, func() string {
			return fmt.Sprintf("(let ((%s 0)) (dolist (%s %s %s) (setq %s (+ %s %s))))", s, x, l, s, s, s, g.Int(d-1))
		})
	case 20:
		g.hd("dovector")
		s, x := g.fresh(), g.fresh()
		return fmt.Sprintf("(let ((%s 0)) (dovector (%s (vector %s %s)) (setq %s (+ %s %s))) %s)", s, x, g.Int(d), g.Int(d), s, s, x, s)
	case 21:
		g.hd("apply")
		return fmt.Sprintf("(apply '+ %s)", g.List(d))
	case 22:
		g.hd("with-input-from-string")
		s := g.fresh()
		return fmt.Sprintf("(with-input-from-string (%s \"%d %d\") (+ (read %s) (read %s) %s))", s, g.r.IntN(50), g.r.IntN(50), s, s, g.Int(d))
	case 23:
		g.hd("typecase")
		return fmt.Sprintf("(typecase %s (fixnum %s) (string %s) (t %s))", g.Any(d), g.Int(d), g.Int(d), g.Int(d))
	case 24:
		g.hd("tagbody")
		v := g.fresh()
		iv := g.Int(d)
		return fmt.Sprintf("(let ((%s %s)) (tagbody (setq %s (1+ %s)) (go out) (setq %s 100) out) %s)", v, iv, v, v, v, v)
	case 25:
		g.hd("incf")
		v := g.fresh()
		return fmt.Sprintf("(let ((%s %s)) (incf %s) (decf %s %s) %s)", v, g.Int(d), v, v, g.poslit(), v)
	case 26:
		g.hd("car")
		return fmt.Sprintf("(or (car %s) %s)", g.List(d), g.lit())
	case 27:
		g.hd("max")
		return fmt.Sprintf("(%s %s %s)", fw.Pick(g.r, []string{"max", "min"}), g.Int(d), g.Int(d))
	case 28:
		g.hd("1+")
		return fmt.Sprintf("(%s %s)", fw.Pick(g.r, []string{"1+", "1-", "abs"}), g.Int(d))
	}
	g.hd("with-standard-io-syntax")
	return fmt.Sprintf("(with-standard-io-syntax (length (format nil \"~a\" %s)))", g.Int(d))
}

// Any yields an expression of some type (for type dispatch).
func (g *cg) Any(d int) string {
	switch g.r.IntN(3) {
	case 0:
		return g.Int(d)
	case 1:
		return g.Str(d)
	}
	return g.List(d)
}

func (g *cg) Bool(d int) string {
	if d <= 0 {
		return fw.Pick(g.r, []string{"t", "nil", "(oddp " + g.Int(0) + ")"})
	}
	d--
	switch g.r.IntN(9) {
	case 0, 1:
		g.hd("<")
		return fmt.Sprintf("(%s %s %s)", fw.Pick(g.r, []string{"<", ">", "<=", ">=", "=", "/="}), g.Int(d), g.Int(d))
	case 2:
		g.hd("oddp")
		return fmt.Sprintf("(%s %s)", fw.Pick(g.r, []string{"oddp", "evenp", "zerop", "plusp"}), g.Int(d))
	case 3:
		g.hd("null")
		return fmt.Sprintf("(null %s)", g.List(d))
	case 4:
		g.hd("and")
		return fmt.Sprintf("(and %s %s)", g.Bool(d), g.Bool(d))
	case 5:
		g.hd("or")
		return fmt.Sprintf("(or %s %s)", g.Bool(d), g.Bool(d))
	case 6:
		g.hd("not")
		return fmt.Sprintf("(not %s)", g.Bool(d))
	case 7:
		g.hd("member")
		return fmt.Sprintf("(member %s %s)", g.Int(d), g.List(d))
	}
	g.hd("eq")
	return fmt.Sprintf("(eq '%s '%s)", fw.Pick(g.r, symNames[:4]), fw.Pick(g.r, symNames[:4]))
}

func (g *cg) List(d int) string {
	if d <= 0 || g.r.IntN(6) == 0 {
		if 0 < len(g.lists) && g.r.IntN(3) != 0 {
			return g.lists[g.r.IntN(len(g.lists))]
		}
		g.hd("quote")
		n := g.r.IntN(5)
		es := make([]string, n)
		for i := range es {
			es[i] = g.lit()
		}
		if n == 0 {
			// a literal nil argument is refused by mapcar (C14's concern)
			return "(list)"
		}
		return "'(" + strings.Join(es, " ") + ")"
	}
	d--
	switch g.r.IntN(11) {
	case 0, 1:
		g.hd("list")
		n := 1 + g.r.IntN(3)
		es := make([]string, n)
		for i := range es {
			es[i] = g.Int(d)
		}
		return "(list " + strings.Join(es, " ") + ")"
	case 2:
		g.hd("cons")
		return fmt.Sprintf("(cons %s %s)", g.Int(d), g.List(d))
	case 3:
		g.hd("mapcar")
		g.hd("lambda")
		v := g.fresh()
		body := g.withInts([]string{v}, func() string { return g.Int(d) })
		return fmt.Sprintf("(mapcar (lambda (%s) %s) %s)", v, body, g.List(d))
	case 4:
		g.hd("reverse")
		return fmt.Sprintf("(reverse %s)", g.List(d))
	case 5:
		g.hd("append")
		return fmt.Sprintf("(append %s %s)", g.List(d), g.List(d))
	case 6:
		g.hd("if")
		return fmt.Sprintf("(if %s %s %s)", g.Bool(d), g.List(d), g.List(d))
	case 7:
		g.hd("dolist")
		g.hd("push")
		acc, x := g.fresh(), g.fresh()
		g.ro[x] = true
		l := g.List(d)
		return g.withInts([]string{x}, func() string {
			return fmt.Sprintf("(let ((%s nil)) (dolist (%s %s (nreverse %s)) (when %s (push %s %s))))", acc, x, l, acc, g.Bool(d), g.Int(d), acc)
		})
	case 8:
		if !g.bq {
			g.hd("list")
			return fmt.Sprintf("(list %s %s)", g.Int(d), g.Int(d))
		}
		g.hd("backquote")
		g.bqUsed = true
		// ,@ directly before a quote or nil and nested backquotes are misread
		// by the reader (C02's concern): splice a call or a variable only
		g.bq = false
		spliced := g.List(d)
		elem := g.Int(d)
		g.bq = true
		if strings.HasPrefix(spliced, "'") {
			spliced = "(reverse " + spliced + ")"
		}
		return fmt.Sprintf("`(%s ,%s ,@%s %s)", g.lit(), elem, spliced, g.lit())
	case 9:
		g.hd("let")
		v := g.fresh()
		l := g.List(d)
		return g.withLists([]string{v}, func() string {
			return fmt.Sprintf("(let ((%s %s)) %s)", v, l, g.List(d))
		})
	}
	g.hd("remove-if")
	v := g.fresh()
	body := g.withInts([]string{v}, func() string { return g.Bool(d) })
	return fmt.Sprintf("(remove-if (lambda (%s) %s) %s)", v, body, g.List(d))
}

func (g *cg) Str(d int) string {
	if d <= 0 {
		return litString(genString(g.r))
	}
	d--
	switch g.r.IntN(6) {
	case 0:
		g.hd("with-output-to-string")
		s := g.fresh()
		return fmt.Sprintf("(with-output-to-string (%s) (format %s \"~a-~s\" %s %s) (princ %s %s))", s, s, g.Int(d), litString(fw.Pick(g.r, words)), g.Int(d), s)
	case 1:
		g.hd("format")
		return fmt.Sprintf("(format nil \"~a:~a\" %s %s)", g.Int(d), g.List(d))
	case 2:
		g.hd("string-upcase")
		return fmt.Sprintf("(string-upcase %s)", g.Str(d))
	case 3:
		g.hd("concatenate")
		return fmt.Sprintf("(concatenate 'string %s %s)", g.Str(d), g.Str(d))
	case 4:
		g.hd("if")
		return fmt.Sprintf("(if %s %s %s)", g.Bool(d), g.Str(d), g.Str(d))
	}
	return litString(genString(g.r))
}

// Stmt yields a form evaluated for effect on a local variable.
func (g *cg) Stmt(d int) string {
	var rw []string
	for _, v := range g.ints {
		if !g.ro[v] {
			rw = append(rw, v)
		}
	}
	if len(rw) == 0 {
		return g.Int(d)
	}
	v := rw[g.r.IntN(len(rw))]
	switch g.r.IntN(5) {
	case 0:
		g.hd("setq")
		return fmt.Sprintf("(setq %s %s)", v, g.Int(d-1))
	case 1:
		g.hd("incf")
		return fmt.Sprintf("(incf %s)", v)
	case 2:
		g.hd("when")
		return fmt.Sprintf("(when %s (setq %s %s))", g.Bool(d-1), v, g.Int(d-1))
	case 3:
		g.hd("dotimes")
		i := g.fresh()
		return fmt.Sprintf("(dotimes (%s %s) (setq %s (+ %s %s)))", i, g.poslit(), v, v, i)
	}
	g.hd("setq")
	return fmt.Sprintf("(setq %s (1+ %s))", v, v)
}

// Body yields 1..3 forms, the last an integer expression.
func (g *cg) Body(d int) string {
	var parts []string
	for i, n := 0, g.r.IntN(3); i < n; i++ {
		parts = append(parts, g.Stmt(d))
	}
	parts = append(parts, g.Int(d))
	return strings.Join(parts, " ")
}

// Result yields the final form of a function: a list exposing several types.
func (g *cg) Result(d int) string {
	switch g.r.IntN(4) {
	case 0:
		return g.Int(d)
	case 1:
		return fmt.Sprintf("(list %s %s)", g.Int(d), g.List(d))
	case 2:
		return fmt.Sprintf("(list %s %s %s)", g.Int(d), g.Bool(d), g.Str(d-1))
	}
	return fmt.Sprintf("(list %s %s '%s)", g.List(d), g.Str(d-1), fw.Pick(g.r, symNames))
}

// fnDef is a generated function or macro definition.
type fnDef struct {
	Head   string // defun | defmacro | lambda
	Name   string
	Src    string   // the defining form
	Probes []string // argument texts
}

// genLambdaList yields a lambda list, the int and list variables it binds and
// probe argument texts.
func genLambdaList(r *rand.Rand) (ll string, ints, lists []string, probes []string) {
	nreq := 1 + r.IntN(3)
	var parts []string
	for i := 0; i < nreq; i++ {
		v := fmt.Sprintf("p%d", i)
		parts = append(parts, v)
		ints = append(ints, v)
	}
	nopt := 0
	rest := false
	var keys []string
	switch r.IntN(6) {
	case 0:
		nopt = 1 + r.IntN(2)
		parts = append(parts, "&optional")
		for i := 0; i < nopt; i++ {
			v := fmt.Sprintf("o%d", i)
			parts = append(parts, fmt.Sprintf("(%s %d)", v, r.IntN(9)))
			ints = append(ints, v)
		}
	case 1:
		rest = true
		parts = append(parts, "&rest", "more")
		lists = append(lists, "more")
	case 2:
		parts = append(parts, "&key")
		for i, n := 0, 1+r.IntN(2); i < n; i++ {
			v := fmt.Sprintf("key%d", i)
			keys = append(keys, v)
			parts = append(parts, fmt.Sprintf("(%s %d)", v, r.IntN(9)))
			ints = append(ints, v)
		}
	}
	ll = "(" + strings.Join(parts, " ") + ")"
	for k := 0; k < 4; k++ {
		var as []string
		for i := 0; i < nreq; i++ {
			as = append(as, fmt.Sprint(r.IntN(13)-3))
		}
		for i := 0; i < nopt && r.IntN(2) == 0; i++ {
			as = append(as, fmt.Sprint(r.IntN(9)))
		}
		if rest {
			for i, n := 0, r.IntN(4); i < n; i++ {
				as = append(as, fmt.Sprint(r.IntN(9)))
			}
		}
		for _, kv := range keys {
			if r.IntN(2) == 0 {
				as = append(as, ":"+kv, fmt.Sprint(r.IntN(9)))
			}
		}
		probes = append(probes, strings.Join(as, " "))
	}
	return
}

// shortDocs never reach the right margin (20 at least), longDoc always wraps
// at narrow margins: re-flowed documentation is in the avoid set ("doc-wraps").
var shortDocs = []string{"adds", "the sum", "x", "helper", "a thing", "does it", "is saved"}

func genDoc(r *rand.Rand) string {
	if r.IntN(3) != 0 {
		return ""
	}
	return fw.Pick(r, shortDocs)
}

func longDoc(r *rand.Rand) string {
	n := 12 + r.IntN(12)
	ws := make([]string, n)
	for i := range ws {
		ws[i] = fw.Pick(r, words[:15])
	}
	return strings.Join(ws, " ")
}

// codeOpts selects avoid-set constructs for generated code.
type codeOpts struct {
	backquote  bool
	longDoc    bool
	specialDoc int  // documentation holding 1 = " or \ (avoid set: doc-escape), 2 = _ (avoid set: doc-underscore)
	caseKeys   bool // a case key list that starts with a symbol the printer has a layout for (avoid set: case-keys)
	fnForm     bool // a (function name) / #'name form in the body (avoid set: function-form)
	stringBody int  // the only body form is a string: 1 = short and plain, 2 = one the printer's documentation layout changes (avoid set: string-body)
}

// specialDoc yields a documentation string with the characters that matter
// to the printer of documentation: " and \ (kind 1), or _, the emphasis
// mark-up of describe output (kind 2).
func specialDoc(r *rand.Rand, kind int) string {
	if kind == 1 {
		return fw.Pick(r, []string{"say \"hi\"", "a back\\slash", "bold and \"quoted\" text", "\\", "\"x\""}) +
			fw.Pick(r, []string{"", " adds", " is saved"})
	}
	return fw.Pick(r, []string{"the _first_ one", "under_score", "__bold__ text", "x_"}) + fw.Pick(r, []string{"", " adds", " is saved"})
}

// layoutKeys are case key lists whose first symbol has a pretty printer
// layout of its own (as a code walker's dispatch has them).
var layoutKeys = []string{"(let)", "(let let*)", "(defun defmacro)", "(lambda function)", "(quote function)", "(block)", "(block tagbody)",
	"(defmethod defgeneric)", "(defclass)", "(make-instance)", "(defflavor)", "(progn prog1)", "(dotimes dolist)", "(defvar defparameter)"}

// stringBody yields the string that is all of a function's body.
func stringBody(r *rand.Rand, kind int) string {
	if kind == 1 {
		return fw.Pick(r, []string{"x", "the sum", "is saved", "", "a b c"})
	}
	return fw.Pick(r, []string{"just_a_string", "say \"hi\"", "back\\slash", "two  spaces and a\nnewline", longDoc(r), "snake_case_name"})
}

// genFunction yields a defun (or lambda when name is empty).
func genFunction(r *rand.Rand, name string, depth int, o codeOpts) (fd fnDef, heads map[string]int) {
	var g *cg
	var body []string
	var ll string
	var probes []string
	for try := 0; ; try++ {
		g = newCG(r)
		g.bq = o.backquote
		var ints, lists []string
		ll, ints, lists, probes = genLambdaList(r)
		g.ints, g.lists = ints, lists
		body = nil
		doc := genDoc(r)
		if o.longDoc {
			doc = longDoc(r)
		}
		if 0 < o.specialDoc {
			doc = specialDoc(r, o.specialDoc)
		}
		if o.caseKeys {
			ll, probes = "(p0)", []string{"'let", "'defun", "'lambda", "'function", "'block", "'a", "'zz", "'defmethod", "'quote"}
			body = []string{fmt.Sprintf("(case p0 (%s %d) ((a b) %d) (%s %d) (t %d))", fw.Pick(r, layoutKeys), r.IntN(9), r.IntN(9), fw.Pick(r, layoutKeys), r.IntN(9), r.IntN(9))}
			if doc != "" {
				body = append([]string{litString(doc)}, body...)
			}
			break
		}
		if o.fnForm {
			// functions passed by name and as a sharp-quoted lambda expression
			ll, probes = "(p0)", []string{"1", "5", "-2"}
			body = []string{fmt.Sprintf("(list (mapcar %s (list p0 %d)) (funcall %s p0) (apply %s (list p0 %d)))",
				fw.Pick(r, []string{"#'1+", "(function 1-)", "#'abs"}), r.IntN(9),
				fw.Pick(r, []string{"#'(lambda (v) (* v 2))", "(function (lambda (v) (+ v 1)))", "#'1-"}),
				fw.Pick(r, []string{"#'+", "(function max)", "#'list"}), r.IntN(9))}
			if doc != "" {
				body = append([]string{litString(doc)}, body...)
			}
			break
		}
		if 0 < o.stringBody {
			// nothing but a string: it is the value, not documentation
			body = []string{litString(stringBody(r, o.stringBody))}
			break
		}
		if doc != "" {
			body = append(body, litString(doc))
		}
		for i, n := 0, r.IntN(3); i < n; i++ {
			body = append(body, g.Stmt(depth))
		}
		body = append(body, g.Result(depth))
		if o.backquote && !g.bqUsed && try < 20 {
			continue
		}
		if o.backquote && !g.bqUsed {
			body[len(body)-1] = "`(1 ,p0 ,@(list p0 2) 3)"
		}
		break
	}
	fd.Probes = probes
	fd.Name = name
	if name == "" {
		fd.Head = "lambda"
		fd.Src = fmt.Sprintf("(lambda %s %s)", ll, strings.Join(body, " "))
	} else {
		fd.Head = "defun"
		fd.Src = fmt.Sprintf("(defun %s %s %s)", name, ll, strings.Join(body, " "))
	}
	return fd, g.heads
}

// genMacro yields a defmacro. The clean ones build their expansion with
// list/cons; the backquote ones are in the avoid set.
func genMacro(r *rand.Rand, name string, o codeOpts) fnDef {
	fd := fnDef{Head: "defmacro", Name: name}
	doc := ""
	if d := genDoc(r); d != "" {
		doc = litString(d) + " "
	}
	if o.longDoc {
		doc = litString(longDoc(r)) + " "
	}
	if 0 < o.specialDoc {
		doc = litString(specialDoc(r, o.specialDoc)) + " "
	}
	if 0 < o.stringBody {
		fd.Src = fmt.Sprintf("(defmacro %s (a) %s)", name, litString(stringBody(r, o.stringBody)))
		fd.Probes = []string{"1", "(+ 1 2)"}
		return fd
	}
	if o.backquote {
		switch r.IntN(5) {
		case 0:
			fd.Src = fmt.Sprintf("(defmacro %s (a b) %s`(list ,a ,b ,(if (numberp a) (1+ a) 0)))", name, doc)
			fd.Probes = []string{"1 2", "(+ 1 2) 3", "'q \"s\""}
		case 1:
			fd.Src = fmt.Sprintf("(defmacro %s (a b) %s`(let ((tmp ,a)) (+ tmp ,b %d)))", name, doc, r.IntN(9))
			fd.Probes = []string{"1 2", "(* 2 3) (- 4 1)"}
		case 2:
			fd.Src = fmt.Sprintf("(defmacro %s (a &rest body) %s`(progn ,a ,@body))", name, doc)
			fd.Probes = []string{"1", "1 2 3", "(list 1) (list 2 3)"}
		case 3:
			fd.Src = fmt.Sprintf("(defmacro %s (test a) %s`(if ,test ,a (quote ,a)))", name, doc)
			fd.Probes = []string{"t (+ 1 2)", "nil (+ 1 2)"}
		default:
			fd.Src = fmt.Sprintf("(defmacro %s (n &rest forms) %s`(let ((acc nil)) (dotimes (i ,n) (push (list i ,@forms) acc)) (nreverse acc)))", name, doc)
			fd.Probes = []string{"2 1", "3 (+ 1 1) \"s\"", "0 1"}
		}
		return fd
	}
	switch r.IntN(5) {
	case 0:
		fd.Src = fmt.Sprintf("(defmacro %s (a b) %s(list 'list a b (if (numberp a) (1+ a) 0)))", name, doc)
		fd.Probes = []string{"1 2", "(+ 1 2) 3", "'q \"s\""}
	case 1:
		fd.Src = fmt.Sprintf("(defmacro %s (a b) %s(list 'let (list (list 'tmp a)) (list '+ 'tmp b %d)))", name, doc, r.IntN(9))
		fd.Probes = []string{"1 2", "(* 2 3) (- 4 1)"}
	case 2:
		fd.Src = fmt.Sprintf("(defmacro %s (a &rest body) %s(cons 'progn (cons a body)))", name, doc)
		fd.Probes = []string{"1", "1 2 3", "(list 1) (list 2 3)"}
	case 3:
		fd.Src = fmt.Sprintf("(defmacro %s (test a) %s(list 'if test a (list 'quote a)))", name, doc)
		fd.Probes = []string{"t (+ 1 2)", "nil (+ 1 2)"}
	default:
		fd.Src = fmt.Sprintf("(defmacro %s (a &optional (b %d)) %s(let ((both (list a b))) (cond ((numberp a) (cons 'list both)) (t (list 'quote both)))))", name, r.IntN(9), doc)
		fd.Probes = []string{"1", "1 2", "(+ 1 1) 5"}
	}
	return fd
}
