package c18

// exec3.go: monitors of the third-round blocks (see gen3.go).

import (
	"fmt"
	"strings"

	"github.com/ohler55/slip"
	"github.com/ohler55/slip/pkg/bag"
	"github.com/ohler55/slip/pkg/flavors"

	"verif/internal/fw"
	"verif/internal/sl"
)

// toLispHash is toLisp with objects as hash tables. nestedAssoc: only the
// outermost objects are hash tables, objects inside them are assoc lists.
func toLispHash(n *Node, nestedAssoc bool) slip.Object {
	switch n.K {
	case kArr:
		l := make(slip.List, len(n.A))
		for i, e := range n.A {
			l[i] = toLispHash(e, nestedAssoc)
		}
		return l
	case kObj:
		h := slip.HashTable{}
		for i, k := range n.Keys {
			if nestedAssoc {
				h[slip.String(k)] = toLisp(n.A[i])
			} else {
				h[slip.String(k)] = toLispHash(n.A[i], false)
			}
		}
		return h
	}
	return toLisp(n)
}

// pathList is the list form of a path for make-bag-path (strings or symbols
// for members, integers for indices, nil for a wildcard); ok is false for a
// path with other fragments.
func pathList(p Path, symbols bool) (slip.List, bool) {
	out := make(slip.List, len(p))
	for i, f := range p {
		switch f.K {
		case "child":
			if symbols && isIdent(f.Key) {
				out[i] = slip.Symbol(f.Key)
			} else {
				out[i] = slip.String(f.Key)
			}
		case "nth":
			out[i] = slip.Fixnum(f.N)
		case "wild":
			out[i] = nil
		default:
			return nil, false
		}
	}
	return out, 0 < len(p)
}

// withoutNullMembers drops object members holding null: bag-compare (ojg's
// alt.Compare) takes a missing member and a null member as the same.
func withoutNullMembers(n *Node) *Node {
	c := &Node{K: n.K, B: n.B, I: n.I, S: n.S}
	switch n.K {
	case kArr:
		c.A = make([]*Node, len(n.A))
		for i, e := range n.A {
			c.A[i] = withoutNullMembers(e)
		}
	case kObj:
		for i, k := range n.Keys {
			if n.A[i].K != kNull {
				c.put(k, withoutNullMembers(n.A[i]))
			}
		}
	}
	return c
}

// compareAgrees: slip's own comparison of the bag with a bag holding prev
// must say "different" exactly when the harness does, and the location it
// reports must be one where the two documents differ.
func (w *world) compareAgrees(prev, cur *Node, phase string) bool {
	x := w.x
	if prev.has(func(n *Node) bool { return n.K == kTime || n.K == kBig || n.K == kOther }) || cur.has(func(n *Node) bool { return n.K == kTime || n.K == kBig || n.K == kOther }) {
		return true
	}
	inst := bagOf2(prev)
	w.let("prevb", inst)
	res, err := w.eval(`(bag-compare b prevb)`)
	if err != nil {
		x.Fail("compare fail="+errSlug(err), "[%s] (bag-compare b prev) => %s", phase, err)
		return false
	}
	a, c := withoutNullMembers(prev), withoutNullMembers(cur)
	d := diffLoose(c, a)
	switch {
	case d == nil && res != nil:
		x.Fail("compare fail=reports-a-difference-between-equal-bags", "[%s] (bag-compare b prev) => %s for %s and %s", phase, short(sl.Show(res)), short(cur.canon()), short(prev.canon()))
		return false
	case d != nil && res == nil:
		x.Fail("compare fail=misses-a-difference", "[%s] (bag-compare b prev) => nil but the bags differ %s: %s and %s", phase, d, short(cur.canon()), short(prev.canon()))
		return false
	case d == nil:
		x.Cover("compare:equal-agrees")
		return true
	}
	// the reported path: follow it in both documents as far as it goes
	l, _ := res.(slip.List)
	na, nc := a, c
	for _, e := range l {
		var oka, okc bool
		switch te := e.(type) {
		case slip.String:
			if na.K == kObj && nc.K == kObj {
				na, oka = na.get(string(te))
				nc, okc = nc.get(string(te))
			}
		case slip.Fixnum:
			if na.K == kArr && nc.K == kArr {
				if i := int(te); 0 <= i {
					if oka = i < len(na.A); oka {
						na = na.A[i]
					}
					if okc = i < len(nc.A); okc {
						nc = nc.A[i]
					}
				}
			}
		}
		if !oka || !okc {
			// the location exists on one side only: that is a difference
			x.Cover("compare:difference-located")
			return true
		}
	}
	if diffLoose(nc, na) == nil {
		x.Fail("compare fail=reports-the-wrong-location", "[%s] (bag-compare b prev) => %s but the documents agree there; they differ %s", phase, short(sl.Show(res)), d)
		return false
	}
	x.Cover("compare:difference-located")
	return true
}

func bagOf2(n *Node) *flavors.Instance {
	inst := bagFlavorInstance()
	inst.Any = n.toAny()
	return inst
}

func nodeAtPath(root *Node, p Path) (*Node, loc, bool) {
	ms, _ := evalPath(root, p)
	if len(ms) != 1 {
		return nil, nil, false
	}
	return ms[0].node, ms[0].at, true
}

// execAlias: see AliasCase.
func execAlias(x *fw.Ctx, c Case) {
	w := newWorld(x)
	a := c.Alias
	x.Cover("kind:alias")
	x.Cover("alias:route=" + a.Route)
	x.Cover("alias:op=" + a.Op + " side=" + a.Side)
	if c.Probe != "" {
		x.Cover("block:" + c.Probe)
	}
	b, err := w.makeBag(c.Doc)
	if err != nil {
		x.Fail("alias fail=setup "+errSlug(err), "cannot build the bag: %s", err)
		return
	}
	model := fromAny(b.Any)
	w.let("b", b)
	skip := func(why string) {
		x.Cover("alias:skipped:" + why)
		x.Trivial()
	}
	set := func(doc *Node, p Path, v *Node) (*Node, bool) {
		res, st, _, _ := modelSet(doc, p, v)
		return res, st == stOK
	}
	var (
		src             string
		expected        *Node
		copyA, copyB    Path
		valBag          *flavors.Instance
		ok              bool
		copied          *Node
		describeTheCopy string
	)
	pstr := func(name string, p Path) {
		w.let(name, slip.String(p.render(0)))
	}
	switch a.Route {
	case "value-twice":
		if valBag, err = w.makeBag(a.Val); err != nil {
			x.Fail("alias fail=setup "+errSlug(err), "cannot build the value bag: %s", err)
			return
		}
		w.let("v", valBag)
		pstr("p1", a.Dst)
		pstr("p2", a.Dst2)
		src = `(progn (bag-set b v p1) (bag-set b v p2))`
		copied = fromAny(valBag.Any)
		var e1 *Node
		if e1, ok = set(model, a.Dst, copied); ok {
			expected, ok = set(e1, a.Dst2, copied)
		}
		if ok {
			// the places as they are in the resulting document
			copyA, copyB = definitePrefix(expected, a.Dst).path(), definitePrefix(expected, a.Dst2).path()
			if n, _, found := nodeAtPath(expected, copyA); !found || diff(n, copied) != nil {
				ok = false // the second set replaced or moved the first copy
			}
		}
		describeTheCopy = fmt.Sprintf("the bag value %s stored at %q and at %q", short(copied.canon()), a.Dst.render(0), a.Dst2.render(0))
	case "modify-returns-bag", "modify-returns-bag-lisp-arg":
		if valBag, err = w.makeBag(a.Val); err != nil {
			x.Fail("alias fail=setup "+errSlug(err), "cannot build the value bag: %s", err)
			return
		}
		w.let("v", valBag)
		pstr("p1", a.Src)
		src = `(bag-modify b (lambda (x) v) p1 :as-bag t)`
		if a.Route == "modify-returns-bag-lisp-arg" {
			src = `(bag-modify b (lambda (x) v) p1)`
		}
		copied = fromAny(valBag.Any)
		ms, _ := evalPath(model, a.Src)
		if expected, ok = set(model, a.Src, copied); ok && 2 <= len(ms) {
			copyA, copyB = ms[0].at.path(), ms[len(ms)-1].at.path()
		} else {
			ok = false
		}
		describeTheCopy = fmt.Sprintf("the bag value %s returned by the function of bag-modify for every match of %q", short(copied.canon()), a.Src.render(0))
	default:
		var at loc
		if copied, at, ok = nodeAtPath(model, a.Src); !ok {
			skip("source-missing")
			return
		}
		pstr("p1", a.Src)
		pstr("p2", a.Dst)
		stored := copied
		switch a.Route {
		case "get-as-bag":
			src = `(bag-set b (bag-get b p1 t) p2)`
		case "send-get-as-bag":
			src = `(send b :set (send b :get p1 t) p2)`
		case "get-all-bag-list":
			src = `(bag-set b (car (bag-get-all b p1)) p2)`
		case "get-all-bag":
			src = `(bag-set b (bag-get-all b p1 :bag) p2)`
			stored = nArr(copied)
		case "walk-as-bag":
			src = `(let ((got nil)) (bag-walk b (lambda (x) (setq got x)) p1 t) (bag-set b got p2))`
		case "native-copy":
			src = `(bag-set b (bag-get b p1) p2)`
		default:
			panic("unknown alias route " + a.Route)
		}
		if expected, ok = set(model, a.Dst, stored); ok {
			copyA, copyB = at.path(), definitePrefix(expected, a.Dst).path()
			if a.Route == "get-all-bag" {
				copyB = append(copyB, fNth(0))
			}
			if len(copyB) < len(a.Dst) {
				ok = false
			}
		}
		describeTheCopy = fmt.Sprintf("the value at %q copied to %q", a.Src.render(0), a.Dst.render(0))
	}
	if !ok {
		skip("copy-step-undefined")
		return
	}
	sig := func(what string) string { return fmt.Sprintf("alias route=%s fail=%s", a.Route, what) }
	if _, err = w.eval(src); err != nil {
		what := "copy-" + errSlug(err)
		x.Fail(sig(what), "%s on %s => %s", src, short(model.canon()), err)
		return
	}
	actual := fromAny(b.Any)
	if d := diff(expected, actual); d != nil {
		x.Fail(sig("copy-differs"), "%s on %s\n gives %s\n model %s\n %s", src, short(model.canon()), short(actual.canon()), short(expected.canon()), d)
		return
	}
	x.Cover("alias:copied")
	if !w.observeAll(expected, b, "after the copy") {
		return
	}
	// change one of the two copies
	target, other := copyA, copyB
	if a.Side == "dst" {
		target, other = copyB, copyA
	}
	tp := append(append(Path{}, target...), a.Inner...)
	pstr("tp", tp)
	var (
		after *Node
		st    string
	)
	if a.Op == "remove" {
		src = `(bag-remove b tp)`
		after, st, _, _ = modelRemove(expected, tp)
	} else {
		src = `(bag-set b 99 tp)`
		after, st, _, _ = modelSet(expected, tp, nInt(99))
	}
	if st != stOK || diff(after, expected) == nil {
		skip("change-step-undefined")
		return
	}
	before, _, _ := nodeAtPath(expected, other)
	if _, err = w.eval(src); err != nil {
		x.Fail(sig("change-"+errSlug(err)), "%s after %s => %s", src, describeTheCopy, err)
		return
	}
	actual = fromAny(b.Any)
	if d := diff(after, actual); d != nil {
		what := "wrong-document"
		if now, _, found := nodeAtPath(actual, other); before != nil && (!found || diff(before, now) != nil) {
			// the copy that was not touched changed too
			what = "shared-data"
		}
		x.Fail(sig(what), "%s: then %s with path %q also changed %q\n gives %s\n model %s\n %s", describeTheCopy, src, tp.render(0), other.render(0), short(actual.canon()), short(after.canon()), d)
		return
	}
	x.Cover("alias:copies-independent")
	if valBag != nil {
		// another bag: outside the property (paths of one bag), observed only
		if diff(copied, fromAny(valBag.Any)) != nil {
			x.Cover("alias:value-bag-changed-with-the-copy(not judged)")
		} else {
			x.Cover("alias:value-bag-unchanged")
		}
	}
	if !w.compareAgrees(expected, after, "after the change of one copy") {
		return
	}
	w.observeAll(after, b, "after the change of one copy")
}

func bagFlavorInstance() *flavors.Instance {
	return bag.Flavor().MakeInstance().(*flavors.Instance)
}

func strClassesJoined(s string) string { return strings.Join(strClasses(s), " ") }
