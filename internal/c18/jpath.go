package c18

// jpath.go: the reference JSON-path model. It is written from the JSONPath
// notation (child, index incl. negative, wildcard, recursive descent) and the
// documented behaviour of the bag functions (set creates missing members,
// remove shortens arrays, both touch every match) and works on Node trees only.

import (
	"fmt"
	"strconv"
	"strings"
)

// Frag is one path fragment.
type Frag struct {
	K    string   `json:"k"` // child | nth | wild | descent | union | slice
	Key  string   `json:"key,omitempty"`
	N    int      `json:"n,omitempty"`    // nth: index; slice: start
	M    int      `json:"m,omitempty"`    // slice: end (exclusive), -1 = open
	Keys []string `json:"keys,omitempty"` // union of member names
}

// Path is a JSON path relative to the document root.
type Path []Frag

func fChild(k string) Frag    { return Frag{K: "child", Key: k} }
func fNth(n int) Frag         { return Frag{K: "nth", N: n} }
func fWild() Frag             { return Frag{K: "wild"} }
func fDescent() Frag          { return Frag{K: "descent"} }
func fUnion(k ...string) Frag { return Frag{K: "union", Keys: k} }
func fSlice(s, e int) Frag    { return Frag{K: "slice", N: s, M: e} }

func (p Path) definite() bool {
	for _, f := range p {
		if f.K != "child" && f.K != "nth" {
			return false
		}
	}
	return true
}

func (p Path) hasSlice() bool {
	for _, f := range p {
		if f.K == "slice" {
			return true
		}
	}
	return false
}

func (p Path) hasDescent() bool {
	for _, f := range p {
		if f.K == "descent" {
			return true
		}
	}
	return false
}

// shape names the fragment kinds for signatures and coverage, e.g. child.nth.wild
func (p Path) shape() string {
	if len(p) == 0 {
		return "root"
	}
	ks := make([]string, len(p))
	for i, f := range p {
		ks[i] = f.K
		if f.K == "nth" && f.N < 0 {
			ks[i] = "nth-neg"
		}
	}
	return strings.Join(ks, ".")
}

// render writes the path in JSONPath notation. style bits: 1 = leading $,
// 2 = bracket notation for every child, 4 = [*] for wildcards.
func (p Path) render(style int) string {
	var b strings.Builder
	if style&1 != 0 {
		b.WriteByte('$')
	}
	for _, f := range p {
		s := b.String()
		switch f.K {
		case "child":
			if isIdent(f.Key) && style&2 == 0 {
				if s != "" && !strings.HasSuffix(s, "..") {
					b.WriteByte('.')
				}
				b.WriteString(f.Key)
			} else {
				b.WriteString("['" + f.Key + "']")
			}
		case "nth":
			b.WriteString("[" + strconv.Itoa(f.N) + "]")
		case "wild":
			if style&4 != 0 {
				b.WriteString("[*]")
			} else {
				if s != "" && !strings.HasSuffix(s, "..") {
					b.WriteByte('.')
				}
				b.WriteByte('*')
			}
		case "descent":
			b.WriteString("..")
		case "union":
			b.WriteString("['" + strings.Join(f.Keys, "','") + "']")
		case "slice":
			if f.M < 0 {
				b.WriteString("[" + strconv.Itoa(f.N) + ":]")
			} else {
				b.WriteString("[" + strconv.Itoa(f.N) + ":" + strconv.Itoa(f.M) + "]")
			}
		}
	}
	return b.String()
}

// Step is one step of a concrete location.
type Step struct {
	Key string
	Idx int
	Nth bool
}

type loc []Step

func (l loc) String() string {
	var b strings.Builder
	b.WriteByte('$')
	for _, s := range l {
		if s.Nth {
			fmt.Fprintf(&b, "[%d]", s.Idx)
		} else {
			b.WriteString("." + pathKey(s.Key))
		}
	}
	return b.String()
}

func (l loc) path() Path {
	p := make(Path, len(l))
	for i, s := range l {
		if s.Nth {
			p[i] = fNth(s.Idx)
		} else {
			p[i] = fChild(s.Key)
		}
	}
	return p
}

func (l loc) extend(s Step) loc {
	out := make(loc, len(l)+1)
	copy(out, l)
	out[len(l)] = s
	return out
}

func (l loc) isPrefixOf(o loc) bool {
	if len(o) < len(l) {
		return false
	}
	for i, s := range l {
		if s != o[i] {
			return false
		}
	}
	return true
}

func related(a, b loc) bool { return a.isPrefixOf(b) || b.isPrefixOf(a) }

type match struct {
	at   loc
	node *Node
}

// children lists the direct children of a node with their locations.
func children(m match) []match {
	var out []match
	switch m.node.K {
	case kArr:
		for i, e := range m.node.A {
			out = append(out, match{m.at.extend(Step{Idx: i, Nth: true}), e})
		}
	case kObj:
		for i, k := range m.node.Keys {
			out = append(out, match{m.at.extend(Step{Key: k}), m.node.A[i]})
		}
	}
	return out
}

func descendants(m match, out *[]match) {
	*out = append(*out, m)
	for _, c := range children(m) {
		descendants(c, out)
	}
}

// evalFlags report what happened on the way.
type evalFlags struct {
	throughScalar bool // a non-final child/nth/wild fragment matched a scalar
	missing       bool // a child/nth fragment found no such member in a container (set would have to create it, or the index is out of range)
}

// evalPath returns every match of p in the tree.
func evalPath(root *Node, p Path) ([]match, bool) {
	ms, fl := evalPathX(root, p, false)
	return ms, fl.throughScalar
}

// evalPathX is evalPath with flags; allNonFinal says that another fragment
// follows p (p is the prefix of a longer path).
func evalPathX(root *Node, p Path, allNonFinal bool) (out []match, fl evalFlags) {
	cur := []match{{loc{}, root}}
	for fi, f := range p {
		var next []match
		for _, m := range cur {
			switch f.K {
			case "child":
				if m.node.K == kObj {
					if v, ok := m.node.get(f.Key); ok {
						next = append(next, match{m.at.extend(Step{Key: f.Key}), v})
					} else {
						fl.missing = true
					}
				} else if m.node.K == kArr {
					fl.missing = true
				}
			case "nth":
				if m.node.K == kArr {
					i := f.N
					if i < 0 {
						i += len(m.node.A)
					}
					if 0 <= i && i < len(m.node.A) {
						next = append(next, match{m.at.extend(Step{Idx: i, Nth: true}), m.node.A[i]})
					} else {
						fl.missing = true
					}
				} else if m.node.K == kObj {
					fl.missing = true
				}
			case "wild":
				next = append(next, children(m)...)
			case "descent":
				descendants(m, &next)
			case "union":
				if m.node.K == kObj {
					for _, k := range f.Keys {
						if v, ok := m.node.get(k); ok {
							next = append(next, match{m.at.extend(Step{Key: k}), v})
						} else {
							fl.missing = true
						}
					}
				}
			case "slice":
				if m.node.K == kArr {
					for i := f.N; 0 <= i && (i < f.M || f.M < 0) && i < len(m.node.A); i++ {
						next = append(next, match{m.at.extend(Step{Idx: i, Nth: true}), m.node.A[i]})
					}
				}
			}
		}
		if f.K != "descent" && (allNonFinal || fi < len(p)-1) {
			for _, m := range next {
				if !m.node.isContainer() {
					fl.throughScalar = true
				}
			}
		}
		cur = next
	}
	return cur, fl
}

// all concrete locations of a tree (pre-order).
func allLocs(root *Node) []match {
	var out []match
	descendants(match{loc{}, root}, &out)
	return out
}

func nodeAt(root *Node, l loc) (*Node, bool) {
	cur := root
	for _, s := range l {
		switch {
		case s.Nth && cur.K == kArr && 0 <= s.Idx && s.Idx < len(cur.A):
			cur = cur.A[s.Idx]
		case !s.Nth && cur.K == kObj:
			v, ok := cur.get(s.Key)
			if !ok {
				return nil, false
			}
			cur = v
		default:
			return nil, false
		}
	}
	return cur, true
}

// Outcome of a model mutation.
const (
	stOK        = "ok"        // the model knows the resulting document
	stUndefined = "undefined" // the notation does not say (out of range, through a scalar, key on array ...): error or any frame-preserving result accepted
)

// modelSet applies set(p, v) to a copy of root. anchor is the location below
// which the document may change (used for the frame check when the result is
// undefined). why names the reason for undefined.
func modelSet(root *Node, p Path, v *Node) (result *Node, status, why string, anchor loc) {
	if len(p) == 0 {
		return v.clone(), stOK, "", loc{}
	}
	last := p[len(p)-1]
	if last.K == "descent" || last.K == "slice" {
		return root, stUndefined, "ends-in-" + last.K, definitePrefix(root, p)
	}
	work := root.clone()
	prefix := p[:len(p)-1]
	if prefix.definite() {
		// walk, creating missing members the way the notation implies
		cur := work
		at := loc{}
		for i, f := range prefix {
			var next *Node
			switch f.K {
			case "child":
				if cur.K != kObj {
					return root, stUndefined, "child-of-" + cur.subKind(), at
				}
				var ok bool
				if next, ok = cur.get(f.Key); !ok {
					nf := p[i+1]
					switch {
					case nf.K == "child":
						next = nObj()
					case nf.K == "nth" && 0 <= nf.N:
						next = &Node{K: kArr}
						for j := 0; j <= nf.N; j++ {
							next.A = append(next.A, nNull())
						}
					default:
						return root, stUndefined, "missing-before-" + nf.K, at
					}
					cur.put(f.Key, next)
				}
				at = at.extend(Step{Key: f.Key})
			case "nth":
				if cur.K != kArr {
					return root, stUndefined, "index-of-" + cur.subKind(), at
				}
				j := f.N
				if j < 0 {
					j += len(cur.A)
				}
				if j < 0 || len(cur.A) <= j {
					return root, stUndefined, "index-out-of-range", at
				}
				next = cur.A[j]
				at = at.extend(Step{Idx: j, Nth: true})
			}
			if !next.isContainer() {
				return root, stUndefined, "through-" + next.subKind(), at
			}
			cur = next
		}
		switch last.K {
		case "child":
			if cur.K != kObj {
				return root, stUndefined, "child-of-" + cur.subKind(), at
			}
			cur.put(last.Key, v.clone())
		case "nth":
			if cur.K != kArr {
				return root, stUndefined, "index-of-" + cur.subKind(), at
			}
			j := last.N
			if j < 0 {
				j += len(cur.A)
			}
			if j < 0 || len(cur.A) <= j {
				return root, stUndefined, "index-out-of-range", at
			}
			cur.A[j] = v.clone()
		case "wild":
			for j := range cur.A {
				cur.A[j] = v.clone()
			}
		case "union":
			if cur.K != kObj {
				return root, stUndefined, "child-of-" + cur.subKind(), at
			}
			for _, k := range last.Keys {
				cur.put(k, v.clone())
			}
		}
		return work, stOK, "", at
	}
	// wildcards / descent before the last fragment: every existing match of the
	// prefix is a parent, the last fragment is applied to each.
	anchor = definitePrefix(root, p)
	parents, fl := evalPathX(work, prefix, true)
	switch {
	case fl.throughScalar:
		return root, stUndefined, "wild-through-scalar", anchor
	case fl.missing:
		// on some branch a member named by the path does not exist: whether
		// it is created there is not something the notation says
		return root, stUndefined, "wild-missing-member", anchor
	}
	if last.K == "nth" {
		for _, m := range parents {
			if m.node.K == kArr {
				if j := last.N; len(m.node.A) <= j || j < -len(m.node.A) {
					return root, stUndefined, "wild-index-out-of-range", anchor
				}
			}
		}
	}
	for _, m := range parents {
		switch last.K {
		case "child":
			if m.node.K == kObj {
				m.node.put(last.Key, v.clone())
			}
		case "nth":
			if m.node.K == kArr {
				j := last.N
				if j < 0 {
					j += len(m.node.A)
				}
				if 0 <= j && j < len(m.node.A) {
					m.node.A[j] = v.clone()
				}
			}
		case "wild":
			for j := range m.node.A {
				m.node.A[j] = v.clone()
			}
		case "union":
			if m.node.K == kObj {
				for _, k := range last.Keys {
					m.node.put(k, v.clone())
				}
			}
		}
	}
	return work, stOK, "", anchor
}

// definitePrefix resolves the leading child/nth fragments of p that exist in
// the tree to a concrete location.
func definitePrefix(root *Node, p Path) loc {
	cur := root
	at := loc{}
	for _, f := range p {
		switch f.K {
		case "child":
			if cur.K != kObj {
				return at
			}
			v, ok := cur.get(f.Key)
			if !ok {
				return at
			}
			at = at.extend(Step{Key: f.Key})
			cur = v
		case "nth":
			if cur.K != kArr {
				return at
			}
			j := f.N
			if j < 0 {
				j += len(cur.A)
			}
			if j < 0 || len(cur.A) <= j {
				return at
			}
			at = at.extend(Step{Idx: j, Nth: true})
			cur = cur.A[j]
		default:
			return at
		}
	}
	return at
}

// modelRemove applies remove(p): every match is taken out of its parent,
// arrays close the gap.
func modelRemove(root *Node, p Path) (result *Node, status, why string, anchor loc) {
	if len(p) == 0 {
		return nNull(), stOK, "", loc{}
	}
	last := p[len(p)-1]
	anchor = definitePrefix(root, p[:len(p)-1])
	if last.K == "descent" {
		return root, stUndefined, "ends-in-descent", anchor
	}
	prefix := p[:len(p)-1]
	if 0 < len(prefix) && prefix[len(prefix)-1].K == "descent" {
		// "..x": remove is defined as a modification of the matches of the
		// prefix; a prefix ending in descent has no such set in the notation.
		return root, stUndefined, "descent-before-last", anchor
	}
	work := root.clone()
	parents, _ := evalPath(work, prefix)
	for _, m := range parents {
		switch last.K {
		case "child":
			if m.node.K == kObj {
				m.node.del(last.Key)
			}
		case "nth":
			if m.node.K == kArr {
				j := last.N
				if j < 0 {
					j += len(m.node.A)
				}
				if 0 <= j && j < len(m.node.A) {
					m.node.A = append(m.node.A[:j:j], m.node.A[j+1:]...)
				}
			}
		case "wild":
			if m.node.isContainer() {
				m.node.A = []*Node{}
				m.node.Keys = nil
			}
		case "union":
			if m.node.K == kObj {
				for _, k := range last.Keys {
					m.node.del(k)
				}
			}
		case "slice":
			if m.node.K == kArr && 0 <= last.N && last.N < len(m.node.A) && (last.N < last.M || last.M < 0) {
				e := last.M
				if len(m.node.A) < e || e < 0 {
					e = len(m.node.A)
				}
				m.node.A = append(m.node.A[:last.N:last.N], m.node.A[e:]...)
			}
		}
	}
	return work, stOK, "", anchor
}
