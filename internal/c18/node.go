// Package c18 monitors the bag (JSON/SEN document) functions and the Go data
// bridge (slip.SimpleObject / slip.Simplify) of slip.
//
// node.go: the harness's own document model. A Node tree is what the
// generator produces and what every observation of the real code (the Go
// any-tree held by a bag instance, Lisp objects returned by bag-get ...) is
// converted to before it is compared. Nothing here calls slip's Equal,
// printer, or ojg's compare.
package c18

import (
	"encoding/json"
	"fmt"
	"math"
	"math/big"
	"sort"
	"strconv"
	"strings"
	"time"
)

// Node kinds.
const (
	kNull  = "null"
	kBool  = "bool"
	kInt   = "int"   // fits int64, value in I
	kBig   = "big"   // number outside int64 (or a decimal too long for a float), decimal text in S
	kFloat = "float" // literal text in S (a Go-parsable float)
	kStr   = "str"
	kTime  = "time" // RFC3339Nano text in S (UTC)
	kArr   = "arr"
	kObj   = "obj"
	kOther = "other" // something the model has no kind for; Go type name in S
)

// Node is one JSON value. Objects keep their keys in Keys and the values, in
// the same order, in A.
type Node struct {
	K    string   `json:"k"`
	B    bool     `json:"b,omitempty"`
	I    int64    `json:"i,omitempty"`
	S    string   `json:"s,omitempty"`
	A    []*Node  `json:"a,omitempty"`
	Keys []string `json:"keys,omitempty"`
}

func nNull() *Node            { return &Node{K: kNull} }
func nBool(b bool) *Node      { return &Node{K: kBool, B: b} }
func nInt(i int64) *Node      { return &Node{K: kInt, I: i} }
func nBig(s string) *Node     { return &Node{K: kBig, S: s} }
func nFloat(s string) *Node   { return &Node{K: kFloat, S: s} }
func nStr(s string) *Node     { return &Node{K: kStr, S: s} }
func nArr(a ...*Node) *Node   { return &Node{K: kArr, A: a} }
func nObj() *Node             { return &Node{K: kObj} }
func nTime(t time.Time) *Node { return &Node{K: kTime, S: t.UTC().Format(time.RFC3339Nano)} }

func (n *Node) put(key string, v *Node) *Node {
	for i, k := range n.Keys {
		if k == key {
			n.A[i] = v
			return n
		}
	}
	n.Keys = append(n.Keys, key)
	n.A = append(n.A, v)
	return n
}

func (n *Node) get(key string) (*Node, bool) {
	for i, k := range n.Keys {
		if k == key {
			return n.A[i], true
		}
	}
	return nil, false
}

func (n *Node) del(key string) {
	for i, k := range n.Keys {
		if k == key {
			n.Keys = append(n.Keys[:i:i], n.Keys[i+1:]...)
			n.A = append(n.A[:i:i], n.A[i+1:]...)
			return
		}
	}
}

func (n *Node) clone() *Node {
	if n == nil {
		return nil
	}
	c := *n
	if n.A != nil {
		c.A = make([]*Node, len(n.A))
		for i, e := range n.A {
			c.A[i] = e.clone()
		}
	}
	if n.Keys != nil {
		c.Keys = append([]string{}, n.Keys...)
	}
	return &c
}

func (n *Node) isContainer() bool { return n.K == kArr || n.K == kObj }

// depth of a tree: scalars 0, containers 1 + max child.
func (n *Node) depth() int {
	if !n.isContainer() {
		return 0
	}
	d := 0
	for _, e := range n.A {
		if x := e.depth(); d < x {
			d = x
		}
	}
	return d + 1
}

func (n *Node) size() int {
	s := 1
	for _, e := range n.A {
		s += e.size()
	}
	return s
}

// walkNodes visits every node (pre-order, object members in key order).
func (n *Node) walkNodes(fn func(*Node)) {
	fn(n)
	for _, e := range n.A {
		e.walkNodes(fn)
	}
}

func (n *Node) has(pred func(*Node) bool) bool {
	found := false
	n.walkNodes(func(x *Node) {
		if pred(x) {
			found = true
		}
	})
	return found
}

// floatVal is the float64 a float node stands for.
func (n *Node) floatVal() float64 {
	f, _ := strconv.ParseFloat(n.S, 64)
	return f
}

// ratVal gives the exact value of a numeric node; ok is false for
// non-finite floats or unparsable text.
func (n *Node) ratVal() (*big.Rat, bool) {
	switch n.K {
	case kInt:
		return new(big.Rat).SetInt64(n.I), true
	case kBig:
		q, ok := new(big.Rat).SetString(n.S)
		return q, ok
	case kFloat:
		f := n.floatVal()
		if math.IsInf(f, 0) || math.IsNaN(f) {
			return nil, false
		}
		return new(big.Rat).SetFloat64(f), true
	}
	return nil, false
}

func (n *Node) isNum() bool { return n.K == kInt || n.K == kBig || n.K == kFloat }

// numClass: integer for int and for big holding an integer, float for
// float, decimal for a big holding a fraction/exponent.
func (n *Node) numClass() string {
	switch n.K {
	case kInt:
		return "integer"
	case kBig:
		if strings.ContainsAny(n.S, ".eE") {
			return "decimal"
		}
		return "integer"
	case kFloat:
		return "float"
	}
	return n.K
}

// fromAny converts a Go any-tree (what a bag holds, what Simplify returns)
// to a Node tree. Go integer kinds other than int64 are reported as other so
// that a change of representation is visible.
func fromAny(v any) *Node {
	switch tv := v.(type) {
	case nil:
		return nNull()
	case bool:
		return nBool(tv)
	case int64:
		return nInt(tv)
	case float64:
		return nFloat(strconv.FormatFloat(tv, 'g', -1, 64))
	case string:
		return nStr(tv)
	case json.Number:
		return nBig(string(tv))
	case time.Time:
		return nTime(tv)
	case []any:
		n := &Node{K: kArr, A: make([]*Node, len(tv))}
		for i, e := range tv {
			n.A[i] = fromAny(e)
		}
		return n
	case map[string]any:
		keys := make([]string, 0, len(tv))
		for k := range tv {
			keys = append(keys, k)
		}
		sort.Strings(keys)
		n := &Node{K: kObj, Keys: keys, A: make([]*Node, len(keys))}
		for i, k := range keys {
			n.A[i] = fromAny(tv[k])
		}
		return n
	}
	return &Node{K: kOther, S: fmt.Sprintf("%T", v)}
}

// toAny builds the plain Go any-tree of a node (int64, float64, string,
// json.Number for big, time.Time, []any, map[string]any).
func (n *Node) toAny() any {
	switch n.K {
	case kNull:
		return nil
	case kBool:
		return n.B
	case kInt:
		return n.I
	case kBig:
		return json.Number(n.S)
	case kFloat:
		return n.floatVal()
	case kStr:
		return n.S
	case kTime:
		t, _ := time.Parse(time.RFC3339Nano, n.S)
		return t.UTC()
	case kArr:
		out := make([]any, len(n.A))
		for i, e := range n.A {
			out[i] = e.toAny()
		}
		return out
	case kObj:
		out := map[string]any{}
		for i, k := range n.Keys {
			out[k] = n.A[i].toAny()
		}
		return out
	}
	return nil
}

// Diff is the first difference between two trees.
type Diff struct {
	Path string // harness notation, e.g. $.a[2].b
	A, B string // kind (or sub-kind) on each side
	Note string
}

func (d *Diff) String() string {
	if d == nil {
		return "equal"
	}
	return fmt.Sprintf("at %s: %s vs %s (%s)", d.Path, d.A, d.B, d.Note)
}

// kinds gives the signature fragment a->b.
func (d *Diff) kinds() string { return d.A + "->" + d.B }

func short(s string) string {
	if 60 < len(s) {
		return s[:57] + "..."
	}
	return s
}

func (n *Node) brief() string {
	switch n.K {
	case kNull:
		return "null"
	case kBool:
		return strconv.FormatBool(n.B)
	case kInt:
		return strconv.FormatInt(n.I, 10)
	case kBig, kFloat:
		return n.S
	case kStr:
		return short(strconv.Quote(n.S))
	case kTime:
		return "@" + n.S
	case kArr:
		return fmt.Sprintf("array(%d)", len(n.A))
	case kObj:
		return fmt.Sprintf("object(%d)", len(n.A))
	}
	return "<" + n.S + ">"
}

// subKind refines the kind for signatures: empty containers and false are
// named because they are where Lisp has no distinct value.
func (n *Node) subKind() string {
	switch n.K {
	case kBool:
		if n.B {
			return "true"
		}
		return "false"
	case kArr:
		if len(n.A) == 0 {
			return "empty-array"
		}
		return "array"
	case kObj:
		if len(n.A) == 0 {
			return "empty-object"
		}
		return "object"
	case kBig:
		if n.numClass() == "decimal" {
			return "bigdecimal"
		}
		return "bigint"
	case kOther:
		return "other:" + n.S
	}
	return n.K
}

// diff compares two trees: numbers by value and class (integer vs float),
// -0.0 = 0.0, times by instant, objects without regard to member order.
func diff(a, b *Node) *Diff { return diffX(a, b, "$", true) }

// diffLoose is diff with numbers compared by value only (JSON text has one
// number type: 100.0 and 100 denote the same number).
func diffLoose(a, b *Node) *Diff { return diffX(a, b, "$", false) }

func diffAt(a, b *Node, path string) *Diff { return diffX(a, b, path, true) }

func diffX(a, b *Node, path string, strict bool) *Diff {
	// (strict: only an expected float found as a decimal kept as text - the
	// lossless form the parsers choose for long literals - not the reverse)
	if (a.K == kFloat && b.K == kBig) || (!strict && a.K == kBig && b.K == kFloat) {
		// a decimal kept as text against a float: the same number when the
		// text denotes that float
		fa, _ := strconv.ParseFloat(a.S, 64)
		fb, _ := strconv.ParseFloat(b.S, 64)
		if fa == fb && !math.IsInf(fa, 0) {
			return nil
		}
	}
	if a.isNum() && b.isNum() {
		qa, oka := a.ratVal()
		qb, okb := b.ratVal()
		switch {
		case !oka || !okb:
			if a.K == b.K && a.K == kFloat {
				fa, fb := a.floatVal(), b.floatVal()
				if fa == fb || (math.IsNaN(fa) && math.IsNaN(fb)) {
					return nil
				}
			}
			return &Diff{Path: path, A: a.subKind(), B: b.subKind(), Note: a.brief() + " vs " + b.brief()}
		case qa.Cmp(qb) != 0:
			return &Diff{Path: path, A: a.subKind(), B: b.subKind(), Note: "value " + a.brief() + " vs " + b.brief()}
		case strict && a.numClass() != b.numClass():
			return &Diff{Path: path, A: a.numClass(), B: b.numClass(), Note: "same value " + a.brief() + ", number class changed"}
		}
		return nil
	}
	if a.K != b.K {
		return &Diff{Path: path, A: a.subKind(), B: b.subKind(), Note: a.brief() + " vs " + b.brief()}
	}
	switch a.K {
	case kBool:
		if a.B != b.B {
			return &Diff{Path: path, A: a.subKind(), B: b.subKind(), Note: "boolean flipped"}
		}
	case kStr:
		if a.S != b.S {
			return &Diff{Path: path, A: "str", B: "str", Note: fmt.Sprintf("%s vs %s", short(strconv.QuoteToASCII(a.S)), short(strconv.QuoteToASCII(b.S)))}
		}
	case kTime:
		ta, _ := time.Parse(time.RFC3339Nano, a.S)
		tb, _ := time.Parse(time.RFC3339Nano, b.S)
		if !ta.Equal(tb) {
			return &Diff{Path: path, A: "time", B: "time", Note: a.S + " vs " + b.S}
		}
	case kOther:
		if a.S != b.S {
			return &Diff{Path: path, A: a.subKind(), B: b.subKind(), Note: "different Go types"}
		}
	case kArr:
		for i := 0; i < len(a.A) && i < len(b.A); i++ {
			if d := diffX(a.A[i], b.A[i], fmt.Sprintf("%s[%d]", path, i), strict); d != nil {
				return d
			}
		}
		if len(a.A) != len(b.A) {
			return &Diff{Path: path, A: "array", B: "array", Note: fmt.Sprintf("length %d vs %d", len(a.A), len(b.A))}
		}
	case kObj:
		ak := append([]string{}, a.Keys...)
		sort.Strings(ak)
		for _, k := range ak {
			av, _ := a.get(k)
			bv, ok := b.get(k)
			if !ok {
				return &Diff{Path: path, A: "object", B: "object", Note: fmt.Sprintf("member %s missing on the right", strconv.QuoteToASCII(k))}
			}
			if d := diffX(av, bv, path+"."+pathKey(k), strict); d != nil {
				return d
			}
		}
		bk := append([]string{}, b.Keys...)
		sort.Strings(bk)
		for _, k := range bk {
			if _, ok := a.get(k); !ok {
				return &Diff{Path: path, A: "object", B: "object", Note: fmt.Sprintf("extra member %s on the right", strconv.QuoteToASCII(k))}
			}
		}
	}
	return nil
}

func pathKey(k string) string {
	if isIdent(k) {
		return k
	}
	return "[" + strconv.QuoteToASCII(k) + "]"
}

func isIdent(k string) bool {
	if k == "" {
		return false
	}
	for i, c := range k {
		switch {
		case 'a' <= c && c <= 'z', 'A' <= c && c <= 'Z', c == '_':
		case '0' <= c && c <= '9':
			if i == 0 {
				return false
			}
		default:
			return false
		}
	}
	return true
}

// canon is a canonical one-line rendering (sorted members) used for multiset
// comparison of walk/get-all results and for messages.
func (n *Node) canon() string {
	var b strings.Builder
	n.canonTo(&b)
	return b.String()
}

func (n *Node) canonTo(b *strings.Builder) {
	switch n.K {
	case kNull:
		b.WriteString("null")
	case kBool:
		b.WriteString(strconv.FormatBool(n.B))
	case kInt:
		b.WriteString(strconv.FormatInt(n.I, 10))
	case kBig:
		if q, ok := n.ratVal(); ok && q.IsInt() {
			b.WriteString(q.Num().String())
		} else if ok {
			b.WriteString("big:" + q.RatString())
		} else {
			b.WriteString("big:" + n.S)
		}
	case kFloat:
		f := n.floatVal()
		if f == 0 {
			f = 0
		}
		b.WriteString("f:" + strconv.FormatFloat(f, 'g', -1, 64))
	case kStr:
		b.WriteString(strconv.QuoteToASCII(n.S))
	case kTime:
		t, _ := time.Parse(time.RFC3339Nano, n.S)
		b.WriteString("@" + strconv.FormatInt(t.UnixNano(), 10))
	case kOther:
		b.WriteString("<" + n.S + ">")
	case kArr:
		b.WriteByte('[')
		for i, e := range n.A {
			if 0 < i {
				b.WriteByte(',')
			}
			e.canonTo(b)
		}
		b.WriteByte(']')
	case kObj:
		idx := make([]int, len(n.Keys))
		for i := range idx {
			idx[i] = i
		}
		sort.Slice(idx, func(x, y int) bool { return n.Keys[idx[x]] < n.Keys[idx[y]] })
		b.WriteByte('{')
		for i, j := range idx {
			if 0 < i {
				b.WriteByte(',')
			}
			b.WriteString(strconv.QuoteToASCII(n.Keys[j]))
			b.WriteByte(':')
			n.A[j].canonTo(b)
		}
		b.WriteByte('}')
	}
}

// stripRoot gives the members of a container as an array (the root itself is
// left out of a property asked of what is nested in it).
func (n *Node) stripRoot() *Node { return &Node{K: kArr, A: n.A} }
