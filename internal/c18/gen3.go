package c18

// gen3.go: third-round blocks - one value reached through two routes (a bag
// value stored at two places, a sub-tree copied inside one bag through the
// results of get / get-all / walk / modify), hash-table values, texts whose
// tokens straddle the 4096 byte read buffer of the stream parsers, objects
// that use the *bag-time-wrap* key as an ordinary member, surrogate pair
// escapes.

import (
	"math/rand/v2"
	"strings"

	"verif/internal/fw"
)

// ---------------------------------------------------------------- one value, two routes

// AliasCase: a container is copied inside one bag (or one bag value is stored
// at two places), then one of the two copies is changed at Inner; the other
// copy - a disjoint path - must stay as it was.
type AliasCase struct {
	Route string `json:"route"`
	Src   Path   `json:"src,omitempty"`  // where the copied value comes from (modify routes: the multi-match path)
	Dst   Path   `json:"dst,omitempty"`  // where the copy goes
	Dst2  Path   `json:"dst2,omitempty"` // value-twice: the second place
	Val   *Node  `json:"val,omitempty"`  // value-twice, modify routes: the value
	Inner Path   `json:"inner"`          // definite path below the copied value
	Op    string `json:"op"`             // set | remove
	Side  string `json:"side"`           // the copy that is changed: src | dst
}

// routes that copy the value found at Src to Dst
var aliasCopyRoutes = []string{"get-as-bag", "send-get-as-bag", "get-all-bag-list", "get-all-bag", "walk-as-bag", "native-copy"}

// routes that store the bag value Val
var aliasValueRoutes = []string{"value-twice", "modify-returns-bag", "modify-returns-bag-lisp-arg"}

func aliasDoc() *Node {
	return nObj().
		put("a", nObj().put("k", nInt(1)).put("l", nArr(nInt(1), nObj().put("m", nInt(2)))).put("o", nObj().put("p", nInt(3)))).
		put("s", nArr(nObj().put("k", nInt(1)), nObj().put("k", nInt(2)), nObj().put("k", nInt(3)))).
		put("z", nInt(0))
}

type aliasInner struct {
	p       Path
	setOnly bool
}

type aliasIdx struct {
	route    string
	src, dst Path
	dst2     Path
	val      *Node
	inner    aliasInner
	op, side int
}

func aliasIndex() []aliasIdx {
	var out []aliasIdx
	objInner := []aliasInner{
		{Path{fChild("k")}, false}, {Path{fChild("l"), fNth(0)}, false}, {Path{fChild("l"), fNth(1), fChild("m")}, false},
		{Path{fChild("o"), fChild("p")}, false}, {Path{fChild("o")}, false}, {Path{fChild("zz_new")}, true}, {Path{fChild("o"), fChild("zz_new")}, true},
	}
	arrInner := []aliasInner{{Path{fNth(0)}, false}, {Path{fNth(1), fChild("m")}, false}, {Path{fNth(-1)}, false}, {Path{fNth(1), fChild("zz_new")}, true}}
	add := func(route string, src, dst, dst2 Path, val *Node, inners []aliasInner) {
		for _, in := range inners {
			for op := 0; op < 2; op++ {
				if in.setOnly && op == 1 {
					continue
				}
				for side := 0; side < 2; side++ {
					out = append(out, aliasIdx{route: route, src: src, dst: dst, dst2: dst2, val: val, inner: in, op: op, side: side})
				}
			}
		}
	}
	for _, route := range aliasCopyRoutes {
		for _, dst := range []Path{{fChild("c")}, {fChild("s"), fNth(1)}} {
			add(route, Path{fChild("a")}, dst, nil, nil, objInner)
			add(route, Path{fChild("a"), fChild("l")}, dst, nil, nil, arrInner)
		}
	}
	objVal := nObj().put("k", nInt(1)).put("l", nArr(nInt(1), nObj().put("m", nInt(2)))).put("o", nObj().put("p", nInt(3)))
	arrVal := nArr(nInt(1), nObj().put("m", nInt(2)), nArr(nInt(5)))
	add("value-twice", nil, Path{fChild("c")}, Path{fChild("s"), fNth(0)}, objVal, objInner)
	add("value-twice", nil, Path{fChild("a"), fChild("k")}, Path{fChild("d"), fChild("e")}, arrVal, arrInner)
	for _, route := range aliasValueRoutes[1:] {
		add(route, Path{fChild("s"), fWild()}, nil, nil, objVal, objInner)
		add(route, Path{fWild()}, nil, nil, arrVal, arrInner)
	}
	return out
}

var pAliasIndex = aliasIndex()

func nAliasProbes() int { return len(pAliasIndex) }

func aliasProbe(i int) Case {
	ix := pAliasIndex[i]
	a := &AliasCase{Route: ix.route, Src: ix.src, Dst: ix.dst, Dst2: ix.dst2, Inner: ix.inner.p, Op: []string{"set", "remove"}[ix.op], Side: []string{"src", "dst"}[ix.side]}
	if ix.val != nil {
		a.Val = ix.val.clone()
	}
	return Case{Kind: "alias", Doc: aliasDoc(), Alias: a, Probe: "alias"}
}

// lossyInLisp: values the native Lisp form has no distinct value for.
func lossyInLisp(n *Node) bool {
	return n.has(func(x *Node) bool {
		return (x.isContainer() && len(x.A) == 0) || (x.K == kBool && !x.B)
	})
}

// genAlias: a seeded document, a container somewhere in it, a place for the
// copy that is neither above nor below the source, a location below the value.
func genAlias(r *rand.Rand, i int) Case {
	for try := 0; try < 30; try++ {
		doc := randPathDoc(r, 2+r.IntN(3), false)
		locs := allLocs(doc)
		var conts, objs []match
		for _, m := range locs {
			if m.node.isContainer() && 0 < len(m.at) && 0 < len(m.node.A) {
				conts = append(conts, m)
			}
			if m.node.K == kObj {
				objs = append(objs, m)
			}
		}
		if len(conts) == 0 {
			continue
		}
		a := &AliasCase{Op: fw.Pick(r, []string{"set", "set", "remove"}), Side: fw.Pick(r, []string{"src", "dst"})}
		var val *Node
		valueRoute := r.IntN(3) == 0
		if valueRoute {
			a.Route = fw.Pick(r, aliasValueRoutes)
			val, _ = randNestedValue(r)
			for lossyInLisp(val) && a.Route == "modify-returns-bag-lisp-arg" {
				val = fw.Pick(r, pNestedValues).clone()
			}
			a.Val = val
		} else {
			a.Route = fw.Pick(r, aliasCopyRoutes)
		}
		src := conts[r.IntN(len(conts))]
		// a place for the copy: a new member of an object, or an existing location
		place := func(avoid loc) (Path, bool) {
			for k := 0; k < 10; k++ {
				var p Path
				var at loc
				if 0 < len(objs) && r.IntN(2) == 0 {
					o := objs[r.IntN(len(objs))]
					at = o.at.extend(Step{Key: "cp_" + string(rune('a'+k))})
				} else {
					m := locs[r.IntN(len(locs))]
					if len(m.at) == 0 {
						continue
					}
					at = m.at
				}
				if avoid != nil && related(at, avoid) {
					continue
				}
				p = at.path()
				return p, true
			}
			return nil, false
		}
		switch a.Route {
		case "value-twice":
			p1, ok1 := place(nil)
			if !ok1 {
				continue
			}
			l1 := definitePrefix(mustSet(doc, p1, val), p1)
			p2, ok2 := place(l1)
			if !ok2 {
				continue
			}
			a.Dst, a.Dst2 = p1, p2
		case "modify-returns-bag", "modify-returns-bag-lisp-arg":
			if len(src.node.A) < 2 {
				continue
			}
			a.Src = append(src.at.path(), fWild())
		default:
			val = src.node
			if a.Route == "native-copy" && lossyInLisp(val) {
				a.Route = "get-as-bag"
			}
			p, ok := place(src.at)
			if !ok {
				continue
			}
			a.Src, a.Dst = src.at.path(), p
		}
		// a location below the value
		below := allLocs(val)
		var inner loc
		if a.Op == "set" && r.IntN(4) == 0 {
			var os []match
			for _, m := range below {
				if m.node.K == kObj {
					os = append(os, m)
				}
			}
			if 0 < len(os) {
				inner = os[r.IntN(len(os))].at.extend(Step{Key: "zz_new"})
			}
		}
		if inner == nil {
			if len(below) < 2 {
				continue
			}
			inner = below[1+r.IntN(len(below)-1)].at
		}
		a.Inner = inner.path()
		if r.IntN(3) == 0 {
			a.Inner = negatePath(val, a.Inner)
		}
		return Case{Kind: "alias", Doc: doc, Alias: a}
	}
	return aliasProbe(r.IntN(nAliasProbes()))
}

// ---------------------------------------------------------------- hash-table values

// emptyBelowRoot: an empty container somewhere inside a container value.
func emptyBelowRoot(n *Node) bool {
	for _, e := range n.A {
		if e.has(func(x *Node) bool { return x.isContainer() && len(x.A) == 0 }) {
			return true
		}
	}
	return false
}

func hasObject(n *Node) bool { return n.has(func(x *Node) bool { return x.K == kObj }) }

// hashLossy: what a hash-table value loses on the pinned tree (its members are
// converted with Simplify: :false becomes a string, numbers beyond int64 and
// float64 become strings).
func hashLossy(n *Node) bool {
	return n.has(func(x *Node) bool { return (x.K == kBool && !x.B) || x.K == kBig })
}

var hashProbeVals = []*Node{
	nObj().put("a", nInt(1)).put("s", nStr("x y")).put("n", nNull()).put("t", nBool(true)).put("f", nFloat("2.5")),
	nObj(),
	nObj().put("o", nObj()).put("p", nObj().put("q", nObj())),
	nObj().put("h", nObj().put("x", nInt(1)).put("y", nArr(nInt(1), nObj().put("z", nInt(2))))),
	nArr(nObj().put("a", nInt(1)), nObj().put("b", nArr(nObj().put("c", nNull())))),
	nObj().put("w", nTime(baseTime)),
	nObj().put("é k", nInt(1)).put("", nInt(2)),
	nObj().put("f", nBool(false)),
	nObj().put("l", nArr(nBool(false), nInt(1))),
	nObj().put("n", nBig("18446744073709551616")),
	nObj().put("d", nBig("0.1234567890123456789012")),
	nObj().put("i", nInt(1<<62)).put("j", nInt(-(1<<53)-1)),
}

var hashProbePaths = []Path{nil, {fChild("new")}, {fChild("a"), fNth(1)}, {fChild("h"), fWild(), fChild("k")}, {fChild("b"), fChild("c"), fChild("new"), fChild("n2")}}

func nHashProbes() int { return len(hashProbeVals) * len(hashProbePaths) * 2 * 2 }

func hashProbe(i int) Case {
	send := i%2 == 1
	i /= 2
	mode := []string{"hash", "hash-assoc"}[i%2]
	i /= 2
	p := hashProbePaths[i%len(hashProbePaths)]
	v := hashProbeVals[i/len(hashProbePaths)].clone()
	if mode == "hash-assoc" && emptyBelowRoot(v) {
		mode = "hash" // an assoc list cannot denote an empty object
	}
	op := Op{Op: "set", Path: p, PStr: p.render(0), Val: v, ValMode: mode, Send: send, NoPath: p == nil}
	ops := []Op{op}
	// then a member below the stored value is changed: the members of a hash
	// table must have become bag data of their own
	if v.K == kObj && p != nil && p.definite() {
		p2 := append(append(Path{}, p...), fChild("zz_new"))
		ops = append(ops, Op{Op: "set", Path: p2, PStr: p2.render(0), Val: nInt(77), ValMode: "lisp"})
	}
	doc := pathProbeDoc()
	doc.del("w") // (the written form of a time is a string)
	if !v.has(func(x *Node) bool { return x.K == kTime }) {
		ops = append(ops, Op{Op: "write"})
	}
	return Case{Kind: "path", Doc: doc, Ops: ops, Probe: "path:hash-table"}
}

// ---------------------------------------------------------------- tokens across the read buffer edge

// The stream parsers read 4096 bytes at a time. The tail of the text is moved
// over that edge one byte at a time so that every byte of every kind of token
// (string with escapes and multi-byte characters, number, literal, member
// name, braces) is once the first byte of the second read.
var edgeEntries = []string{"bag-read", "init-read", "each-bag-stream", "each-bag-file", "json-parse-stream", "json-parse-strict-stream", "load-bag", "make-bag"}

func edgeTail() []*Node {
	return []*Node{nStr("é中\U0001F600\n\"q\\ é"), nFloat("-12345.6789e-3"), nBool(true), nNull(), nBool(false),
		nObj().put("kéy", nArr(nStr("x y"), nInt(1))).put("k2", nObj()), nInt(922337203685477580), nStr("end")}
}

func edgeText(pad int, sen bool, escapes bool) (string, *Node) {
	doc := nArr(nStr(strings.Repeat("a", pad)))
	doc.A = append(doc.A, edgeTail()...)
	w := &renderer{sen: sen, r: rand.New(rand.NewPCG(uint64(pad), 4096))}
	if escapes {
		w.uEscape = 1
		w.surrogate = false
	}
	w.node(doc)
	return w.b.String(), doc
}

const (
	edgeSize  = 4096
	edgeSpan  = 136 // longer than the rendered tail in every style
	edgeFirst = edgeSize - edgeSpan
)

func nEdgeProbes() int { return (edgeSpan + 6) * len(edgeEntries) }

func edgeProbe(i int) Case {
	entry := edgeEntries[i%len(edgeEntries)]
	k := i / len(edgeEntries)
	pad := edgeFirst + k
	if k%16 == 7 {
		pad += edgeSize // the third read instead of the second
	}
	sen := k%2 == 1 && entry != "json-parse-strict-stream"
	text, doc := edgeText(pad, sen, k%3 == 0)
	c := Case{Kind: "text", Doc: doc, Fmt: "json", Text: text, Entry: entry, W: &WOpts{Pretty: 0, Depth: -1, Margin: -1, JSON: k % 2, Color: -1}, Probe: "text:buffer-edge"}
	if sen {
		c.Fmt = "sen"
	}
	return c
}

// ---------------------------------------------------------------- the time-wrap key as an ordinary member

// Under a *bag-time-wrap* setting an object with the wrap key as its ONLY
// member and a time text (or, with the nano format, an integer) as its value
// is a time. An object that has the key among other members, or the key with
// a value that is not a time, is an ordinary object and must stay one.
func wrapKeyDocs(tc *TimeCfg) []*Node {
	var tv *Node
	if tc.Format == "nano" {
		tv = nInt(1704164645123456789)
	} else {
		tv = nStr("2024-01-02T03:04:05.123456789Z")
	}
	k := tc.Wrap
	return []*Node{
		nObj().put(k, tv.clone()).put("x", nInt(1)),
		nObj().put("x", nInt(1)).put(k, tv.clone()).put("y", nArr()),
		nArr(nObj().put(k, tv.clone()).put("x", nInt(1)), nTime(baseTime)),
		nObj().put(k, nStr("hello")),
		nObj().put(k, nNull()),
		nObj().put(k, nArr(nInt(1))),
		nObj().put(k, nTime(baseTime)).put("n", nInt(2)),
		nObj().put("v", nObj().put(k, nObj().put(k, nTime(baseTime)))),
		nObj().put(k, nBool(true)).put(k+"2", tv.clone()),
	}
}

var wrapCfgs = func() []*TimeCfg {
	var out []*TimeCfg
	for i := range timeCfgs {
		if timeCfgs[i].Wrap != "" {
			out = append(out, &timeCfgs[i])
		}
	}
	return out
}()

var wrapEntries = []string{"make-bag", "make-bag-octets", "make-instance", "bag-parse", "send-parse", "bag-read", "init-read"}

func nWrapKeyProbes() int { return len(wrapCfgs) * 9 * len(wrapEntries) }

func wrapKeyProbe(i int) Case {
	entry := wrapEntries[i%len(wrapEntries)]
	i /= len(wrapEntries)
	tc := wrapCfgs[i%len(wrapCfgs)]
	doc := wrapKeyDocs(tc)[i/len(wrapCfgs)]
	sen := i%2 == 1
	rr := rand.New(rand.NewPCG(uint64(i), 77))
	wo := probeWOpts[i%len(probeWOpts)]
	wo.TimeKW = i%3 == 0
	c := Case{Kind: "text", Doc: doc, Fmt: "json", Entry: entry, Time: tc, W: &wo, Probe: "text:time-wrap-key"}
	if sen {
		c.Fmt = "sen"
	}
	c.Text = renderTextTime(rr, doc, sen, true, tc)
	return c
}

// ---------------------------------------------------------------- surrogate pair escapes

var surrogateStrings = []string{"\U0001F600", "a\U0001F600b", "\U00010000", "\U0010FFFF", "x \U0001F680\U0001F600 y", "é\U0001F600中"}

func nSurrogateProbes() int { return len(surrogateStrings) * 2 * 3 }

func surrogateProbe(i int) Case {
	s := surrogateStrings[i%len(surrogateStrings)]
	i /= len(surrogateStrings)
	sen := i%2 == 1
	entry := []string{"make-bag", "json-parse", "bag-read"}[i/2]
	doc := nObj().put("v", nStr(s)).put("l", nArr(nStr(s), nInt(1)))
	w := &renderer{sen: false, surrogate: true, r: rand.New(rand.NewPCG(uint64(i), 5))}
	w.node(doc)
	c := Case{Kind: "text", Doc: doc, Fmt: "json", Text: w.b.String(), Entry: entry, W: &probeWOpts[1], Probe: "text:surrogate-escape", Esc: "surrogate"}
	if sen {
		// SEN text: the same, quoted strings (a bare token cannot hold an escape)
		c.Fmt = "sen"
		c.Text = strings.ReplaceAll(c.Text, ",", " ")
	}
	return c
}
