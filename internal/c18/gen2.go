package c18

// gen2.go: second-round blocks - exact integers through every Lisp->bag
// route, the write-option grid, remove-heavy histories on root arrays and
// root objects with negative indices on every level, multi-document inputs
// (each-bag, json-parse) and file based entry points.

import (
	"math"
	"math/rand/v2"

	"verif/internal/fw"
)

// ---------------------------------------------------------------- exact integers

// IntCase: one integer pushed through one route from Lisp data into a bag
// (or from a bag to Lisp data and back).
type IntCase struct {
	V   int64  `json:"v"`
	Via string `json:"via"`
}

func exactInts() []int64 {
	var out []int64
	seen := map[int64]bool{}
	add := func(v int64) {
		if !seen[v] {
			seen[v] = true
			out = append(out, v)
		}
	}
	around := func(c int64) {
		for d := int64(-3); d <= 3; d++ {
			// stay inside int64
			if (0 < d && math.MaxInt64-d < c) || (d < 0 && c < math.MinInt64-d) {
				continue
			}
			add(c + d)
			if c+d != math.MinInt64 {
				add(-(c + d))
			}
		}
	}
	around(1 << 53)
	around(1 << 54)
	around(1 << 62)
	around(math.MaxInt64)
	around(math.MinInt64)
	around(1 << 31)
	around(1 << 32)
	for _, v := range []int64{0, 1, -1, 999999999999999999, 1000000000000000001, 9007199254740993, 9007199254740995, 4611686018427387905,
		1234567890123456789, -1234567890123456789, 3002399751580331, 72057594037927937, 1152921504606846977} {
		add(v)
	}
	return out
}

var (
	pExactInts = exactInts()
	intVias    = []string{"set-path", "set-new", "set-root", "set-in-list", "set-in-assoc", "send-set", "make-bag-native", "make-instance-set",
		"native-trip", "modify", "modify-as-bag", "get-all-native", "walk", "write-json", "write-sen", "set-in-hash", "copy-as-bag"}
)

func nIntProbes() int { return len(pExactInts) * len(intVias) }

func intProbe(i int) Case {
	return Case{Kind: "ints", Int: &IntCase{V: pExactInts[i%len(pExactInts)], Via: intVias[i/len(pExactInts)]}, Probe: "ints"}
}

func genInts(r *rand.Rand) Case {
	var v int64
	switch r.IntN(4) {
	case 0:
		v = fw.Pick(r, pExactInts)
	case 1:
		v = int64(r.Uint64())
	case 2:
		v = int64(r.Uint64() >> uint(r.IntN(12)))
		if r.IntN(2) == 0 {
			v = -v
		}
	default:
		v = (1 << 53) + int64(r.IntN(1<<20)) - 1<<19
	}
	return Case{Kind: "ints", Int: &IntCase{V: v, Via: fw.Pick(r, intVias)}}
}

// ---------------------------------------------------------------- write option grid

// gridDocs: a fixed document set for the write-option grid: deep nesting,
// wide containers, long and escaped strings, empty containers, scalars at the
// root - none of the constructs listed as findings.
func gridDocs() []*Node {
	deep := nInt(1)
	for d := 0; d < 5; d++ {
		if d%2 == 0 {
			deep = nObj().put("k", deep).put("n", nArr(nInt(int64(d)), nStr("x y")))
		} else {
			deep = nArr(deep, nNull(), nObj().put("e", nArr()))
		}
	}
	wide := nObj()
	for i, k := range []string{"alpha", "beta", "gamma", "delta", "epsilon", "zeta", "eta", "theta", "iota", "kappa", "lambda", "mu"} {
		wide.put(k, nArr(nInt(int64(i*1000003)), nFloat("0.5"), nStr(k+" "+k), nBool(i%2 == 0)))
	}
	long := ""
	for i := 0; i < 40; i++ {
		long += "lorem ipsum "
	}
	strs := nArr(nStr(long), nStr("q\"uote"), nStr("back\\slash"), nStr("line\nfeed\ttab"), nStr("é中\U0001F600"), nStr(""), nStr("a b"), nStr("{x:[1]}"),
		nStr("\u0001\u007f"), nObj().put("k k", nStr("v v")).put("", nInt(0)).put("é", nNull()))
	empties := nObj().put("a", nArr()).put("o", nObj()).put("n", nNull()).put("l", nArr(nArr(), nObj(), nArr(nArr(nArr()))))
	nums := nArr(nInt(0), nInt(-1), nInt(1<<53), nInt(-(1 << 62)), nFloat("0.1"), nFloat("-2.5e-7"), nFloat("1.5e300"), nFloat("123456.789"), nBool(true), nBool(false))
	matrix := &Node{K: kArr}
	for i := 0; i < 6; i++ {
		row := &Node{K: kArr}
		for j := 0; j < 6; j++ {
			row.A = append(row.A, nInt(int64(i*6+j)))
		}
		matrix.A = append(matrix.A, row)
	}
	return []*Node{deep, wide, strs, empties, nums, matrix, nStr("just a string"), nInt(42), nArr(), nObj()}
}

var (
	pGridDocs  = gridDocs()
	gridPretty = []int{-1, 0, 1}
	gridDepth  = []int{-1, 0, 1, 2, 3, 4, 5, 7}
	gridMargin = []int{-1, 1, 10, 20, 40, 80, 200}
	gridJSON   = []int{-1, 0, 1}
	gridColor  = []int{-1, 0}
)

func nGridProbes() int {
	return len(pGridDocs) * len(gridPretty) * len(gridDepth) * len(gridMargin) * len(gridJSON) * len(gridColor)
}

func gridProbe(i int) Case {
	w := WOpts{}
	w.Color = gridColor[i%len(gridColor)]
	i /= len(gridColor)
	w.JSON = gridJSON[i%len(gridJSON)]
	i /= len(gridJSON)
	w.Margin = gridMargin[i%len(gridMargin)]
	i /= len(gridMargin)
	w.Depth = gridDepth[i%len(gridDepth)]
	i /= len(gridDepth)
	w.Pretty = gridPretty[i%len(gridPretty)]
	i /= len(gridPretty)
	doc := pGridDocs[i]
	w.Send = (i+w.Depth)%2 == 0
	w.Stream = (i+w.Margin)%3 == 0
	return Case{Kind: "text", Doc: doc, Fmt: "json", Text: compactJSON(doc), Entry: "make-bag", W: &w, Probe: "text:grid"}
}

// ---------------------------------------------------------------- remove-heavy histories

// negatePath rewrites every index fragment that can be resolved against the
// document as the equivalent negative index.
func negatePath(doc *Node, p Path) Path {
	out := append(Path{}, p...)
	cur := doc
	for i, f := range out {
		if cur == nil {
			break
		}
		switch f.K {
		case "child":
			if cur.K != kObj {
				cur = nil
				continue
			}
			cur, _ = cur.get(f.Key)
		case "nth":
			if cur.K != kArr {
				cur = nil
				continue
			}
			j := f.N
			if j < 0 {
				j += len(cur.A)
			}
			if j < 0 || len(cur.A) <= j {
				cur = nil
				continue
			}
			out[i] = fNth(j - len(cur.A))
			cur = cur.A[j]
		default:
			cur = nil
		}
	}
	return out
}

func removeDocs() []*Node {
	arr := nArr(
		nArr(nInt(1), nInt(2), nInt(3)),
		nArr(nInt(4), nArr(nInt(5), nInt(6)), nObj().put("a", nArr(nInt(7), nInt(8)))),
		nObj().put("a", nArr(nInt(9), nInt(10))).put("b", nObj().put("c", nInt(11))),
		nInt(12), nNull())
	obj := nObj().
		put("a", nArr(nArr(nInt(1), nInt(2)), nArr(nInt(3), nArr(nInt(4), nInt(5))))).
		put("b", nObj().put("c", nArr(nInt(6), nObj().put("d", nInt(7)))).put("e", nNull())).
		put("f", nInt(8))
	return []*Node{arr, obj}
}

var pRemoveDocs = removeDocs()

// second steps of the deterministic remove block (applied to the document
// after the first removal)
var removeSeconds = []Path{{fNth(0)}, {fNth(-1)}, {fWild()}, {fNth(1), fNth(-1)}, {fChild("a"), fNth(-1)}, {fChild("b"), fChild("c"), fNth(0)}, {fWild(), fNth(0)}}

func removeProbeCount() (perDoc []int, total int) {
	for _, d := range pRemoveDocs {
		n := (len(allLocs(d)) - 1) * 2 * len(removeSeconds)
		perDoc = append(perDoc, n)
		total += n
	}
	return
}

func nRemoveProbes() int { _, t := removeProbeCount(); return t }

func removeProbe(i int) Case {
	per, _ := removeProbeCount()
	di := 0
	for per[di] <= i {
		i -= per[di]
		di++
	}
	doc := pRemoveDocs[di]
	second := removeSeconds[i%len(removeSeconds)]
	i /= len(removeSeconds)
	neg := i%2 == 1
	m := allLocs(doc)[1+i/2]
	p1 := m.at.path()
	if neg {
		p1 = negatePath(doc, p1)
	}
	ops := []Op{{Op: "remove", Path: p1, PStr: p1.render(i % 8), Send: i%3 == 0, PObj: i%4 == 0}}
	cur := doc
	if res, st, _, _ := modelRemove(doc, p1); st == stOK {
		cur = res
	}
	ops = append(ops, Op{Op: "remove", Path: second, PStr: second.render(0)})
	if res, st, _, _ := modelRemove(cur, second); st == stOK {
		cur = res
	}
	// then a set at the (new) first location of the document, and a removal of
	// the (new) last element of the root if it is an array
	if locs := allLocs(cur); 1 < len(locs) {
		p3 := locs[1].at.path()
		ops = append(ops, Op{Op: "set", Path: p3, PStr: p3.render(0), Val: nStr("set"), ValMode: "lisp"})
	}
	if cur.K == kArr {
		ops = append(ops, Op{Op: "remove", Path: Path{fNth(-1)}, PStr: "[-1]"})
	}
	return Case{Kind: "path", Doc: doc, Ops: ops, Probe: "path:remove-grid"}
}

// randRemoveHistory: six steps, removals interleaved with sets and queries,
// every resolvable index written as a negative index.
func randRemoveHistory(r *rand.Rand, doc *Node) []Op {
	ops := make([]Op, 0, 6)
	cur := doc.clone()
	for i := 0; i < 6; i++ {
		var op Op
		pick := func() Path {
			p := randPath(r, cur, false)
			if r.IntN(4) != 0 {
				p = negatePath(cur, p)
			}
			return p
		}
		switch x := r.IntN(20); {
		case x < 9:
			op.Op = "remove"
			op.Path = pick()
			for try := 0; try < 4 && 1 < len(op.Path) && op.Path[len(op.Path)-2].K == "descent"; try++ {
				op.Path = pick()
			}
			if res, st, _, _ := modelRemove(cur, op.Path); st == stOK {
				cur = res
			}
		case x < 15:
			op.Op = "set"
			op.Path = pick()
			op.Val, op.ValMode = randSetValue(r, op.Path.hasDescent() || (avoidSharedSet && !op.Path.definite()), false)
			if op.ValMode == "text" || op.ValMode == "stream" {
				op.Op = "parse"
			}
			if res, st, _, _ := modelSet(cur, op.Path, op.Val); st == stOK {
				cur = res
			}
		case x < 17:
			op.Op = fw.Pick(r, []string{"get", "has"})
			op.Path = pick()
		default:
			op.Op = fw.Pick(r, []string{"walk", "getall"})
			op.Path = pick()
		}
		finishOp(r, &op)
		ops = append(ops, op)
		if !cur.isContainer() || len(cur.A) == 0 {
			// refill so that the remaining steps have something to work on
			v := nArr(nInt(1), nArr(nInt(2), nInt(3)), nObj().put("a", nInt(4)))
			if doc.K == kObj {
				v = nObj().put("a", nArr(nInt(1), nInt(2))).put("b", nObj().put("c", nInt(3)))
			}
			ops = append(ops, Op{Op: "set", NoPath: true, Val: v, ValMode: "lisp"})
			cur = v.clone()
		}
	}
	return ops
}

func genRemovePath(r *rand.Rand, i int) Case {
	var doc *Node
	for try := 0; ; try++ {
		doc = randPathDoc(r, 3+r.IntN(2), false)
		// root arrays and root objects in turn
		if (doc.K == kArr) == ((i/10)%2 == 0) || 20 < try {
			break
		}
	}
	return Case{Kind: "path", Doc: doc, Ops: randRemoveHistory(r, doc), Probe: "remove-heavy"}
}

// ---------------------------------------------------------------- several documents in one input

var multiEntries = []string{"each-bag-stream", "each-bag-file", "json-parse", "json-parse-strict", "json-parse-stream"}

func genMulti(r *rand.Rand, i int) Case {
	p := &profile{nullVal: true, falseVal: true, emptyC: true, oddKeys: true, control: true, maxWidth: 4, integralF: true}
	n := 1 + r.IntN(5)
	c := Case{Kind: "multi", Entry: multiEntries[(i/10)%len(multiEntries)]}
	sen := r.IntN(2) == 0 && c.Entry != "json-parse-strict"
	c.Fmt = "json"
	if sen {
		c.Fmt = "sen"
	}
	for k := 0; k < n; k++ {
		d := randContainerDoc(r, p, 1+r.IntN(3))
		c.Docs = append(c.Docs, d)
		if 0 < k {
			c.Text += []string{"\n", " ", "\n\n", "\t", ""}[r.IntN(5)]
		}
		c.Text += renderText(r, d, sen, true)
	}
	return c
}

func nMultiProbes() int { return len(multiEntries) * 4 }

func multiProbe(i int) Case {
	docs := []*Node{nObj().put("a", nInt(1)), nArr(nInt(2), nStr("x")), nObj(), nArr(nObj().put("k", nNull())), nObj().put("z", nArr())}
	c := Case{Kind: "multi", Entry: multiEntries[i%len(multiEntries)], Fmt: "json", Probe: "multi"}
	n := 1 + (i/len(multiEntries))*1
	if len(docs) < n {
		n = len(docs)
	}
	sep := []string{"\n", "", " ", "\n\n"}[i/len(multiEntries)]
	for k := 0; k <= n; k++ {
		d := docs[k%len(docs)]
		c.Docs = append(c.Docs, d)
		if 0 < k {
			c.Text += sep
		}
		c.Text += compactJSON(d)
	}
	return c
}

// ---------------------------------------------------------------- nested values stored at several locations

// A value with containers nested inside it is stored through a path that
// matches several locations; then one nested part below one match is changed
// or removed, and the same part below every other match is read (the matches
// must not share any of their containers).

type multiForm struct {
	doc  func() *Node
	path Path
}

var multiForms = []multiForm{
	{func() *Node { return nObj().put("a", nInt(1)).put("b", nInt(2)).put("c", nInt(3)) }, Path{fWild()}},
	{func() *Node { return nArr(nInt(1), nInt(2), nInt(3)) }, Path{fWild()}},
	{func() *Node {
		return nObj().put("a", nObj().put("k", nInt(0))).put("b", nObj().put("k", nInt(0))).put("c", nObj().put("k", nInt(0)))
	}, Path{fDescent(), fChild("k")}},
	{func() *Node { return nObj().put("a", nInt(1)).put("b", nInt(2)).put("c", nInt(3)) }, Path{fUnion("a", "b")}},
	{func() *Node {
		return nArr(nObj().put("v", nInt(0)), nObj().put("v", nInt(0)), nObj().put("v", nInt(0)))
	}, Path{fSlice(0, -1), fChild("v")}},
	{func() *Node { return nObj().put("a", nObj().put("v", nInt(0))).put("b", nObj().put("v", nInt(0))) }, Path{fWild(), fChild("v")}},
	{func() *Node { return nObj().put("x", nArr(nInt(1), nInt(2))).put("y", nInt(0)) }, Path{fChild("x"), fWild()}},
}

func nestedValues() []*Node {
	return []*Node{
		nArr(nArr(nInt(1), nInt(2)), nArr(nInt(3), nInt(4))),                                           // list of lists
		nArr(nObj().put("p", nInt(1)), nObj().put("q", nInt(2))),                                       // list of maps
		nObj().put("l", nArr(nInt(1), nInt(2))).put("m", nArr(nInt(3))),                                // map of lists
		nObj().put("o", nObj().put("p", nInt(1)).put("q", nInt(2))),                                    // map of maps
		nObj().put("l", nArr(nObj().put("p", nInt(1)), nObj().put("q", nArr(nInt(1), nInt(2))))),       // map of list of maps (of list)
		nArr(nArr(nArr(nInt(1)), nArr(nInt(2), nInt(3)))),                                              // list of list of lists
		nArr(nObj().put("l", nArr(nInt(1), nInt(2))), nInt(5)),                                         // list of map of list
		nObj().put("o", nObj().put("l", nArr(nInt(1), nArr(nInt(2))))),                                 // map of map of list of list
		nArr(nInt(0), nArr(nObj().put("p", nObj().put("z", nInt(1))))),                                 // list of list of map of map
		nObj().put("a", nArr(nArr(nObj().put("p", nInt(1))))).put("b", nObj().put("c", nArr(nInt(1)))), // mixed
		nObj(),                                   // empty map: nothing to copy, but each match needs its own
		nObj().put("e", nObj()).put("l", nArr()), // empty containers inside
		nArr(nObj(), nArr()),                     // list of empty containers
	}
}

var pNestedValues = nestedValues()

// inner < 0: a NEW member is created in the object at location -inner-1 of
// the value (op is set)
type nestedIdx struct{ form, val, inner, op, target int }

func nestedIndex() []nestedIdx {
	var out []nestedIdx
	for f := range multiForms {
		for v, val := range pNestedValues {
			n := len(allLocs(val)) - 1
			for l := 0; l < n; l++ {
				for op := 0; op < 2; op++ {
					for t := 0; t < 2; t++ {
						out = append(out, nestedIdx{f, v, l, op, t})
					}
				}
			}
			for l, m := range allLocs(val) {
				if m.node.K == kObj {
					for t := 0; t < 2; t++ {
						out = append(out, nestedIdx{f, v, -l - 1, 0, t})
					}
				}
			}
		}
	}
	return out
}

var pNestedIndex = nestedIndex()

func nNestedProbes() int { return len(pNestedIndex) }

func nestedProbe(i int) Case {
	ix := pNestedIndex[i]
	form := multiForms[ix.form]
	doc := form.doc()
	val := pNestedValues[ix.val].clone()
	mode := []string{"lisp", "bag", "text", "stream"}[i%4]
	if mode == "lisp" && lossyInLisp(val) {
		mode = "bag"
	}
	first := Op{Op: "set", Path: form.path, PStr: form.path.render(1), Val: val, ValMode: mode, Send: i%3 == 0, PObj: i%5 == 0}
	if mode == "text" || mode == "stream" {
		first.Op = "parse"
	}
	ops := []Op{first}
	after, st, _, _ := modelSet(doc, form.path, val)
	if st != stOK {
		return Case{Kind: "path", Doc: doc, Ops: ops, Probe: "path:nested-copy"}
	}
	ms, _ := evalPath(after, form.path)
	var inner loc
	if ix.inner < 0 {
		inner = allLocs(val)[-ix.inner-1].at.extend(Step{Key: "zz_new"})
	} else {
		inner = allLocs(val)[1+ix.inner].at
	}
	target := ms[0]
	if ix.target == 1 {
		target = ms[len(ms)-1]
	}
	at := func(m match) Path { return append(m.at.path(), inner.path()...) }
	tp := at(target)
	if ix.op == 0 {
		ops = append(ops, Op{Op: "set", Path: tp, PStr: tp.render(0), Val: nInt(99), ValMode: "lisp"})
	} else {
		ops = append(ops, Op{Op: "remove", Path: tp, PStr: tp.render(0)})
	}
	for k, m := range ms {
		if m.at.String() == target.at.String() {
			continue
		}
		op := at(m)
		ops = append(ops, Op{Op: []string{"get", "has", "walk", "getall"}[(k+i)%4], Path: op, PStr: op.render(0)})
	}
	ops = append(ops, Op{Op: "write"})
	return Case{Kind: "path", Doc: doc, Ops: ops, Probe: "path:nested-copy"}
}

// randNestedValue: a container with containers nested 2-3 deep, for values
// stored at several locations.
func randNestedValue(r *rand.Rand) (*Node, string) {
	var v *Node
	if r.IntN(3) == 0 {
		v = fw.Pick(r, pNestedValues).clone()
	} else {
		p := &profile{nullVal: true, falseVal: true, maxWidth: 3}
		for try := 0; ; try++ {
			v = randContainerDoc(r, p, 2+r.IntN(2))
			if 2 <= v.depth() || 10 < try {
				break
			}
		}
	}
	mode := fw.Pick(r, []string{"lisp", "lisp", "bag", "text", "stream"})
	if mode == "lisp" && lossyInLisp(v) {
		mode = "bag"
	}
	return v, hashMode(r, v, mode)
}
