package c18

import (
	"fmt"
	"math"
	"math/big"
	"os"
	"reflect"
	"sort"
	"strconv"
	"strings"
	"time"

	"github.com/ohler55/slip"
	"github.com/ohler55/slip/pkg/bag"
	"github.com/ohler55/slip/pkg/flavors"

	"verif/internal/fw"
	"verif/internal/sl"
)

// world is the per-case state: the scope the real code runs in and what the
// monitor has seen.
type world struct {
	x     *fw.Ctx
	scope *slip.Scope
	obs   map[string]any
	evals int
}

func newWorld(x *fw.Ctx) *world {
	w := &world{x: x, scope: slip.NewScope(), obs: map[string]any{}}
	x.Observe(w.obs)
	return w
}

func (w *world) eval(src string) (slip.Object, *sl.Err) {
	w.evals++
	return sl.Eval(w.scope, src)
}

func (w *world) let(name string, v slip.Object) { w.scope.Let(slip.Symbol(name), v) }

// bagOf extracts the Go any-tree a bag instance holds.
func bagOf(obj slip.Object) (*flavors.Instance, bool) {
	inst, ok := obj.(*flavors.Instance)
	if !ok || inst == nil || inst.Type != bag.Flavor() {
		return nil, false
	}
	return inst, true
}

func errSlug(e *sl.Err) string {
	if e.Internal {
		return "internal-fault"
	}
	return "error"
}

// ---------------------------------------------------------------- Lisp <-> model

// toLisp builds the native Lisp form of a node the way bag-native documents
// it: assoc lists for objects, lists for arrays, :false for false.
func toLisp(n *Node) slip.Object {
	switch n.K {
	case kNull:
		return nil
	case kBool:
		if n.B {
			return slip.True
		}
		return slip.Symbol(":false")
	case kInt:
		return slip.Fixnum(n.I)
	case kBig:
		if bi, ok := new(big.Int).SetString(n.S, 10); ok {
			return (*slip.Bignum)(bi)
		}
		if bf, _, err := big.ParseFloat(n.S, 10, uint(float64(len(n.S))*3.33)+16, big.ToNearestEven); err == nil {
			return (*slip.LongFloat)(bf)
		}
		return slip.DoubleFloat(n.floatVal())
	case kFloat:
		return slip.DoubleFloat(n.floatVal())
	case kStr:
		return slip.String(n.S)
	case kTime:
		t, _ := time.Parse(time.RFC3339Nano, n.S)
		return slip.Time(t.UTC())
	case kArr:
		l := make(slip.List, len(n.A))
		for i, e := range n.A {
			l[i] = toLisp(e)
		}
		return l
	case kObj:
		l := make(slip.List, len(n.A))
		for i, k := range n.Keys {
			l[i] = slip.List{slip.String(k), slip.Tail{Value: toLisp(n.A[i])}}
		}
		return l
	}
	return nil
}

// matchLisp checks that a Lisp object is the native form of a node. Lisp has
// one value for null, false and the empty containers, so nil is accepted for
// all of them (and :false for false); everything else must match exactly.
func matchLisp(obj slip.Object, n *Node, path string) *Diff {
	bad := func(note string) *Diff {
		return &Diff{Path: path, A: n.subKind(), B: "lisp:" + sl.Kind(obj), Note: note + ": " + short(sl.Show(obj)) + " for " + n.brief()}
	}
	isNil := obj == nil
	if l, ok := obj.(slip.List); ok && len(l) == 0 {
		isNil = true
	}
	switch n.K {
	case kNull:
		if !isNil {
			return bad("null must be nil")
		}
	case kBool:
		switch {
		case n.B && obj != slip.True:
			return bad("true must be t")
		case !n.B && !isNil && obj != slip.Symbol(":false"):
			return bad("false must be nil or :false")
		}
	case kInt:
		if f, ok := obj.(slip.Fixnum); !ok || int64(f) != n.I {
			return bad("integer")
		}
	case kBig:
		q, _ := n.ratVal()
		switch to := obj.(type) {
		case slip.Fixnum:
			// a number kept as text that does fit an int64
			if q == nil || !q.IsInt() || !q.Num().IsInt64() || q.Num().Int64() != int64(to) {
				return bad("big integer")
			}
		case *slip.Bignum:
			if q == nil || !q.IsInt() || q.Num().Cmp((*big.Int)(to)) != 0 {
				return bad("big integer")
			}
		case *slip.LongFloat:
			// a binary float of the precision the decimal text asks for: it
			// must denote that decimal (its shortest decimal text is the number)
			bf := (*big.Float)(to)
			r, ok := new(big.Rat).SetString(bf.Text('g', -1))
			if q == nil || !ok || r.Cmp(q) != 0 {
				return bad("big decimal")
			}
		default:
			return bad("big number")
		}
	case kFloat:
		f, ok := obj.(slip.DoubleFloat)
		want := n.floatVal()
		if !ok || !(float64(f) == want || (math.IsNaN(want) && math.IsNaN(float64(f)))) {
			return bad("float")
		}
	case kStr:
		if s, ok := obj.(slip.String); !ok || string(s) != n.S {
			return bad("string")
		}
	case kTime:
		t, ok := obj.(slip.Time)
		want, _ := time.Parse(time.RFC3339Nano, n.S)
		if !ok || !time.Time(t).Equal(want) {
			return bad("time")
		}
	case kArr:
		if len(n.A) == 0 {
			if !isNil {
				return bad("empty array must be nil")
			}
			return nil
		}
		l, ok := obj.(slip.List)
		if !ok || len(l) != len(n.A) {
			return bad("array")
		}
		for i, e := range n.A {
			if d := matchLisp(l[i], e, fmt.Sprintf("%s[%d]", path, i)); d != nil {
				return d
			}
		}
	case kObj:
		if len(n.A) == 0 {
			if !isNil {
				return bad("empty object must be nil")
			}
			return nil
		}
		l, ok := obj.(slip.List)
		if !ok || len(l) != len(n.A) {
			return bad("object must be an assoc list of the same size")
		}
		seen := map[string]bool{}
		// the assoc list comes in map iteration order: judge it in key order
		sorted := append(slip.List{}, l...)
		sort.SliceStable(sorted, func(i, j int) bool {
			pi, _ := sorted[i].(slip.List)
			pj, _ := sorted[j].(slip.List)
			if len(pi) == 0 || len(pj) == 0 {
				return len(pi) < len(pj)
			}
			ki, _ := pi[0].(slip.String)
			kj, _ := pj[0].(slip.String)
			return ki < kj
		})
		for _, e := range sorted {
			pair, ok := e.(slip.List)
			if !ok || len(pair) != 2 {
				return bad("assoc item must be a cons")
			}
			k, ok := pair[0].(slip.String)
			if !ok {
				return bad("assoc key must be a string")
			}
			v, has := n.get(string(k))
			if !has || seen[string(k)] {
				return bad("unexpected key " + strconv.QuoteToASCII(string(k)))
			}
			seen[string(k)] = true
			val := pair[1]
			if t, isTail := val.(slip.Tail); isTail {
				val = t.Value
			} else {
				return bad("assoc item must be a dotted pair")
			}
			if d := matchLisp(val, v, path+"."+pathKey(string(k))); d != nil {
				return d
			}
		}
	}
	return nil
}

// ---------------------------------------------------------------- text round trip

func writeForm(w *WOpts, dest string) string {
	var b strings.Builder
	if w.Send {
		b.WriteString("(send b :write")
	} else {
		b.WriteString("(bag-write b")
	}
	if dest != "" {
		b.WriteString(" " + dest)
	}
	tn := func(v int) string {
		if v == 1 {
			return "t"
		}
		return "nil"
	}
	if 0 <= w.Pretty {
		b.WriteString(" :pretty " + tn(w.Pretty))
	}
	if 0 <= w.Depth {
		fmt.Fprintf(&b, " :depth %d", w.Depth)
	}
	if 0 <= w.Margin {
		fmt.Fprintf(&b, " :right-margin %d", w.Margin)
	}
	if 0 <= w.JSON {
		b.WriteString(" :json " + tn(w.JSON))
	}
	if 0 <= w.Color {
		b.WriteString(" :color " + tn(w.Color))
	}
	if w.TimeKW {
		b.WriteString(" :time-format tf :time-wrap tw")
	}
	b.WriteString(")")
	return b.String()
}

// parseInto gets text into a bag through the named entry point.
func (w *world) parseInto(entry, text string) (*flavors.Instance, *sl.Err) {
	all, err := w.parseAll(entry, text)
	if err != nil {
		return nil, err
	}
	if len(all) != 1 {
		return nil, &sl.Err{Class: "harness", Msg: fmt.Sprintf("%s delivered %d documents, 1 expected", entry, len(all))}
	}
	return all[0], nil
}

// parseAll gets text into bags through the named entry point; entry points
// that take several documents deliver them in input order.
func (w *world) parseAll(entry, text string) ([]*flavors.Instance, *sl.Err) {
	w.let("txt", slip.String(text))
	var src string
	list := false
	const collect = `(lambda (x) (setq acc (cons x acc)))`
	file := func() *sl.Err {
		name := "c18-input.sen"
		if err := os.WriteFile(name, []byte(text), 0o600); err != nil {
			return &sl.Err{Class: "harness", Msg: "cannot write the input file: " + err.Error()}
		}
		w.let("fname", slip.String(name))
		return nil
	}
	switch entry {
	case "", "make-bag":
		src = `(make-bag txt)`
	case "make-bag-octets":
		w.let("oct", slip.Octets([]byte(text)))
		src = `(make-bag oct)`
	case "make-instance":
		src = `(make-instance 'bag-flavor :parse txt)`
	case "bag-parse":
		src = `(bag-parse (make-instance 'bag-flavor) txt)`
	case "send-parse":
		src = `(send (make-instance 'bag-flavor) :parse txt)`
	case "json-parse":
		src = `(let ((acc '())) (json-parse ` + collect + ` txt) acc)`
		list = true
	case "json-parse-strict":
		src = `(let ((acc '())) (json-parse ` + collect + ` txt t) acc)`
		list = true
	case "json-parse-stream":
		src = `(let ((acc '())) (json-parse ` + collect + ` (make-string-input-stream txt)) acc)`
		list = true
	case "json-parse-strict-stream":
		src = `(let ((acc '())) (json-parse ` + collect + ` (make-string-input-stream txt) t) acc)`
		list = true
	case "json-parse-octets":
		w.let("oct", slip.Octets([]byte(text)))
		src = `(let ((acc '())) (json-parse ` + collect + ` oct) acc)`
		list = true
	case "json-parse-strict-octets":
		w.let("oct", slip.Octets([]byte(text)))
		src = `(let ((acc '())) (json-parse ` + collect + ` oct t) acc)`
		list = true
	case "bag-read":
		src = `(bag-read (make-instance 'bag-flavor) (make-string-input-stream txt))`
	case "init-read":
		src = `(make-instance 'bag-flavor :read (make-string-input-stream txt))`
	case "load-bag":
		if err := file(); err != nil {
			return nil, err
		}
		src = `(load-bag fname)`
	case "each-bag-stream":
		src = `(let ((acc '())) (each-bag (make-string-input-stream txt) ` + collect + `) acc)`
		list = true
	case "each-bag-file":
		if err := file(); err != nil {
			return nil, err
		}
		src = `(let ((acc '())) (each-bag fname ` + collect + `) acc)`
		list = true
	case "discover", "discover-strict", "discover-stream", "discover-strict-stream", "discover-octets":
		// the document embedded in prose; the callback returns nil (= go on)
		prose := "log line 17: " + text + " :end of line"
		w.let("txt", slip.String(prose))
		w.let("oct", slip.Octets([]byte(prose)))
		arg := map[string]string{"discover": "txt", "discover-strict": "txt t", "discover-stream": "(make-string-input-stream txt)",
			"discover-strict-stream": "(make-string-input-stream txt) t", "discover-octets": "oct"}[entry]
		src = `(let ((acc '())) (discover-json (lambda (x) (setq acc (cons x acc)) nil) ` + arg + `) acc)`
		list = true
	default:
		panic("unknown entry " + entry)
	}
	res, err := w.eval(src)
	if err != nil {
		return nil, err
	}
	var objs slip.List
	if list {
		l, _ := res.(slip.List)
		for i := len(l) - 1; 0 <= i; i-- { // acc is in reverse order of delivery
			objs = append(objs, l[i])
		}
	} else {
		objs = slip.List{res}
	}
	out := make([]*flavors.Instance, len(objs))
	for i, o := range objs {
		inst, ok := bagOf(o)
		if !ok {
			return nil, &sl.Err{Class: "harness", Msg: "result is not a bag: " + sl.Show(o)}
		}
		out[i] = inst
	}
	return out, nil
}

// ---------------------------------------------------------------- several documents in one input

func execMulti(x *fw.Ctx, c Case) {
	w := newWorld(x)
	x.Cover("kind:multi")
	x.Cover("multi:entry=" + c.Entry)
	x.Cover(fmt.Sprintf("multi:documents=%d", len(c.Docs)))
	if c.Probe != "" {
		x.Cover("block:" + c.Probe)
	}
	w.obs["text"] = short(c.Text)
	got, err := w.parseAll(c.Entry, c.Text)
	if err != nil {
		x.Fail(fmt.Sprintf("multi entry=%s fail=input-rejected %s", c.Entry, errSlug(err)), "%d %s documents rejected by %s: %s\ntext: %s", len(c.Docs), c.Fmt, c.Entry, err, c.Text)
		return
	}
	if len(got) != len(c.Docs) {
		x.Fail(fmt.Sprintf("multi entry=%s fail=document-count", c.Entry), "%s delivered %d documents, the text holds %d\ntext: %s", c.Entry, len(got), len(c.Docs), c.Text)
		return
	}
	for i, b := range got {
		if d := diffLoose(c.Docs[i], fromAny(b.Any)); d != nil {
			x.Fail(fmt.Sprintf("multi entry=%s fail=document-differs", c.Entry), "document %d of %d delivered by %s differs from the one in the text %s\ntext: %s", i+1, len(got), c.Entry, d, c.Text)
			return
		}
	}
	// the delivered bags must be independent of each other
	for i, b := range got {
		if 1 < len(got) {
			w.let("b", b)
			if _, err := w.eval(`(bag-set b 99 "zz_probe")`); err == nil {
				for j, o := range got {
					if j != i {
						if d := diffLoose(c.Docs[j], fromAny(o.Any)); d != nil {
							x.Fail(fmt.Sprintf("multi entry=%s fail=documents-share-data", c.Entry), "setting a member in document %d changed document %d: %s", i+1, j+1, d)
							return
						}
					}
				}
			}
			break
		}
	}
	x.Cover("multi:ok")
}

// ---------------------------------------------------------------- exact integers

// execInts pushes one integer through one route between Lisp data and a bag
// and requires the exact value, held as an integer, at the other end.
func execInts(x *fw.Ctx, c Case) {
	w := newWorld(x)
	v := c.Int.V
	via := c.Int.Via
	x.Cover("kind:ints")
	x.Cover("ints:via=" + via)
	switch a := v; {
	case a < 0 && -a < 0:
		x.Cover("ints:magnitude=2^63")
	case a > 1<<53 || a < -(1<<53):
		x.Cover("ints:magnitude>2^53")
	default:
		x.Cover("ints:magnitude<=2^53")
	}
	if c.Probe != "" {
		x.Cover("block:" + c.Probe)
	}
	fix := slip.Fixnum(v)
	w.let("v", fix)
	bad := func(what, format string, a ...any) {
		x.Fail(fmt.Sprintf("ints via=%s fail=%s", via, what), "integer %d via %s: %s", v, via, fmt.Sprintf(format, a...))
	}
	// judge a Go value that must be int64(v)
	judgeAny := func(where string, got any) bool {
		n := fromAny(got)
		switch {
		case n.K == kInt && n.I == v:
			return true
		case n.isNum():
			if q, ok := n.ratVal(); ok && q.Cmp(new(big.Rat).SetInt64(v)) == 0 {
				bad("kind-changed", "%s holds the value as %s (%s), not as an integer", where, n.subKind(), n.brief())
			} else {
				bad("value-changed", "%s holds %s (%s)", where, n.brief(), n.subKind())
			}
		default:
			bad("value-changed", "%s holds %s (%s)", where, n.brief(), n.subKind())
		}
		return false
	}
	judgeLisp := func(where string, got slip.Object) bool {
		if f, ok := got.(slip.Fixnum); ok && int64(f) == v {
			return true
		}
		bad("lisp-value-changed", "%s is %s (%s)", where, sl.Show(got), sl.Kind(got))
		return false
	}
	at := func(b *flavors.Instance, l loc) (any, bool) {
		n := b.Any
		for _, s := range l {
			switch tn := n.(type) {
			case []any:
				if !s.Nth || len(tn) <= s.Idx {
					return nil, false
				}
				n = tn[s.Idx]
			case map[string]any:
				var ok bool
				if n, ok = tn[s.Key]; !ok || s.Nth {
					return nil, false
				}
			default:
				return nil, false
			}
		}
		return n, true
	}
	check := func(src string, where loc, getPath string) {
		res, err := w.eval(src)
		if err != nil {
			bad(errSlug(err), "%s => %s", src, err)
			return
		}
		b, ok := bagOf(res)
		if !ok {
			bad("result-type", "%s => %s", src, sl.Show(res))
			return
		}
		got, found := at(b, where)
		if !found {
			bad("value-missing", "%s: nothing at %s in %s", src, where, short(fromAny(b.Any).canon()))
			return
		}
		if !judgeAny(src+" at "+where.String(), got) {
			return
		}
		w.let("r", b)
		w.let("gp", slip.String(getPath))
		back, err := w.eval(`(bag-get r gp)`)
		if getPath == "" {
			back, err = w.eval(`(bag-get r)`)
		}
		if err != nil {
			bad("get-"+errSlug(err), "(bag-get r %q) => %s", getPath, err)
			return
		}
		if judgeLisp(fmt.Sprintf("(bag-get r %q) after %s", getPath, src), back) {
			x.Cover("ints:exact")
		}
	}
	holder := func() *flavors.Instance {
		inst := bag.Flavor().MakeInstance().(*flavors.Instance)
		inst.Any = map[string]any{"a": []any{v, "s"}, "k": map[string]any{"n": v}}
		return inst
	}
	switch via {
	case "set-path":
		check(`(bag-set (make-bag "{a:[0 1]}") v "a[1]")`, loc{{Key: "a"}, {Idx: 1, Nth: true}}, "a[1]")
	case "set-new":
		check(`(bag-set (make-bag "{}") v "n.m")`, loc{{Key: "n"}, {Key: "m"}}, "n.m")
	case "set-root":
		check(`(bag-set (make-bag "{}") v)`, loc{}, "")
	case "set-in-list":
		w.let("val", slip.List{slip.String("s"), fix, slip.List{fix}})
		check(`(bag-set (make-bag "{}") val "l")`, loc{{Key: "l"}, {Idx: 2, Nth: true}, {Idx: 0, Nth: true}}, "l[1]")
	case "set-in-assoc":
		w.let("val", slip.List{slip.List{slip.String("n"), slip.Tail{Value: fix}}, slip.List{slip.Symbol("m"), slip.Tail{Value: slip.List{fix}}}})
		check(`(bag-set (make-bag "[0]") val "[0]")`, loc{{Idx: 0, Nth: true}, {Key: "n"}}, "[0].m[0]")
	case "send-set":
		check(`(send (make-bag "{a:1}") :set v "a")`, loc{{Key: "a"}}, "a")
	case "set-in-hash":
		w.let("val", slip.HashTable{slip.String("n"): fix, slip.String("l"): slip.List{fix}, slip.String("h"): slip.HashTable{slip.String("m"): fix}})
		check(`(bag-set (make-bag "{}") val "t")`, loc{{Key: "t"}, {Key: "h"}, {Key: "m"}}, "t.l[0]")
	case "copy-as-bag":
		w.let("h", holder())
		check(`(bag-set h (bag-get h "k" t) "c")`, loc{{Key: "c"}, {Key: "n"}}, "c.n")
	case "make-bag-native":
		w.let("val", slip.List{fix, slip.List{slip.List{slip.String("n"), slip.Tail{Value: fix}}}})
		check(`(make-bag val)`, loc{{Idx: 1, Nth: true}, {Key: "n"}}, "[0]")
	case "make-instance-set":
		w.let("val", slip.List{slip.List{slip.String("n"), slip.Tail{Value: fix}}})
		check(`(make-instance 'bag-flavor :set val)`, loc{{Key: "n"}}, "n")
	case "native-trip":
		w.let("h", holder())
		nat, err := w.eval(`(bag-native h)`)
		if err != nil {
			bad(errSlug(err), "(bag-native h) => %s", err)
			return
		}
		want := nObj().put("a", nArr(nInt(v), nStr("s"))).put("k", nObj().put("n", nInt(v)))
		if d := matchLisp(nat, want, "$"); d != nil {
			bad("lisp-value-changed", "(bag-native h) is %s: %s", short(sl.Show(nat)), d)
			return
		}
		w.let("val", nat)
		check(`(make-bag val)`, loc{{Key: "k"}, {Key: "n"}}, "a[0]")
	case "modify", "modify-as-bag":
		w.let("h", holder())
		src := `(bag-modify h (lambda (x) x) "a[0]")`
		if via == "modify-as-bag" {
			src = `(bag-modify h (lambda (x) x) "a" :as-bag t)`
		}
		check(src, loc{{Key: "a"}, {Idx: 0, Nth: true}}, "k.n")
	case "get-all-native":
		w.let("h", holder())
		res, err := w.eval(`(bag-get-all h "..n" :native)`)
		if err != nil {
			bad(errSlug(err), "bag-get-all => %s", err)
			return
		}
		if l, _ := res.(slip.List); len(l) == 1 && judgeLisp(`(bag-get-all h "..n" :native)`, l[0]) {
			x.Cover("ints:exact")
		} else if len(l) != 1 {
			bad("lisp-value-changed", "(bag-get-all h \"..n\" :native) => %s", sl.Show(res))
		}
	case "walk":
		w.let("h", holder())
		res, err := w.eval(`(let ((acc '())) (bag-walk h (lambda (x) (setq acc (cons x acc))) "a[0]") acc)`)
		if err != nil {
			bad(errSlug(err), "bag-walk => %s", err)
			return
		}
		if l, _ := res.(slip.List); len(l) == 1 && judgeLisp(`bag-walk on "a[0]"`, l[0]) {
			x.Cover("ints:exact")
		} else if len(l) != 1 {
			bad("lisp-value-changed", "bag-walk on a[0] collected %s", sl.Show(res))
		}
	case "write-json", "write-sen":
		w.let("h", holder())
		src := `(bag-write h :pretty nil :json t)`
		if via == "write-sen" {
			src = `(bag-write h :pretty t :json nil)`
		}
		res, err := w.eval(src)
		out, _ := res.(slip.String)
		if err != nil {
			bad(errSlug(err), "%s => %s", src, err)
			return
		}
		// the decimal digits of v must appear twice, delimited by non-digits
		digits := strconv.FormatInt(v, 10)
		n := 0
		text := string(out)
		for i := 0; i+len(digits) <= len(text); i++ {
			if text[i:i+len(digits)] == digits &&
				(i == 0 || !strings.ContainsRune("0123456789.-", rune(text[i-1]))) &&
				(i+len(digits) == len(text) || !strings.ContainsRune("0123456789.eE", rune(text[i+len(digits)]))) {
				n++
			}
		}
		if n != 2 {
			bad("written-value-changed", "%s => %s", src, text)
			return
		}
		x.Cover("ints:exact")
	default:
		panic("unknown ints via " + via)
	}
}

func execText(x *fw.Ctx, c Case) {
	w := newWorld(x)
	x.Cover("kind:text")
	x.Cover("text:in=" + c.Fmt)
	x.Cover("text:entry=" + c.Entry)
	if c.Probe != "" {
		x.Cover("block:" + c.Probe)
	}
	w.obs["text"] = short(c.Text)
	if c.Time != nil {
		x.Cover("text:time-format=" + c.Time.Format + " wrap=" + c.Time.Wrap)
		w.let("tf", slip.String(c.Time.Format))
		w.let("tw", slip.String(c.Time.Wrap))
		if c.Time.Wrap == "" {
			w.let("tw", nil)
		}
		defer func() { _, _ = w.eval(`(setq *bag-time-wrap* nil) (setq *bag-time-format* nil)`) }()
		if _, err := w.eval(`(setq *bag-time-format* tf) (setq *bag-time-wrap* tw)`); err != nil {
			x.Fail("text fail=time-setting "+errSlug(err), "setting *bag-time-format* %q *bag-time-wrap* %q => %s", c.Time.Format, c.Time.Wrap, err)
			return
		}
	}
	b1, err := w.parseInto(c.Entry, c.Text)
	if err != nil {
		x.Fail(fmt.Sprintf("text fail=input-rejected in=%s %s", c.Fmt, errSlug(err)), "%s text rejected by %s: %s\ntext: %s", c.Fmt, c.Entry, err, c.Text)
		return
	}
	t1 := fromAny(b1.Any)
	if d := diffLoose(c.Doc, t1); d != nil {
		esc := ""
		if c.Esc != "" && d.A == "str" && d.B == "str" {
			esc = " esc=" + c.Esc
			x.Cover("text:escape-style=" + c.Esc)
		}
		x.Fail(fmt.Sprintf("text fail=parse-fidelity in=%s at=%s%s", c.Fmt, d.kinds(), esc), "the bag parsed from %s text differs from the document the text denotes %s\ntext: %s", c.Fmt, d, c.Text)
		// the round trip relation is still judged on what the bag holds
	}
	w.let("b", b1)
	wo := c.W
	x.Cover("text:out=" + wo.label())
	x.Cover(fmt.Sprintf("text:pretty=%d", wo.Pretty))
	if 0 <= wo.Depth {
		x.Cover(fmt.Sprintf("text:depth=%d", wo.Depth))
	}
	if 0 <= wo.Margin {
		x.Cover("text:right-margin")
	}
	var src string
	if wo.Stream {
		x.Cover("text:to-stream")
		src = `(let ((os (make-string-output-stream))) ` + writeForm(wo, "os") + ` (get-output-stream-string os))`
	} else {
		dest := ""
		if wo.Send || w.evals%2 == 0 {
			dest = "nil"
		}
		src = writeForm(wo, dest)
	}
	if c.Time != nil && wo.TimeKW {
		// the time setting comes from the keywords of this call only; it is in
		// force again for the reading of the written text
		x.Cover("text:time-setting-by-write-keywords")
		src = `(progn (setq *bag-time-wrap* nil) (setq *bag-time-format* nil) (let ((out ` + src + `)) (setq *bag-time-format* tf) (setq *bag-time-wrap* tw) out))`
	}
	res, err := w.eval(src)
	if err != nil {
		x.Fail(fmt.Sprintf("text fail=write-%s fmt=%s", errSlug(err), wo.label()), "%s => %s\nbag: %s", src, err, t1.canon())
		return
	}
	if c.Time != nil && wo.TimeKW {
		// the keywords of one call must not have become the setting
		_, _ = w.eval(`(setq *bag-time-format* tf) (setq *bag-time-wrap* tw)`)
	}
	out, ok := res.(slip.String)
	if !ok {
		x.Fail("text fail=write-result fmt="+wo.label(), "%s returned %s, not a string", src, sl.Show(res))
		return
	}
	w.obs["written"] = short(string(out))
	// the bag must not have been changed by writing it
	if d := diff(t1, fromAny(b1.Any)); d != nil {
		x.Fail("text fail=write-mutates-bag fmt="+wo.label(), "%s changed the bag %s", src, d)
	}
	reparse := func(entry string) {
		b2, err := w.parseInto(entry, string(out))
		if err != nil {
			x.Fail(fmt.Sprintf("text fail=reparse-%s fmt=%s", errSlug(err), wo.label()), "text written by %s is rejected by %s: %s\nbag: %s\nwritten: %s", src, entry, err, short(t1.canon()), string(out))
			return
		}
		t2 := fromAny(b2.Any)
		if d := diffLoose(t1, t2); d != nil {
			x.Fail(fmt.Sprintf("text fail=changed fmt=%s at=%s", wo.label(), d.kinds()), "bag -> %s -> %s gives a different bag %s\nwritten: %s", src, entry, d, string(out))
			return
		}
		// slip's own comparison of the two bags must agree with the verdict
		w.let("b2", b2)
		if cmp, err := w.eval(`(bag-compare b b2)`); err != nil || cmp != nil {
			x.Fail("text fail=bag-compare-disagrees fmt="+wo.label(), "the re-read bag equals the original (harness comparison) but (bag-compare b b2) => %s %v\nwritten: %s", short(sl.Show(cmp)), err, string(out))
			return
		}
		x.Cover("text:bag-compare-agrees")
		if diff(t1, t2) != nil {
			// same numbers, but a float came back as an integer (or the
			// reverse): JSON text has one number type, so this is not a
			// difference between the bags as JSON documents
			x.Cover("text:number-class-changed")
		}
		x.Cover("text:roundtrip-ok:" + entry)
	}
	reparse("make-bag")
	if wo.isJSON() && !x.Failed() && c.Time == nil {
		reparse("json-parse-strict")
	}
	x.CoverN("text:nodes", t1.size())
	coverDoc(x, "text", c.Doc)
}

// coverDoc counts what a document is made of: nesting depth, scalar kinds,
// the classes of characters in its strings and member names, container sizes.
func coverDoc(x *fw.Ctx, kind string, doc *Node) {
	x.Cover(fmt.Sprintf("%s:doc-depth=%d", kind, doc.depth()))
	cnt := map[string]int{}
	doc.walkNodes(func(n *Node) {
		switch n.K {
		case kStr:
			for _, cl := range strClasses(n.S) {
				cnt["string:"+cl]++
			}
			cnt["scalar:str"]++
		case kObj:
			for _, k := range n.Keys {
				for _, cl := range strClasses(k) {
					cnt["member-name:"+cl]++
				}
			}
			cnt["container:"+sizeClass(len(n.A))+"-object"]++
		case kArr:
			cnt["container:"+sizeClass(len(n.A))+"-array"]++
		case kInt:
			switch {
			case n.I > 1<<53 || n.I < -(1<<53):
				cnt["scalar:int>2^53"]++
			default:
				cnt["scalar:int"]++
			}
		default:
			cnt["scalar:"+n.subKind()]++
		}
	})
	for k, v := range cnt {
		x.CoverN(kind+":"+k, v)
	}
}

func sizeClass(n int) string {
	switch {
	case n == 0:
		return "empty"
	case n == 1:
		return "single"
	case n <= 5:
		return "small"
	}
	return "wide"
}

func strClasses(s string) []string {
	if s == "" {
		return []string{"empty"}
	}
	set := map[string]bool{}
	for _, c := range s {
		switch {
		case c == '"' || c == '\\':
			set["quote-or-backslash"] = true
		case c < 0x20 || c == 0x7f:
			set["control"] = true
		case c < 0x80:
			set["ascii"] = true
		case c < 0x10000:
			set["non-ascii-bmp"] = true
		default:
			set["astral"] = true
		}
	}
	if 64 < len(s) {
		set["long"] = true
	}
	out := make([]string, 0, len(set))
	for k := range set {
		out = append(out, k)
	}
	sort.Strings(out)
	return out
}

// ---------------------------------------------------------------- parse histories

// execParseHist: a sequence of texts given to the parser one after the other.
// Every valid text must give its document no matter what was parsed (or failed
// to parse) before it.
func execParseHist(x *fw.Ctx, c Case) {
	w := newWorld(x)
	x.Cover("kind:parsehist")
	if c.Probe != "" {
		x.Cover("block:" + c.Probe)
	}
	failedBefore := false
	for i, t := range c.Texts {
		b, err := w.parseInto(t.Entry, t.Text)
		if err != nil && err.Internal {
			x.Fail(histSig("internal-fault", failedBefore), "step %d: %s of %q => %s (texts before: %s)", i+1, t.Entry, t.Text, err, histBefore(c.Texts[:i]))
			return
		}
		if t.Doc == nil {
			// not a document: any condition will do, a Go fault will not
			x.Cover("parsehist:invalid-text")
			if err == nil {
				x.Cover("parsehist:invalid-text-accepted")
			} else {
				failedBefore = true
			}
			continue
		}
		after := "after=clean"
		if failedBefore {
			after = "after=failed-parse"
		}
		if err != nil {
			x.Fail(histSig("valid-text-rejected", failedBefore), "step %d: %s of the valid text %q => %s (texts before: %s)", i+1, t.Entry, t.Text, err, histBefore(c.Texts[:i]))
			return
		}
		if d := diffLoose(t.Doc, fromAny(b.Any)); d != nil {
			x.Fail(histSig("valid-text-misparsed", failedBefore), "step %d: %s of %q gives %s (texts before: %s)", i+1, t.Entry, t.Text, d, histBefore(c.Texts[:i]))
			return
		}
		x.Cover("parsehist:valid-ok:" + after)
	}
}

// histSig: whatever goes wrong after a failed parse (Go fault, rejection,
// silently different document) is one defect - state left behind by the
// failed parse - so it has one signature; the same failures without a failed
// parse before them are separate signatures.
func histSig(what string, failedBefore bool) string {
	if failedBefore {
		return "parsehist fail=later-parse-affected after=failed-parse"
	}
	return "parsehist fail=" + what + " after=clean"
}

func histBefore(ts []HistText) string {
	var parts []string
	for _, t := range ts {
		parts = append(parts, strconv.Quote(short(t.Text)))
	}
	return strings.Join(parts, ", ")
}

// ---------------------------------------------------------------- native round trip

func (w *world) makeBag(doc *Node) (*flavors.Instance, *sl.Err) {
	if doc.has(func(n *Node) bool { return n.K == kTime }) {
		inst := bag.Flavor().MakeInstance().(*flavors.Instance)
		inst.Any = doc.toAny()
		return inst, nil
	}
	return w.parseInto("make-bag", compactJSON(doc))
}

func execNative(x *fw.Ctx, c Case) {
	w := newWorld(x)
	x.Cover("kind:native")
	x.Cover("native:via=" + c.Via)
	if c.Probe != "" {
		x.Cover("block:" + c.Probe)
	}
	b1, err := w.makeBag(c.Doc)
	if err != nil {
		x.Fail("native fail=setup "+errSlug(err), "cannot build the bag: %s", err)
		return
	}
	t1 := fromAny(b1.Any)
	if d := diff(c.Doc, t1); d != nil {
		// the starting bag is not the document (a text finding): judge the
		// native trip on what the bag holds
		x.Cover("native:start-differs")
	}
	w.let("b", b1)
	src := `(bag-native b)`
	if c.Via == "send-native" || c.Via == "send-set" {
		src = `(send b :native)`
	}
	nat, err := w.eval(src)
	if err != nil {
		x.Fail("native fail=native-"+errSlug(err), "%s => %s", src, err)
		return
	}
	w.obs["native"] = short(sl.Show(nat))
	if d := matchLisp(nat, t1, "$"); d != nil {
		x.Fail(fmt.Sprintf("native fail=lisp-form at=%s", d.A), "%s of %s is not the native form %s", src, short(t1.canon()), d)
	}
	if d := diff(t1, fromAny(b1.Any)); d != nil {
		x.Fail("native fail=native-mutates-bag", "%s changed the bag %s", src, d)
	}
	w.let("nat", nat)
	via := c.Via
	if _, isStr := nat.(slip.String); isStr && (via == "make-bag" || via == "send-native") {
		via = "bag-set-root" // make-bag parses strings
	}
	switch via {
	case "make-bag", "send-native":
		src = `(make-bag nat)`
	case "make-instance-set":
		src = `(make-instance 'bag-flavor :set nat)`
	case "bag-set-root":
		src = `(bag-set (make-instance 'bag-flavor) nat)`
	case "send-set":
		src = `(send (make-instance 'bag-flavor) :set nat)`
	}
	res, err := w.eval(src)
	if err != nil {
		x.Fail("native fail=back-"+errSlug(err), "%s with the native form %s => %s", src, short(sl.Show(nat)), err)
		return
	}
	b2, ok := bagOf(res)
	if !ok {
		x.Fail("native fail=back-result", "%s returned %s", src, sl.Show(res))
		return
	}
	if d := diff(t1, fromAny(b2.Any)); d != nil {
		x.Fail(fmt.Sprintf("native fail=changed at=%s", d.kinds()), "bag -> native -> %s gives a different bag %s\nbag: %s\nnative: %s", src, d, short(t1.canon()), short(sl.Show(nat)))
		return
	}
	x.Cover("native:roundtrip-ok")
	x.CoverN("native:nodes", t1.size())
}

// ---------------------------------------------------------------- Go data bridge

func parseUintOrInt(s string) (uint64, int64, bool) {
	if strings.HasPrefix(s, "-") {
		i, _ := strconv.ParseInt(s, 10, 64)
		return 0, i, true
	}
	u, _ := strconv.ParseUint(s, 10, 64)
	return u, int64(u), false
}

// goValue builds the Go value and the Node it denotes.
func goValue(g *GoVal) (any, *Node) {
	switch g.K {
	case "nil":
		return nil, nNull()
	case "bool":
		return g.B, nBool(g.B)
	case "int", "int8", "int16", "int32", "int64":
		i, _ := strconv.ParseInt(g.S, 10, 64)
		n := nInt(i)
		switch g.K {
		case "int":
			return int(i), n
		case "int8":
			return int8(i), n
		case "int16":
			return int16(i), n
		case "int32":
			return int32(i), n
		}
		return i, n
	case "uint", "uint8", "uint16", "uint32", "uint64":
		u, _ := strconv.ParseUint(g.S, 10, 64)
		var n *Node
		if u <= math.MaxInt64 {
			n = nInt(int64(u))
		} else {
			n = nBig(g.S)
		}
		switch g.K {
		case "uint":
			return uint(u), n
		case "uint8":
			return uint8(u), n
		case "uint16":
			return uint16(u), n
		case "uint32":
			return uint32(u), n
		}
		return u, n
	case "float32":
		f, _ := strconv.ParseFloat(g.S, 32)
		return float32(f), nFloat(strconv.FormatFloat(float64(float32(f)), 'g', -1, 64))
	case "float64":
		f, _ := strconv.ParseFloat(g.S, 64)
		return f, nFloat(strconv.FormatFloat(f, 'g', -1, 64))
	case "string":
		return g.S, nStr(g.S)
	case "time":
		t, _ := time.Parse(time.RFC3339Nano, g.S)
		return t, nTime(t)
	case "slice":
		out := make([]any, len(g.A))
		n := &Node{K: kArr, A: make([]*Node, len(g.A))}
		for i, e := range g.A {
			out[i], n.A[i] = goValue(e)
		}
		return out, n
	case "map":
		out := map[string]any{}
		n := &Node{K: kObj}
		for i, k := range g.Keys {
			v, vn := goValue(g.A[i])
			out[k] = v
			n.put(k, vn)
		}
		return out, n
	}
	panic("bad go kind " + g.K)
}

func (g *GoVal) kinds(set map[string]bool) {
	set[g.K] = true
	for _, e := range g.A {
		e.kinds(set)
	}
}

func execBridge(x *fw.Ctx, c Case) {
	w := newWorld(x)
	x.Cover("kind:bridge")
	x.Cover("bridge:via=" + c.Via)
	if c.Probe != "" {
		x.Cover("block:" + c.Probe)
	}
	ks := map[string]bool{}
	c.Go.kinds(ks)
	for k := range ks {
		x.Cover("bridge:go-kind=" + k)
	}
	v, want := goValue(c.Go)
	var (
		obj  slip.Object
		back any
	)
	if err := sl.Catch(func() { obj = slip.SimpleObject(v) }); err != nil {
		x.Fail("bridge fail=simple-object-"+errSlug(err), "SimpleObject(%s) => %s", want.canon(), err)
		return
	}
	w.obs["lisp"] = short(sl.Show(obj))
	what := "Simplify(SimpleObject(v))"
	err := sl.Catch(func() {
		if c.Via == "bag" {
			what = "ObjectToBag(SimpleObject(v))"
			back = bag.ObjectToBag(w.scope, obj, 0)
		} else {
			back = slip.Simplify(obj)
		}
	})
	if err != nil {
		x.Fail(fmt.Sprintf("bridge via=%s fail=%s", c.Via, errSlug(err)), "%s for v=%s => %s", what, short(want.canon()), err)
		return
	}
	got := fromAny(back)
	w.obs["back"] = short(got.canon())
	if d := diff(want, got); d != nil {
		x.Fail(fmt.Sprintf("bridge via=%s fail=changed at=%s", c.Via, d.kinds()), "%s differs from v %s\nv: %s\nlisp: %s\nback: %s", what, d, short(want.canon()), short(sl.Show(obj)), short(got.canon()))
		return
	}
	// a time keeps its zone offset across the bridge (the same instant written
	// with another offset is other data: it prints as other text)
	if c.Via != "bag" {
		if tv, tb := zonedTimes(v, nil), zonedTimes(back, nil); !reflect.DeepEqual(tv, tb) {
			x.Fail("bridge via="+c.Via+" fail=changed at=time-zone", "%s gives times %v for v with times %v", what, tb, tv)
			return
		}
	}
	// the input value must not have been changed
	if v2, _ := goValue(c.Go); !ks["float64"] && !ks["float32"] && !reflect.DeepEqual(v, v2) {
		x.Fail("bridge fail=input-mutated", "the Go value changed while being converted: %v", v)
	}
	x.Cover("bridge:roundtrip-ok")
	x.CoverN("bridge:nodes", want.size())
}

// zonedTimes collects the times of a Go value in traversal order (map keys
// sorted), each written with its own zone offset.
func zonedTimes(v any, out []string) []string {
	switch tv := v.(type) {
	case time.Time:
		out = append(out, tv.Format(time.RFC3339Nano))
	case []any:
		for _, e := range tv {
			out = zonedTimes(e, out)
		}
	case map[string]any:
		keys := make([]string, 0, len(tv))
		for k := range tv {
			keys = append(keys, k)
		}
		sort.Strings(keys)
		for _, k := range keys {
			out = zonedTimes(tv[k], out)
		}
	}
	return out
}

// ---------------------------------------------------------------- path histories

func lastKind(p Path) string {
	if len(p) == 0 {
		return "root"
	}
	return p[len(p)-1].K
}

func pathClass(p Path) string {
	switch {
	case len(p) == 0:
		return "root"
	case p.hasDescent():
		return "descent"
	case p.hasSlice():
		return "slice"
	case !p.definite():
		return "wild"
	}
	return "definite"
}

// frameDiff checks that every location of old that is not an ancestor or
// descendant of anchor is unchanged in cur.
func frameDiff(old, cur *Node, anchor loc) *Diff {
	for _, m := range allLocs(old) {
		if related(m.at, anchor) {
			continue
		}
		n, ok := nodeAt(cur, m.at)
		if !ok {
			return &Diff{Path: m.at.String(), A: m.node.subKind(), B: "missing", Note: "location disappeared"}
		}
		if d := diffAt(m.node, n, m.at.String()); d != nil {
			return d
		}
	}
	return nil
}

func (w *world) pathArg(op *Op) string {
	w.let("pth", slip.String(op.PStr))
	if op.PList != 0 {
		if l, ok := pathList(op.Path, op.PList == 2); ok {
			w.x.Cover("path:arg=bag-path-from-list")
			w.let("plist", l)
			return "(make-bag-path plist)"
		}
	}
	if op.PObj {
		w.x.Cover("path:arg=bag-path-from-string")
		return "(make-bag-path pth)"
	}
	w.x.Cover("path:arg=string")
	return "pth"
}

// sortedCanon renders a multiset of nodes.
func sortedCanon(ns []*Node) []string {
	out := make([]string, len(ns))
	for i, n := range ns {
		out[i] = n.canon()
	}
	sort.Strings(out)
	return out
}

func matchNodes(ms []match) []*Node {
	out := make([]*Node, len(ms))
	for i, m := range ms {
		out[i] = m.node
	}
	return out
}

// observeAll compares get / has / get-all / walk on the given path with the
// model's evaluation of the same path.
func (w *world) observeQuery(model *Node, op *Op, phase string) bool {
	x := w.x
	ms, _ := evalPath(model, op.Path)
	parg := w.pathArg(op)
	pc := pathClass(op.Path)
	fail := func(what, format string, a ...any) bool {
		x.Fail(fmt.Sprintf("path op=%s fail=%s path=%s", op.Op, what, pc), "[%s] path %q on %s: %s", phase, op.PStr, short(model.canon()), fmt.Sprintf(format, a...))
		return false
	}
	switch op.Op {
	case "has":
		src := "(bag-has b " + parg + ")"
		if op.Send {
			src = "(send b :has " + parg + ")"
		}
		res, err := w.eval(src)
		if err != nil {
			return w.queryError(op, err, src)
		}
		if (res != nil) != (0 < len(ms)) {
			return fail("disagrees-with-get", "%s => %s but the path matches %d locations", src, sl.Show(res), len(ms))
		}
		x.Cover(fmt.Sprintf("path:has=%v", res != nil))
	case "get":
		asBag := w.evals%2 == 0
		src := "(bag-get b " + parg
		if op.Send {
			src = "(send b :get " + parg
		}
		if asBag {
			src += " t"
		}
		src += ")"
		res, err := w.eval(src)
		if err != nil {
			return w.queryError(op, err, src)
		}
		if len(ms) == 0 {
			if res != nil {
				return fail("get-of-missing", "%s => %s but the path matches nothing", src, short(sl.Show(res)))
			}
			x.Cover("path:get-missing")
			return true
		}
		// the first match is required for paths whose match order is fixed
		// (no object wildcard/descent); any match otherwise
		okAny := false
		var firstDiff *Diff
		for i, m := range ms {
			var d *Diff
			if inst, isBag := bagOf(res); isBag {
				d = diff(m.node, fromAny(inst.Any))
			} else {
				d = matchLisp(res, m.node, m.at.String())
			}
			if d == nil {
				okAny = true
				break
			}
			if i == 0 {
				firstDiff = d
			}
			if op.Path.definite() {
				break
			}
		}
		if !okAny {
			return fail("get-wrong-value", "%s => %s %s", src, short(sl.Show(res)), firstDiff)
		}
		x.Cover("path:get-found")
	case "getall", "walk":
		if w.evals%3 == 0 || op.NoPath {
			return w.observeQueryLisp(model, op, ms, parg, fail)
		}
		var src string
		if op.Op == "getall" {
			src = "(bag-get-all b " + parg + " :bag)"
			if op.Send {
				src = "(send b :get-all " + parg + " :bag)"
			}
		} else {
			src = "(let ((acc '())) (bag-walk b (lambda (x) (setq acc (cons x acc))) " + parg + " t) (make-bag acc))"
			if op.Send {
				src = "(let ((acc '())) (send b :walk (lambda (x) (setq acc (cons x acc))) " + parg + " t) (make-bag acc))"
			}
		}
		res, err := w.eval(src)
		if err != nil {
			return w.queryError(op, err, src)
		}
		var got []*Node
		if res != nil {
			inst, isBag := bagOf(res)
			if !isBag {
				return fail("result-type", "%s => %s", src, short(sl.Show(res)))
			}
			t := fromAny(inst.Any)
			if t.K == kArr {
				got = t.A
			} else if t.K != kNull {
				return fail("result-type", "%s => bag holding %s", src, t.brief())
			}
		}
		a, b := sortedCanon(matchNodes(ms)), sortedCanon(got)
		if strings.Join(a, "\x00") != strings.Join(b, "\x00") {
			return fail("disagrees-with-get", "%s visited %d values %s, the path matches %d: %s", src, len(b), short(strings.Join(b, " ")), len(a), short(strings.Join(a, " ")))
		}
		x.CoverN("path:"+op.Op+"-values", len(got))
	}
	return true
}

// observeQueryLisp is the walk / get-all comparison on the variants that
// deliver Lisp values instead of bags: (bag-get-all bag path :native), the
// default :bag-list, and bag-walk without as-bag. Lisp values cannot tell
// null, false and empty containers apart, so both sides are compared in a
// rendering that does not either.
func (w *world) observeQueryLisp(model *Node, op *Op, ms []match, parg string, fail func(string, string, ...any) bool) bool {
	var src, variant string
	switch {
	case op.NoPath:
		// the documented default path of walk is ".."
		variant = "walk-default-path"
		src = "(let ((acc '())) (bag-walk b (lambda (x) (setq acc (cons x acc)))) acc)"
		if op.Send {
			src = "(let ((acc '())) (send b :walk (lambda (x) (setq acc (cons x acc)))) acc)"
		}
	case op.Op == "walk" && op.Send:
		variant = "walk-lisp"
		src = "(let ((acc '())) (send b :walk (lambda (x) (setq acc (cons x acc))) " + parg + ") acc)"
	case op.Op == "walk":
		variant = "walk-lisp"
		src = "(let ((acc '())) (bag-walk b (lambda (x) (setq acc (cons x acc))) " + parg + ") acc)"
	case w.evals%2 == 0:
		variant = "getall-native"
		src = "(bag-get-all b " + parg + " :native)"
	default:
		variant = "getall-bag-list"
		src = "(bag-get-all b " + parg + ")"
	}
	res, err := w.eval(src)
	if err != nil {
		return w.queryError(op, err, src)
	}
	l, _ := res.(slip.List)
	if res != nil && l == nil {
		return fail("result-type", "%s => %s", src, short(sl.Show(res)))
	}
	want := make([]string, len(ms))
	for i, m := range ms {
		want[i] = nodeLispCanon(m.node)
	}
	got := make([]string, len(l))
	for i, e := range l {
		if inst, isBag := bagOf(e); isBag {
			got[i] = nodeLispCanon(fromAny(inst.Any))
		} else {
			got[i] = lispCanon(e)
		}
	}
	sort.Strings(want)
	sort.Strings(got)
	if strings.Join(want, "\x00") != strings.Join(got, "\x00") {
		return fail("disagrees-with-get", "%s visited %d values %s, the path matches %d: %s", src, len(got), short(strings.Join(got, " ")), len(want), short(strings.Join(want, " ")))
	}
	w.x.CoverN("path:"+variant+"-values", len(got))
	return true
}

// nodeLispCanon renders a node the way its native Lisp form can be told
// apart: null, false and the empty containers are all nil.
func nodeLispCanon(n *Node) string {
	switch n.K {
	case kNull:
		return "nil"
	case kBool:
		if n.B {
			return "t"
		}
		return "nil"
	case kArr:
		if len(n.A) == 0 {
			return "nil"
		}
		parts := make([]string, len(n.A))
		for i, e := range n.A {
			parts[i] = nodeLispCanon(e)
		}
		return "[" + strings.Join(parts, ",") + "]"
	case kObj:
		if len(n.A) == 0 {
			return "nil"
		}
		parts := make([]string, len(n.A))
		for i, k := range n.Keys {
			parts[i] = strconv.QuoteToASCII(k) + ":" + nodeLispCanon(n.A[i])
		}
		sort.Strings(parts)
		return "{" + strings.Join(parts, ",") + "}"
	}
	return n.canon()
}

// lispCanon renders a Lisp value in the same notation.
func lispCanon(obj slip.Object) string {
	switch to := obj.(type) {
	case nil:
		return "nil"
	case slip.Fixnum:
		return strconv.FormatInt(int64(to), 10)
	case slip.DoubleFloat:
		f := float64(to)
		if f == 0 {
			f = 0
		}
		return "f:" + strconv.FormatFloat(f, 'g', -1, 64)
	case *slip.Bignum:
		return (*big.Int)(to).String()
	case *slip.LongFloat:
		if q, ok := new(big.Rat).SetString((*big.Float)(to).Text('g', -1)); ok {
			return "big:" + q.RatString()
		}
		return "big:?"
	case slip.String:
		return strconv.QuoteToASCII(string(to))
	case slip.Time:
		return "@" + strconv.FormatInt(time.Time(to).UnixNano(), 10)
	case slip.Symbol:
		return "sym:" + string(to)
	case slip.List:
		if len(to) == 0 {
			return "nil"
		}
		assoc := true
		for _, e := range to {
			pair, ok := e.(slip.List)
			if !ok || len(pair) != 2 {
				assoc = false
				break
			}
			if _, ok = pair[1].(slip.Tail); !ok {
				assoc = false
				break
			}
		}
		parts := make([]string, len(to))
		if assoc {
			for i, e := range to {
				pair := e.(slip.List)
				parts[i] = lispCanon(pair[0]) + ":" + lispCanon(pair[1].(slip.Tail).Value)
			}
			sort.Strings(parts)
			return "{" + strings.Join(parts, ",") + "}"
		}
		for i, e := range to {
			parts[i] = lispCanon(e)
		}
		return "[" + strings.Join(parts, ",") + "]"
	}
	if obj == slip.True {
		return "t"
	}
	return "<" + sl.Kind(obj) + ">"
}

func (w *world) queryError(op *Op, err *sl.Err, src string) bool {
	if err.Internal {
		w.x.Fail(fmt.Sprintf("path op=%s fail=internal-fault", op.Op), "%s with path %q => %s", src, op.PStr, err)
		return false
	}
	// a query the library rejects (e.g. a path form it does not evaluate) is
	// not a disagreement
	w.x.Cover("path:" + op.Op + "-rejected")
	return true
}

// observeAll checks get, has and walk against the model on every location of
// the document, on locations that do not exist, and on a few wildcard paths.
func (w *world) observeAll(model *Node, b *flavors.Instance, phase string) bool {
	x := w.x
	if d := diff(model, fromAny(b.Any)); d != nil {
		x.Fail("path fail=harness-model-out-of-sync", "[%s] %s", phase, d)
		return false
	}
	locs := allLocs(model)
	step := 1
	if 40 < len(locs) {
		step = len(locs)/40 + 1
	}
	n := 0
	for i := 0; i < len(locs); i += step {
		m := locs[i]
		if len(m.at) == 0 {
			continue
		}
		ok := true
		for _, s := range m.at {
			if !s.Nth && strings.ContainsAny(s.Key, "'\\") {
				ok = false
			}
		}
		if !ok {
			continue
		}
		p := m.at.path()
		for _, o := range []string{"get", "has"} {
			op := Op{Op: o, Path: p, PStr: p.render(i % 8), PObj: i%5 == 0, Send: i%3 == 0}
			if i%7 == 3 {
				op.PList = 1 + i%2
			}
			if !w.observeQuery(model, &op, phase) {
				return false
			}
		}
		n++
		// a location that does not exist next to it
		var miss Path
		if m.node.K == kArr {
			miss = append(append(Path{}, p...), fNth(len(m.node.A)))
		} else {
			miss = append(append(Path{}, p...), fChild("nokey_q"))
		}
		for _, o := range []string{"get", "has"} {
			op := Op{Op: o, Path: miss, PStr: miss.render(0)}
			if !w.observeQuery(model, &op, phase) {
				return false
			}
		}
	}
	x.CoverN("path:locations-checked", n)
	if !w.observeScan(model, phase, n%2 == 0) {
		return false
	}
	for i, p := range []Path{{fWild()}, {fDescent()}, {fDescent(), fWild()}, {fDescent(), fNth(0)}, {fDescent(), fNth(-1)}, {fWild(), fWild()}} {
		if len(p) == 1 && p[0].K == "descent" && !model.isContainer() {
			continue // ".." by itself on a scalar document: the notation does not say whether the root is a match
		}
		op := Op{Op: []string{"walk", "getall"}[i%2], Path: p, PStr: p.render(0)}
		if len(p) == 1 && p[0].K == "descent" && n%2 == 0 {
			op.Op, op.NoPath = "walk", true
		}
		if !w.observeQuery(model, &op, phase) {
			return false
		}
	}
	return true
}

// observeScan: bag-scan must visit every node of the document exactly once,
// parents before their children, with the value a get of the reported path
// returns; with :leaves-only only nodes without children.
func (w *world) observeScan(model *Node, phase string, send bool) bool {
	x := w.x
	fail := func(what, format string, a ...any) bool {
		x.Fail("path op=scan fail="+what, "[%s] bag-scan on %s: %s", phase, short(model.canon()), fmt.Sprintf(format, a...))
		return false
	}
	type entry struct {
		path string
		val  string
	}
	scan := func(src string) ([]entry, bool) {
		res, err := w.eval(src)
		if err != nil {
			if err.Internal {
				return nil, fail("internal-fault", "%s => %s", src, err)
			}
			return nil, fail("error", "%s => %s", src, err)
		}
		l, _ := res.(slip.List)
		out := make([]entry, 0, len(l))
		for i := len(l) - 1; 0 <= i; i-- {
			pair, _ := l[i].(slip.List)
			if len(pair) != 2 {
				return nil, fail("callback-arguments", "%s collected %s", src, short(sl.Show(l[i])))
			}
			ps, ok := pair[0].(slip.String)
			if !ok {
				return nil, fail("callback-arguments", "the path argument is %s", short(sl.Show(pair[0])))
			}
			e := entry{path: string(ps)}
			if inst, isBag := bagOf(pair[1]); isBag {
				n := fromAny(inst.Any)
				if !n.isContainer() {
					return nil, fail("callback-arguments", "a leaf (%s) was handed over as a bag", n.brief())
				}
				e.val = nodeLispCanon(n)
			} else {
				e.val = lispCanon(pair[1])
			}
			out = append(out, e)
		}
		return out, true
	}
	fn := `(lambda (p v) (setq acc (cons (list p v) acc)))`
	src := `(let ((acc '())) (bag-scan b ` + fn + `) acc)`
	if send {
		src = `(let ((acc '())) (send b :scan ` + fn + `) acc)`
	}
	got, ok := scan(src)
	if !ok {
		return false
	}
	locs := allLocs(model)
	want := make([]string, len(locs))
	for i, m := range locs {
		want[i] = nodeLispCanon(m.node)
	}
	vals := make([]string, len(got))
	seen := map[string]bool{}
	for i, e := range got {
		vals[i] = e.val
		if seen[e.path] {
			return fail("node-visited-twice", "%s reported path %s twice", src, e.path)
		}
		seen[e.path] = true
	}
	sort.Strings(want)
	sort.Strings(vals)
	if strings.Join(want, "\x00") != strings.Join(vals, "\x00") {
		return fail("disagrees-with-get", "%s visited %d nodes %s, the document has %d: %s", src, len(vals), short(strings.Join(vals, " ")), len(want), short(strings.Join(want, " ")))
	}
	// parents first
	if len(got) <= 300 {
		for i, e := range got {
			if i == 0 {
				if model.isContainer() && e.val != nodeLispCanon(model) {
					return fail("order", "%s does not start with the root but with %s", src, e.path)
				}
				continue
			}
			parent := false
			for _, o := range got[:i] {
				if len(o.path) < len(e.path) && strings.HasPrefix(e.path, o.path) {
					parent = true
					break
				}
			}
			if !parent {
				return fail("order", "%s reported %s before any of its ancestors", src, e.path)
			}
		}
	}
	// the reported path, given back to get, must find the reported value
	step := 1
	if 12 < len(got) {
		step = len(got)/12 + 1
	}
	for i := 0; i < len(got); i += step {
		e := got[i]
		w.let("sp", slip.String(e.path))
		res, err := w.eval(`(bag-get b sp t)`)
		if err != nil {
			return fail("reported-path-unusable", "(bag-get b %q) => %s", e.path, err)
		}
		v := lispCanon(res)
		if inst, isBag := bagOf(res); isBag {
			v = nodeLispCanon(fromAny(inst.Any))
		}
		if v != e.val {
			return fail("disagrees-with-get", "scan reported %s at %s, (bag-get b %q) gives %s", short(e.val), e.path, e.path, short(v))
		}
	}
	x.CoverN("path:scan-nodes", len(got))
	// leaves only
	src = `(let ((acc '())) (bag-scan b ` + fn + ` :leaves-only t) acc)`
	if send {
		src = `(let ((acc '())) (send b :scan ` + fn + ` :leaves-only t) acc)`
	}
	got, ok = scan(src)
	if !ok {
		return false
	}
	var must, may []string
	for _, m := range locs {
		switch {
		case !m.node.isContainer():
			must = append(must, nodeLispCanon(m.node))
		case len(m.node.A) == 0:
			may = append(may, "nil") // an empty container has no children either
		}
	}
	count := map[string]int{}
	for _, e := range got {
		count[e.val]++
	}
	for _, v := range must {
		count[v]--
	}
	extra := 0
	for v, c := range count {
		switch {
		case c < 0:
			return fail("leaves-only-misses-a-leaf", "%s did not report the leaf %s", src, short(v))
		case 0 < c && v == "nil":
			extra += c
		case 0 < c:
			return fail("leaves-only-reports-a-branch", "%s reported %s", src, short(v))
		}
	}
	if len(may) < extra {
		return fail("leaves-only-reports-a-branch", "%s reported %d more empty values than there are empty containers", src, extra-len(may))
	}
	x.CoverN("path:scan-leaves", len(got))
	return true
}

func (w *world) setValue(op *Op) (string, *sl.Err) {
	switch op.ValMode {
	case "bag":
		inst, err := w.makeBag(op.Val)
		if err != nil {
			return "", err
		}
		w.let("val", inst)
	case "text":
		w.let("val", slip.String(compactJSON(op.Val)))
	case "stream":
		w.let("valtxt", slip.String(compactJSON(op.Val)))
		return "(make-string-input-stream valtxt)", nil
	case "hash":
		w.let("val", toLispHash(op.Val, false))
	case "hash-assoc":
		w.let("val", toLispHash(op.Val, true))
	default:
		w.let("val", toLisp(op.Val))
	}
	return "val", nil
}

func execPath(x *fw.Ctx, c Case) {
	w := newWorld(x)
	x.Cover("kind:path")
	if c.Probe != "" {
		x.Cover("block:" + c.Probe)
	}
	b, err := w.makeBag(c.Doc)
	if err != nil {
		x.Fail("path fail=setup "+errSlug(err), "cannot build the bag: %s", err)
		return
	}
	model := fromAny(b.Any)
	if d := diff(c.Doc, model); d != nil {
		x.Cover("path:start-differs")
	}
	w.let("b", b)
	if !w.observeAll(model, b, "start") {
		return
	}
	x.Cover(fmt.Sprintf("path:history-length=%d", len(c.Ops)))
	if c.Doc.K == kArr {
		x.Cover("path:root=array")
	} else {
		x.Cover("path:root=object")
	}
	var trace []string
	w.obs["ops"] = &trace
	shared := false
	for i := range c.Ops {
		op := &c.Ops[i]
		phase := fmt.Sprintf("after step %d: %s %q", i+1, op.Op, op.PStr)
		x.Cover("path:op=" + op.Op)
		x.Cover("path:class=" + pathClass(op.Path))
		switch op.Op {
		case "get", "has", "walk", "getall":
			if !w.observeQuery(model, op, phase) {
				return
			}
			trace = append(trace, op.Op+" "+op.PStr)
			continue
		case "write":
			// the document as written and read again must be the model's
			res, err := w.eval(`(make-bag (bag-write b :pretty nil :json t))`)
			if err != nil {
				x.Fail("path op=write fail="+errSlug(err), "[%s] bag-write / make-bag of %s => %s", phase, short(model.canon()), err)
				return
			}
			if inst, ok := bagOf(res); !ok || diffLoose(model, fromAny(inst.Any)) != nil {
				x.Fail("path op=write fail=disagrees-with-get", "[%s] the written document differs from %s", phase, short(model.canon()))
				return
			}
			trace = append(trace, "write")
			continue
		}
		var (
			src      string
			res      *Node
			st, why  string
			anchor   loc
			literalV *Node
		)
		switch op.Op {
		case "set", "parse":
			val, err := w.setValue(op)
			if err != nil {
				x.Fail("path fail=setup "+errSlug(err), "cannot build the value: %s", err)
				return
			}
			fn, meth := "bag-set", ":set"
			if op.Op == "parse" {
				fn, meth = "bag-parse", ":parse"
				if op.ValMode == "stream" {
					fn, meth = "bag-read", ":read"
				}
			}
			x.Cover("path:valmode=" + op.ValMode)
			switch {
			case op.NoPath && op.Send:
				src = fmt.Sprintf("(send b %s %s)", meth, val)
			case op.NoPath:
				src = fmt.Sprintf("(%s b %s)", fn, val)
			case op.Send:
				src = fmt.Sprintf("(send b %s %s %s)", meth, val, w.pathArg(op))
			default:
				src = fmt.Sprintf("(%s b %s %s)", fn, val, w.pathArg(op))
			}
			res, st, why, anchor = modelSet(model, op.Path, op.Val)
			literalV = op.Val
		case "remove":
			switch {
			case op.Send:
				src = fmt.Sprintf("(send b :remove %s)", w.pathArg(op))
			default:
				src = fmt.Sprintf("(bag-remove b %s)", w.pathArg(op))
			}
			res, st, why, anchor = modelRemove(model, op.Path)
		case "modify":
			asBag := op.AsBag
			x.Cover(fmt.Sprintf("path:modify-as-bag=%v", asBag))
			src = fmt.Sprintf("(bag-modify b (lambda (x) x) %s", w.pathArg(op))
			if op.Send {
				src = fmt.Sprintf("(send b :modify (lambda (x) x) %s", w.pathArg(op))
			}
			if asBag {
				src += " :as-bag t"
			}
			src += ")"
			res, st, anchor = model, stOK, loc{}
			if lastKind(op.Path) == "descent" {
				st, why = stUndefined, "ends-in-descent"
			}
		}
		sigOp := op.Op
		if sigOp == "parse" {
			sigOp = "set" // bag-parse is bag-set of the parsed text
		}
		sigBase := fmt.Sprintf("path op=%s path=%s", sigOp, pathClass(op.Path))
		_, err := w.eval(src)
		actual := fromAny(b.Any)
		trace = append(trace, fmt.Sprintf("%s %s val=%v -> model:%s", op.Op, op.PStr, briefOf(op.Val), st))
		describe := func() string {
			return fmt.Sprintf("%s with path %q value %s on %s", src, op.PStr, briefOf(op.Val), short(model.canon()))
		}
		switch {
		case err != nil && err.Internal:
			x.Fail(fmt.Sprintf("path op=%s fail=internal-fault", sigOp), "%s => %s", describe(), err)
			return
		case err != nil:
			x.Cover("path:" + op.Op + "-error")
			if st == stOK {
				x.Fail(sigBase+" fail=error", "%s => %s; the model expects %s", describe(), err, short(res.canon()))
				return
			}
			x.Cover("path:undefined-error:" + why)
			if d := frameDiff(model, actual, anchor); d != nil {
				if shared {
					x.Fail("path after=multi-location-container-set fail=later-step-diverges", "%s failed (%s) and changed %s", describe(), err, d)
					return
				}
				x.Fail(sigBase+" fail=frame-broken-by-failed-call", "%s failed (%s) and changed a location not under %s: %s", describe(), err, anchor, d)
				return
			}
			if !op.Path.definite() {
				// a multi-match call that failed half way: which matches were
				// done first is the library's map iteration order, so the
				// history ends here to keep the run a function of the seed
				x.Cover("path:stopped-after-multi-match-failure")
				return
			}
		case st == stOK:
			if d := diff(res, actual); d != nil {
				kind := "wrong-document"
				if fd := frameDiff(model, actual, anchor); fd != nil && op.Op != "remove" && op.Op != "modify" {
					kind = "frame-broken"
				}
				sig := fmt.Sprintf("%s fail=%s", sigBase, kind)
				switch {
				case shared:
					// an earlier step stored one container value at several
					// locations: whatever diverges afterwards is that one defect
					sig = "path after=multi-location-container-set fail=later-step-diverges"
				case op.Op == "modify":
					// identity through the Lisp bridge: name the kind of value that is lost
					sig = fmt.Sprintf("path op=modify as-bag=%v fail=wrong-document lost=%s", op.AsBag, d.A)
				case strings.HasPrefix(op.ValMode, "hash"):
					// a hash-table value: name the kind of member that is lost
					sig = fmt.Sprintf("path op=set val=hash-table fail=wrong-document at=%s", d.kinds())
				}
				x.Fail(sig, "%s\n gives %s\n model %s\n %s", describe(), short(actual.canon()), short(res.canon()), d)
				return
			}
			x.Cover("path:" + op.Op + "-as-model")
			if !w.compareAgrees(model, actual, phase) {
				return
			}
		default:
			// the notation does not define the result: the call returned
			// normally, so the property's literal reading applies
			x.Cover("path:undefined-ok:" + why)
			if d := frameDiff(model, actual, anchor); d != nil {
				sig := sigBase + " fail=frame-broken why=" + coarseWhy(why)
				if shared {
					sig = "path after=multi-location-container-set fail=later-step-diverges"
				}
				x.Fail(sig, "%s changed a location not under %s: %s", describe(), anchor, d)
				return
			}
			if literalV != nil {
				ms, _ := evalPath(actual, op.Path)
				if len(ms) == 0 && op.Path.definite() {
					x.Fail(sigBase+" fail=no-effect why="+coarseWhy(why), "%s returned normally but a get of the path finds nothing (document %s)", describe(), short(actual.canon()))
					return
				}
				if !op.Path.hasDescent() || !literalV.isContainer() {
					for _, m := range ms {
						if d := diffAt(literalV, m.node, m.at.String()); d != nil && op.Path.definite() {
							if strings.HasPrefix(op.ValMode, "hash") {
								x.Fail(fmt.Sprintf("path op=set val=hash-table fail=wrong-document at=%s", d.kinds()), "%s returned normally but the path now holds %s", describe(), d)
								return
							}
							x.Fail(sigBase+" fail=get-after-set why="+coarseWhy(why), "%s returned normally but the path now holds %s", describe(), d)
							return
						}
					}
				}
			}
		}
		if (op.Op == "set" || op.Op == "parse") && !op.Path.definite() && op.Val.isContainer() {
			// (the special signature for steps after such a set is only in use
			// while avoidSharedSet is on, i.e. while the matches share one value)
			shared = avoidSharedSet
			x.Cover("path:multi-location-container-set")
			if avoidSharedSet && !strings.HasPrefix(c.Probe, "path:") {
				// the matches now share one Go value (listed finding); what later
				// steps do to them depends on the library's map iteration order.
				// Only the deterministic probe block goes on from here.
				x.Cover("path:stopped-after-multi-location-container-set")
				return
			}
		}
		model = actual
		if !w.observeAll(model, b, phase) {
			return
		}
		if st != stOK && !op.Path.definite() {
			// a multi-match call outside what the notation defines (e.g. members
			// created while the library walks the maps it is adding to): the
			// resulting document can depend on map iteration order, so the
			// history ends here to keep the run a function of the seed
			x.Cover("path:stopped-after-undefined-multi-match")
			return
		}
	}
	x.CoverN("path:evals", w.evals)
	if len(c.Ops) == 0 {
		x.Trivial()
	}
}

// coarseWhy folds the model's reasons into the few classes signatures use.
func coarseWhy(why string) string {
	switch {
	case strings.HasPrefix(why, "child-of-") && strings.HasSuffix(why, "array"):
		return "member-of-array"
	case strings.HasPrefix(why, "index-of-") && strings.HasSuffix(why, "object"):
		return "index-of-object"
	case strings.HasPrefix(why, "child-of-"), strings.HasPrefix(why, "index-of-"), strings.HasPrefix(why, "through-"):
		return "through-scalar"
	}
	return why
}

func briefOf(n *Node) string {
	if n == nil {
		return "-"
	}
	return short(n.canon())
}

func exec(x *fw.Ctx, c Case) {
	defer sl.Reset()
	switch c.Kind {
	case "text":
		execText(x, c)
	case "native":
		execNative(x, c)
	case "bridge":
		execBridge(x, c)
	case "path":
		execPath(x, c)
	case "parsehist":
		execParseHist(x, c)
	case "multi":
		execMulti(x, c)
	case "ints":
		execInts(x, c)
	case "alias":
		execAlias(x, c)
	default:
		x.Trivial()
	}
}

func init() {
	fw.Register(fw.Spec[Case]{
		ID: "C18",
		Rule: "eight case kinds. text: generated document (depth<=5, every scalar kind, odd keys) rendered by the harness as JSON or SEN -> bag (21 entry points) -> bag-write under generated options -> parsed again; " +
			"native: bag -> bag-native -> bag; path: document + history of <=6 set/parse/remove/modify/get/has/walk/get-all steps with generated paths, judged by a reference JSON-path model and re-observed on every location after each step; " +
			"bridge: generated Go value -> SimpleObject -> Simplify / ObjectToBag; parsehist: a sequence of valid and invalid texts parsed one after the other, each valid one must still give its document; " +
			"ints: integers around 2^31, 2^53, 2^62, 2^63-1, -2^63 pushed through every Lisp->bag and bag->Lisp route, judged on the exact value; multi: several documents in one input for each-bag / json-parse (count, order, independence). " +
			"bag-scan is re-observed after every path step (every node once, parents first, reported paths usable by get). Further deterministic blocks: the full bag-write option grid (pretty x depth x right-margin x json x color) over 10 fixed documents, every single removal on a root array and a root object with negative indices followed by more removals. " +
			"alias: a part of a bag copied to another place of the same bag through the results of get / get-all / walk as bag (or one bag value stored twice, or returned by the function of bag-modify for every match), then one copy changed and the other - a disjoint path - re-observed. " +
			"Third-round deterministic blocks: the alias routes on a fixed document, hash-table values, texts moved byte by byte over the 4096-byte read buffer edge of the stream parsers, the time-wrap key as an ordinary member, surrogate pair escapes, new members below one of several matches of a stored (also empty) container; bag-compare is re-observed after every modifying step; paths are also given as (make-bag-path list). " +
			"avoided in 7 of 8 seeded cases: the constructs of the open findings (token-like strings, json.Number values, surrogate escapes, false/empty containers in Lisp form, :false and bignums inside hash-tables). " +
			"Each kind starts with a deterministic probe block (every scalar of the pools x format x options, every operation x path shape on a fixed document); " +
			"distinct = distinct case JSON; non-trivial = at least one conversion or path step was judged",
		N:     nCases,
		Gen:   gen,
		Exec:  exec,
		Batch: 1000,
		Assumptions: []string{
			"the harness's Node model, JSON/SEN renderers and reference path model are the trusted oracle",
			"set/remove through a location the JSONPath notation gives no meaning to (index out of range, member of an array, through a scalar) may fail or do anything that leaves unrelated locations alone; a call that returns normally must make the path readable",
		},
	})
}
