package c18

import (
	"fmt"
	"math"
	"math/rand/v2"
	"strconv"
	"strings"
	"time"

	"verif/internal/fw"
)

// WOpts are the options of one bag-write call. -1 = keyword not given.
type WOpts struct {
	Pretty int  `json:"pretty"`
	Depth  int  `json:"depth"`
	Margin int  `json:"margin"`
	JSON   int  `json:"json"`
	Color  int  `json:"color"`
	Send   bool `json:"send,omitempty"`   // (send bag :write ...) instead of (bag-write bag ...)
	Stream bool `json:"stream,omitempty"` // write to a string-output-stream instead of returning a string
	TimeKW bool `json:"timekw,omitempty"` // time cases: the time setting is given by the :time-format / :time-wrap keywords of the call, the variables are nil while it runs
}

func (w WOpts) isJSON() bool { return w.JSON == 1 }

func (w WOpts) label() string {
	f := "sen"
	if w.isJSON() {
		f = "json"
	}
	return f
}

// TimeCfg is a *bag-time-format* / *bag-time-wrap* setting for a text case.
type TimeCfg struct {
	Format string `json:"format"`
	Wrap   string `json:"wrap"`
}

// Op is one step of a path history.
type Op struct {
	Op      string `json:"op"` // set remove get has walk getall modify parse
	Path    Path   `json:"path"`
	PStr    string `json:"pstr"`              // the path text given to slip
	PObj    bool   `json:"pobj,omitempty"`    // pass (make-bag-path pstr) instead of the string
	PList   int    `json:"plist,omitempty"`   // pass (make-bag-path list): 1 = members as strings, 2 = as symbols (paths of members, indices and wildcards only)
	NoPath  bool   `json:"nopath,omitempty"`  // call without a path argument (whole document)
	Send    bool   `json:"send,omitempty"`    // method instead of function
	Val     *Node  `json:"val,omitempty"`     // set/parse value
	ValMode string `json:"valmode,omitempty"` // lisp | bag | text | stream | hash | hash-assoc
	AsBag   bool   `json:"asbag,omitempty"`   // modify: hand the value to the function as a bag
}

// HistText is one step of a parse history; Doc is nil for a text that is not
// a valid document.
type HistText struct {
	Text  string `json:"text"`
	Entry string `json:"entry"`
	Doc   *Node  `json:"doc,omitempty"`
}

// GoVal describes one plain Go value for the bridge check.
type GoVal struct {
	K    string   `json:"k"` // nil bool int int8 int16 int32 int64 uint uint8 uint16 uint32 uint64 float32 float64 string time slice map
	B    bool     `json:"b,omitempty"`
	S    string   `json:"s,omitempty"` // integers and floats as decimal text, strings, time RFC3339Nano
	A    []*GoVal `json:"a,omitempty"`
	Keys []string `json:"keys,omitempty"`
}

// Case is one monitored scenario.
type Case struct {
	Kind  string     `json:"kind"` // text native path bridge
	Doc   *Node      `json:"doc,omitempty"`
	Fmt   string     `json:"fmt,omitempty"` // json | sen (format of Text)
	Text  string     `json:"text,omitempty"`
	Entry string     `json:"entry,omitempty"` // how the text gets into a bag
	W     *WOpts     `json:"w,omitempty"`
	Time  *TimeCfg   `json:"time,omitempty"`
	Ops   []Op       `json:"ops,omitempty"`
	Via   string     `json:"via,omitempty"` // native: how the native form goes back; bridge: which bridge
	Go    *GoVal     `json:"go,omitempty"`
	Texts []HistText `json:"texts,omitempty"`
	Int   *IntCase   `json:"int,omitempty"`
	Docs  []*Node    `json:"docs,omitempty"`  // multi: the documents the text holds, in order
	Alias *AliasCase `json:"alias,omitempty"` // alias: one value reached through two routes
	Esc   string     `json:"esc,omitempty"`   // text: escape style the text depends on (surrogate)
	Probe string     `json:"probe,omitempty"` // name of the deterministic probe block the case belongs to
}

// ---------------------------------------------------------------- scalar pools

// plain strings: round-trip without any known trouble expected
var plainStrings = []string{
	"a", "hello", "hello world", "Zed", "snake_case", "é", "中文", "naïve café", "x1", "key-with-dash", "a.b", "UPPER",
	"q\"uote", "back\\slash", "line\nfeed", "tab\there", "cr\rlf", "/slash/", "percent%20", "#hash", "semi;colon", "eq=",
	"\U0001F600", "mixed é\U0001F680中", "\u00a0nbsp", "ελληνικά", "עברית", "a,b", "(paren)", "<tag>", "&amp;", "$dollar",
}

// special strings: they look like another SEN/JSON token, or are empty/odd
var specialStrings = []string{
	"", " ", "true", "false", "null", "123", "-1", "0", "1e5", "1.5", ".5", "-", "+", "+Inf", "-Inf", "NaN", "@2024", "@",
	"[x]", "[", "]", "{", "}", "{a:1}", "a:b", ":", ",", "//c", "/*c*/", "'q'", "'", "\"", "\\", "~", "^a", "_", ".", "..",
	"\u0001", "\u007f", "\u001f", "\u0000", "\ufeff", "\u2028", "\u00a0", "a\u0000b", "trailing ", " leading", "True", "NULL", "nil", "t",
	"2024-01-02T03:04:05Z", "1e400", "0x10", "1_000", "٣", "-a", "9223372036854775808",
}

var plainKeys = []string{"a", "b", "c", "d", "id", "name", "list", "x1", "snake_case", "Upper", "k2", "zz"}
var oddKeys = []string{"", " ", "k k", "true", "null", "12", "-1", "a.b", "é", "中", "key-with-dash", "q\"uote", "new\nline", "[0]", "*", "$", "@", "a:b", "'", "\U0001F600", "~", "1e5"}

// integers on the boundaries the parser and the bridge care about
var edgeInts = []int64{0, 1, -1, 7, 42, -100, 255, 256, 65535, 65536, 1 << 31, -(1 << 31), 1<<31 - 1, 1 << 32, 1<<53 - 1, 1 << 53, 1<<53 + 1,
	922337203685477580, 922337203685477581, 1000000000000000000, math.MaxInt64 - 1, math.MaxInt64, math.MinInt64 + 1, math.MinInt64,
	1704164645123456789}

var bigInts = []string{"9223372036854775808", "-9223372036854775809", "18446744073709551615", "18446744073709551616",
	"123456789012345678901234567890", "-340282366920938463463374607431768211456", "10000000000000000000000"}

// numbers the parser keeps as text: too many digits for its float path, or
// beyond the float64 range
var bigDecimals = []string{"12345678901234567890.5", "0.1234567890123456789012", "0.012352646705633309", "-0.0008767920811017072", "1e400", "1.7976931348623157e309"}

var floatLits = []string{"0.5", "-1.25", "0.1", "2.5", "3.141592653589793", "1.5e-7", "1.5e300", "1e308", "5e-324", "2.2250738585072014e-308",
	"123456789.123456789", "1e21", "1e-5", "0.000001", "1234567.875", "-0.75", "1.7976931348623157e308", "4.9e-324", "0.30000000000000004",
	"100.25", "9007199254740993.5"}

// floats whose value is an integer (a writer that prints them without a
// fraction turns them into integers on the way back) and zero variants
var integralFloatLits = []string{"2.0", "1e2", "1E+2", "-3.0", "0.0", "-0.0", "1e15", "1.0e0", "100.0", "9007199254740992.0", "1e22", "12e0", "5E0"}

type profile struct {
	maxDepth   int
	big        bool // integers outside int64 / long decimals
	minInt     bool // -2^63 and 2^63-1 (parsed as big numbers by the real code)
	special    bool // strings that look like tokens
	oddKeys    bool
	integralF  bool
	falseVal   bool
	emptyC     bool
	times      bool
	nullVal    bool
	control    bool // control characters in strings
	longFloats bool // floats with 18 or more fraction digits (the parser keeps them as text)
	noHuge     bool // no numbers beyond the float64 range (read as infinity)
	smallInts  bool // integers below 10^12 only (nano time format: large integers are read as times)
	maxWidth   int
}

func randString(r *rand.Rand, p *profile) string {
	switch x := r.IntN(20); {
	case x < 9:
		return fw.Pick(r, plainStrings)
	case x < 11 && p.special:
		return fw.Pick(r, specialStrings)
	case x < 13:
		// random letters
		n := 1 + r.IntN(12)
		var b strings.Builder
		for i := 0; i < n; i++ {
			b.WriteByte("abcdefghijklmnopqrstuvwxyzABCXYZ_"[r.IntN(33)])
		}
		return b.String()
	case x < 15:
		// random runes from a few blocks
		n := 1 + r.IntN(8)
		var b strings.Builder
		for i := 0; i < n; i++ {
			switch r.IntN(5) {
			case 0:
				b.WriteRune(rune(0x21 + r.IntN(0x5e)))
			case 1:
				b.WriteRune(rune(0xc0 + r.IntN(0x17f-0xc0)))
			case 2:
				b.WriteRune(rune(0x4e00 + r.IntN(0x500)))
			case 3:
				b.WriteRune(rune(0x1F600 + r.IntN(0x40)))
			case 4:
				b.WriteByte(' ')
			}
		}
		return b.String()
	case x < 16:
		return strings.Repeat(fw.Pick(r, plainStrings), 5+r.IntN(30))
	}
	return fw.Pick(r, plainStrings) + strconv.Itoa(r.IntN(100))
}

func randKey(r *rand.Rand, p *profile, used map[string]bool) string {
	for try := 0; ; try++ {
		var k string
		switch {
		case p.oddKeys && r.IntN(4) == 0:
			k = fw.Pick(r, oddKeys)
		case r.IntN(5) == 0:
			k = fw.Pick(r, plainKeys) + strconv.Itoa(r.IntN(50))
		default:
			k = fw.Pick(r, plainKeys)
		}
		if 8 < try {
			k += strconv.Itoa(try)
		}
		if !used[k] {
			used[k] = true
			return k
		}
	}
}

// nearMax: 19-digit integers at the top of the int64 range
func nearMax(v int64) bool {
	return 9200000000000000000 <= v || v <= -9200000000000000000
}

var timeCfgs = []TimeCfg{
	{Format: time.RFC3339Nano, Wrap: "@t"},
	{Format: time.RFC3339Nano, Wrap: "$date"},
	{Format: time.RFC3339Nano, Wrap: ""},
	{Format: "nano", Wrap: ""},
	{Format: "nano", Wrap: "time"},
}

func randInt(r *rand.Rand, p *profile) *Node {
	if p.smallInts {
		return nInt(r.Int64N(2e12) - 1e12)
	}
	switch r.IntN(4) {
	case 0:
		v := fw.Pick(r, edgeInts)
		if !p.minInt && nearMax(v) {
			v = 1 << 40
		}
		return nInt(v)
	case 1:
		return nInt(int64(r.IntN(2001) - 1000))
	case 2:
		v := r.Int64N(math.MaxInt64-1)>>uint(r.IntN(63)) - int64(r.IntN(2))
		if !p.minInt && nearMax(v) {
			v >>= 1
		}
		return nInt(v)
	}
	v := -(r.Int64N(math.MaxInt64-1) >> uint(r.IntN(63)))
	if !p.minInt && nearMax(v) {
		v >>= 1
	}
	return nInt(v)
}

func randFloat(r *rand.Rand, p *profile) *Node {
	switch r.IntN(5) {
	case 0, 1:
		return nFloat(fw.Pick(r, floatLits))
	case 2:
		if p.integralF {
			return nFloat(fw.Pick(r, integralFloatLits))
		}
		return nFloat(fw.Pick(r, floatLits))
	case 3:
		f := (r.Float64() - 0.5) * math.Pow(10, float64(r.IntN(40)-20))
		if f == math.Trunc(f) {
			f += 0.5
		}
		return nFloat(floatText(f, p))
	}
	f := math.Float64frombits(r.Uint64())
	if math.IsNaN(f) || math.IsInf(f, 0) || f == math.Trunc(f) {
		f = 0.125
	}
	return nFloat(floatText(f, p))
}

// floatText renders a float; unless the profile allows long floats the text
// is cut to 12 significant digits (a different float, exactly representable
// by its own text).
func floatText(f float64, p *profile) string {
	if p.longFloats {
		return strconv.FormatFloat(f, 'g', -1, 64)
	}
	s := strconv.FormatFloat(f, 'g', 12, 64)
	g, _ := strconv.ParseFloat(s, 64)
	if g == math.Trunc(g) {
		return "0.375"
	}
	return strconv.FormatFloat(g, 'g', -1, 64)
}

var baseTime = time.Date(2024, 1, 2, 3, 4, 5, 0, time.UTC)

func randTime(r *rand.Rand) *Node {
	switch r.IntN(4) {
	case 0:
		return nTime(baseTime)
	case 1:
		return nTime(baseTime.Add(time.Duration(r.Int64N(1e18))))
	case 2:
		return nTime(time.Unix(r.Int64N(4e9), int64(r.IntN(1e9))))
	}
	return nTime(time.Date(1970+r.IntN(130), time.Month(1+r.IntN(12)), 1+r.IntN(28), r.IntN(24), r.IntN(60), r.IntN(60), r.IntN(1000)*1e6, time.UTC))
}

func randScalar(r *rand.Rand, p *profile) *Node {
	for {
		switch x := r.IntN(24); {
		case x < 6:
			return randInt(r, p)
		case x < 10:
			return randFloat(r, p)
		case x < 17:
			s := randString(r, p)
			if !p.control && !printableOnly(strings.NewReplacer("\n", "", "\t", "", "\r", "").Replace(s)) {
				continue
			}
			return nStr(s)
		case x < 18:
			if p.nullVal {
				return nNull()
			}
		case x < 19:
			return nBool(true)
		case x < 20:
			if p.falseVal {
				return nBool(false)
			}
		case x < 21:
			if p.big {
				if r.IntN(4) == 0 {
					if p.noHuge {
						return nBig(fw.Pick(r, bigDecimals[:4]))
					}
					return nBig(fw.Pick(r, bigDecimals))
				}
				return nBig(fw.Pick(r, bigInts))
			}
		case x < 22:
			if p.times {
				return randTime(r)
			}
		default:
			return randInt(r, p)
		}
	}
}

// randDoc generates a value of at most the given depth.
func randDoc(r *rand.Rand, p *profile, depth int) *Node {
	if depth <= 0 || r.IntN(10) < 3 {
		return randScalar(r, p)
	}
	width := p.maxWidth
	if width == 0 {
		width = 5
	}
	n := r.IntN(width + 1)
	if n == 0 && !p.emptyC {
		n = 1
	}
	if r.IntN(2) == 0 {
		a := &Node{K: kArr, A: []*Node{}}
		for i := 0; i < n; i++ {
			a.A = append(a.A, randDoc(r, p, depth-1))
		}
		return a
	}
	o := &Node{K: kObj}
	used := map[string]bool{}
	for i := 0; i < n; i++ {
		o.put(randKey(r, p, used), randDoc(r, p, depth-1))
	}
	return o
}

// randContainerDoc is randDoc with a container at the root.
func randContainerDoc(r *rand.Rand, p *profile, depth int) *Node {
	for i := 0; i < 20; i++ {
		d := randDoc(r, p, depth)
		if d.isContainer() && (0 < len(d.A) || i > 10) {
			return d
		}
	}
	return nArr(nInt(1), nObj().put("a", nInt(2)))
}

// ---------------------------------------------------------------- write options

var probeWOpts = []WOpts{
	{Pretty: 0, Depth: -1, Margin: -1, JSON: 0, Color: -1},
	{Pretty: 0, Depth: -1, Margin: -1, JSON: 1, Color: -1},
	{Pretty: 1, Depth: -1, Margin: -1, JSON: 0, Color: 0},
	{Pretty: 1, Depth: 3, Margin: 40, JSON: 1, Color: 0},
}

func randWOpts(r *rand.Rand) *WOpts {
	w := &WOpts{Pretty: -1, Depth: -1, Margin: -1, JSON: -1, Color: -1}
	w.Pretty = r.IntN(3) - 1
	if r.IntN(2) == 0 {
		w.Depth = r.IntN(8)
	}
	if r.IntN(3) == 0 {
		w.Margin = []int{1, 10, 20, 40, 80, 120, 200}[r.IntN(7)]
	}
	w.JSON = r.IntN(3) - 1
	if r.IntN(3) == 0 {
		w.Color = 0
	}
	w.Send = r.IntN(3) == 0
	w.Stream = r.IntN(4) == 0
	return w
}

// ---------------------------------------------------------------- probe blocks (deterministic, seed independent)

type probeScalar struct {
	name string
	n    *Node
}

func probeScalars() []probeScalar {
	var out []probeScalar
	add := func(name string, n *Node) { out = append(out, probeScalar{name, n}) }
	add("null", nNull())
	add("true", nBool(true))
	add("false", nBool(false))
	add("empty-array", nArr())
	add("empty-object", nObj())
	for _, v := range edgeInts {
		add("int", nInt(v))
	}
	for _, s := range bigInts {
		add("bigint", nBig(s))
	}
	for _, s := range bigDecimals {
		add("bigdecimal", nBig(s))
	}
	for _, s := range floatLits {
		add("float", nFloat(s))
	}
	for _, s := range integralFloatLits {
		add("integral-float", nFloat(s))
	}
	for _, s := range plainStrings {
		add("string", nStr(s))
	}
	for _, s := range specialStrings {
		add("special-string", nStr(s))
	}
	return out
}

var (
	pScalars    = probeScalars()
	textEntries = []string{"make-bag", "make-instance", "bag-parse", "send-parse", "json-parse", "json-parse-strict", "bag-read", "init-read", "make-bag-octets", "load-bag", "each-bag-stream", "each-bag-file", "json-parse-stream",
		"json-parse-strict-stream", "json-parse-octets", "json-parse-strict-octets"}
)

// text probe i: scalar s (as array element, object value and, for strings,
// as key) x write option set x input format.
// extra fixed documents of the text probe block: combinations of listed
// constructs that fail in their own way
var textExtraDocs = []*Node{
	// "+" written bare is the SEN string concatenation operator; the quoted key
	// after it is then joined to a value that is not there
	nObj().put("b", nStr("+")).put("k k", nInt(1)),
	nArr(nStr("+"), nStr("x y")),
	nObj().put("b", nStr("-")).put("k k", nInt(1)),
}

func nTextProbes() int {
	return len(pScalars)*len(probeWOpts)*2*2 + len(textExtraDocs)*len(probeWOpts)
}

func textProbe(i int) Case {
	if base := len(pScalars) * len(probeWOpts) * 2 * 2; base <= i {
		i -= base
		doc := textExtraDocs[i/len(probeWOpts)]
		w := probeWOpts[i%len(probeWOpts)]
		return Case{Kind: "text", Doc: doc, Fmt: "json", Text: compactJSON(doc), Entry: "make-bag", W: &w, Probe: "text:extra"}
	}
	s := pScalars[i%len(pScalars)]
	i /= len(pScalars)
	w := probeWOpts[i%len(probeWOpts)]
	i /= len(probeWOpts)
	sen := i%2 == 1
	i /= 2
	var doc *Node
	switch {
	case i%2 == 0:
		doc = nObj().put("v", s.n.clone()).put("l", nArr(s.n.clone(), nInt(1)))
	case s.n.K == kStr:
		doc = nObj().put(s.n.S, nInt(2)) // the string as a member name
	default:
		doc = s.n.clone() // the scalar as the whole document
	}
	c := Case{Kind: "text", Doc: doc, Fmt: "json", Entry: "make-bag", W: &w, Probe: "text:" + s.name}
	if sen {
		c.Fmt = "sen"
	}
	rr := rand.New(rand.NewPCG(uint64(i), 18))
	c.Text = renderText(rr, doc, sen, true)
	return c
}

var nativeVias = []string{"make-bag", "make-instance-set", "bag-set-root", "send-native", "send-set"}

func nNativeProbes() int { return len(pScalars) }

func nativeProbe(i int) Case {
	s := pScalars[i]
	doc := nObj().put("v", s.n.clone()).put("l", nArr(s.n.clone(), nInt(1)))
	return Case{Kind: "native", Doc: doc, Via: nativeVias[i%len(nativeVias)], Probe: "native:" + s.name}
}

// ---------------------------------------------------------------- bridge

func gInt(kind string, s string) *GoVal { return &GoVal{K: kind, S: s} }

func probeGoVals() []*GoVal {
	var out []*GoVal
	out = append(out, &GoVal{K: "nil"}, &GoVal{K: "bool", B: true}, &GoVal{K: "bool", B: false})
	for _, k := range []struct {
		kind     string
		min, max string
	}{
		{"int", "-9223372036854775808", "9223372036854775807"}, {"int8", "-128", "127"}, {"int16", "-32768", "32767"},
		{"int32", "-2147483648", "2147483647"}, {"int64", "-9223372036854775808", "9223372036854775807"},
		{"uint", "0", "9223372036854775807"}, {"uint8", "0", "255"}, {"uint16", "0", "65535"}, {"uint32", "0", "4294967295"},
		{"uint64", "0", "9223372036854775807"},
	} {
		out = append(out, gInt(k.kind, k.min), gInt(k.kind, k.max), gInt(k.kind, "0"), gInt(k.kind, "1"), gInt(k.kind, "100"))
	}
	out = append(out, gInt("uint64", "9223372036854775808"), gInt("uint64", "18446744073709551615"), gInt("uint", "18446744073709551615"))
	for _, f := range []string{"0", "0.5", "-1.25", "1e10", "3.4028235e38", "1e-45", "16777217", "0.1"} {
		out = append(out, &GoVal{K: "float32", S: f})
	}
	for _, f := range append(append([]string{}, floatLits...), integralFloatLits...) {
		out = append(out, &GoVal{K: "float64", S: f})
	}
	out = append(out, &GoVal{K: "float64", S: "+Inf"}, &GoVal{K: "float64", S: "NaN"})
	for _, s := range append(append([]string{}, plainStrings...), specialStrings...) {
		out = append(out, &GoVal{K: "string", S: s})
	}
	for _, t := range []time.Time{baseTime, time.Unix(0, 0).UTC(), time.Unix(1704164645, 123456789).UTC(), time.Date(1960, 5, 6, 7, 8, 9, 10, time.UTC),
		time.Date(2262, 1, 1, 0, 0, 0, 0, time.UTC), time.Date(9999, 12, 31, 23, 59, 59, 999999999, time.UTC)} {
		out = append(out, &GoVal{K: "time", S: t.Format(time.RFC3339Nano)})
	}
	out = append(out, &GoVal{K: "time", S: "2024-01-02T03:04:05.5+09:00"})
	out = append(out, &GoVal{K: "time", S: "2024-06-30T12:30:15+02:00"}, &GoVal{K: "time", S: "1999-12-31T23:59:59.000000001-05:30"},
		&GoVal{K: "slice", A: []*GoVal{{K: "time", S: "2024-06-30T12:30:15+02:00"}, {K: "time", S: "2024-06-30T10:30:15Z"}}},
		&GoVal{K: "map", Keys: []string{"at"}, A: []*GoVal{{K: "time", S: "2001-02-03T04:05:06-08:00"}}})
	out = append(out, &GoVal{K: "slice", A: []*GoVal{}}, &GoVal{K: "slice", A: []*GoVal{{K: "nil"}}},
		&GoVal{K: "slice", A: []*GoVal{gInt("int", "1"), {K: "string", S: "x"}, {K: "slice", A: []*GoVal{}}, {K: "bool", B: true}}},
		&GoVal{K: "map"}, &GoVal{K: "map", Keys: []string{"a"}, A: []*GoVal{gInt("int64", "1")}},
		&GoVal{K: "map", Keys: []string{"a", "b"}, A: []*GoVal{gInt("int64", "1"), {K: "slice", A: []*GoVal{gInt("int", "2")}}}},
		&GoVal{K: "slice", A: []*GoVal{{K: "map", Keys: []string{"k"}, A: []*GoVal{{K: "nil"}}}}},
		&GoVal{K: "slice", A: []*GoVal{{K: "bool", B: false}}},
	)
	return out
}

var pGoVals = probeGoVals()

var bridgeVias = []string{"simplify", "bag"} // Simplify(SimpleObject(v)) | ObjectToBag(SimpleObject(v))

func nBridgeProbes() int { return len(pGoVals) * 2 }

type goProfile struct {
	maps, falseVal, unsignedBig, float32s, nonFinite bool
}

func randGoVal(r *rand.Rand, p *goProfile, depth int) *GoVal {
	if 0 < depth && r.IntN(10) < 4 {
		n := r.IntN(5)
		if r.IntN(3) != 0 || !p.maps {
			g := &GoVal{K: "slice", A: []*GoVal{}}
			for i := 0; i < n; i++ {
				g.A = append(g.A, randGoVal(r, p, depth-1))
			}
			return g
		}
		g := &GoVal{K: "map"}
		used := map[string]bool{}
		pp := &profile{oddKeys: true}
		for i := 0; i < n; i++ {
			g.Keys = append(g.Keys, randKey(r, pp, used))
			g.A = append(g.A, randGoVal(r, p, depth-1))
		}
		return g
	}
	for {
		switch r.IntN(12) {
		case 0:
			return &GoVal{K: "nil"}
		case 1:
			if p.falseVal || r.IntN(2) == 0 {
				return &GoVal{K: "bool", B: !p.falseVal || r.IntN(2) == 0}
			}
		case 2, 3, 4:
			kinds := []string{"int", "int8", "int16", "int32", "int64", "uint", "uint8", "uint16", "uint32", "uint64"}
			k := fw.Pick(r, kinds)
			bits := map[string]int{"int": 63, "int8": 7, "int16": 15, "int32": 31, "int64": 63, "uint": 63, "uint8": 8, "uint16": 16, "uint32": 32, "uint64": 63}[k]
			if p.unsignedBig && (k == "uint" || k == "uint64") && r.IntN(3) == 0 {
				return gInt(k, strconv.FormatUint(r.Uint64()|1<<63, 10))
			}
			v := r.Uint64() >> uint(64-bits) >> uint(r.IntN(bits))
			if strings.HasPrefix(k, "int") && r.IntN(2) == 0 {
				return gInt(k, "-"+strconv.FormatUint(v, 10))
			}
			return gInt(k, strconv.FormatUint(v, 10))
		case 5, 6:
			if p.float32s && r.IntN(3) == 0 {
				f := float32((r.Float64() - 0.5) * math.Pow(10, float64(r.IntN(30)-15)))
				return &GoVal{K: "float32", S: strconv.FormatFloat(float64(f), 'g', -1, 32)}
			}
			n := randFloat(r, &profile{integralF: true})
			return &GoVal{K: "float64", S: n.S}
		case 7, 8, 9:
			return &GoVal{K: "string", S: randString(r, &profile{special: true, control: true})}
		case 10:
			return &GoVal{K: "time", S: randTime(r).S}
		case 11:
			if p.nonFinite && r.IntN(4) == 0 {
				return &GoVal{K: "float64", S: fw.Pick(r, []string{"+Inf", "-Inf", "NaN"})}
			}
		}
	}
}

// ---------------------------------------------------------------- paths and histories

// pathKeys are the member names used in path-history documents: plain
// identifiers plus a few that need bracket notation.
var pathDocKeys = []string{"a", "b", "c", "d", "list", "name", "x1", "k k", "a.b", "é", "12", "key-with-dash"}

func randPathDoc(r *rand.Rand, depth int, rich bool) *Node {
	p := &profile{maxDepth: depth, nullVal: true, falseVal: true, emptyC: true, integralF: false, maxWidth: 4,
		big: true, longFloats: true, minInt: true, noHuge: true}
	var build func(d int) *Node
	build = func(d int) *Node {
		if d <= 0 || r.IntN(10) < 3 {
			if rich {
				return randScalar(r, p)
			}
			return fw.Pick(r, []*Node{nInt(int64(r.IntN(100))), nStr(fw.Pick(r, plainStrings)), nBool(true), nNull(), nFloat("2.5"), nBool(false)}).clone()
		}
		n := r.IntN(5)
		if r.IntN(2) == 0 {
			a := &Node{K: kArr, A: []*Node{}}
			// arrays of objects sharing keys make wildcard paths meaningful
			if r.IntN(3) == 0 && 1 < d {
				k1, k2 := fw.Pick(r, pathDocKeys[:6]), fw.Pick(r, pathDocKeys[:6])
				for i := 0; i < 1+n; i++ {
					o := nObj().put(k1, build(d-2))
					if r.IntN(2) == 0 {
						o.put(k2, build(d-2))
					}
					a.A = append(a.A, o)
				}
				return a
			}
			for i := 0; i < n; i++ {
				a.A = append(a.A, build(d-1))
			}
			return a
		}
		o := nObj()
		for i := 0; i < n; i++ {
			k := fw.Pick(r, pathDocKeys)
			if _, dup := o.get(k); dup {
				continue
			}
			o.put(k, build(d-1))
		}
		return o
	}
	for i := 0; i < 20; i++ {
		d := build(depth)
		if d.isContainer() && 0 < len(d.A) {
			return d
		}
	}
	return nObj().put("a", nArr(nInt(1), nInt(2))).put("b", nObj().put("c", nInt(3)))
}

// randPath derives a path from the document: mostly an existing location,
// then mutated (negative index, wildcard, descent, missing tail, out of range).
func randPath(r *rand.Rand, doc *Node, dirty bool) Path {
	locs := allLocs(doc)
	m := locs[r.IntN(len(locs))]
	if len(m.at) == 0 && 1 < len(locs) {
		m = locs[1+r.IntN(len(locs)-1)]
	}
	p := Path{}
	// walk again to know array lengths for negative indices
	cur := doc
	parent := doc
	for _, s := range m.at {
		parent = cur
		if s.Nth {
			idx := s.Idx
			if r.IntN(3) == 0 {
				idx -= len(cur.A)
			}
			p = append(p, fNth(idx))
			cur = cur.A[s.Idx]
		} else {
			p = append(p, fChild(s.Key))
			cur, _ = cur.get(s.Key)
		}
	}
	newKey := func() Frag { return fChild(fw.Pick(r, []string{"new", "n2", "zz", "a", "k k"})) }
	switch x := r.IntN(20); {
	case x < 8:
		// as is
	case x < 11 && 0 < len(p):
		// one fragment becomes a wildcard
		p[r.IntN(len(p))] = fWild()
	case x < 13 && 0 < len(p):
		// descent replaces a leading part: ..tail
		cut := 1 + r.IntN(len(p))
		tail := append(Path{}, p[cut-1:]...)
		p = append(Path{fDescent()}, tail...)
	case x < 15:
		// extend with a missing member chain
		switch {
		case r.IntN(4) == 0:
			// whatever the node is (a member name on an array and an index on an
			// object are errors)
			if r.IntN(2) == 0 {
				p = append(p, fNth(r.IntN(3)))
			} else {
				p = append(p, newKey())
			}
		case cur.K == kArr:
			p = append(p, fNth(r.IntN(len(cur.A)+1)))
		default:
			p = append(p, newKey())
		}
		if r.IntN(2) == 0 {
			if r.IntN(3) == 0 {
				p = append(p, fNth(r.IntN(3)))
			} else {
				p = append(p, newKey())
			}
		}
	case x < 16 && 0 < len(p):
		// out of range or wrong-type last fragment
		switch {
		case r.IntN(4) == 0:
			if parent.K == kArr {
				p[len(p)-1] = fChild("nokey")
			} else {
				p[len(p)-1] = fNth(r.IntN(2))
			}
		case parent.K == kArr && r.IntN(2) == 0:
			p[len(p)-1] = fNth(len(parent.A) + r.IntN(3))
		case parent.K == kArr:
			p[len(p)-1] = fNth(-len(parent.A) - 1 - r.IntN(2))
		default:
			p[len(p)-1] = fChild("nokey")
		}
	case x < 17:
		// descent in the middle
		if 1 < len(p) {
			cut := 1 + r.IntN(len(p)-1)
			np := append(Path{}, p[:cut]...)
			np = append(np, fDescent())
			np = append(np, p[len(p)-1])
			p = np
		}
	case x < 18:
		p = append(p, fWild())
	default:
		if 0 < len(p) {
			p = p[:len(p)-1]
		}
	}
	if len(p) == 0 {
		p = Path{fWild()}
	}
	return p
}

func finishOp(r *rand.Rand, op *Op) {
	style := 0
	if r.IntN(3) == 0 {
		style |= 1
	}
	if r.IntN(6) == 0 {
		style |= 2
	}
	if r.IntN(3) == 0 {
		style |= 4
	}
	op.PStr = op.Path.render(style)
	op.PObj = r.IntN(4) == 0
	op.Send = r.IntN(3) == 0
	if r.IntN(6) == 0 {
		op.PList = 1 + r.IntN(2)
	}
}

func hasEmptyOrSpecial(n *Node) bool {
	return n.has(func(x *Node) bool {
		return x.isContainer() && len(x.A) == 0
	})
}

// hashMode: a value that is an object may be handed over as a hash-table.
// avoided (finding "val=hash-table"): false and numbers beyond int64/float64
// inside a hash-table; every 8th candidate has them anyway.
func hashMode(r *rand.Rand, v *Node, mode string) string {
	if v.K != kObj || r.IntN(3) != 0 || v.has(func(x *Node) bool { return x.K == kArr && len(x.A) == 0 }) {
		return mode // (Lisp has one value for the empty list and nil)
	}
	if hashLossy(v) && r.IntN(8) != 0 {
		return mode
	}
	if r.IntN(8) == 0 && hasObject(v.stripRoot()) && !emptyBelowRoot(v) {
		return "hash-assoc"
	}
	return "hash"
}

func randSetValue(r *rand.Rand, scalarOnly bool, rich bool) (*Node, string) {
	v, mode := randSetValue0(r, scalarOnly, rich)
	if v.has(func(x *Node) bool { return x.K == kTime }) && hasEmptyOrSpecial(v) {
		return v, mode
	}
	return v, hashMode(r, v, mode)
}

func randSetValue0(r *rand.Rand, scalarOnly bool, rich bool) (*Node, string) {
	p := &profile{nullVal: true, falseVal: true, emptyC: true, times: rich, maxWidth: 3, big: rich, longFloats: rich, minInt: rich, noHuge: true}
	var v *Node
	if scalarOnly || r.IntN(3) != 0 {
		v = randScalar(r, p)
	} else {
		v = randDoc(r, p, 1+r.IntN(2))
	}
	hasTime := v.has(func(x *Node) bool { return x.K == kTime })
	mode := "lisp"
	switch {
	case hasTime:
		if hasEmptyOrSpecial(v) {
			v = randTime(r)
		}
	case hasEmptyOrSpecial(v):
		mode = fw.Pick(r, []string{"bag", "text", "stream"})
	default:
		mode = fw.Pick(r, []string{"lisp", "lisp", "bag", "text", "stream"})
	}
	return v, mode
}

// avoidSharedSet: true would keep container values away from wildcard paths
// in the clean stream and end a history after such a step (the treatment of
// the finding "multi-location-container-set" while it was open; repaired by
// 6c89c9a, bag-set now gives every match a value of its own).
const avoidSharedSet = false

func randHistory(r *rand.Rand, doc *Node, n int, rich bool, dirty bool) []Op {
	ops := make([]Op, 0, n)
	// the model is stepped while generating so that later paths refer to the
	// document as it will be (as far as the model knows it)
	cur := doc.clone()
	var inside loc // a match of the last multi-match container set
	for i := 0; i < n; i++ {
		var op Op
		if inside != nil {
			// go on below one of the matches of the step before: the other
			// matches must not follow
			var below []match
			for _, m := range allLocs(cur) {
				if len(inside) < len(m.at) && inside.isPrefixOf(m.at) {
					below = append(below, m)
				}
			}
			inside = nil
			if 0 < len(below) && r.IntN(4) != 0 {
				op.Path = below[r.IntN(len(below))].at.path()
				if r.IntN(2) == 0 {
					op.Op = "remove"
					if res, st, _, _ := modelRemove(cur, op.Path); st == stOK {
						cur = res
					}
				} else {
					op.Op, op.Val, op.ValMode = "set", nInt(int64(r.IntN(1000))), "lisp"
					if res, st, _, _ := modelSet(cur, op.Path, op.Val); st == stOK {
						cur = res
					}
				}
				finishOp(r, &op)
				ops = append(ops, op)
				continue
			}
		}
		switch x := r.IntN(20); {
		case x < 9:
			op.Op = "set"
			op.Path = randPath(r, cur, dirty)
			// avoided (finding "multi-location-container-set"): a container
			// value stored through a wildcard ends up shared by all matches
			op.Val, op.ValMode = randSetValue(r, op.Path.hasDescent() || (avoidSharedSet && !dirty && !op.Path.definite()), rich)
			if op.ValMode == "text" || op.ValMode == "stream" {
				op.Op = "parse"
			}
			multi := !op.Path.definite() && !op.Path.hasDescent()
			if multi && r.IntN(2) == 0 {
				op.Op = "set"
				op.Val, op.ValMode = randNestedValue(r)
				if op.ValMode == "text" || op.ValMode == "stream" {
					op.Op = "parse"
				}
			}
			if res, st, _, _ := modelSet(cur, op.Path, op.Val); st == stOK {
				cur = res
				if ms, _ := evalPath(cur, op.Path); multi && op.Val.isContainer() && 1 < len(ms) {
					inside = ms[r.IntN(len(ms))].at
				}
			}
		case x < 14:
			op.Op = "remove"
			op.Path = randPath(r, cur, dirty)
			for try := 0; try < 4 && 1 < len(op.Path) && op.Path[len(op.Path)-2].K == "descent"; try++ {
				// remove is a modification of the matches of the path without its
				// last fragment; "..x" has no such set and is always rejected
				op.Path = randPath(r, cur, dirty)
			}
			if res, st, _, _ := modelRemove(cur, op.Path); st == stOK && res.isContainer() {
				cur = res
			}
		case x < 15:
			op.Op = "get"
			op.Path = randPath(r, cur, dirty)
		case x < 16:
			op.Op = "has"
			op.Path = randPath(r, cur, dirty)
		case x < 18:
			op.Op = fw.Pick(r, []string{"walk", "getall"})
			op.Path = randPath(r, cur, dirty)
		case x < 19:
			op.Op = "modify"
			op.Path = randPath(r, cur, dirty)
			// avoided (bridge findings): without :as-bag the value passes through
			// SimpleObject/Simplify, which loses false, objects and empty containers
			op.AsBag = !dirty || r.IntN(2) == 0
		default:
			op.Op = "set"
			op.Path = Path{}
			op.NoPath = true
			op.Val, op.ValMode = randSetValue(r, false, rich)
			if op.ValMode == "text" || op.ValMode == "stream" {
				op.Op = "parse"
			}
			if !op.Val.isContainer() {
				op.Val = nObj().put("a", op.Val)
				if op.ValMode == "lisp" && hasEmptyOrSpecial(op.Val) {
					op.ValMode = "bag"
				}
			}
			cur = op.Val.clone()
		}
		finishOp(r, &op)
		if op.NoPath {
			op.PStr = ""
			op.PObj = false
		}
		ops = append(ops, op)
	}
	return ops
}

// path probes: a fixed document and a fixed list of single operations that
// touches every (operation, last fragment kind, parent kind) combination.
func pathProbeDoc() *Node {
	return nObj().
		put("a", nArr(nInt(1), nInt(2), nInt(3))).
		put("b", nObj().put("c", nObj().put("d", nInt(4)).put("e", nArr())).put("f", nNull())).
		put("g", nArr(nArr(nInt(1), nInt(2)), nArr(nInt(3), nInt(4)))).
		put("h", nArr(nObj().put("k", nInt(1)), nObj().put("k", nInt(2)).put("m", nStr("x")))).
		put("s", nStr("str")).put("t", nBool(true)).put("u", nBool(false)).put("k k", nInt(5)).put("o", nObj()).
		put("w", nTime(baseTime))
}

var probePaths = []Path{
	{fChild("a")}, {fChild("a"), fNth(0)}, {fChild("a"), fNth(-1)}, {fChild("a"), fNth(3)}, {fChild("a"), fNth(7)}, {fChild("a"), fNth(-4)},
	{fChild("a"), fChild("x")}, {fChild("a"), fNth(0), fChild("x")}, {fChild("a"), fWild()}, {fChild("b"), fChild("c"), fChild("d")},
	{fChild("b"), fChild("c"), fChild("new")}, {fChild("b"), fChild("c"), fChild("e"), fNth(0)}, {fChild("b"), fChild("f")},
	{fChild("b"), fChild("f"), fChild("x")}, {fChild("b"), fNth(0)}, {fChild("b"), fWild()}, {fChild("g"), fWild(), fNth(0)},
	{fChild("g"), fNth(1), fNth(-1)}, {fChild("g"), fWild(), fWild()}, {fChild("h"), fWild(), fChild("k")}, {fChild("h"), fWild(), fChild("m")},
	{fChild("h"), fNth(0), fChild("k")}, {fDescent(), fChild("k")}, {fDescent(), fChild("d")}, {fDescent(), fNth(0)}, {fDescent(), fWild()},
	{fChild("b"), fDescent(), fChild("d")}, {fChild("s")}, {fChild("s"), fChild("x")}, {fChild("s"), fNth(0)}, {fChild("t"), fChild("x")},
	{fChild("k k")}, {fChild("o"), fChild("p")}, {fChild("o"), fChild("p"), fChild("q")}, {fChild("o"), fChild("p"), fNth(1)},
	{fChild("o"), fChild("p"), fNth(-1)}, {fChild("o"), fChild("p"), fNth(1), fChild("q")}, {fChild("o"), fChild("p"), fWild()},
	{fChild("new")}, {fChild("new"), fChild("n2"), fChild("n3")}, {fNth(0)}, {fWild()}, {fChild("zz"), fChild("y")},
	{fChild("o"), fWild()}, {fChild("o"), fNth(0)}, {fChild("u")}, {fChild("o")}, {fChild("b")}, {fChild("a"), fNth(1)}, {fChild("w")}, {fChild("w"), fChild("x")},
	{fChild("w"), fNth(0)}, {fChild("h"), fWild(), fChild("k"), fChild("deep")}, {fChild("h"), fWild(), fChild("nokey"), fChild("deep")},
	{fDescent(), fChild("c"), fChild("d")}, {fDescent(), fChild("c"), fChild("nokey")},
	{fChild("h"), fSlice(0, 1), fChild("k")}, {fChild("h"), fSlice(0, -1), fChild("k")}, {fChild("a"), fSlice(0, 2)}, {fChild("a"), fSlice(1, -1)},
	{fUnion("s", "t")}, {fChild("b"), fUnion("c", "f")}, {fUnion("a", "g"), fNth(0)},
}

var probeOps = []string{"set", "remove", "get", "has", "walk", "getall", "modify", "modify-as-bag", "parse"}

var probeSetVals = []*Node{nInt(9), nObj().put("z", nInt(1)), nNull()}

func nPathProbes() int { return len(probePaths) * (len(probeOps) + len(probeSetVals) - 1) * 2 }

func pathProbe(i int) Case {
	rootArr := i%2 == 1
	i /= 2
	p := probePaths[i%len(probePaths)]
	i /= len(probePaths)
	op := Op{Path: p}
	switch {
	case i < len(probeSetVals):
		op.Op = "set"
		op.Val = probeSetVals[i].clone()
		op.ValMode = "lisp"
	default:
		op.Op = probeOps[i-len(probeSetVals)+1]
		if op.Op == "modify-as-bag" {
			op.Op, op.AsBag = "modify", true
		}
		if op.Op == "parse" {
			op.Val = nArr(nInt(9))
			op.ValMode = "text"
		}
	}
	op.PStr = p.render(0)
	doc := pathProbeDoc()
	if rootArr {
		doc = nArr(doc, nArr(nInt(1), nInt(2)), nInt(3), nNull())
	}
	// a second step so that aliasing between set copies shows
	ops := []Op{op}
	if op.Op == "set" && op.Val.isContainer() {
		p2 := append(append(Path{}, p...), fChild("z"))
		if !p.definite() {
			// narrow to the first match
			if ms, _ := evalPath(mustSet(doc, p, op.Val), p); 0 < len(ms) {
				p2 = append(ms[0].at.path(), fChild("z"))
			}
		}
		ops = append(ops, Op{Op: "set", Path: p2, PStr: p2.render(0), Val: nInt(77), ValMode: "lisp"})
	}
	return Case{Kind: "path", Doc: doc, Ops: ops, Probe: fmt.Sprintf("path:%s", op.Op)}
}

func mustSet(doc *Node, p Path, v *Node) *Node {
	if res, st, _, _ := modelSet(doc, p, v); st == stOK {
		return res
	}
	return doc
}

// ---------------------------------------------------------------- parse histories

// texts that are not SEN documents (or that the parser may take or leave:
// the monitor only requires that what follows is unaffected)
var badTexts = []string{"[1 2", "{a:", "{a:1}}", "[1,2]]", "\"abc", "[+Inf]", "{a:[+x 1]}", "[-]", "{\"a\" 1}", "{a:1 b}", "[1 2 +", "{a:[1 {b:[2 +", "+",
	"[\"a\" +", "{a:\"x\" +", "}", "]", "[1e]", "[1.]", "{:1}", "[\"\\u12\"]", "[\"\\x\"]", "\u0000", "[tru e]", "{a:1 a", "/* c", "[1 // c"}

var goodHistDocs = []*Node{
	nObj().put("v", nInt(1)).put("l", nArr(nInt(1))),
	nArr(nInt(1), nStr("two"), nObj().put("k", nNull())),
	nStr("(paren)"),
	nObj().put("é", nNull()),
	nObj().put("a", nObj().put("b", nArr(nObj().put("c", nStr("x y"))))),
	nInt(7),
}

var histEntries = []string{"make-bag", "make-instance", "bag-parse", "json-parse", "bag-read", "json-parse-strict", "json-parse-strict-stream", "json-parse-stream", "load-bag"}

func strictEntry(e string) bool {
	return strings.HasPrefix(e, "json-parse-strict") || strings.HasPrefix(e, "discover-strict")
}

// goodHistTexts are the valid texts of the probe block: the documents above as
// compact JSON plus SEN texts mixing bare tokens and quoted strings.
type histGood struct {
	text string
	doc  *Node
	sen  bool // not JSON: a strict parser must reject it
}

func goodHist() []histGood {
	var out []histGood
	for _, d := range goodHistDocs {
		out = append(out, histGood{compactJSON(d), d, false})
	}
	out = append(out,
		histGood{`[a50 "b c" d]`, nArr(nStr("a50"), nStr("b c"), nStr("d")), true},
		histGood{`{k: v w: "x y"}`, nObj().put("k", nStr("v")).put("w", nStr("x y")), true})
	return out
}

var pGoodHist = goodHist()

func nHistProbes() int { return len(badTexts) * len(histEntries) * len(pGoodHist) }

// hist probe: good text, bad text, then every good text, starting with
// number k (so that each good text is once the first one after the failure).
func histProbe(i int) Case {
	bad := badTexts[i%len(badTexts)]
	i /= len(badTexts)
	entry := histEntries[i%len(histEntries)]
	k := i / len(histEntries)
	c := Case{Kind: "parsehist", Probe: "parsehist"}
	c.Texts = append(c.Texts, HistText{Text: pGoodHist[0].text, Entry: entry, Doc: pGoodHist[0].doc})
	c.Texts = append(c.Texts, HistText{Text: bad, Entry: entry})
	for j := range pGoodHist {
		g := pGoodHist[(k+j)%len(pGoodHist)]
		if g.sen && strictEntry(entry) {
			c.Texts = append(c.Texts, HistText{Text: g.text, Entry: entry}) // not JSON: to be rejected, and without consequences
			continue
		}
		c.Texts = append(c.Texts, HistText{Text: g.text, Entry: entry, Doc: g.doc})
	}
	return c
}

func genHist(r *rand.Rand, i int) Case {
	c := Case{Kind: "parsehist"}
	n := 2 + r.IntN(5)
	p := &profile{nullVal: true, falseVal: true, emptyC: true, oddKeys: true, maxWidth: 4}
	for k := 0; k < n; k++ {
		entry := fw.Pick(r, histEntries)
		if r.IntN(3) == 0 {
			bad := fw.Pick(r, badTexts)
			if r.IntN(3) == 0 {
				// a valid text cut short
				t := renderText(r, randContainerDoc(r, p, 2), r.IntN(2) == 0, true)
				bad = t[:len(t)-1-r.IntN(len(t)-1)]
				for 0 < len(bad) && bad[len(bad)-1]&0xC0 == 0x80 {
					bad = bad[:len(bad)-1]
				}
			}
			c.Texts = append(c.Texts, HistText{Text: bad, Entry: entry})
			continue
		}
		d := randDoc(r, p, 1+r.IntN(3))
		sen := r.IntN(2) == 0 && !strictEntry(entry)
		if (entry == "json-parse-stream" || entry == "json-parse-strict-stream") && !d.isContainer() {
			d = nArr(d) // a stream of documents: scalars at the top level are not self-delimiting
		}
		c.Texts = append(c.Texts, HistText{Text: renderText(r, d, sen, true), Entry: entry, Doc: d})
	}
	return c
}

// ---------------------------------------------------------------- case list

type layout struct {
	textProbes, nativeProbes, bridgeProbes, pathProbes, histProbes int
	intProbes, gridProbes, removeProbes, multiProbes, nestedProbes int
	aliasProbes, hashProbes, edgeProbes, wrapKeyProbes, surrProbes int
	random                                                         int
}

func layoutFor(tier string) layout {
	l := layout{textProbes: nTextProbes(), nativeProbes: nNativeProbes(), bridgeProbes: nBridgeProbes(), pathProbes: nPathProbes(), histProbes: nHistProbes(),
		intProbes: nIntProbes(), gridProbes: nGridProbes(), removeProbes: nRemoveProbes(), multiProbes: nMultiProbes(), nestedProbes: nNestedProbes(),
		aliasProbes: nAliasProbes(), hashProbes: nHashProbes(), edgeProbes: nEdgeProbes(), wrapKeyProbes: nWrapKeyProbes(), surrProbes: nSurrogateProbes()}
	l.random = 14000
	if tier == "thorough" {
		l.random = 260000
	}
	return l
}

func nCases(tier string) int {
	l := layoutFor(tier)
	return l.textProbes + l.nativeProbes + l.bridgeProbes + l.pathProbes + l.histProbes + l.intProbes + l.gridProbes + l.removeProbes + l.multiProbes + l.nestedProbes +
		l.aliasProbes + l.hashProbes + l.edgeProbes + l.wrapKeyProbes + l.surrProbes + l.random
}

func gen(r *rand.Rand, i int, tier string) Case {
	l := layoutFor(tier)
	if i < l.textProbes {
		return textProbe(i)
	}
	i -= l.textProbes
	if i < l.nativeProbes {
		return nativeProbe(i)
	}
	i -= l.nativeProbes
	if i < l.bridgeProbes {
		return Case{Kind: "bridge", Go: pGoVals[i/2], Via: bridgeVias[i%2], Probe: "bridge:" + pGoVals[i/2].K}
	}
	i -= l.bridgeProbes
	if i < l.pathProbes {
		return pathProbe(i)
	}
	i -= l.pathProbes
	if i < l.histProbes {
		return histProbe(i)
	}
	i -= l.histProbes
	if i < l.intProbes {
		return intProbe(i)
	}
	i -= l.intProbes
	if i < l.gridProbes {
		return gridProbe(i)
	}
	i -= l.gridProbes
	if i < l.removeProbes {
		return removeProbe(i)
	}
	i -= l.removeProbes
	if i < l.multiProbes {
		return multiProbe(i)
	}
	i -= l.multiProbes
	if i < l.nestedProbes {
		return nestedProbe(i)
	}
	i -= l.nestedProbes
	if i < l.aliasProbes {
		return aliasProbe(i)
	}
	i -= l.aliasProbes
	if i < l.hashProbes {
		return hashProbe(i)
	}
	i -= l.hashProbes
	if i < l.edgeProbes {
		return edgeProbe(i)
	}
	i -= l.edgeProbes
	if i < l.wrapKeyProbes {
		return wrapKeyProbe(i)
	}
	i -= l.wrapKeyProbes
	if i < l.surrProbes {
		return surrogateProbe(i)
	}
	i -= l.surrProbes
	deep := 3
	if tier == "thorough" {
		deep = 5
	} else if i%7 == 0 {
		deep = 5
	}
	switch i % 10 {
	case 0, 1, 2:
		return genText(r, deep, i)
	case 3:
		return genNative(r, deep, i)
	case 4, 5, 6, 7:
		if (i/10)%4 == 2 {
			return genRemovePath(r, i)
		}
		return genPath(r, i)
	case 8:
		if (i/10)%3 == 1 {
			return genInts(r)
		}
		return genBridge(r, i)
	default:
		switch (i / 10) % 4 {
		case 0:
			return genHist(r, i)
		case 1:
			return genMulti(r, i)
		case 2:
			return genAlias(r, i)
		}
		return genBridge(r, i)
	}
}

// avoided constructs (see findings/C18.json): the clean stream keeps them out
// so that the rest stays monitored; every 8th case of a kind is "dirty" and
// generates them.
func genText(r *rand.Rand, depth int, i int) Case {
	dirty := (i/10)%8 == 0
	p := &profile{nullVal: true, falseVal: true, emptyC: true, oddKeys: true, control: true, maxWidth: 5}
	p.integralF = true
	if dirty {
		p.big, p.minInt, p.special, p.longFloats = true, true, true, true
	}
	var tc *TimeCfg
	if (i/10)%8 == 3 {
		// documents holding times, under a *bag-time-format* / *bag-time-wrap* setting
		tc = &timeCfgs[r.IntN(len(timeCfgs))]
		p.times, p.oddKeys, p.special, p.big, p.minInt = true, false, false, false, false
		p.smallInts = tc.Format == "nano"
	}
	// discover-json finds arrays and objects in prose with a simplified
	// scanner: it gets plain JSON documents only
	discover := (i/10)%8 == 5
	if discover {
		p.oddKeys, p.control, p.special, p.big = false, false, false, false
	}
	doc := randDoc(r, p, 1+r.IntN(depth))
	if discover {
		doc = randContainerDoc(r, p, 1+r.IntN(depth))
	}
	if tc != nil && !doc.has(func(n *Node) bool { return n.K == kTime }) {
		doc = nArr(doc, randTime(r))
	}
	if tc != nil && tc.Format == "nano" {
		// the nano reader takes integers from 2000-01-01 on as times, and
		// int64 nanoseconds end in 2262
		doc.walkNodes(func(n *Node) {
			if n.K == kTime {
				if t, _ := time.Parse(time.RFC3339Nano, n.S); t.Year() < 2001 || 2200 < t.Year() {
					n.S = baseTime.Format(time.RFC3339Nano)
				}
			}
		})
	}
	c := Case{Kind: "text", Doc: doc, W: randWOpts(r), Time: tc}
	if tc != nil {
		c.W.TimeKW = r.IntN(3) == 0
	}
	sen := r.IntN(2) == 0 && !discover
	c.Fmt = "json"
	if sen {
		c.Fmt = "sen"
	}
	c.Text = renderTextTime(r, doc, sen, discover, tc)
	astralKey := func(n *Node) bool {
		for _, k := range n.Keys {
			if strings.Contains(strClassesJoined(k), "astral") {
				return true
			}
		}
		return false
	}
	if dirty && tc == nil && r.IntN(2) == 0 && !doc.has(astralKey) && doc.has(func(n *Node) bool { return n.K == kStr && strings.Contains(strClassesJoined(n.S), "astral") }) {
		// avoided (finding "esc=surrogate"): astral characters in values written
		// as a surrogate pair of \u escapes
		w := &renderer{r: r, sen: false, surrogate: true}
		if w.node(doc); strings.Contains(w.b.String(), `\uD8`) {
			c.Text, c.Esc, sen, c.Fmt = w.b.String(), "surrogate", false, "json"
		}
	}
	c.Entry = fw.Pick(r, textEntries)
	if discover {
		c.Entry = fw.Pick(r, []string{"discover", "discover-strict", "discover-stream", "discover-strict-stream", "discover-octets"})
	}
	if strictEntry(c.Entry) && sen {
		c.Entry = strings.Replace(c.Entry, "-strict", "", 1)
	}
	if (c.Entry == "each-bag-stream" || c.Entry == "each-bag-file" || c.Entry == "json-parse-stream" || c.Entry == "json-parse-strict-stream") && !doc.isContainer() {
		// a stream of documents: scalars at the top level are not self-delimiting
		c.Entry = "load-bag"
	}
	if tc != nil {
		// json-parse and discover-json hand out the parsed data as it is; only
		// the bag-* entry points apply *bag-time-format*
		c.Entry = fw.Pick(r, []string{"make-bag", "make-bag-octets", "make-instance", "bag-parse", "send-parse", "bag-read", "init-read"})
	}
	if dirty {
		c.Probe = "dirty"
	}
	return c
}

func genNative(r *rand.Rand, depth int, i int) Case {
	dirty := (i/10)%8 == 0
	p := &profile{nullVal: true, oddKeys: true, control: true, integralF: true, times: true, maxWidth: 5,
		big: true, longFloats: true, minInt: true, noHuge: true}
	if dirty {
		p.falseVal, p.emptyC, p.noHuge = true, true, false
	}
	doc := randDoc(r, p, 1+r.IntN(depth))
	c := Case{Kind: "native", Doc: doc, Via: fw.Pick(r, nativeVias)}
	if dirty {
		c.Probe = "dirty"
	}
	return c
}

func genPath(r *rand.Rand, i int) Case {
	rich := (i/10)%4 == 0
	doc := randPathDoc(r, 2+r.IntN(3), rich)
	n := 1 + r.IntN(6)
	dirty := (i/10)%8 == 1
	c := Case{Kind: "path", Doc: doc, Ops: randHistory(r, doc, n, rich, dirty)}
	if dirty {
		c.Probe = "dirty"
	}
	return c
}

func genBridge(r *rand.Rand, i int) Case {
	dirty := (i/10)%8 == 0
	p := &goProfile{float32s: true}
	via := bridgeVias[r.IntN(2)]
	if via == "bag" {
		p.maps = true
	}
	if dirty {
		p.maps, p.falseVal, p.unsignedBig, p.nonFinite = true, true, true, true
	}
	c := Case{Kind: "bridge", Go: randGoVal(r, p, 1+r.IntN(4)), Via: via}
	if dirty {
		c.Probe = "dirty"
	}
	return c
}
