package c18

// render.go: the generator's own writers of JSON (json.org grammar) and SEN
// (ojg's sen.md grammar: JSON plus optional commas, bare tokens, single-quoted
// strings and // comments). They are used to produce *input* texts only; the
// texts under test are the ones slip writes.

import (
	"fmt"
	"math/rand/v2"
	"strings"
	"time"
	"unicode/utf8"
)

type renderer struct {
	r      *rand.Rand
	sen    bool
	spaced bool // random whitespace and newlines between tokens
	// escape styles
	uEscape   int    // 1 in uEscape non-ASCII BMP runes is written as \uXXXX (0 = never)
	surrogate bool   // astral runes as \uD83D\uDE00 surrogate pairs
	slash     bool   // '/' as \/
	comments  bool   // SEN: // comments
	timeWrap  string // times as {wrap: "text"}
	timeNano  bool   // times as integer nanoseconds
	b         strings.Builder
}

func (w *renderer) ws() {
	if !w.spaced {
		return
	}
	switch w.r.IntN(6) {
	case 0:
		w.b.WriteByte(' ')
	case 1:
		w.b.WriteString("\n  ")
	case 2:
		w.b.WriteString("\t")
	case 3:
		if w.sen && w.comments {
			w.b.WriteString(" // note\n")
		}
	}
}

// sep between elements: JSON needs a comma, SEN takes comma or white space.
func (w *renderer) sep() {
	if w.sen && w.r.IntN(3) != 0 {
		w.b.WriteByte(' ')
		w.ws()
		return
	}
	w.ws()
	w.b.WriteByte(',')
	w.ws()
}

// senToken tells whether s can be written as a bare SEN token: it starts
// with a letter or '_' (non-ASCII letters allowed), continues with letters,
// digits, '_', '-' and is not one of the literals.
func senToken(s string) bool {
	if s == "" || s == "true" || s == "false" || s == "null" {
		return false
	}
	for i, c := range s {
		switch {
		case 'a' <= c && c <= 'z', 'A' <= c && c <= 'Z', c == '_':
		case 0x00C0 <= c && c != utf8.RuneError && c != 0x2028 && c != 0x2029 && c != 0xFEFF && !(0x2000 <= c && c <= 0x200F) && c != 0x3000 && !(0xD7 == c || 0xF7 == c):
		case i != 0 && ('0' <= c && c <= '9' || c == '-'):
		default:
			return false
		}
	}
	return true
}

func (w *renderer) str(s string) {
	if w.sen {
		switch {
		case senToken(s) && w.r.IntN(3) != 0:
			w.b.WriteString(s)
			return
		case w.r.IntN(4) == 0 && !strings.ContainsAny(s, "'\"\\") && printableOnly(s):
			w.b.WriteString("'" + s + "'")
			return
		}
	}
	w.b.WriteByte('"')
	for _, c := range s {
		switch {
		case c == '"':
			w.b.WriteString(`\"`)
		case c == '\\':
			w.b.WriteString(`\\`)
		case c == '\n':
			w.b.WriteString(`\n`)
		case c == '\t':
			w.b.WriteString(`\t`)
		case c == '\r':
			w.b.WriteString(`\r`)
		case c == '\b':
			w.b.WriteString(`\b`)
		case c == '\f':
			w.b.WriteString(`\f`)
		case c < 0x20:
			fmt.Fprintf(&w.b, `\u%04x`, c)
		case c == '/' && w.slash:
			w.b.WriteString(`\/`)
		case 0x80 <= c && c < 0x10000 && 0 < w.uEscape && w.r.IntN(w.uEscape) == 0:
			fmt.Fprintf(&w.b, `\u%04X`, c)
		case 0x10000 <= c && w.surrogate:
			c -= 0x10000
			fmt.Fprintf(&w.b, `\u%04X\u%04X`, 0xD800+(c>>10), 0xDC00+(c&0x3FF))
		default:
			w.b.WriteRune(c)
		}
	}
	w.b.WriteByte('"')
}

func printableOnly(s string) bool {
	for _, c := range s {
		if c < 0x20 || c == 0x7f {
			return false
		}
	}
	return true
}

func (w *renderer) node(n *Node) {
	switch n.K {
	case kNull:
		w.b.WriteString("null")
	case kBool:
		if n.B {
			w.b.WriteString("true")
		} else {
			w.b.WriteString("false")
		}
	case kInt:
		fmt.Fprintf(&w.b, "%d", n.I)
	case kBig, kFloat:
		w.b.WriteString(n.S)
	case kStr:
		w.str(n.S)
	case kTime:
		val := func() {
			if w.timeNano {
				t, _ := time.Parse(time.RFC3339Nano, n.S)
				fmt.Fprintf(&w.b, "%d", t.UnixNano())
			} else {
				w.str(n.S)
			}
		}
		if w.timeWrap != "" {
			w.b.WriteByte('{')
			w.str(w.timeWrap)
			w.b.WriteByte(':')
			w.ws()
			val()
			w.b.WriteByte('}')
		} else {
			val()
		}
	case kArr:
		w.b.WriteByte('[')
		w.ws()
		for i, e := range n.A {
			if 0 < i {
				w.sep()
			}
			w.node(e)
		}
		w.ws()
		w.b.WriteByte(']')
	case kObj:
		w.b.WriteByte('{')
		w.ws()
		for i, k := range n.Keys {
			if 0 < i {
				w.sep()
			}
			w.str(k)
			if w.spaced && w.r.IntN(3) == 0 {
				w.b.WriteByte(' ') // no comment between a key and its colon
			}
			w.b.WriteByte(':')
			w.ws()
			w.node(n.A[i])
		}
		w.ws()
		w.b.WriteByte('}')
	}
}

// renderText writes a document as JSON or SEN in a seeded style.
func renderText(r *rand.Rand, n *Node, sen bool, plainEscapes bool) string {
	return renderTextTime(r, n, sen, plainEscapes, nil)
}

func renderTextTime(r *rand.Rand, n *Node, sen bool, plainEscapes bool, tc *TimeCfg) string {
	w := &renderer{r: r, sen: sen, spaced: r.IntN(2) == 0, comments: r.IntN(3) == 0}
	if tc != nil {
		w.timeWrap = tc.Wrap
		w.timeNano = tc.Format == "nano"
	}
	if !plainEscapes {
		w.uEscape = []int{0, 0, 3, 1}[r.IntN(4)]
		w.slash = r.IntN(4) == 0
	}
	w.node(n)
	return w.b.String()
}

// compactJSON writes strict, compact JSON with raw UTF-8 (used where the
// text is only a vehicle for getting a document into a bag).
func compactJSON(n *Node) string {
	w := &renderer{}
	w.node(n)
	return w.b.String()
}
