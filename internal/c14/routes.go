package c14

import (
	"fmt"
	"math/rand/v2"
	"strconv"
	"strings"
)

// Routes: sequence-1 of a case is either a fresh literal (Route "") or the
// result of another operation on a donor sequence, so that the function under
// observation meets sequences the way programs produce them: tails of longer
// lists, results of subseq / reverse / nreverse / delete, vectors with a fill
// pointer below their capacity, vectors grown by vector-push-extend.
//
//	cdr   (list)    s0 = (list M e1..en)            s1 = (cdr s0)
//	sub   (all)     s0 = <M e1..en M M>             s1 = (subseq s0 1 n+1)
//	rev   (all)     s0 = <en..e1>                   s1 = (reverse s0)
//	nrev  (l v o)                                   s1 = (nreverse <en..e1>)
//	del   (l v s o)                                 s1 = (delete M <M e1 M e2 .. en M>)
//	fp    (vector)  s1 = (make-array n+2 :fill-pointer n :initial-contents (list e1..en M M))
//	push  (vector)  s1 = an adjustable vector filled by n calls of vector-push-extend
//
// M is a margin element that is not an element of the sequence. The language
// pins the donor afterwards: subseq and reverse return fresh sequences, so s0
// is unchanged whatever is done to s1; a function that does not modify its
// argument leaves the list s1 is a tail of, and the elements above the fill
// pointer, alone; fill / replace / map-into work in place, so the donor of a
// tail shows the update.
var routeNames = []string{"cdr", "sub", "rev", "nrev", "del", "fp", "push"}

// freshRouteFn names, for the routes whose result the language defines to be
// a fresh sequence, the operation that makes it.
var freshRouteFn = map[string]string{"sub": "subseq", "rev": "reverse"}

func routesFor(typ string) []string {
	switch typ {
	case "list":
		return []string{"cdr", "sub", "rev", "nrev", "del"}
	case "vector":
		return []string{"sub", "rev", "nrev", "del", "fp", "push"}
	case "string":
		return []string{"sub", "rev", "del"}
	case "octets":
		return []string{"sub", "rev", "nrev", "del"}
	case "bit-vector":
		return []string{"sub", "rev"}
	}
	return nil
}

func marginTok(typ string) string {
	switch typ {
	case "string":
		return "#\\~"
	case "octets":
		return "250"
	case "bit-vector":
		return "1"
	}
	return "mg"
}

// routeBinding gives the expressions bound to s0 (the donor, "nil" if there is
// none) and to s1.
func (c *Case) routeBinding() (s0, s1 string) {
	el := parseToks(c.S1)
	n := len(el)
	m := parseTok(marginTok(c.T1))
	mk := func(e []val) seq { return seq{typ: c.T1, el: e} }
	rev := func() []val {
		out := make([]val, 0, n)
		for i := n - 1; 0 <= i; i-- {
			out = append(out, el[i])
		}
		return out
	}
	switch c.Route {
	case "":
		return "nil", mk(el).lisp()
	case "cdr":
		return mk(append([]val{m}, el...)).lisp(), "(cdr s0)"
	case "sub":
		d := append(append([]val{m}, el...), m, m)
		return mk(d).lisp(), fmt.Sprintf("(subseq s0 1 %d)", n+1)
	case "rev":
		return mk(rev()).lisp(), "(reverse s0)"
	case "nrev":
		return "nil", "(nreverse " + mk(rev()).lisp() + ")"
	case "del":
		d := []val{m}
		for _, e := range el {
			d = append(d, e, m)
		}
		return "nil", "(delete " + m.lisp() + " " + mk(d).lisp() + ")"
	case "fp":
		d := seq{typ: "list", el: append(append([]val{}, el...), m, m)}
		return "nil", fmt.Sprintf("(make-array %d :fill-pointer %d :initial-contents %s)", n+2, n, d.lisp())
	case "push":
		var b strings.Builder
		b.WriteString("(let ((v (make-array 0 :adjustable t :fill-pointer 0)))")
		for _, e := range el {
			b.WriteString(" (vector-push-extend " + e.lisp() + " v)")
		}
		b.WriteString(" v)")
		return "nil", b.String()
	}
	panic("unknown route " + c.Route)
}

// donorProbe is the expression evaluated after the call that shows what the
// route left behind ("nil" when the language pins nothing).
func (c *Case) donorProbe() string {
	switch c.Route {
	case "cdr", "sub", "rev":
		return "s0"
	case "fp":
		n := len(c.S1)
		return fmt.Sprintf("(if (<= %d (array-dimension s1 0)) (list (aref s1 %d) (aref s1 %d)) 'shrunk)", n+2, n, n+1)
	}
	return "nil"
}

// donorWant gives the rendering the language pins for donorProbe ("" = free).
// in1 is the oracle's requirement on sequence-1 (exact rendering = the
// function must not modify it, "=" = modified in place to the result).
func (c *Case) donorWant(in1, resultShow string) string {
	el := parseToks(c.S1)
	m := parseTok(marginTok(c.T1))
	untouched := in1 != "" && in1 != "="
	switch c.Route {
	case "cdr":
		if untouched {
			return seq{typ: "list", el: append([]val{m}, el...)}.show()
		}
		if in1 == "=" {
			if resultShow == "nil" {
				return "(" + m.show() + ")"
			}
			return "(" + m.show() + " " + strings.TrimPrefix(resultShow, "(")
		}
	case "sub":
		return seq{typ: c.T1, el: append(append([]val{m}, el...), m, m)}.show()
	case "rev":
		out := seq{typ: c.T1}
		for i := len(el) - 1; 0 <= i; i-- {
			out.el = append(out.el, el[i])
		}
		return out.show()
	case "fp":
		if untouched || in1 == "=" {
			return "(" + m.show() + " " + m.show() + ")"
		}
	}
	return ""
}

// sameCapable tells whether the function takes a second sequence that may be
// the same object as the first with a result the language pins.
func sameCapable(sp *fspec) bool {
	switch sp.fam {
	case "two", "replace", "quant", "map", "map-into", "concat":
		return true
	case "set":
		return sp.name[0] != 'n' // the destructive forms may destroy both arguments
	}
	return false
}

// makeSame turns a case with a second sequence into one where that sequence
// is the same object as the first.
func makeSame(c *Case) bool {
	sp := specByName[c.Fn]
	if !sameCapable(sp) || c.T1 == "" || c.T2 == "" {
		return false
	}
	c.T2, c.S2 = c.T1, append([]string{}, c.S1...)
	c.Same = true
	n := len(c.S2)
	if c.End2 != nil && n < *c.End2 {
		c.End2 = ip(n)
	}
	if c.Start2 != nil {
		hi := n
		if c.End2 != nil {
			hi = *c.End2
		}
		if hi < *c.Start2 {
			c.Start2 = ip(hi)
		}
	}
	return true
}

// priorCapable: functions that take :key and must leave their argument alone;
// a call of them that fails half way (the key function signals an error at its
// second call) must leave nothing behind.
func priorCapable(sp *fspec) bool {
	if !sp.key {
		return false
	}
	switch sp.fam {
	case "sort", "merge":
		return false
	}
	n := sp.name
	if strings.HasPrefix(n, "delete") || strings.HasPrefix(n, "nsubstitute") {
		return false
	}
	if sp.fam == "set" && n[0] == 'n' {
		return false
	}
	return true
}

const failingKey = "fail-2nd"

func init() {
	keys[failingKey] = fn1{"(let ((n 0)) (lambda (x) (setq n (1+ n)) (if (< 1 n) (error \"stop\") x)))", "never", "", func(a val) val { return a }}
}

// priorCall is the failing call that precedes the observed one.
func (c *Case) priorCall() string {
	v := *c
	v.Key = failingKey
	return "(ignore-errors " + v.call() + ")"
}

// dupPair renders the second, rightmost pair of the duplicated keyword: a
// different in-range value, which the language ignores (ANSI 3.4.1.4: the
// leftmost pair is used). "" when the keyword is absent or no other value fits.
func (c *Case) dupPair(sName, eName string) string {
	if c.Fn == "subseq" {
		return ""
	}
	n := len(c.S1)
	switch c.Dup {
	case "start":
		if c.Start == nil {
			return ""
		}
		hi := n
		if c.End != nil {
			hi = *c.End
		}
		if *c.Start != 0 {
			return sName + " 0"
		}
		if 0 < hi {
			return sName + " 1"
		}
	case "end":
		if c.End == nil {
			return ""
		}
		if *c.End != n {
			return eName + " " + strconv.Itoa(n)
		}
		lo := 0
		if c.Start != nil {
			lo = *c.Start
		}
		if lo < n {
			return eName + " " + strconv.Itoa(n-1)
		}
	case "count":
		if c.Count == nil {
			return ""
		}
		if *c.Count <= 0 {
			return ":count 2"
		}
		return ":count 0"
	case "from-end":
		switch c.FromEnd {
		case "t":
			return ":from-end nil"
		case "nil":
			return ":from-end t"
		}
	}
	return ""
}

// setDup picks a keyword of the case to give twice.
func setDup(r *rand.Rand, c *Case) {
	var have []string
	if c.Start != nil {
		have = append(have, "start")
	}
	if c.End != nil {
		have = append(have, "end")
	}
	if c.Count != nil {
		have = append(have, "count")
	}
	if c.FromEnd != "" {
		have = append(have, "from-end")
	}
	k := r.IntN(4)
	if 0 < len(have) && c.Fn != "subseq" {
		c.Dup = have[k%len(have)]
	}
}

// s2AsFillPointerVector makes sequence-2 a vector with a fill pointer where
// the function takes any sequence there.
func s2AsFillPointerVector(c *Case) {
	if c.T2 == "" || c.Same {
		return
	}
	sp := specByName[c.Fn]
	switch sp.fam {
	case "two", "replace", "quant", "merge", "concat":
	case "map":
		if c.Fn != "map" {
			return
		}
	default:
		return
	}
	if c.Fn == "search" && c.T1 != "list" && c.T1 != "vector" {
		return // search between a string or octets and a vector: listed findings
	}
	c.T2, c.Route2 = "vector", "fp"
}

// unicodeVariant swaps two of the four characters for characters whose UTF-8
// encoding is longer than one byte (rune and byte indices differ).
func unicodeVariant(c *Case) bool {
	if c.T1 == "octets" || c.T2 == "octets" || c.T3 == "octets" || c.RT == "octets" {
		return false
	}
	any := false
	swap := func(ts []string) {
		for i, t := range ts {
			switch t {
			case "#\\b":
				ts[i], any = "#\\€", true
			case "#\\c":
				ts[i], any = "#\\§", true
			}
		}
	}
	swap(c.S1)
	swap(c.S2)
	swap(c.S3)
	one := func(p *string) {
		t := []string{*p}
		swap(t)
		*p = t[0]
	}
	one(&c.Item)
	one(&c.New)
	one(&c.Init)
	return any
}

func (c *Case) flavourSeen() string {
	for _, ts := range [][]string{c.S1, c.S2, c.S3} {
		for _, t := range ts {
			switch {
			case t == "#\\€" || t == "#\\§":
				return "multibyte-char"
			}
		}
	}
	for _, ts := range [][]string{c.S1, c.S2, c.S3} {
		for _, t := range ts {
			switch {
			case strings.HasPrefix(t, "#\\"):
				return "char"
			case strings.HasPrefix(t, "("):
				return "cons"
			case t == "nil":
				return "symbol-with-nil"
			}
			if _, err := strconv.Atoi(t); err == nil {
				if c.T1 == "bit-vector" {
					return "bit"
				}
				return "integer"
			}
			return "symbol"
		}
	}
	return "none(empty)"
}

// crossKey: sequence type x keyword classes, to show the interactions met.
func (c *Case) crossKey() string {
	t := c.T1
	if t == "" {
		t = "-"
	}
	var n []string
	for _, k := range strings.Split(c.kwNames(), "+") {
		switch k {
		case "bounds", "count", "from-end", "key", "test":
			n = append(n, k)
		}
	}
	if len(n) == 0 {
		return t + ":none"
	}
	return t + ":" + strings.Join(n, "+")
}

func (c *Case) countClass() string {
	switch n := *c.Count; {
	case n < 0:
		return "negative"
	case n == 0:
		return "0"
	case len(c.S1) < n:
		return "above-length"
	case n == len(c.S1):
		return "length"
	}
	return "1..length-1"
}

// decorate draws, for a generated case, a route, sameness and a failed prior
// call (seeded block).
func decorate(r *rand.Rand, c *Case) {
	sp := specByName[c.Fn]
	a, b, d, e, f := r.IntN(4), r.IntN(8), r.IntN(8), r.IntN(16), r.IntN(16)
	if e == 0 {
		setDup(r, c)
	}
	if f == 0 && b != 0 {
		s2AsFillPointerVector(c)
	}
	if a == 0 && c.T1 != "" && !unsupported(c.Fn, c.T1) {
		rs := routesFor(c.T1)
		c.Route = rs[r.IntN(len(rs))]
	}
	if b == 0 {
		makeSame(c)
	}
	if d == 0 && priorCapable(sp) {
		c.Prior = true
	}
}

// routeEntry / sameEntry: the seed-independent blocks "routes" and "same".
type routeEntry struct {
	ft    int16
	route string
	seq   int16
	rep   int8
}

type sameEntry struct {
	ft           int16
	seq          int16
	rep          int8
	enum         bool // bounds enumerated
	start, end   int8
	start2, end2 int8
	fromEnd      bool
}

func buildRouteEntries(seqs [][]int, reps int) []routeEntry {
	var out []routeEntry
	for fi, ft := range fnTypes {
		rts := append([]string{}, routesFor(ft.typ)...)
		switch ft.sp.fam {
		case "two", "replace", "quant", "merge", "concat":
			rts = append(rts, "s2fp")
		case "map":
			if ft.sp.name == "map" {
				rts = append(rts, "s2fp")
			}
		}
		if (ft.sp.bnd || ft.sp.count || ft.sp.fromE) && ft.sp.fam != "subseq" {
			rts = append(rts, "dupkw")
		}
		for _, rt := range rts {
			for si := range seqs {
				for rep := 0; rep < reps; rep++ {
					out = append(out, routeEntry{ft: int16(fi), route: rt, seq: int16(si), rep: int8(rep)})
				}
			}
		}
	}
	return out
}

func buildSameEntries(seqs [][]int, reps int) []sameEntry {
	var out []sameEntry
	for fi, ft := range fnTypes {
		if !sameCapable(ft.sp) {
			continue
		}
		switch ft.sp.fam {
		case "two", "replace":
			if ft.sp.fam == "two" && (ft.typ == "octets" || ft.typ == "bit-vector") {
				continue // search and mismatch: list, vector and string
			}
			for si, s := range seqs {
				bs := boundsOf(len(s), true) // absent bounds included
				for _, b1 := range bs {
					for _, b2 := range bs {
						for fe := 0; fe < 2; fe++ {
							if fe == 1 && !ft.sp.fromE {
								continue
							}
							out = append(out, sameEntry{ft: int16(fi), seq: int16(si), enum: true, start: int8(b1[0]), end: int8(b1[1]),
								start2: int8(b2[0]), end2: int8(b2[1]), fromEnd: fe == 1})
						}
					}
				}
			}
		default:
			for si := range seqs {
				for rep := 0; rep < reps; rep++ {
					out = append(out, sameEntry{ft: int16(fi), seq: int16(si), rep: int8(rep)})
				}
			}
		}
	}
	return out
}

// decorSig names what of route / sameness / prior call a reduced case still
// needs in order to fail.
func (c *Case) decorSig() string {
	s := ""
	if c.Route != "" {
		s += " route=" + c.Route
	}
	if c.Route2 != "" {
		s += " route2=" + c.Route2
	}
	if c.Dup != "" {
		s += " duplicate-keyword=" + c.Dup
	}
	if c.Same {
		s += " same-object"
	}
	if c.Prior {
		s += " after-failed-call"
	}
	return s
}
