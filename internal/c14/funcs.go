package c14

// Named function arguments (:test, :key, predicates, mapping functions). Each
// has the text given to slip and the Go meaning used by the oracle. dom is the
// element flavour the function is defined on: int, sym, char, cons or any.

type fn2 struct {
	lisp  string
	dom   string
	equiv bool // an equivalence relation
	f     func(a, b val) bool
}

type fn1 struct {
	lisp string
	dom  string
	out  string // flavour of the result ("" = same as input)
	f    func(a val) val
}

func b2i(b bool) int {
	if b {
		return 1
	}
	return 0
}

func mod2(i int) int { return ((i % 2) + 2) % 2 }

func upc(r int) int {
	if 'a' <= r && r <= 'z' {
		return r - 32
	}
	return r
}

func downc(r int) int {
	if 'A' <= r && r <= 'Z' {
		return r + 32
	}
	return r
}

var tests = map[string]fn2{
	"eql":        {"#'eql", "atom", true, func(a, b val) bool { return a.equal(b) }},
	"equal":      {"#'equal", "any", true, func(a, b val) bool { return a.equal(b) }},
	"'equal":     {"'equal", "any", true, func(a, b val) bool { return a.equal(b) }},
	"lam-equal":  {"(lambda (a b) (equal a b))", "any", true, func(a, b val) bool { return a.equal(b) }},
	"eq":         {"#'eq", "sym", true, func(a, b val) bool { return a.equal(b) }},
	"=":          {"#'=", "int", true, func(a, b val) bool { return a.i == b.i }},
	"<":          {"#'<", "int", false, func(a, b val) bool { return a.i < b.i }},
	">":          {"#'>", "int", false, func(a, b val) bool { return a.i > b.i }},
	"<=":         {"#'<=", "int", false, func(a, b val) bool { return a.i <= b.i }},
	">=":         {"#'>=", "int", false, func(a, b val) bool { return a.i >= b.i }},
	"/=":         {"#'/=", "int", false, func(a, b val) bool { return a.i != b.i }},
	"lam<":       {"(lambda (a b) (< a b))", "int", false, func(a, b val) bool { return a.i < b.i }},
	"parity":     {"(lambda (a b) (= (mod a 2) (mod b 2)))", "int", true, func(a, b val) bool { return mod2(a.i) == mod2(b.i) }},
	"succ":       {"(lambda (a b) (= (1+ a) b))", "int", false, func(a, b val) bool { return a.i+1 == b.i }},
	"a-then-b":   {"(lambda (x y) (and (eq x 'a) (eq y 'b)))", "sym", false, func(a, b val) bool { return a.s == "a" && b.s == "b" }},
	"a-class":    {"(lambda (x y) (eq (eq x 'a) (eq y 'a)))", "sym", true, func(a, b val) bool { return (a.s == "a") == (b.s == "a") }},
	"char=":      {"#'char=", "char", true, func(a, b val) bool { return a.i == b.i }},
	"char-equal": {"#'char-equal", "char", true, func(a, b val) bool { return upc(a.i) == upc(b.i) }},
	"char<":      {"#'char<", "char", false, func(a, b val) bool { return a.i < b.i }},
	"char>":      {"#'char>", "char", false, func(a, b val) bool { return a.i > b.i }},
	"char/=":     {"#'char/=", "char", false, func(a, b val) bool { return a.i != b.i }},
}

var keys = map[string]fn1{
	"lam-id":        {"(lambda (x) x)", "any", "", func(a val) val { return a }},
	"1+":            {"#'1+", "int", "", func(a val) val { return vInt(a.i + 1) }},
	"'1+":           {"'1+", "int", "", func(a val) val { return vInt(a.i + 1) }},
	"3-":            {"(lambda (x) (- 3 x))", "int", "", func(a val) val { return vInt(3 - a.i) }},
	"mod2":          {"(lambda (x) (mod x 2))", "int", "", func(a val) val { return vInt(mod2(a.i)) }},
	"half":          {"(lambda (x) (if (< x 2) 0 1))", "int", "", func(a val) val { return vInt(b2i(2 <= a.i)) }},
	"char-code":     {"#'char-code", "char", "int", func(a val) val { return vInt(a.i) }},
	"char-upcase":   {"#'char-upcase", "char", "", func(a val) val { return vChar(rune(upc(a.i))) }},
	"char-downcase": {"#'char-downcase", "char", "", func(a val) val { return vChar(rune(downc(a.i))) }},
	"a2b": {"(lambda (x) (if (eq x 'a) 'b x))", "sym", "", func(a val) val {
		if a.s == "a" {
			return vSym("b")
		}
		return a
	}},
	"car": {"#'car", "cons", "int", func(a val) val { return *a.car }},
	"cdr": {"#'cdr", "cons", "int", func(a val) val { return *a.cdr }},
}

type pred1 struct {
	lisp string
	dom  string
	f    func(a val) bool
}

var preds = map[string]pred1{
	"evenp": {"#'evenp", "int", func(a val) bool { return mod2(a.i) == 0 }},
	"'oddp": {"'oddp", "int", func(a val) bool { return mod2(a.i) == 1 }},
	"zerop": {"#'zerop", "int", func(a val) bool { return a.i == 0 }},
	// plusp of an octet 0 is true in slip (a numeric-tower defect, not this
	// property's concern): the entry is kept for stored witnesses only
	"plusp":        {"#'plusp", "never", func(a val) bool { return 0 < a.i }},
	"pos":          {"(lambda (x) (< 0 x))", "int", func(a val) bool { return 0 < a.i }},
	"lt2":          {"(lambda (x) (< x 2))", "int", func(a val) bool { return a.i < 2 }},
	"upper-case-p": {"#'upper-case-p", "char", func(a val) bool { return 'A' <= a.i && a.i <= 'Z' }},
	"lower-case-p": {"#'lower-case-p", "char", func(a val) bool { return 'a' <= a.i && a.i <= 'z' }},
	"char-is-a":    {"(lambda (c) (char= c #\\a))", "char", func(a val) bool { return a.i == 'a' }},
	"sym-is-a":     {"(lambda (x) (eq x 'a))", "sym", func(a val) bool { return a.s == "a" }},
	"sym-in-ab":    {"(lambda (x) (or (eq x 'a) (eq x 'b)))", "sym", func(a val) bool { return a.s == "a" || a.s == "b" }},
	"null":         {"#'null", "sym", func(a val) bool { return a.isNil() }},
	"true":         {"(lambda (x) t)", "any", func(a val) bool { return true }},
	"false":        {"(lambda (x) nil)", "any", func(a val) bool { return false }},
	"consp":        {"#'consp", "any", func(a val) bool { return a.k == 'p' }},
}

// sort predicates: strict orders on the (keyed) flavour.
var orders = map[string]fn2{
	"<":             {"#'<", "int", false, func(a, b val) bool { return a.i < b.i }},
	">":             {"#'>", "int", false, func(a, b val) bool { return a.i > b.i }},
	"'<":            {"'<", "int", false, func(a, b val) bool { return a.i < b.i }},
	"lam<":          {"(lambda (a b) (< a b))", "int", false, func(a, b val) bool { return a.i < b.i }},
	"half<":         {"(lambda (a b) (and (< a 2) (<= 2 b)))", "int", false, func(a, b val) bool { return a.i < 2 && 2 <= b.i }},
	"char<":         {"#'char<", "char", false, func(a, b val) bool { return a.i < b.i }},
	"char>":         {"#'char>", "char", false, func(a, b val) bool { return a.i > b.i }},
	"char-lessp":    {"#'char-lessp", "char", false, func(a, b val) bool { return upc(a.i) < upc(b.i) }},
	"char-greaterp": {"#'char-greaterp", "char", false, func(a, b val) bool { return upc(a.i) > upc(b.i) }},
	"sym<":          {"(lambda (a b) (string< (symbol-name a) (symbol-name b)))", "sym", false, func(a, b val) bool { return a.s < b.s }},
}

// mapping functions of one or two arguments
type mapfn struct {
	lisp  string
	dom   string
	arity int
	out   string // flavour of result: int, char, sym, same, other
	f     func(a []val) val
}

var mapfns = map[string]mapfn{
	"1+":          {"#'1+", "int", 1, "int", func(a []val) val { return vInt(a[0].i + 1) }},
	"double":      {"(lambda (x) (* 2 x))", "int", 1, "int", func(a []val) val { return vInt(2 * a[0].i) }},
	"evenp":       {"#'evenp", "int", 1, "sym", func(a []val) val { return vBool(mod2(a[0].i) == 0) }},
	"lam-id":      {"(lambda (x) x)", "any", 1, "same", func(a []val) val { return a[0] }},
	"list1":       {"#'list", "any", 1, "other", func(a []val) val { return vList(a[0]) }},
	"char-upcase": {"#'char-upcase", "char", 1, "char", func(a []val) val { return vChar(rune(upc(a[0].i))) }},
	"char-code":   {"#'char-code", "char", 1, "int", func(a []val) val { return vInt(a[0].i) }},
	"+":           {"#'+", "int", 2, "int", func(a []val) val { return vInt(a[0].i + a[1].i) }},
	"-":           {"#'-", "int", 2, "int", func(a []val) val { return vInt(a[0].i - a[1].i) }},
	"list2":       {"#'list", "any", 2, "other", func(a []val) val { return vList(a[0], a[1]) }},
	"cons":        {"'cons", "any", 2, "other", func(a []val) val { return vCons(a[0], a[1]) }},
	"second":      {"(lambda (a b) b)", "any", 2, "same", func(a []val) val { return a[1] }},
	"first":       {"(lambda (a b) a)", "any", 2, "same", func(a []val) val { return a[0] }},
	"<":           {"#'<", "int", 2, "sym", func(a []val) val { return vBool(a[0].i < a[1].i) }},
	"eql":         {"#'eql", "atom", 2, "sym", func(a []val) val { return vBool(a[0].equal(a[1])) }},
	"char<":       {"#'char<", "char", 2, "sym", func(a []val) val { return vBool(a[0].i < a[1].i) }},
}

// bitUnsafe names the argument functions that still signal a type-error for
// the element of a bit-vector (slip.Bit): 1+, zerop, evenp, oddp, plusp reject
// it (a numeric-tower defect, not this property's concern). Comparisons,
// equality, + - * and mod treat a bit as the integer it is since fix 4569d33.
var bitUnsafe = map[string]bool{"succ": true, "1+": true, "'1+": true, "evenp": true, "'oddp": true, "zerop": true, "plusp": true}

// okFor tells whether the function called name, defined on dom, applies to
// elements of flavour flav.
func okFor(name, dom, flav string) bool {
	return domOK(dom, flav) && !(flav == "bit" && bitUnsafe[name])
}

func domOK(dom, flav string) bool {
	if flav == "bit" {
		// bits are integers
		return dom == "any" || dom == "int" || dom == "atom"
	}
	switch dom {
	case "any":
		return true
	case "atom":
		return flav != "cons" && flav != "pair"
	}
	if dom == "sym" && flav == "symn" {
		return true
	}
	return dom == flav
}

func namesFor[T any](m map[string]T, keep func(name string, v T) bool) []string {
	var out []string
	for k, v := range m {
		if keep(k, v) {
			out = append(out, k)
		}
	}
	sortStrings(out)
	return out
}

func sortStrings(s []string) {
	for i := 1; i < len(s); i++ {
		for j := i; 0 < j && s[j] < s[j-1]; j-- {
			s[j], s[j-1] = s[j-1], s[j]
		}
	}
}
