// Package c14 monitors the sequence functions (searching, counting, removing,
// substituting, sorting, merging, set and mapping functions) against reference
// implementations written from the language definition.
package c14

import (
	"fmt"
	"strconv"
	"strings"

	"github.com/ohler55/slip"

	"verif/internal/sl"
)

// val is the oracle's value model: integers, symbols (nil and t included),
// characters and conses. Lists are chains of conses ending in the symbol nil.
type val struct {
	k        byte // 'i' int, 's' symbol, 'c' char, 'p' cons
	i        int
	s        string
	car, cdr *val
}

var (
	vNil = val{k: 's', s: "nil"}
	vT   = val{k: 's', s: "t"}
)

func vInt(i int) val    { return val{k: 'i', i: i} }
func vSym(s string) val { return val{k: 's', s: s} }
func vChar(r rune) val  { return val{k: 'c', i: int(r)} }
func vCons(a, d val) val {
	return val{k: 'p', car: &a, cdr: &d}
}
func vBool(b bool) val {
	if b {
		return vT
	}
	return vNil
}
func vList(xs ...val) val {
	out := vNil
	for i := len(xs) - 1; 0 <= i; i-- {
		out = vCons(xs[i], out)
	}
	return out
}

func (v val) isNil() bool  { return v.k == 's' && v.s == "nil" }
func (v val) truthy() bool { return !v.isNil() }

// show renders the value the way sl.Show renders the slip object.
func (v val) show() string {
	switch v.k {
	case 'i':
		return strconv.Itoa(v.i)
	case 's':
		return v.s
	case 'c':
		return "#\\" + string(rune(v.i))
	}
	var b strings.Builder
	b.WriteByte('(')
	cur := v
	for first := true; ; first = false {
		if !first {
			b.WriteByte(' ')
		}
		b.WriteString(cur.car.show())
		if cur.cdr.k == 'p' {
			cur = *cur.cdr
			continue
		}
		if !cur.cdr.isNil() {
			b.WriteString(" . ")
			b.WriteString(cur.cdr.show())
		}
		break
	}
	b.WriteByte(')')
	return b.String()
}

// lisp renders an expression that evaluates to a fresh copy of the value.
func (v val) lisp() string {
	switch v.k {
	case 'i':
		return strconv.Itoa(v.i)
	case 's':
		if v.s == "nil" || v.s == "t" {
			return v.s
		}
		return "'" + v.s
	case 'c':
		return "#\\" + string(rune(v.i))
	}
	return "(cons " + v.car.lisp() + " " + v.cdr.lisp() + ")"
}

// equal is structural equality (the language's equal on this value model).
func (v val) equal(o val) bool {
	if v.k != o.k {
		return false
	}
	switch v.k {
	case 'i', 'c':
		return v.i == o.i
	case 's':
		return v.s == o.s
	}
	return v.car.equal(*o.car) && v.cdr.equal(*o.cdr)
}

// parseTok reads an element token: integer, #\c, (a . b), symbol.
func parseTok(t string) val {
	switch {
	case t == "":
		panic("empty token")
	case strings.HasPrefix(t, "#\\"):
		r := []rune(t[2:])
		if len(r) != 1 {
			panic("bad char token " + t)
		}
		return vChar(r[0])
	case t[0] == '(':
		in := strings.TrimSuffix(strings.TrimPrefix(t, "("), ")")
		parts := strings.SplitN(in, " . ", 2)
		if len(parts) != 2 {
			panic("bad cons token " + t)
		}
		return vCons(parseTok(parts[0]), parseTok(parts[1]))
	}
	if n, err := strconv.Atoi(t); err == nil {
		return vInt(n)
	}
	return vSym(t)
}

func parseToks(ts []string) []val {
	out := make([]val, len(ts))
	for i, t := range ts {
		out[i] = parseTok(t)
	}
	return out
}

// seq is a typed sequence of the oracle.
type seq struct {
	typ string // list | vector | string
	el  []val
}

func (s seq) show() string {
	switch s.typ {
	case "octets":
		parts := make([]string, len(s.el))
		for i, e := range s.el {
			if e.k != 'i' || e.i < 0 || 255 < e.i {
				panic("non-octet in octets sequence")
			}
			parts[i] = e.show()
		}
		return "#o(" + strings.Join(parts, " ") + ")"
	case "bit-vector":
		var b strings.Builder
		b.WriteString("#*")
		for _, e := range s.el {
			if e.k != 'i' || (e.i != 0 && e.i != 1) {
				panic("non-bit in bit-vector sequence")
			}
			b.WriteString(e.show())
		}
		return b.String()
	case "string":
		var b strings.Builder
		for _, e := range s.el {
			if e.k != 'c' {
				panic("non-character in string sequence")
			}
			b.WriteRune(rune(e.i))
		}
		return strconv.Quote(b.String())
	case "vector":
		parts := make([]string, len(s.el))
		for i, e := range s.el {
			parts[i] = e.show()
		}
		return "#(" + strings.Join(parts, " ") + ")"
	}
	if len(s.el) == 0 {
		return "nil"
	}
	parts := make([]string, len(s.el))
	for i, e := range s.el {
		parts[i] = e.show()
	}
	return "(" + strings.Join(parts, " ") + ")"
}

// lisp renders an expression building a fresh sequence.
func (s seq) lisp() string {
	switch s.typ {
	case "octets", "bit-vector":
		parts := make([]string, len(s.el))
		for i, e := range s.el {
			parts[i] = e.lisp()
		}
		return "(coerce " + strings.TrimSpace("(list "+strings.Join(parts, " ")+")") + " '" + s.typ + ")"
	case "string":
		var b strings.Builder
		for _, e := range s.el {
			b.WriteRune(rune(e.i))
		}
		return strconv.Quote(b.String())
	case "vector":
		parts := make([]string, len(s.el))
		for i, e := range s.el {
			parts[i] = e.lisp()
		}
		return strings.TrimSpace("(vector " + strings.Join(parts, " ") + ")")
	}
	parts := make([]string, len(s.el))
	for i, e := range s.el {
		parts[i] = e.lisp()
	}
	return strings.TrimSpace("(list " + strings.Join(parts, " ") + ")")
}

func (s seq) copy() seq {
	return seq{typ: s.typ, el: append([]val{}, s.el...)}
}

// elemsOf splits a slip sequence object into the renderings of its elements.
func elemsOf(obj slip.Object) (typ string, elems []string, ok bool) {
	switch to := obj.(type) {
	case nil:
		return "list", nil, true
	case slip.List:
		for _, e := range to {
			if _, isTail := e.(slip.Tail); isTail {
				return "list", nil, false
			}
			elems = append(elems, render(e))
		}
		return "list", elems, true
	case *slip.Vector:
		for _, e := range to.AsList() {
			elems = append(elems, render(e))
		}
		return "vector", elems, true
	case slip.String:
		for _, r := range string(to) {
			elems = append(elems, sl.Show(slip.Character(r)))
		}
		return "string", elems, true
	case slip.Octets:
		for _, b := range to {
			elems = append(elems, strconv.Itoa(int(b)))
		}
		return "octets", elems, true
	case *slip.BitVector:
		for i := 0; i < to.Length(); i++ {
			if to.At(uint(i)) {
				elems = append(elems, "1")
			} else {
				elems = append(elems, "0")
			}
		}
		return "bit-vector", elems, true
	}
	return fmt.Sprintf("%T", obj), nil, false
}

// render is sl.Show with the elements of octets and bit-vectors (slip.Octet,
// slip.Bit) rendered as the integers they are.
func render(obj slip.Object) string {
	switch to := obj.(type) {
	case slip.Octet:
		return strconv.Itoa(int(to))
	case slip.Bit:
		return strconv.Itoa(int(to))
	case slip.List:
		if len(to) == 0 {
			return "nil"
		}
		var b strings.Builder
		b.WriteByte('(')
		for i, e := range to {
			if 0 < i {
				b.WriteByte(' ')
			}
			if t, ok := e.(slip.Tail); ok {
				b.WriteString(". ")
				b.WriteString(render(t.Value))
				continue
			}
			b.WriteString(render(e))
		}
		b.WriteByte(')')
		return b.String()
	case *slip.Vector:
		parts := make([]string, 0, 8)
		for _, e := range to.AsList() {
			parts = append(parts, render(e))
		}
		return "#(" + strings.Join(parts, " ") + ")"
	}
	return sl.Show(obj)
}

// fits tells whether the element tokens can be held by a sequence type.
func fits(typ string, toks []string) bool {
	for _, t := range toks {
		switch typ {
		case "string":
			if !strings.HasPrefix(t, "#\\") {
				return false
			}
		case "octets":
			n, err := strconv.Atoi(t)
			if err != nil || n < 0 || 255 < n {
				return false
			}
		case "bit-vector":
			if t != "0" && t != "1" {
				return false
			}
		}
	}
	return true
}
