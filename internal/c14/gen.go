package c14

import (
	"math/rand/v2"
	"strconv"
)

// fspec describes one function under observation.
type fspec struct {
	name  string
	fam   string
	types []string // sequence types of the (first) sequence argument
	count bool     // takes :count
	fromE bool     // takes :from-end
	bnd   bool     // takes :start/:end
	test  bool     // takes :test
	key   bool     // takes :key
}

var (
	allT  = []string{"list", "vector", "string", "octets", "bit-vector"}
	lvs   = []string{"list", "vector", "string"}
	listT = []string{"list"}
)

var specs = []fspec{
	{"find", "item", allT, false, true, true, true, true},
	{"find-if", "if", allT, false, true, true, false, true},
	{"position", "item", allT, false, true, true, true, true},
	{"position-if", "if", allT, false, true, true, false, true},
	{"count", "item", allT, false, true, true, true, true},
	{"count-if", "if", allT, false, true, true, false, true},
	{"remove", "item", allT, true, true, true, true, true},
	{"remove-if", "if", allT, true, true, true, false, true},
	{"delete", "item", allT, true, true, true, true, true},
	{"delete-if", "if", allT, true, true, true, false, true},
	{"substitute", "item", allT, true, true, true, true, true},
	{"substitute-if", "if", allT, true, true, true, false, true},
	{"nsubstitute", "item", allT, true, true, true, true, true},
	{"nsubstitute-if", "if", allT, true, true, true, false, true},
	{"remove-duplicates", "dup", allT, false, true, true, true, true},
	{"delete-duplicates", "dup", allT, false, true, true, true, true},
	{"member", "item", listT, false, false, false, true, true},
	{"member-if", "if", listT, false, false, false, false, true},
	{"adjoin", "adjoin", listT, false, false, false, true, true},
	{"assoc", "assoc", listT, false, false, false, true, true},
	{"assoc-if", "assoc-if", listT, false, false, false, false, true},
	{"assoc-if-not", "assoc-if", listT, false, false, false, false, true},
	{"rassoc", "assoc", listT, false, false, false, true, true},
	{"rassoc-if", "assoc-if", listT, false, false, false, false, true},
	{"search", "two", allT, false, true, true, true, true},
	{"mismatch", "two", allT, false, true, true, true, true},
	{"subseq", "subseq", allT, false, false, true, false, false},
	{"copy-seq", "simple", allT, false, false, false, false, false},
	{"reverse", "simple", allT, false, false, false, false, false},
	{"nreverse", "simple", allT, false, false, false, false, false},
	{"fill", "fill", allT, false, false, true, false, false},
	{"replace", "replace", allT, false, false, true, false, false},
	{"sort", "sort", allT, false, false, false, false, true},
	{"stable-sort", "sort", allT, false, false, false, false, true},
	{"merge", "merge", allT, false, false, false, false, true},
	{"union", "set", listT, false, false, false, true, true},
	{"nunion", "set", listT, false, false, false, true, true},
	{"intersection", "set", listT, false, false, false, true, true},
	{"nintersection", "set", listT, false, false, false, true, true},
	{"set-difference", "set", listT, false, false, false, true, true},
	{"nset-difference", "set", listT, false, false, false, true, true},
	{"set-exclusive-or", "set", listT, false, false, false, true, true},
	{"nset-exclusive-or", "set", listT, false, false, false, true, true},
	{"subsetp", "set", listT, false, false, false, true, true},
	{"every", "quant", allT, false, false, false, false, false},
	{"some", "quant", allT, false, false, false, false, false},
	{"notany", "quant", allT, false, false, false, false, false},
	{"notevery", "quant", allT, false, false, false, false, false},
	{"map", "map", allT, false, false, false, false, false},
	{"mapcar", "map", listT, false, false, false, false, false},
	{"mapc", "map", listT, false, false, false, false, false},
	{"mapcan", "map", listT, false, false, false, false, false},
	{"maplist", "map", listT, false, false, false, false, false},
	{"mapl", "map", listT, false, false, false, false, false},
	{"mapcon", "map", listT, false, false, false, false, false},
	{"map-into", "map-into", listT, false, false, false, false, false},
	{"reduce", "reduce", allT, false, true, true, false, true},
	{"concatenate", "concat", allT, false, false, false, false, false},
}

var specByName = map[string]*fspec{}

// knobs force keyword presence; -1 = drawn at random.
type knobs struct {
	seq     []int // element indices (nil = random)
	bounds  int   // 0 none 1 start 2 end 3 both
	bounds2 int
	fromEnd int // 0 absent 1 t
	count   int // 0 absent, 1.. = value count-1 (so 1 means :count 0)
	key     int // 0 absent 1 present
	test    int
	maxLen  int
	minLen  int
	seq2    []int // element indices of the second sequence (nil = random)
	alpha   int   // size of the alphabet the enumerated sequences are over (0 = 4)
}

// unsupported tells whether a function rejects a sequence type outright on the
// pinned tree (listed findings): such combinations are generated in a small
// minority only.
func unsupported(fn, typ string) bool {
	switch typ {
	case "bit-vector":
		switch fn {
		case "find", "find-if", "position", "position-if", "remove", "remove-if", "delete", "delete-if",
			"substitute", "substitute-if", "nsubstitute", "nsubstitute-if", "remove-duplicates", "delete-duplicates",
			"search", "sort", "stable-sort":
			return true
		}
	case "octets":
		switch fn {
		case "substitute", "substitute-if", "nsubstitute", "nsubstitute-if", "sort", "stable-sort":
			return true
		}
	}
	return false
}

var alphabets = map[string][]string{
	"int":  {"0", "1", "2", "3"},
	"sym":  {"a", "b", "c", "d"},
	"char": {"#\\a", "#\\b", "#\\A", "#\\c"},
	"symn": {"a", "nil", "b", "c"}, // symbols with nil as one of the four
	"bit":  {"0", "1", "1", "0"},   // elements of bit-vectors (an integer flavour)
}

var absent = map[string]string{"int": "7", "bit": "7", "sym": "z", "symn": "z", "char": "#\\z"}

func pickStr(r *rand.Rand, xs []string) string { return xs[r.IntN(len(xs))] }

// element renders element index e (0..3) at position pos for a flavour.
func element(flav string, e, pos, tagBase int) string {
	switch flav {
	case "cons":
		return "(" + alphabets["int"][e] + " . " + strconv.Itoa(tagBase+pos) + ")"
	case "pair":
		if e == 16 {
			return "nil"
		}
		return "(" + alphabets["int"][(e/4)%4] + " . " + alphabets["int"][e%4] + ")"
	}
	return alphabets[flav][e%4]
}

func elements(flav string, idx []int, tagBase int) []string {
	out := make([]string, len(idx))
	for i, e := range idx {
		out[i] = element(flav, e, i, tagBase)
	}
	return out
}

func randIdx(r *rand.Rand, n int) []int {
	out := make([]int, n)
	for i := range out {
		// skewed: duplicates are what makes these functions interesting
		if r.IntN(3) == 0 {
			out[i] = r.IntN(2)
		} else {
			out[i] = r.IntN(4)
		}
	}
	return out
}

func ip(i int) *int { return &i }

func (k *knobs) length(r *rand.Rand) int {
	lo, hi := k.minLen, k.maxLen
	if hi < lo {
		hi = lo
	}
	return lo + r.IntN(hi-lo+1)
}

func chooseFlavour(r *rand.Rand, typs ...string) string {
	for _, t := range typs {
		switch t {
		case "string":
			return "char"
		case "bit-vector":
			return "bit"
		case "octets":
			return "int"
		}
	}
	switch x := r.IntN(20); {
	case x < 7:
		return "int"
	case x < 10:
		return "sym"
	case x < 12:
		return "symn"
	case x < 15:
		return "char"
	}
	return "cons"
}

func yes(r *rand.Rand, knob int) bool {
	if knob < 0 {
		return r.IntN(2) == 0
	}
	return 0 < knob
}

// chooseKey picks a :key applicable to the flavour; returns the key name and
// the flavour of keyed elements.
func chooseKey(r *rand.Rand, flav string, want bool) (string, string) {
	if flav == "cons" {
		// conses are compared through their parts, except in a minority
		// of cases that rely on the documented default test equal
		if want || r.IntN(8) != 0 {
			return pickStr(r, []string{"car", "car", "car", "cdr"}), "int"
		}
		return "", "cons"
	}
	if !want {
		return "", flav
	}
	names := namesFor(keys, func(n string, k fn1) bool { return okFor(n, k.dom, flav) })
	name := pickStr(r, names)
	if out := keys[name].out; out != "" {
		return name, out
	}
	return name, flav
}

func chooseTest(r *rand.Rand, flav string, want, equivOnly bool) string {
	if !want {
		return ""
	}
	names := namesFor(tests, func(n string, t fn2) bool { return okFor(n, t.dom, flav) && (t.equiv || !equivOnly) })
	return pickStr(r, names)
}

func choosePred(r *rand.Rand, flav string) string {
	names := namesFor(preds, func(n string, p pred1) bool {
		return okFor(n, p.dom, flav) && (p.dom != "any" || n != "consp")
	})
	// the constant predicates are boundary cases, keep them rare
	for {
		n := pickStr(r, names)
		if (n == "true" || n == "false") && r.IntN(3) != 0 {
			continue
		}
		return n
	}
}

// keyed applies a key to a token.
func keyed(key, tok string) string {
	if key == "" {
		return tok
	}
	return keys[key].f(parseTok(tok)).show()
}

func chooseItem(r *rand.Rand, flav, key, flav2 string, els []string) string {
	if 0 < len(els) && r.IntN(5) != 0 {
		return keyed(key, pickStr(r, els))
	}
	if flav2 == "cons" {
		return "(1 . 77)"
	}
	if r.IntN(2) == 0 {
		if flav == "cons" {
			return pickStr(r, alphabets["int"])
		}
		if flav != "pair" {
			return keyed(key, pickStr(r, alphabets[flav]))
		}
	}
	return absent[flav2]
}

func setBounds(r *rand.Rand, n, knob int, start, end **int, endNil *bool) {
	var hasS, hasE bool
	switch knob {
	case -1:
		hasS, hasE = r.IntN(2) == 0, r.IntN(2) == 0
	default:
		hasS, hasE = knob&1 != 0, knob&2 != 0
	}
	s := 0
	if hasS {
		s = r.IntN(n + 1)
		if knob != -1 && 0 < n && s == 0 {
			s = 1 // forced knob: make it bite
		}
		*start = ip(s)
	}
	if hasE {
		e := s + r.IntN(n-s+1)
		if knob != -1 && e == n && s < n {
			e = n - 1
		}
		*end = ip(e)
	} else if endNil != nil && knob == -1 && r.IntN(16) == 0 {
		*endNil = true
	}
}

// avoidAtLength rewrites, in three cases out of four, explicit bounds equal to
// the length into equivalent or interior ones (fill rejects them: a listed
// finding pinned by slip's own tests).
func avoidAtLength(r *rand.Rand, n, knob int, start, end **int) {
	if knob != -1 || r.IntN(4) == 0 {
		return
	}
	if *end != nil && **end == n {
		*end = nil
	}
	if *start != nil && **start == n {
		if n == 0 || (*end != nil && **end < n) {
			*start = nil
			if *end != nil {
				*start = ip(**end)
				if **start == n {
					*start = nil
				}
			}
		} else {
			*start = ip(n - 1)
		}
	}
}

func setCount(r *rand.Rand, c *Case, n, knob int) {
	switch {
	case knob == 0:
	case 0 < knob:
		c.Count = ip(knob - 1)
	default:
		switch x := r.IntN(20); {
		case x < 9:
		case x == 9:
			c.Count = ip(-1)
		case x == 10:
			c.Count = ip(n + 1)
		case x == 11:
			c.CntNil = true
		default:
			c.Count = ip(r.IntN(4))
		}
	}
}

func setFromEnd(r *rand.Rand, c *Case, knob int) {
	switch {
	case knob == 0:
	case 0 < knob:
		c.FromEnd = "t"
	default:
		switch x := r.IntN(16); {
		case x < 7:
			c.FromEnd = "t"
		case x == 7:
			c.FromEnd = "nil"
		}
	}
}

func otherType(r *rand.Rand, flav string) string {
	switch flav {
	case "char":
		return pickStr(r, lvs)
	case "int":
		return pickStr(r, []string{"list", "vector", "octets"})
	case "bit":
		return pickStr(r, []string{"list", "vector", "octets", "bit-vector"})
	}
	return pickStr(r, []string{"list", "vector"})
}

// newElement picks a replacement element (substitute, fill) the sequence type can hold.
func newElement(r *rand.Rand, flav string) string {
	switch flav {
	case "cons":
		return "(9 . 99)"
	case "bit":
		return pickStr(r, alphabets["bit"])
	}
	return pickStr(r, append([]string{absent[flav]}, alphabets[flav]...))
}

// dedupe drops elements that match an earlier one under key and test.
func dedupe(els []string, key string, test func(a, b val) bool) []string {
	var out []string
	for _, e := range els {
		dup := false
		for _, o := range out {
			if test(parseTok(keyed(key, o)), parseTok(keyed(key, e))) {
				dup = true
				break
			}
		}
		if !dup {
			out = append(out, e)
		}
	}
	return out
}

func sortedBy(els []string, key, pred string) []string {
	out := append([]string{}, els...)
	less := orders[pred].f
	// insertion sort (stable)
	for i := 1; i < len(out); i++ {
		for j := i; 0 < j && less(parseTok(keyed(key, out[j])), parseTok(keyed(key, out[j-1]))); j-- {
			out[j], out[j-1] = out[j-1], out[j]
		}
	}
	return out
}

// genCase builds one case for a function and a first-sequence type.
func genCase(r *rand.Rand, sp *fspec, typ string, k knobs) Case {
	c := Case{Fn: sp.name, T1: typ}
	seqIdx := func() []int {
		if k.seq != nil {
			return k.seq
		}
		return randIdx(r, k.length(r))
	}
	second := func() []int {
		if k.seq2 != nil {
			return k.seq2
		}
		return randIdx(r, k.length(r))
	}
	switch sp.fam {
	case "item", "if", "dup":
		flav := chooseFlavour(r, typ)
		idx := seqIdx()
		c.S1 = elements(flav, idx, 0)
		var flav2 string
		c.Key, flav2 = chooseKey(r, flav, sp.key && yes(r, k.key))
		switch sp.fam {
		case "item":
			c.Test = chooseTest(r, flav2, sp.test && yes(r, k.test), false)
			c.Item = chooseItem(r, flav, c.Key, flav2, c.S1)
		case "if":
			c.Pred = choosePred(r, flav2)
		case "dup":
			c.Test = chooseTest(r, flav2, yes(r, k.test), true)
		}
		if sp.name == "substitute" || sp.name == "substitute-if" || sp.name == "nsubstitute" || sp.name == "nsubstitute-if" {
			c.New = newElement(r, flav)
		}
		if sp.bnd {
			setBounds(r, len(idx), k.bounds, &c.Start, &c.End, &c.EndNil)
		}
		if sp.count {
			setCount(r, &c, len(idx), k.count)
		}
		if sp.fromE {
			setFromEnd(r, &c, k.fromEnd)
		}
	case "adjoin":
		flav := chooseFlavour(r, typ)
		c.S1 = elements(flav, seqIdx(), 0)
		var flav2 string
		c.Key, flav2 = chooseKey(r, flav, yes(r, k.key))
		c.Test = chooseTest(r, flav2, yes(r, k.test), true)
		// the key is applied to the item as well: the item is an element
		switch {
		case flav == "cons":
			c.Item = "(" + pickStr(r, alphabets["int"]) + " . 55)"
		case r.IntN(4) == 0:
			c.Item = absent[flav]
		default:
			c.Item = pickStr(r, alphabets[flav])
		}
	case "assoc", "assoc-if":
		n := k.length(r)
		if k.seq != nil {
			n = len(k.seq)
		}
		idx := make([]int, n)
		for i := range idx {
			if k.seq != nil {
				idx[i] = k.seq[i]*5 + i // spread the 4-symbol index over the pairs
			} else {
				idx[i] = r.IntN(16)
			}
			if r.IntN(12) == 0 {
				idx[i] = 16 // a nil entry
			}
		}
		c.S1 = elements("pair", idx, 0)
		c.Key, _ = chooseKey(r, "int", yes(r, k.key))
		if sp.fam == "assoc" {
			c.Test = chooseTest(r, "int", yes(r, k.test), false)
			c.Item = keyed(c.Key, pickStr(r, alphabets["int"]))
			if r.IntN(6) == 0 {
				c.Item = "7"
			}
		} else {
			c.Pred = choosePred(r, "int")
		}
	case "two":
		flav := chooseFlavour(r, typ)
		c.T2 = otherType(r, flav)
		if c.T2 == "string" {
			flav = "char"
		}
		idx2 := second()
		var idx1 []int
		if k.seq != nil {
			idx1 = k.seq
		} else if sp.name == "search" {
			// mostly a real subsequence of sequence-2, sometimes mutated
			if 0 < len(idx2) && r.IntN(4) != 0 {
				a := r.IntN(len(idx2))
				b := a + r.IntN(min(4, len(idx2)-a)+1)
				idx1 = append([]int{}, idx2[a:b]...)
				if 0 < len(idx1) && r.IntN(4) == 0 {
					idx1[r.IntN(len(idx1))] = r.IntN(4)
				}
				if r.IntN(4) == 0 { // padding that :start1/:end1 may cut away
					idx1 = append([]int{r.IntN(4)}, idx1...)
				}
			} else {
				idx1 = randIdx(r, r.IntN(4))
			}
		} else {
			// mismatch: related sequences (common prefix / suffix, one change)
			idx1 = append([]int{}, idx2...)
			switch r.IntN(6) {
			case 0:
				idx1 = randIdx(r, k.length(r))
			case 1:
				if 0 < len(idx1) {
					idx1 = idx1[r.IntN(len(idx1)):]
				}
			case 2:
				if 0 < len(idx1) {
					idx1 = idx1[:r.IntN(len(idx1))]
				}
			case 3:
				idx1 = append([]int{r.IntN(4)}, idx1...)
			}
			if 0 < len(idx1) && r.IntN(2) == 0 {
				p := r.IntN(len(idx1))
				idx1[p] = (idx1[p] + 1 + r.IntN(3)) % 4
			}
		}
		if k.seq != nil && k.seq2 == nil && r.IntN(2) == 0 {
			// exhaustive block: sequence-2 related to the enumerated one
			idx2 = append(append(randIdx(r, r.IntN(3)), k.seq...), randIdx(r, r.IntN(3))...)
		}
		c.S1 = elements(flav, idx1, 0)
		c.S2 = elements(flav, idx2, 20)
		var flav2 string
		c.Key, flav2 = chooseKey(r, flav, yes(r, k.key))
		if flav == "cons" && c.Key == "" {
			c.Key = "car"
			flav2 = "int"
		}
		if c.Key == "cdr" {
			c.Key = "car" // tags never match across two sequences
		}
		c.Test = chooseTest(r, flav2, yes(r, k.test), false)
		setBounds(r, len(idx1), k.bounds, &c.Start, &c.End, nil)
		setBounds(r, len(idx2), k.bounds2, &c.Start2, &c.End2, nil)
		setFromEnd(r, &c, k.fromEnd)
		// listed findings, kept in a minority: :from-end of search and mismatch,
		// search between a string and a non-string
		if k.fromEnd == -1 && c.FromEnd == "t" && r.IntN(4) != 0 {
			c.FromEnd = ""
		}
		if sp.name == "search" && k.seq == nil && (c.T1 == "string") != (c.T2 == "string") && r.IntN(4) != 0 {
			c.T2 = c.T1
		}
		if sp.name == "search" && (c.T1 == "octets") != (c.T2 == "octets") && r.IntN(8) != 0 {
			// search between octets and another sequence type (listed finding): minority
			if c.T1 == "octets" {
				c.T2 = "octets"
			} else {
				c.T2 = c.T1
			}
		}
	case "subseq":
		flav := chooseFlavour(r, typ)
		idx := seqIdx()
		c.S1 = elements(flav, idx, 0)
		kb := k.bounds
		if kb == -1 {
			kb = 1 + 2*r.IntN(2)
		}
		setBounds(r, len(idx), kb|1, &c.Start, &c.End, nil)
		if c.Start == nil {
			c.Start = ip(0)
		}
	case "simple":
		c.S1 = elements(chooseFlavour(r, typ), seqIdx(), 0)
	case "fill":
		flav := chooseFlavour(r, typ)
		idx := seqIdx()
		c.S1 = elements(flav, idx, 0)
		c.Item = newElement(r, flav)
		setBounds(r, len(idx), k.bounds, &c.Start, &c.End, &c.EndNil)
		avoidAtLength(r, len(idx), k.bounds, &c.Start, &c.End)
	case "replace":
		flav := chooseFlavour(r, typ)
		c.T2 = otherType(r, flav)
		if c.T2 == "string" {
			flav = "char"
		}
		idx := seqIdx()
		idx2 := second()
		c.S1 = elements(flav, idx, 0)
		c.S2 = elements(flav, idx2, 20)
		if flav != "cons" && flav != "bit" {
			// make source elements distinguishable from the target's
			for i := range c.S2 {
				if r.IntN(2) == 0 {
					c.S2[i] = absent[flav]
				}
			}
		}
		setBounds(r, len(idx), k.bounds, &c.Start, &c.End, nil)
		setBounds(r, len(idx2), k.bounds2, &c.Start2, &c.End2, nil)
	case "sort":
		flav := chooseFlavour(r, typ)
		if flav == "symn" {
			flav = "sym" // symbol-name of nil is a type-error in slip; not this property's concern
		}
		c.S1 = elements(flav, seqIdx(), 0)
		var flav2 string
		c.Key, flav2 = chooseKey(r, flav, yes(r, k.key))
		if flav == "cons" && c.Key == "" {
			c.Key, flav2 = "car", "int"
		}
		if c.Key == "a2b" {
			c.Key = "lam-id"
		}
		if flav == "bit" {
			// no order predicate applies to bits: the documented default comparator
			c.Key, c.Pred = "", ""
			break
		}
		names := namesFor(orders, func(n string, o fn2) bool { return okFor(n, o.dom, flav2) })
		c.Pred = pickStr(r, names)
		if k.test == 0 || (k.test < 0 && r.IntN(8) == 0) {
			c.Pred = "" // documented dialect: default comparator
			if c.Key == "char-upcase" || c.Key == "char-downcase" || c.Key == "mod2" || c.Key == "half" {
				// keys that create ties are kept for explicit predicates
				c.Key = ""
			}
		}
	case "merge":
		flav := chooseFlavour(r, typ)
		if flav == "symn" {
			flav = "sym"
		}
		c.T2 = otherType(r, flav)
		if c.T2 == "string" {
			flav = "char"
		}
		var flav2 string
		c.Key, flav2 = chooseKey(r, flav, yes(r, k.key))
		if flav == "cons" && c.Key != "car" {
			c.Key, flav2 = "car", "int"
		}
		if c.Key == "a2b" {
			c.Key = ""
		}
		names := namesFor(orders, func(n string, o fn2) bool { return okFor(n, o.dom, flav2) })
		c.Pred = pickStr(r, names)
		c.S1 = sortedBy(elements(flav, seqIdx(), 0), c.Key, c.Pred)
		c.S2 = sortedBy(elements(flav, second(), 20), c.Key, c.Pred)
		switch flav {
		case "char":
			c.RT = pickStr(r, lvs)
		case "int", "bit":
			c.RT = pickStr(r, []string{"list", "vector", "octets"}) // documented result types: list string vector octets
		default:
			c.RT = pickStr(r, []string{"list", "vector"})
		}
	case "set":
		flav := chooseFlavour(r, typ)
		c.T2 = "list"
		var flav2 string
		c.Key, flav2 = chooseKey(r, flav, yes(r, k.key))
		if flav == "cons" && c.Key != "car" {
			c.Key, flav2 = "car", "int"
		}
		base := sp.name
		if base[0] == 'n' {
			base = base[1:]
		}
		asym := base == "set-difference" || base == "subsetp"
		c.Test = chooseTest(r, flav2, yes(r, k.test), !asym)
		s1 := elements(flav, seqIdx(), 0)
		s2 := elements(flav, second(), 20)
		if k.seq2 == nil && r.IntN(4) == 0 && flav != "cons" {
			s2 = append(s2, absent[flav])
		}
		if asym {
			eq := func(a, b val) bool { return a.equal(b) }
			c.S1 = dedupe(s1, "", eq)
			c.S2 = s2
			if base == "subsetp" && k.seq2 == nil && r.IntN(2) == 0 && flav != "cons" {
				// make the positive answer common
				c.S2 = append(append([]string{}, s2...), c.S1...)
			}
		} else {
			tf := (&Case{Test: c.Test}).testFn()
			c.S1 = dedupe(s1, c.Key, tf)
			c.S2 = dedupe(s2, c.Key, tf)
		}
	case "quant":
		flav := chooseFlavour(r, typ)
		if flav == "cons" {
			flav = "int"
		}
		c.S1 = elements(flav, seqIdx(), 0)
		if yes(r, k.key) { // knob reused: two sequences
			c.T2 = otherType(r, flav)
			if c.T2 == "string" && flav != "char" {
				c.T2 = "vector"
			}
			idx2 := append([]int{}, second()...)
			// related to sequence 1 so that two-argument predicates hold often
			for i := range idx2 {
				if k.seq2 == nil && i < len(c.S1) && r.IntN(3) != 0 {
					idx2[i] = -1
				}
			}
			c.S2 = make([]string, len(idx2))
			for i, e := range idx2 {
				if e < 0 {
					c.S2[i] = c.S1[i]
				} else {
					c.S2[i] = element(flav, e, i, 20)
				}
			}
			c.Pred = chooseTest(r, flav, true, false)
		} else {
			c.Pred = choosePred(r, flav)
		}
	case "map":
		flav := chooseFlavour(r, typ)
		two := yes(r, k.key)
		switch sp.name {
		case "mapcan", "maplist", "mapc", "mapl", "mapcon":
			c.S1 = elements(flav, seqIdx(), 0)
			if two {
				c.T2 = "list"
				c.S2 = elements(flav, second(), 20)
			}
			return c
		}
		if flav == "cons" {
			flav = "int"
		}
		c.S1 = elements(flav, seqIdx(), 0)
		arity := 1
		if two {
			arity = 2
			c.T2 = "list"
			if sp.name == "map" {
				c.T2 = otherType(r, flav)
			}
			c.S2 = elements(flav, second(), 20)
		}
		names := namesFor(mapfns, func(n string, m mapfn) bool { return m.arity == arity && okFor(n, m.dom, flav) })
		c.Pred = pickStr(r, names)
		if sp.name == "map" {
			out := mapfns[c.Pred].out
			if out == "same" {
				out = flav
			}
			rts := []string{"list", "vector", "list", "vector", "nil"}
			if out == "char" {
				rts = append(rts, "string", "string")
			}
			if out == "int" && c.Pred != "-" {
				rts = append(rts, "octets")
			}
			c.RT = pickStr(r, rts)
		}
	case "map-into":
		// s1 is the result list, s2 (and s3) the sources
		flav := chooseFlavour(r, typ)
		if flav == "cons" {
			flav = "int"
		}
		c.S1 = elements(flav, seqIdx(), 0)
		c.T2 = "list" // documented: (result-sequence function &rest lists)
		c.S2 = elements(flav, randIdx(r, k.length(r)), 20)
		arity := 1
		if yes(r, k.key) {
			arity = 2
			c.T3 = "list"
			c.S3 = elements(flav, randIdx(r, k.length(r)), 40)
		}
		names := namesFor(mapfns, func(n string, m mapfn) bool { return m.arity == arity && okFor(n, m.dom, flav) })
		c.Pred = pickStr(r, names)
		return c
	case "reduce":
		flav := chooseFlavour(r, typ)
		idx := seqIdx()
		c.S1 = elements(flav, idx, 0)
		var flav2 string
		c.Key, flav2 = chooseKey(r, flav, yes(r, k.key))
		fns := []string{"list2", "list2", "cons"}
		if flav2 == "int" || flav2 == "bit" {
			fns = append(fns, "+", "-")
		}
		c.Pred = pickStr(r, fns)
		setBounds(r, len(idx), k.bounds, &c.Start, &c.End, &c.EndNil)
		setFromEnd(r, &c, k.fromEnd)
		if yes(r, k.test) { // knob reused: :initial-value
			if flav2 == "int" {
				c.Init = "5"
			} else {
				c.Init = absent[flav2]
				if flav2 == "cons" {
					c.Init = "z"
				}
			}
		}
		lo, hi := bounds(len(idx), c.Start, c.End)
		if lo == hi && c.Init == "" {
			// reduce of an empty range without :initial-value calls the function with
			// no arguments (listed finding): kept in a minority, and only
			// with functions that accept no arguments
			if r.IntN(4) != 0 {
				c.Init = "5"
				if flav2 != "int" {
					c.Init = absent[flav2]
					if flav2 == "cons" {
						c.Init = "z"
					}
				}
			} else if c.Pred != "+" {
				c.Pred = "list2"
			}
		}
	case "concat":
		flav := chooseFlavour(r, typ)
		switch flav {
		case "char":
			c.RT = pickStr(r, lvs)
		case "int":
			c.RT = pickStr(r, []string{"list", "vector", "octets"})
		default:
			c.RT = pickStr(r, []string{"list", "vector"})
		}
		c.S1 = elements(flav, seqIdx(), 0)
		n := r.IntN(4)
		if k.seq != nil && n == 0 {
			n = 1
		}
		if n == 0 {
			c.T1, c.S1 = "", nil
		}
		if k.seq2 != nil && n < 2 {
			n = 2
		}
		if 2 <= n {
			c.T2 = otherType(r, flav)
			c.S2 = elements(flav, second(), 20)
		}
		if 3 <= n {
			c.T3 = otherType(r, flav)
			c.S3 = elements(flav, randIdx(r, k.length(r)), 40)
		}
	default:
		panic("no generator for family " + sp.fam)
	}
	c.Perm = r.IntN(6)
	return c
}
