package c14

import (
	"fmt"
	"sort"
	"strconv"
	"strings"
)

// Case is one call of a sequence function. Elements, items and initial values
// are tokens (integer, symbol, #\c, (a . b)); functions are names in the
// tables of funcs.go.
type Case struct {
	Fn      string   `json:"fn"`
	T1      string   `json:"t1,omitempty"`
	S1      []string `json:"s1"`
	T2      string   `json:"t2,omitempty"`
	S2      []string `json:"s2,omitempty"`
	T3      string   `json:"t3,omitempty"`
	S3      []string `json:"s3,omitempty"`
	Item    string   `json:"item,omitempty"`
	New     string   `json:"new,omitempty"`
	Test    string   `json:"test,omitempty"`
	Key     string   `json:"key,omitempty"`
	Pred    string   `json:"pred,omitempty"`
	Start   *int     `json:"start,omitempty"`
	End     *int     `json:"end,omitempty"`
	EndNil  bool     `json:"endnil,omitempty"`
	Start2  *int     `json:"start2,omitempty"`
	End2    *int     `json:"end2,omitempty"`
	Count   *int     `json:"count,omitempty"`
	CntNil  bool     `json:"countnil,omitempty"`
	FromEnd string   `json:"fromend,omitempty"` // "", "t", "nil"
	RT      string   `json:"rt,omitempty"`
	Init    string   `json:"init,omitempty"`
	Perm    int      `json:"perm,omitempty"` // rotation of the keyword arguments
	// Route tells how sequence-1 is obtained: "" a fresh literal, or the result of
	// another operation (cdr sub rev nrev del fp push, see routes.go).
	Route  string `json:"route,omitempty"`
	Route2 string `json:"route2,omitempty"` // "fp": sequence-2 is a vector with a fill pointer below its capacity
	Dup    string `json:"dup,omitempty"`    // a keyword given a second time (start end count from-end): the leftmost pair counts
	Same   bool   `json:"same,omitempty"`   // sequence-2 is the same object as sequence-1
	Prior  bool   `json:"prior,omitempty"`  // a failed call of the same function on the same sequence precedes the call
	Block  string `json:"block,omitempty"`
}

// expect is what the language definition pins for a case.
type expect struct {
	show  string                                  // exact rendering of the primary value ("" = see truth/check)
	truth int                                     // 1: any true value, 2: nil
	check func(typ string, elems []string) string // validator of a sequence result, "" = fine
	in1   string                                  // rendering required of input 1 afterwards ("" = free, "=" = same as result)
	in2   string
}

func (c *Case) seq1() seq { return seq{typ: c.T1, el: parseToks(c.S1)} }
func (c *Case) seq2() seq { return seq{typ: c.T2, el: parseToks(c.S2)} }
func (c *Case) seq3() seq { return seq{typ: c.T3, el: parseToks(c.S3)} }

func (c *Case) keyFn() func(val) val {
	if c.Key == "" {
		return func(v val) val { return v }
	}
	k, ok := keys[c.Key]
	if !ok {
		panic("unknown key " + c.Key)
	}
	return k.f
}

func (c *Case) testFn() func(a, b val) bool {
	if c.Test == "" {
		return func(a, b val) bool { return a.equal(b) }
	}
	t, ok := tests[c.Test]
	if !ok {
		panic("unknown test " + c.Test)
	}
	return t.f
}

func bounds(n int, start, end *int) (int, int) {
	s, e := 0, n
	if start != nil {
		s = *start
	}
	if end != nil {
		e = *end
	}
	if s < 0 || e < s || n < e {
		panic(fmt.Sprintf("generator produced out-of-range bounds %d %d for length %d", s, e, n))
	}
	return s, e
}

func isIfFn(fn string) bool { return strings.HasSuffix(fn, "-if") || strings.HasSuffix(fn, "-if-not") }

// elemMatcher gives the satisfaction test of the item / -if families.
func (c *Case) elemMatcher() func(e val) bool {
	key := c.keyFn()
	if isIfFn(c.Fn) {
		p, ok := preds[c.Pred]
		if !ok {
			panic("unknown predicate " + c.Pred)
		}
		if strings.HasSuffix(c.Fn, "-if-not") {
			return func(e val) bool { return !p.f(key(e)) }
		}
		return func(e val) bool { return p.f(key(e)) }
	}
	item := parseTok(c.Item)
	test := c.testFn()
	return func(e val) bool { return test(item, key(e)) }
}

// selected gives the indices the call acts on: matches within the bounds,
// limited by :count from the requested end.
func (c *Case) selected(s seq) []int {
	lo, hi := bounds(len(s.el), c.Start, c.End)
	m := c.elemMatcher()
	var idx []int
	for i := lo; i < hi; i++ {
		if m(s.el[i]) {
			idx = append(idx, i)
		}
	}
	if c.Count != nil {
		n := *c.Count
		if n < 0 {
			n = 0
		}
		if n < len(idx) {
			if c.FromEnd == "t" {
				idx = idx[len(idx)-n:]
			} else {
				idx = idx[:n]
			}
		}
	}
	return idx
}

func showInt(i int) string { return strconv.Itoa(i) }

func oracle(c *Case) expect {
	switch c.Fn {
	case "find", "find-if", "position", "position-if", "count", "count-if":
		s := c.seq1()
		lo, hi := bounds(len(s.el), c.Start, c.End)
		m := c.elemMatcher()
		var idx []int
		for i := lo; i < hi; i++ {
			if m(s.el[i]) {
				idx = append(idx, i)
			}
		}
		ex := expect{in1: s.show()}
		switch {
		case strings.HasPrefix(c.Fn, "count"):
			ex.show = showInt(len(idx))
		case len(idx) == 0:
			ex.show = "nil"
		default:
			at := idx[0]
			if c.FromEnd == "t" {
				at = idx[len(idx)-1]
			}
			if strings.HasPrefix(c.Fn, "find") {
				ex.show = s.el[at].show()
			} else {
				ex.show = showInt(at)
			}
		}
		return ex
	case "remove", "remove-if", "delete", "delete-if":
		s := c.seq1()
		drop := map[int]bool{}
		for _, i := range c.selected(s) {
			drop[i] = true
		}
		out := seq{typ: s.typ}
		for i, e := range s.el {
			if !drop[i] {
				out.el = append(out.el, e)
			}
		}
		ex := expect{show: out.show()}
		if strings.HasPrefix(c.Fn, "remove") {
			ex.in1 = s.show()
		}
		return ex
	case "substitute", "substitute-if", "nsubstitute", "nsubstitute-if":
		s := c.seq1()
		out := s.copy()
		nv := parseTok(c.New)
		for _, i := range c.selected(s) {
			out.el[i] = nv
		}
		ex := expect{show: out.show()}
		if strings.HasPrefix(c.Fn, "substitute") {
			ex.in1 = s.show()
		}
		return ex
	case "remove-duplicates", "delete-duplicates":
		s := c.seq1()
		lo, hi := bounds(len(s.el), c.Start, c.End)
		key, test := c.keyFn(), c.testFn()
		drop := map[int]bool{}
		for i := lo; i < hi; i++ {
			for j := i + 1; j < hi; j++ {
				if test(key(s.el[i]), key(s.el[j])) {
					if c.FromEnd == "t" {
						drop[j] = true
					} else {
						drop[i] = true
					}
				}
			}
		}
		out := seq{typ: s.typ}
		for i, e := range s.el {
			if !drop[i] {
				out.el = append(out.el, e)
			}
		}
		ex := expect{show: out.show()}
		if c.Fn == "remove-duplicates" {
			ex.in1 = s.show()
		}
		return ex
	case "member", "member-if":
		s := c.seq1()
		m := c.elemMatcher()
		for i, e := range s.el {
			if m(e) {
				return expect{show: seq{typ: "list", el: s.el[i:]}.show(), in1: s.show()}
			}
		}
		return expect{show: "nil", in1: s.show()}
	case "assoc", "assoc-if", "assoc-if-not", "rassoc", "rassoc-if":
		s := c.seq1()
		m := c.elemMatcher()
		for _, e := range s.el {
			if e.k != 'p' {
				continue // nil entries of an alist are skipped
			}
			part := *e.car
			if strings.HasPrefix(c.Fn, "rassoc") {
				part = *e.cdr
			}
			if m(part) {
				return expect{show: e.show(), in1: s.show()}
			}
		}
		return expect{show: "nil", in1: s.show()}
	case "adjoin":
		s := c.seq1()
		key, test := c.keyFn(), c.testFn()
		item := parseTok(c.Item)
		for _, e := range s.el {
			if test(key(item), key(e)) {
				return expect{show: s.show(), in1: s.show()}
			}
		}
		out := seq{typ: "list", el: append([]val{item}, s.el...)}
		return expect{show: out.show(), in1: s.show()}
	case "search":
		a, b := c.seq1(), c.seq2()
		lo1, hi1 := bounds(len(a.el), c.Start, c.End)
		lo2, hi2 := bounds(len(b.el), c.Start2, c.End2)
		key, test := c.keyFn(), c.testFn()
		n := hi1 - lo1
		found := -1
		for p := lo2; p+n <= hi2; p++ {
			ok := true
			for k := 0; k < n; k++ {
				if !test(key(a.el[lo1+k]), key(b.el[p+k])) {
					ok = false
					break
				}
			}
			if ok {
				found = p
				if c.FromEnd != "t" {
					break
				}
			}
		}
		ex := expect{show: "nil", in1: a.show(), in2: b.show()}
		if 0 <= found {
			ex.show = showInt(found)
		}
		return ex
	case "mismatch":
		a, b := c.seq1(), c.seq2()
		lo1, hi1 := bounds(len(a.el), c.Start, c.End)
		lo2, hi2 := bounds(len(b.el), c.Start2, c.End2)
		key, test := c.keyFn(), c.testFn()
		ex := expect{show: "nil", in1: a.show(), in2: b.show()}
		if c.FromEnd == "t" {
			for k := 0; ; k++ {
				i, j := hi1-1-k, hi2-1-k
				if i < lo1 && j < lo2 {
					return ex
				}
				if i < lo1 || j < lo2 || !test(key(a.el[i]), key(b.el[j])) {
					ex.show = showInt(i + 1)
					return ex
				}
			}
		}
		for k := 0; ; k++ {
			i, j := lo1+k, lo2+k
			if hi1 <= i && hi2 <= j {
				return ex
			}
			if hi1 <= i || hi2 <= j || !test(key(a.el[i]), key(b.el[j])) {
				ex.show = showInt(i)
				return ex
			}
		}
	case "subseq":
		s := c.seq1()
		lo, hi := bounds(len(s.el), c.Start, c.End)
		return expect{show: seq{typ: s.typ, el: s.el[lo:hi]}.show(), in1: s.show()}
	case "copy-seq":
		s := c.seq1()
		return expect{show: s.show(), in1: s.show()}
	case "reverse", "nreverse":
		s := c.seq1()
		out := seq{typ: s.typ}
		for i := len(s.el) - 1; 0 <= i; i-- {
			out.el = append(out.el, s.el[i])
		}
		ex := expect{show: out.show()}
		if c.Fn == "reverse" {
			ex.in1 = s.show()
		}
		return ex
	case "fill":
		s := c.seq1()
		lo, hi := bounds(len(s.el), c.Start, c.End)
		out := s.copy()
		it := parseTok(c.Item)
		for i := lo; i < hi; i++ {
			out.el[i] = it
		}
		ex := expect{show: out.show(), in1: "="}
		if s.typ == "string" {
			ex.in1 = s.show() // documented: strings are immutable, a copy is returned
		}
		return ex
	case "replace":
		a, b := c.seq1(), c.seq2()
		lo1, hi1 := bounds(len(a.el), c.Start, c.End)
		lo2, hi2 := bounds(len(b.el), c.Start2, c.End2)
		out := a.copy()
		for k := 0; lo1+k < hi1 && lo2+k < hi2; k++ {
			out.el[lo1+k] = b.el[lo2+k]
		}
		ex := expect{show: out.show(), in1: "=", in2: b.show()}
		if a.typ == "string" {
			ex.in1 = a.show()
		}
		return ex
	case "sort", "stable-sort":
		return sortOracle(c)
	case "merge":
		a, b := c.seq1(), c.seq2()
		key := c.keyFn()
		less := orders[c.Pred].f
		out := seq{typ: c.RT}
		i, j := 0, 0
		for i < len(a.el) || j < len(b.el) {
			switch {
			case len(a.el) <= i:
				out.el = append(out.el, b.el[j])
				j++
			case len(b.el) <= j:
				out.el = append(out.el, a.el[i])
				i++
			case less(key(b.el[j]), key(a.el[i])):
				out.el = append(out.el, b.el[j])
				j++
			default: // equivalent keys: the element of sequence-1 comes first
				out.el = append(out.el, a.el[i])
				i++
			}
		}
		return expect{show: out.show()}
	case "union", "nunion", "intersection", "nintersection", "set-difference", "nset-difference",
		"set-exclusive-or", "nset-exclusive-or", "subsetp":
		return setOracle(c)
	case "every", "some", "notany", "notevery":
		seqs := []seq{c.seq1()}
		if c.T2 != "" {
			seqs = append(seqs, c.seq2())
		}
		n := len(seqs[0].el)
		for _, s := range seqs {
			if len(s.el) < n {
				n = len(s.el)
			}
		}
		all, any := true, false
		for i := 0; i < n; i++ {
			var r bool
			if len(seqs) == 1 {
				r = preds[c.Pred].f(seqs[0].el[i])
			} else {
				r = tests[c.Pred].f(seqs[0].el[i], seqs[1].el[i])
			}
			all = all && r
			any = any || r
		}
		res := map[string]bool{"every": all, "some": any, "notany": !any, "notevery": !all}[c.Fn]
		ex := expect{truth: 2, in1: seqs[0].show()}
		if res {
			ex.truth = 1
		}
		if len(seqs) == 2 {
			ex.in2 = seqs[1].show()
		}
		return ex
	case "map", "mapcar", "mapcan", "maplist", "mapc", "mapl", "mapcon":
		return mapOracle(c)
	case "map-into":
		dst := c.seq1()
		srcs := []seq{c.seq2()}
		if c.T3 != "" {
			srcs = append(srcs, c.seq3())
		}
		n := len(dst.el)
		for _, s := range srcs {
			if len(s.el) < n {
				n = len(s.el)
			}
		}
		out := dst.copy()
		f := mapfns[c.Pred].f
		for i := 0; i < n; i++ {
			args := make([]val, len(srcs))
			for k := range srcs {
				args[k] = srcs[k].el[i]
			}
			out.el[i] = f(args)
		}
		return expect{show: out.show(), in1: "=", in2: srcs[0].show()}
	case "reduce":
		s := c.seq1()
		lo, hi := bounds(len(s.el), c.Start, c.End)
		key := c.keyFn()
		f := mapfns[c.Pred].f
		var items []val
		for i := lo; i < hi; i++ {
			items = append(items, key(s.el[i]))
		}
		ex := expect{in1: s.show()}
		if c.Init != "" {
			iv := parseTok(c.Init)
			if c.FromEnd == "t" {
				items = append(items, iv)
			} else {
				items = append([]val{iv}, items...)
			}
		}
		switch len(items) {
		case 0:
			// the function is called with no arguments
			switch c.Pred {
			case "+":
				ex.show = "0"
			case "list2":
				ex.show = "nil"
			default:
				panic("reduce of nothing with " + c.Pred)
			}
			return ex
		case 1:
			ex.show = items[0].show()
			return ex
		}
		var acc val
		if c.FromEnd == "t" {
			acc = items[len(items)-1]
			for i := len(items) - 2; 0 <= i; i-- {
				acc = f([]val{items[i], acc})
			}
		} else {
			acc = items[0]
			for _, it := range items[1:] {
				acc = f([]val{acc, it})
			}
		}
		ex.show = acc.show()
		return ex
	case "concatenate":
		out := seq{typ: c.RT}
		ex := expect{}
		if c.T1 != "" {
			s := c.seq1()
			out.el = append(out.el, s.el...)
			ex.in1 = s.show()
		}
		if c.T2 != "" {
			s := c.seq2()
			out.el = append(out.el, s.el...)
			ex.in2 = s.show()
		}
		if c.T3 != "" {
			out.el = append(out.el, c.seq3().el...)
		}
		ex.show = out.show()
		return ex
	}
	panic("no oracle for " + c.Fn)
}

func sortOracle(c *Case) expect {
	s := c.seq1()
	key := c.keyFn()
	var less func(a, b val) bool
	if c.Pred == "" {
		// documented dialect: the predicate is optional, a built-in
		// comparator orders numbers, characters and symbols naturally
		less = func(a, b val) bool {
			if a.k == 's' {
				return a.s < b.s
			}
			return a.i < b.i
		}
	} else {
		less = orders[c.Pred].f
	}
	in := make([]string, len(s.el))
	for i, e := range s.el {
		in[i] = e.show()
	}
	byShow := map[string]val{}
	for _, e := range s.el {
		byShow[e.show()] = e
	}
	stable := c.Fn == "stable-sort"
	var exact string
	if stable {
		out := s.copy()
		sort.SliceStable(out.el, func(i, j int) bool { return less(key(out.el[i]), key(out.el[j])) })
		exact = out.show()
	}
	return expect{show: exact, check: func(typ string, elems []string) string {
		if typ != s.typ {
			return "result is a " + typ + ", input was a " + s.typ
		}
		a := append([]string{}, in...)
		b := append([]string{}, elems...)
		sort.Strings(a)
		sort.Strings(b)
		if strings.Join(a, " ") != strings.Join(b, " ") {
			return "result is not a permutation of the input"
		}
		for i := 0; i+1 < len(elems); i++ {
			x, y := byShow[elems[i]], byShow[elems[i+1]]
			if less(key(y), key(x)) {
				return fmt.Sprintf("not ordered: %s comes before %s", elems[i], elems[i+1])
			}
		}
		return ""
	}}
}

func setOracle(c *Case) expect {
	a, b := c.seq1(), c.seq2()
	key, test := c.keyFn(), c.testFn()
	inB := func(e val) bool {
		for _, o := range b.el {
			if test(key(e), key(o)) {
				return true
			}
		}
		return false
	}
	inA := func(e val) bool {
		for _, o := range a.el {
			if test(key(o), key(e)) {
				return true
			}
		}
		return false
	}
	ex := expect{}
	if !strings.HasPrefix(c.Fn, "n") {
		ex.in1, ex.in2 = a.show(), b.show()
	}
	if c.Fn == "subsetp" {
		ex.truth = 1
		for _, e := range a.el {
			if !inB(e) {
				ex.truth = 2
			}
		}
		return ex
	}
	// must: elements that have to be represented; may: elements allowed.
	// Inputs are generated without internal duplicates (under test and key),
	// so the result is pinned as a multiset; order is free.
	var want []string
	switch strings.TrimPrefix(c.Fn, "n") {
	case "union":
		// for a matching pair either element may be kept: compare by key class
		for _, e := range a.el {
			want = append(want, e.show())
		}
		for _, e := range b.el {
			if !inA(e) {
				want = append(want, e.show())
			}
		}
		alt := map[string][]string{} // element of a -> matching elements of b
		for _, e := range a.el {
			for _, o := range b.el {
				if test(key(e), key(o)) {
					alt[e.show()] = append(alt[e.show()], o.show())
				}
			}
		}
		return withCheck(ex, want, alt)
	case "intersection":
		alt := map[string][]string{}
		for _, e := range a.el {
			if inB(e) {
				want = append(want, e.show())
				for _, o := range b.el {
					if test(key(e), key(o)) {
						alt[e.show()] = append(alt[e.show()], o.show())
					}
				}
			}
		}
		return withCheck(ex, want, alt)
	case "set-difference":
		for _, e := range a.el {
			if !inB(e) {
				want = append(want, e.show())
			}
		}
		return withCheck(ex, want, nil)
	case "set-exclusive-or":
		for _, e := range a.el {
			if !inB(e) {
				want = append(want, e.show())
			}
		}
		for _, e := range b.el {
			if !inA(e) {
				want = append(want, e.show())
			}
		}
		return withCheck(ex, want, nil)
	}
	panic("no set oracle for " + c.Fn)
}

// withCheck builds a validator: the result must be a list holding exactly the
// wanted elements in any order; alt lists, for a wanted element, the elements
// of the other list that may stand in for it.
func withCheck(ex expect, want []string, alt map[string][]string) expect {
	ex.check = func(typ string, elems []string) string {
		if typ != "list" {
			return "result is a " + typ + ", not a list"
		}
		if len(elems) != len(want) {
			return fmt.Sprintf("result has %d elements, the set has %d (%s)", len(elems), len(want), strings.Join(want, " "))
		}
		used := make([]bool, len(elems))
	next:
		for _, w := range want {
			cands := append([]string{w}, alt[w]...)
			for _, cnd := range cands {
				for i, e := range elems {
					if !used[i] && e == cnd {
						used[i] = true
						continue next
					}
				}
			}
			return fmt.Sprintf("element %s of the set is missing (set: %s)", w, strings.Join(want, " "))
		}
		return ""
	}
	return ex
}

func mapOracle(c *Case) expect {
	seqs := []seq{c.seq1()}
	if c.T2 != "" {
		seqs = append(seqs, c.seq2())
	}
	n := len(seqs[0].el)
	for _, s := range seqs {
		if len(s.el) < n {
			n = len(s.el)
		}
	}
	ex := expect{in1: seqs[0].show()}
	if len(seqs) == 2 {
		ex.in2 = seqs[1].show()
	}
	f := mapfns[c.Pred].f
	switch c.Fn {
	case "map", "mapcar":
		out := seq{typ: "list"}
		if c.Fn == "map" {
			out.typ = c.RT
		}
		for i := 0; i < n; i++ {
			args := make([]val, len(seqs))
			for k := range seqs {
				args[k] = seqs[k].el[i]
			}
			out.el = append(out.el, f(args))
		}
		if out.typ == "nil" {
			ex.show = "nil"
		} else {
			ex.show = out.show()
		}
	case "mapc":
		// the source collects the arguments of every call in order; the
		// primary value is the first list
		var calls []val
		for i := 0; i < n; i++ {
			var args []val
			for k := range seqs {
				args = append(args, seqs[k].el[i])
			}
			calls = append([]val{vList(args...)}, calls...)
		}
		ex.show = "(" + seqs[0].show() + " " + vList(calls...).show() + ")"
	case "mapl":
		// as mapc, on successive tails
		var calls []val
		for i := 0; i < n; i++ {
			var args []val
			for k := range seqs {
				args = append(args, vList(seqs[k].el[i:]...))
			}
			calls = append([]val{vList(args...)}, calls...)
		}
		ex.show = "(" + seqs[0].show() + " " + vList(calls...).show() + ")"
	case "mapcon":
		// function is list: each call gives a fresh list of the tails, concatenated
		var parts []val
		for i := 0; i < n; i++ {
			for k := range seqs {
				parts = append(parts, vList(seqs[k].el[i:]...))
			}
		}
		ex.show = vList(parts...).show()
	case "mapcan":
		// function is list: results are fresh lists, concatenated
		out := seq{typ: "list"}
		for i := 0; i < n; i++ {
			for k := range seqs {
				out.el = append(out.el, seqs[k].el[i])
			}
		}
		ex.show = out.show()
	case "maplist":
		// function is (lambda (x ..) (list (length x) ..)) style: see source
		out := seq{typ: "list"}
		for i := 0; i < n; i++ {
			var parts []val
			for k := range seqs {
				parts = append(parts, vList(seqs[k].el[i:]...))
			}
			out.el = append(out.el, vList(parts...))
		}
		ex.show = out.show()
	}
	return ex
}
