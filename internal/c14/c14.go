package c14

import (
	"fmt"
	"math/rand/v2"
	"sort"
	"strconv"
	"strings"

	"github.com/ohler55/slip"

	"verif/internal/fw"
	"verif/internal/sl"
)

func quoteType(t string) string {
	if t == "nil" {
		return "nil"
	}
	return "'" + t
}

// keywordArgs lists the keyword arguments of the call in a canonical order.
func (c *Case) keywordArgs() []string {
	var kw []string
	two := c.Fn == "search" || c.Fn == "mismatch" || c.Fn == "replace"
	sName, eName := ":start", ":end"
	if two {
		sName, eName = ":start1", ":end1"
	}
	if c.Fn != "subseq" {
		if c.Start != nil {
			kw = append(kw, sName+" "+strconv.Itoa(*c.Start))
		}
		if c.End != nil {
			kw = append(kw, eName+" "+strconv.Itoa(*c.End))
		} else if c.EndNil {
			kw = append(kw, eName+" nil")
		}
	}
	if c.Start2 != nil {
		kw = append(kw, ":start2 "+strconv.Itoa(*c.Start2))
	}
	if c.End2 != nil {
		kw = append(kw, ":end2 "+strconv.Itoa(*c.End2))
	}
	if c.Key != "" {
		kw = append(kw, ":key "+keys[c.Key].lisp)
	}
	if c.Test != "" {
		kw = append(kw, ":test "+tests[c.Test].lisp)
	}
	if c.Count != nil {
		kw = append(kw, ":count "+strconv.Itoa(*c.Count))
	} else if c.CntNil {
		kw = append(kw, ":count nil")
	}
	if c.FromEnd != "" {
		kw = append(kw, ":from-end "+c.FromEnd)
	}
	if c.Init != "" {
		kw = append(kw, ":initial-value "+parseTok(c.Init).lisp())
	}
	if 1 < len(kw) && 0 < c.Perm {
		p := c.Perm % len(kw)
		kw = append(append([]string{}, kw[p:]...), kw[:p]...)
	}
	return kw
}

// kwNames names the keyword groups present, for signatures and coverage.
// :start/:end (and :start1/:end1) are one group "bounds", :start2/:end2 "bounds2".
func (c *Case) kwNames() string {
	var n []string
	add := func(b bool, s string) {
		if b {
			n = append(n, s)
		}
	}
	add((c.Start != nil && c.Fn != "subseq") || c.End != nil, "bounds")
	add(c.EndNil, "end-nil")
	add(c.Start2 != nil || c.End2 != nil, "bounds2")
	add(c.Key != "", "key")
	add(c.Test != "", "test")
	add(c.Count != nil, "count")
	add(c.CntNil, "count-nil")
	add(c.FromEnd == "t", "from-end")
	add(c.FromEnd == "nil", "from-end-nil")
	add(c.Init != "", "initial-value")
	if (c.Fn == "sort" || c.Fn == "stable-sort") && c.Pred == "" {
		n = append(n, "default-predicate")
	}
	if len(n) == 0 {
		return "none"
	}
	sort.Strings(n)
	return strings.Join(n, "+")
}

// kwSig is kwNames for signatures: :key and :test are named only when no other
// keyword group is left in the reduced case (they select data, the other
// groups select the scan that is performed), which keeps the set of
// signatures of one defect small and the same for every seed.
func (c *Case) kwSig() string {
	var n []string
	for _, k := range strings.Split(c.kwNames(), "+") {
		if k != "key" && k != "test" {
			n = append(n, k)
		}
	}
	if len(n) == 0 {
		return c.kwNames()
	}
	return strings.Join(n, "+")
}

// features names the boundary situations of a (reduced) case that listed
// findings are tied to, so that a finding only covers failures in the same
// situation: empty effective ranges, explicit bounds equal to the length,
// cross-sequence ties in merge, tests that are not equivalence relations.
func (c *Case) features(kind string) string {
	var n []string
	sp := specByName[c.Fn]
	rng := func(toks []string, start, end *int) (lo, hi, ln int) {
		ln = len(toks)
		lo, hi = 0, ln
		if start != nil {
			lo = *start
		}
		if end != nil {
			hi = *end
		}
		return
	}
	atLen := false
	if c.T1 != "" {
		lo, hi, ln := rng(c.S1, c.Start, c.End)
		if lo == hi && sp.fam != "subseq" && sp.fam != "concat" && sp.fam != "set" && sp.fam != "merge" {
			n = append(n, "empty1")
		}
		if (c.Start != nil && *c.Start == ln) || (c.End != nil && *c.End == ln) {
			atLen = true
		}
	}
	if c.T2 != "" && (sp.fam == "two" || sp.fam == "replace") {
		lo, hi, ln := rng(c.S2, c.Start2, c.End2)
		if lo == hi {
			n = append(n, "empty2")
		}
		if (c.Start2 != nil && *c.Start2 == ln) || (c.End2 != nil && *c.End2 == ln) {
			atLen = true
		}
	}
	if strings.HasPrefix(kind, "error:") && (c.CntNil || c.EndNil) {
		return "none" // the keyword value is what is rejected
	}
	if atLen {
		if strings.HasPrefix(kind, "error:") {
			n = nil // the bound is what is rejected; emptiness is incidental
		}
		n = append(n, "bound-at-length")
	}
	if c.Fn == "merge" {
		key, less := c.keyFn(), orders[c.Pred].f
	ties:
		for _, a := range parseToks(c.S1) {
			for _, b := range parseToks(c.S2) {
				if !less(key(a), key(b)) && !less(key(b), key(a)) {
					n = append(n, "ties")
					break ties
				}
			}
		}
	}
	if sp.fam == "two" && (c.T1 == "string") != (c.T2 == "string") {
		n = append(n, "string-vs-nonstring")
	}
	if t, ok := tests[c.Test]; ok && !t.equiv && sp.fam != "quant" && strings.Contains(c.kwSig(), "test") {
		n = append(n, "order-test")
	}
	if len(n) == 0 {
		return "none"
	}
	return strings.Join(n, "+")
}

// nilArgs tells which sequence arguments are the empty list.
func (c *Case) nilArgs() string {
	var n []string
	if c.T1 == "list" && len(c.S1) == 0 {
		n = append(n, "1")
	}
	if c.T2 == "list" && len(c.S2) == 0 {
		n = append(n, "2")
	}
	if c.T3 == "list" && len(c.S3) == 0 {
		n = append(n, "3")
	}
	return strings.Join(n, "+")
}

func (c *Case) typSig() string {
	t := c.T1
	if t == "" {
		t = "-"
	}
	if c.T2 != "" {
		t += "/" + c.T2
	}
	if c.RT != "" {
		t += ">" + c.RT
	}
	return t
}

// source renders the program: sequences are built fresh, bound to variables,
// the function is called, and the inputs are read again afterwards.
func (c *Case) source() string {
	var b strings.Builder
	b.WriteString("(let (")
	if c.T1 != "" {
		b.WriteString("(s1 " + c.seq1().lisp() + ")")
	} else {
		b.WriteString("(s1 nil)")
	}
	if c.T2 != "" {
		b.WriteString(" (s2 " + c.seq2().lisp() + ")")
	} else {
		b.WriteString(" (s2 nil)")
	}
	if c.T3 != "" {
		b.WriteString(" (s3 " + c.seq3().lisp() + ")")
	}
	b.WriteString(") (list (multiple-value-list ")
	b.WriteString(c.call())
	b.WriteString(") s1 s2))")
	return b.String()
}

func (c *Case) call() string {
	kw := strings.Join(c.keywordArgs(), " ")
	form := func(parts ...string) string {
		var keep []string
		for _, p := range parts {
			if p != "" {
				keep = append(keep, p)
			}
		}
		return "(" + strings.Join(keep, " ") + ")"
	}
	item := func() string { return parseTok(c.Item).lisp() }
	sp := specByName[c.Fn]
	switch sp.fam {
	case "item", "adjoin", "assoc":
		if strings.Contains(c.Fn, "substitute") {
			return form(c.Fn, parseTok(c.New).lisp(), item(), "s1", kw)
		}
		return form(c.Fn, item(), "s1", kw)
	case "if", "assoc-if":
		if strings.Contains(c.Fn, "substitute") {
			return form(c.Fn, parseTok(c.New).lisp(), preds[c.Pred].lisp, "s1", kw)
		}
		return form(c.Fn, preds[c.Pred].lisp, "s1", kw)
	case "dup", "simple":
		return form(c.Fn, "s1", kw)
	case "two", "replace", "set":
		return form(c.Fn, "s1", "s2", kw)
	case "subseq":
		end := ""
		if c.End != nil {
			end = strconv.Itoa(*c.End)
		}
		return form(c.Fn, "s1", strconv.Itoa(*c.Start), end)
	case "fill":
		return form(c.Fn, "s1", item(), kw)
	case "sort":
		pred := ""
		if c.Pred != "" {
			pred = orders[c.Pred].lisp
		} else if kw != "" {
			pred = "nil"
		}
		return form(c.Fn, "s1", pred, kw)
	case "merge":
		return form(c.Fn, quoteType(c.RT), "s1", "s2", orders[c.Pred].lisp, kw)
	case "quant":
		if c.T2 != "" {
			return form(c.Fn, tests[c.Pred].lisp, "s1", "s2")
		}
		return form(c.Fn, preds[c.Pred].lisp, "s1")
	case "map":
		s2 := ""
		if c.T2 != "" {
			s2 = "s2"
		}
		switch c.Fn {
		case "map":
			return form(c.Fn, quoteType(c.RT), mapfns[c.Pred].lisp, "s1", s2)
		case "mapcar":
			return form(c.Fn, mapfns[c.Pred].lisp, "s1", s2)
		case "mapcan", "maplist", "mapcon":
			return form(c.Fn, "#'list", "s1", s2)
		case "mapl":
			if s2 != "" {
				return "(let ((acc nil)) (list (mapl (lambda (x y) (setq acc (cons (list x y) acc))) s1 s2) acc))"
			}
			return "(let ((acc nil)) (list (mapl (lambda (x) (setq acc (cons (list x) acc))) s1) acc))"
		case "mapc":
			if s2 != "" {
				return "(let ((acc nil)) (list (mapc (lambda (x y) (setq acc (cons (list x y) acc))) s1 s2) acc))"
			}
			return "(let ((acc nil)) (list (mapc (lambda (x) (setq acc (cons (list x) acc))) s1) acc))"
		}
	case "map-into":
		s3 := ""
		if c.T3 != "" {
			s3 = "s3"
		}
		return form(c.Fn, "s1", mapfns[c.Pred].lisp, "s2", s3)
	case "reduce":
		return form(c.Fn, mapfns[c.Pred].lisp, "s1", kw)
	case "concat":
		var ss []string
		if c.T1 != "" {
			ss = append(ss, "s1")
		}
		if c.T2 != "" {
			ss = append(ss, "s2")
		}
		if c.T3 != "" {
			ss = append(ss, "s3")
		}
		return form(c.Fn, quoteType(c.RT), strings.Join(ss, " "))
	}
	panic("no call form for " + c.Fn)
}

type failure struct {
	kind string
	msg  string
}

// judge runs the case on the real interpreter and compares with the oracle.
func judge(c *Case) (fails []failure, src, got string) {
	ex := oracle(c)
	src = c.source()
	res, err := sl.Eval(slip.NewScope(), src)
	if err != nil {
		k := "error:" + err.Class
		if err.Internal {
			k = "internal-fault"
		}
		want := ex.show
		if want == "" {
			want = "a value"
		}
		return []failure{{k, fmt.Sprintf("%s => %s; the language defines %s", src, err, want)}}, src, err.String()
	}
	got = sl.Show(res)
	top, _ := res.(slip.List)
	if len(top) != 3 {
		return []failure{{"shape", fmt.Sprintf("%s => %s", src, got)}}, src, got
	}
	vals, _ := top[0].(slip.List)
	var primary slip.Object
	if 0 < len(vals) {
		primary = vals[0]
	}
	pshow := sl.Show(primary)
	if len(vals) != 1 {
		// every function under observation returns exactly one value
		fails = append(fails, failure{"value-count", fmt.Sprintf("%s => %d values %s; the language defines one value", src, len(vals), sl.Show(top[0]))})
	}
	wantShow := ex.show
	switch {
	case ex.truth == 1:
		if primary == nil {
			fails = append(fails, failure{"wrong-truth", fmt.Sprintf("%s => %s; the language defines true", src, pshow)})
		}
	case ex.truth == 2:
		if primary != nil {
			fails = append(fails, failure{"wrong-truth", fmt.Sprintf("%s => %s; the language defines nil", src, pshow)})
		}
	default:
		if ex.check != nil {
			typ, elems, ok := elemsOf(primary)
			why := "result is not a proper sequence"
			if ok {
				why = ex.check(typ, elems)
			}
			if why != "" {
				kind := "wrong-value"
				if strings.Contains(why, "result is a") || !ok {
					kind = "wrong-type"
				}
				fails = append(fails, failure{kind, fmt.Sprintf("%s => %s; %s", src, pshow, why)})
			}
			wantShow = pshow
		}
		if ex.show != "" && len(fails) == 0 && pshow != ex.show {
			kind := "wrong-value"
			if seqClass(pshow) != seqClass(ex.show) && ex.show != "nil" && pshow != "nil" {
				kind = "wrong-type"
			}
			fails = append(fails, failure{kind, fmt.Sprintf("%s => %s; the language defines %s", src, pshow, ex.show)})
			wantShow = ex.show
		}
	}
	for k, want := range []string{ex.in1, ex.in2} {
		if want == "" {
			continue
		}
		after := sl.Show(top[1+k])
		if want == "=" {
			if after != wantShow {
				fails = append(fails, failure{"input-not-updated", fmt.Sprintf("%s: sequence-%d is %s after the call, the language defines that it is modified to %s", src, k+1, after, wantShow)})
			}
			continue
		}
		if after != want {
			fails = append(fails, failure{"input-modified", fmt.Sprintf("%s: sequence-%d is %s after the call, was %s", src, k+1, after, want)})
		}
	}
	return fails, src, got
}

func seqClass(show string) string {
	switch {
	case strings.HasPrefix(show, "#("):
		return "vector"
	case strings.HasPrefix(show, "\""):
		return "string"
	case strings.HasPrefix(show, "(") || show == "nil":
		return "list"
	}
	return "atom"
}

// safeJudge is judge for a variant made by the minimiser: a variant the
// oracle cannot interpret (panic) is reported as not failing.
func safeJudge(c *Case) (fails []failure) {
	defer func() {
		if r := recover(); r != nil {
			fails = nil
		}
	}()
	fails, _, _ = judge(c)
	return
}

func hasKind(fails []failure, kind string) bool {
	for _, f := range fails {
		if f.kind == kind {
			return true
		}
	}
	return false
}

// droppableKey tells whether dropping the key keeps tests and predicates
// applicable (the key maps the flavour to itself).
func droppableKey(c *Case) bool {
	k, ok := keys[c.Key]
	return ok && k.out == ""
}

func allChars(toks []string) bool {
	for _, t := range toks {
		if !strings.HasPrefix(t, "#\\") {
			return false
		}
	}
	return true
}

// applyKey gives the equivalent call without :key on sequences whose
// elements are the keyed elements; ok is false when that is not expressible.
func applyKey(c *Case) (v Case, ok bool) {
	v = *c
	if c.Key == "" {
		return v, false
	}
	switch specByName[c.Fn].fam {
	case "assoc", "assoc-if":
		return v, false
	}
	conv := func(toks []string) []string {
		out := make([]string, len(toks))
		for i, t := range toks {
			out[i] = keyed(c.Key, t)
		}
		return out
	}
	v.S1, v.S2 = conv(c.S1), conv(c.S2)
	if c.Fn == "adjoin" {
		v.Item = keyed(c.Key, c.Item)
	}
	v.Key = ""
	if (v.T1 == "string" && !allChars(v.S1)) || (v.T2 == "string" && !allChars(v.S2)) || v.RT == "string" {
		return v, false
	}
	return v, true
}

// minimise drops keyword arguments one at a time, and makes the sequence types
// uniform, while the case keeps failing in the same way, so that the signature
// names the keywords and types that matter.
func minimise(c Case, kind string) Case {
	cur := c
	try := func(mod func(v *Case)) bool {
		v := cur
		mod(&v)
		if hasKind(safeJudge(&v), kind) {
			cur = v
			return true
		}
		return false
	}
	try(func(v *Case) { v.Perm = 0 })
	if cur.Key != "" {
		dropped := false
		if droppableKey(&cur) {
			dropped = try(func(v *Case) { v.Key = "" })
		}
		if !dropped {
			if v, ok := applyKey(&cur); ok && hasKind(safeJudge(&v), kind) {
				cur = v
			}
		}
	}
	if cur.Test != "" {
		try(func(v *Case) { v.Test = "" })
	}
	if cur.FromEnd != "" {
		try(func(v *Case) { v.FromEnd = "" })
	}
	if cur.Count != nil || cur.CntNil {
		try(func(v *Case) { v.Count, v.CntNil = nil, false })
	}
	if cur.Start != nil && cur.Fn != "subseq" {
		try(func(v *Case) { v.Start = nil })
	}
	if cur.End != nil || cur.EndNil {
		try(func(v *Case) { v.End, v.EndNil = nil, false })
	}
	if cur.Start2 != nil {
		try(func(v *Case) { v.Start2 = nil })
	}
	if cur.End2 != nil {
		try(func(v *Case) { v.End2 = nil })
	}
	if cur.Init != "" {
		try(func(v *Case) { v.Init = "" })
	}
	if cur.T2 != "" && cur.T2 != cur.T1 && cur.T1 != "" && (cur.T1 != "string" || allChars(cur.S2)) {
		try(func(v *Case) { v.T2 = v.T1 })
	}
	if cur.T2 != "" && cur.T2 != cur.T1 && cur.T1 != "" && (cur.T2 != "string" || allChars(cur.S1)) {
		try(func(v *Case) { v.T1 = v.T2 })
	}
	if cur.T3 != "" && cur.T3 != cur.T1 && cur.T1 != "" && (cur.T1 != "string" || allChars(cur.S3)) {
		try(func(v *Case) { v.T3 = v.T1 })
	}
	if cur.RT != "" && cur.RT != cur.T1 && cur.T1 != "" && cur.RT != "nil" && (cur.T1 != "string" || cur.RT == "string") {
		try(func(v *Case) { v.RT = v.T1 })
	}
	return cur
}

func exec(x *fw.Ctx, c Case) {
	sp := specByName[c.Fn]
	if sp == nil {
		x.Fail("harness-unknown-function", "no such function in the check: %s", c.Fn)
		return
	}
	fails, src, got := judge(&c)
	x.Observe(map[string]any{"src": src, "result": got})
	x.Cover("fn:" + c.Fn)
	x.Cover("type:" + c.typSig())
	x.Cover("kw:" + c.kwNames())
	x.Cover("len:" + strconv.Itoa(len(c.S1)))
	if c.Block != "" {
		x.Cover("block:" + c.Block)
	}
	if c.Key != "" {
		x.Cover("key:" + c.Key)
	}
	if c.Test != "" {
		x.Cover("test:" + c.Test)
	}
	coverAvoidSets(x, &c)
	if len(fails) == 0 {
		x.Cover("agreed")
		return
	}
	seen := map[string]bool{}
	for _, f := range fails {
		if seen[f.kind] {
			continue
		}
		seen[f.kind] = true
		m := minimise(c, f.kind)
		kind := f.kind
		if na := m.nilArgs(); na != "" && (strings.HasPrefix(kind, "error:") || kind == "internal-fault") && !m.CntNil && !m.EndNil {
			kind += "@empty-list-" + na
		}
		sig := fmt.Sprintf("fn=%s fail=%s feat=%s kw=%s typ=%s", c.Fn, kind, m.features(kind), m.kwSig(), m.typSig())
		msg := f.msg
		if ms := m.source(); ms != src {
			for _, mf := range safeJudge(&m) {
				if mf.kind == f.kind {
					msg += "\n   reduced: " + mf.msg
					break
				}
			}
		}
		x.Fail(sig, "%s", msg)
	}
}

// coverAvoidSets counts, for the constructs that are listed findings on the
// pinned tree, how many cases produce them (minority:) and how many cases of
// the same function stay clear of them (avoided:).
func coverAvoidSets(x *fw.Ctx, c *Case) {
	mark := func(present bool, what string) {
		if present {
			x.Cover("minority:" + what)
		} else {
			x.Cover("avoided:" + what)
		}
	}
	feat := c.features("")
	has := func(f string) bool { return strings.Contains("+"+feat+"+", "+"+f+"+") }
	switch c.Fn {
	case "search", "mismatch":
		mark(c.FromEnd == "t", "search/mismatch with :from-end")
		if c.Fn == "search" {
			mark(has("string-vs-nonstring"), "search between a string and a list/vector")
			mark(has("empty1"), "search for an empty pattern")
		}
	}
	switch c.Fn {
	case "fill", "replace", "mismatch":
		mark(has("bound-at-length"), "explicit bound equal to the length (fill replace mismatch)")
	}
	if c.Fn == "reduce" {
		mark(has("empty1") && c.Init == "", "reduce of an empty range without :initial-value")
	}
	if na := c.nilArgs(); na != "" {
		x.Cover("minority:empty list as a sequence argument")
	}
}

// ---- the case list ----------------------------------------------------------

type gridEntry struct {
	sp  *fspec
	typ string
	k   knobs
}

var (
	grid    []gridEntry
	fnTypes []gridEntry // every (function, type)
	seqs3   [][]int     // every sequence of length 0..3 over 4 symbols
	seqs4   [][]int     // ... 0..4
)

var gridSeqs = [][]int{{0, 1, 0, 2, 0}, {0, 0, 1}, {1, 0, 1, 0, 3, 2}, {}}

func allSeqs(maxLen int) [][]int {
	out := [][]int{{}}
	prev := [][]int{{}}
	for l := 1; l <= maxLen; l++ {
		var cur [][]int
		for _, p := range prev {
			for e := 0; e < 4; e++ {
				cur = append(cur, append(append([]int{}, p...), e))
			}
		}
		out = append(out, cur...)
		prev = cur
	}
	return out
}

func init() {
	for i := range specs {
		specByName[specs[i].name] = &specs[i]
	}
	seqs3 = allSeqs(3)
	seqs4 = allSeqs(4)
	opt := func(b bool, n int) []int {
		if !b {
			return []int{0}
		}
		out := make([]int, n)
		for i := range out {
			out[i] = i
		}
		return out
	}
	for i := range specs {
		sp := &specs[i]
		for _, typ := range sp.types {
			fnTypes = append(fnTypes, gridEntry{sp: sp, typ: typ})
			two := sp.fam == "two" || sp.fam == "replace"
			// knobs reused by families without the keyword: quant/map (key = two
			// sequences), reduce (test = :initial-value), sort (test = predicate given)
			keyDim := sp.key || sp.fam == "quant" || sp.fam == "map"
			testDim := sp.test || sp.fam == "reduce" || sp.fam == "sort" || sp.fam == "dup"
			for si, s := range gridSeqs {
				for _, b := range opt(sp.bnd, 4) {
					for _, b2 := range opt(two, 4) {
						for _, fe := range opt(sp.fromE, 2) {
							for _, cnt := range opt(sp.count, 4) {
								for _, ky := range opt(keyDim, 2) {
									for _, ts := range opt(testDim, 2) {
										for rep := 0; rep < 2; rep++ {
											_ = si
											grid = append(grid, gridEntry{sp: sp, typ: typ, k: knobs{
												seq: s, bounds: b, bounds2: b2, fromEnd: fe, count: cnt, key: ky, test: ts,
												minLen: 0, maxLen: 5,
											}})
										}
									}
								}
							}
						}
					}
				}
			}
		}
	}
}

const (
	exhReps      = 6
	exhRepsDeep  = 16
	randQuick    = 120000
	randThorough = 1800000
)

func sizes(tier string) (nGrid, nExh, nRand int) {
	nGrid = len(grid)
	if tier == "thorough" {
		return nGrid, len(fnTypes) * len(seqs4) * exhRepsDeep, randThorough
	}
	return nGrid, len(fnTypes) * len(seqs3) * exhReps, randQuick
}

func nCases(tier string) int {
	a, b, c := sizes(tier)
	return a + b + c
}

func gen(r *rand.Rand, i int, tier string) Case {
	nGrid, nExh, _ := sizes(tier)
	switch {
	case i < nGrid:
		// seed-independent: every function x type x fixed sequences x keyword presence grid
		g := grid[i]
		dr := rand.New(rand.NewPCG(uint64(i), 0xC14))
		c := genCase(dr, g.sp, g.typ, g.k)
		c.Block = "grid"
		return c
	case i < nGrid+nExh:
		// seed-independent: every sequence of length 0..3 (thorough 0..4) over the
		// 4-symbol alphabet for every function and type, keywords drawn from a
		// generator seeded by the index only
		j := i - nGrid
		all, reps := seqs3, exhReps
		if tier == "thorough" {
			all, reps = seqs4, exhRepsDeep
		}
		rep := j % reps
		j /= reps
		s := all[j%len(all)]
		ft := fnTypes[j/len(all)]
		dr := rand.New(rand.NewPCG(uint64(i), uint64(0xE14+rep)))
		c := genCase(dr, ft.sp, ft.typ, knobs{seq: s, bounds: -1, bounds2: -1, fromEnd: -1, count: -1, key: -1, test: -1, minLen: 0, maxLen: 5})
		c.Block = "exhaustive"
		return c
	}
	// seeded: longer sequences (4..8), everything drawn at random
	ft := fnTypes[r.IntN(len(fnTypes))]
	c := genCase(r, ft.sp, ft.typ, knobs{bounds: -1, bounds2: -1, fromEnd: -1, count: -1, key: -1, test: -1, minLen: 4, maxLen: 8})
	c.Block = "seeded"
	return c
}

func init() {
	fw.Register(fw.Spec[Case]{
		ID: "C14",
		Rule: "one call of one of 58 sequence functions per case: function x sequence type(s) (list, vector, string) x element flavour (integers, symbols, symbols with nil, " +
			"characters, tagged conses, alist pairs; 4-symbol alphabets) x keyword combination (:start :end :key :test :count :from-end, :start2/:end2, :initial-value, " +
			"result type, keyword order) with in-range bounds. Block 1 (seed-independent): every function x type x 4 fixed sequences x every presence combination of " +
			"bounds/from-end/count/key/test. Block 2 (seed-independent): every sequence of length 0..3 (thorough: 0..4) over the alphabet for every function x type, " +
			"keywords drawn per index. Block 3 (seeded): sequences of length 4..8, everything random. distinct = distinct case; every case is non-trivial (the language " +
			"pins the result). A failing case is reduced (keywords dropped, :key applied to the data, sequence types made uniform) before its signature is taken. " +
			"Kept in a minority of cases because they are listed open findings: :from-end of search/mismatch, search between a string and a non-string, " +
			"explicit bounds equal to the length in fill/replace/mismatch, reduce of an empty range without :initial-value. Not generated: :test-not and the -if-not variants other than assoc-if-not (slip does not have them), " +
			"octets, eql on symbols, floor inside :key lambdas, negative integers under oddp/evenp (defects of other properties).",
		N:     nCases,
		Gen:   gen,
		Exec:  exec,
		Batch: 4000,
		Assumptions: []string{
			"the reference implementations in internal/c14/oracle.go are the language definition (ANSI CL 17.2/17.3, 14.2, 15.2) with slip's documented dialect: default test equal, strings immutable (fill/replace return a copy), optional sort predicate",
			"element constructors (list, vector, cons), lambda and the builtin tests/keys used as arguments (eql equal = < char= char-equal car cdr 1+ char-code ...) work; they are observed by other checks",
			"results are rendered by the harness's own printer (sl.Show)",
		},
	})
}
