package c14

import (
	"fmt"
	"math/rand/v2"
	"sort"
	"strconv"
	"strings"
	"sync"

	"github.com/ohler55/slip"

	"verif/internal/fw"
	"verif/internal/sl"
)

func quoteType(t string) string {
	if t == "nil" {
		return "nil"
	}
	return "'" + t
}

// keywordArgs lists the keyword arguments of the call in a canonical order.
func (c *Case) keywordArgs() []string {
	var kw []string
	two := c.Fn == "search" || c.Fn == "mismatch" || c.Fn == "replace"
	sName, eName := ":start", ":end"
	if two {
		sName, eName = ":start1", ":end1"
	}
	if c.Fn != "subseq" {
		if c.Start != nil {
			kw = append(kw, sName+" "+strconv.Itoa(*c.Start))
		}
		if c.End != nil {
			kw = append(kw, eName+" "+strconv.Itoa(*c.End))
		} else if c.EndNil {
			kw = append(kw, eName+" nil")
		}
	}
	if c.Start2 != nil {
		kw = append(kw, ":start2 "+strconv.Itoa(*c.Start2))
	}
	if c.End2 != nil {
		kw = append(kw, ":end2 "+strconv.Itoa(*c.End2))
	}
	if c.Key != "" {
		kw = append(kw, ":key "+keys[c.Key].lisp)
	}
	if c.Test != "" {
		kw = append(kw, ":test "+tests[c.Test].lisp)
	}
	if c.Count != nil {
		kw = append(kw, ":count "+strconv.Itoa(*c.Count))
	} else if c.CntNil {
		kw = append(kw, ":count nil")
	}
	if c.FromEnd != "" {
		kw = append(kw, ":from-end "+c.FromEnd)
	}
	if c.Init != "" {
		kw = append(kw, ":initial-value "+parseTok(c.Init).lisp())
	}
	if 1 < len(kw) && 0 < c.Perm {
		p := c.Perm % len(kw)
		kw = append(append([]string{}, kw[p:]...), kw[:p]...)
	}
	if d := c.dupPair(sName, eName); d != "" {
		kw = append(kw, d) // to the right of the pair that counts
	}
	return kw
}

// kwNames names the keyword groups present, for signatures and coverage.
// :start/:end (and :start1/:end1) are one group "bounds", :start2/:end2 "bounds2".
func (c *Case) kwNames() string {
	var n []string
	add := func(b bool, s string) {
		if b {
			n = append(n, s)
		}
	}
	add((c.Start != nil && c.Fn != "subseq") || c.End != nil, "bounds")
	add(c.EndNil, "end-nil")
	add(c.Start2 != nil || c.End2 != nil, "bounds2")
	add(c.Key != "", "key")
	add(c.Test != "", "test")
	add(c.Count != nil, "count")
	add(c.CntNil, "count-nil")
	add(c.FromEnd == "t", "from-end")
	add(c.FromEnd == "nil", "from-end-nil")
	add(c.Init != "", "initial-value")
	if (c.Fn == "sort" || c.Fn == "stable-sort") && c.Pred == "" {
		n = append(n, "default-predicate")
	}
	if len(n) == 0 {
		return "none"
	}
	sort.Strings(n)
	return strings.Join(n, "+")
}

// kwSig is kwNames for signatures: :key and :test are named only when no other
// keyword group is left in the reduced case (they select data, the other
// groups select the scan that is performed), which keeps the set of
// signatures of one defect small and the same for every seed.
func (c *Case) kwSig() string {
	var n []string
	for _, k := range strings.Split(c.kwNames(), "+") {
		if k != "key" && k != "test" {
			n = append(n, k)
		}
	}
	if len(n) == 0 {
		return c.kwNames()
	}
	return strings.Join(n, "+")
}

// features names the boundary situations of a (reduced) case that listed
// findings are tied to, so that a finding only covers failures in the same
// situation: empty effective ranges, explicit bounds equal to the length,
// cross-sequence ties in merge, tests that are not equivalence relations.
func (c *Case) features(kind string) string {
	var n []string
	sp := specByName[c.Fn]
	rng := func(toks []string, start, end *int) (lo, hi, ln int) {
		ln = len(toks)
		lo, hi = 0, ln
		if start != nil {
			lo = *start
		}
		if end != nil {
			hi = *end
		}
		return
	}
	atLen := false
	if c.T1 != "" {
		lo, hi, ln := rng(c.S1, c.Start, c.End)
		if lo == hi && sp.fam != "subseq" && sp.fam != "concat" && sp.fam != "set" && sp.fam != "merge" {
			n = append(n, "empty1")
		}
		if (c.Start != nil && *c.Start == ln) || (c.End != nil && *c.End == ln) {
			atLen = true
		}
	}
	if c.T2 != "" && (sp.fam == "two" || sp.fam == "replace") {
		lo, hi, ln := rng(c.S2, c.Start2, c.End2)
		if lo == hi {
			n = append(n, "empty2")
		}
		if (c.Start2 != nil && *c.Start2 == ln) || (c.End2 != nil && *c.End2 == ln) {
			atLen = true
		}
	}
	if strings.HasPrefix(kind, "error:") && (c.CntNil || c.EndNil) {
		return "none" // the keyword value is what is rejected
	}
	if atLen {
		if strings.HasPrefix(kind, "error:") {
			n = nil // the bound is what is rejected; emptiness is incidental
		}
		n = append(n, "bound-at-length")
	}
	if c.Fn == "merge" {
		key, less := c.keyFn(), orders[c.Pred].f
	ties:
		for _, a := range parseToks(c.S1) {
			for _, b := range parseToks(c.S2) {
				if !less(key(a), key(b)) && !less(key(b), key(a)) {
					n = append(n, "ties")
					break ties
				}
			}
		}
	}
	if sp.fam == "two" && (c.T1 == "string") != (c.T2 == "string") {
		n = append(n, "string-vs-nonstring")
	}
	if sp.fam == "two" && (c.T1 == "octets") != (c.T2 == "octets") {
		n = append(n, "octets-vs-nonoctets")
	}
	if t, ok := tests[c.Test]; ok && !t.equiv && sp.fam != "quant" && strings.Contains(c.kwSig(), "test") {
		n = append(n, "order-test")
	}
	if len(n) == 0 {
		return "none"
	}
	return strings.Join(n, "+")
}

// nilArgs tells which sequence arguments are the empty list.
func (c *Case) nilArgs() string {
	var n []string
	if c.T1 == "list" && len(c.S1) == 0 {
		n = append(n, "1")
	}
	if c.T2 == "list" && len(c.S2) == 0 {
		n = append(n, "2")
	}
	if c.T3 == "list" && len(c.S3) == 0 {
		n = append(n, "3")
	}
	return strings.Join(n, "+")
}

func (c *Case) typSig() string {
	t := c.T1
	if t == "" {
		t = "-"
	}
	if c.T2 != "" {
		t += "/" + c.T2
	}
	if c.RT != "" {
		t += ">" + c.RT
	}
	return t
}

// source renders the program: sequences are built fresh, bound to variables,
// the function is called, and the inputs are read again afterwards.
func (c *Case) source() string {
	var b strings.Builder
	decorated := c.Route != "" || c.Same || c.Prior
	if decorated {
		// sequence-1 reached through a route, shared with sequence-2, or used
		// by a failed call before: bindings are sequential, the donor is s0
		b.WriteString("(let* (")
		s0, s1 := c.routeBinding()
		if c.T1 == "" {
			s0, s1 = "nil", "nil"
		}
		b.WriteString("(s0 " + s0 + ") (s1 " + s1 + ")")
	} else {
		b.WriteString("(let (")
		if c.T1 != "" {
			b.WriteString("(s1 " + c.seq1().lisp() + ")")
		} else {
			b.WriteString("(s1 nil)")
		}
	}
	switch {
	case c.Same:
		b.WriteString(" (s2 s1)")
	case c.Route2 == "fp" && c.T2 == "vector":
		d := seq{typ: "list", el: append(parseToks(c.S2), parseTok("mg"), parseTok("mg"))}
		b.WriteString(fmt.Sprintf(" (s2 (make-array %d :fill-pointer %d :initial-contents %s))", len(c.S2)+2, len(c.S2), d.lisp()))
	case c.T2 != "":
		b.WriteString(" (s2 " + c.seq2().lisp() + ")")
	default:
		b.WriteString(" (s2 nil)")
	}
	if c.T3 != "" {
		b.WriteString(" (s3 " + c.seq3().lisp() + ")")
	}
	// bystanders: a second, separately built sequence with the elements of s1
	// and a copy-seq of s1 taken before the call; neither may change
	if c.T1 != "" {
		b.WriteString(" (b2 " + c.seq1().lisp() + ")")
	} else {
		b.WriteString(" (b2 nil)")
	}
	b.WriteString(") (let ((b1 (copy-seq s1))) ")
	if c.Prior {
		b.WriteString(c.priorCall() + " ")
	}
	b.WriteString("(list (multiple-value-list ")
	b.WriteString(c.call())
	b.WriteString(") s1 s2 b1 b2")
	if decorated {
		b.WriteString(" " + c.donorProbe())
	}
	b.WriteString(")))")
	return b.String()
}

func (c *Case) call() string {
	kw := strings.Join(c.keywordArgs(), " ")
	form := func(parts ...string) string {
		var keep []string
		for _, p := range parts {
			if p != "" {
				keep = append(keep, p)
			}
		}
		return "(" + strings.Join(keep, " ") + ")"
	}
	item := func() string { return parseTok(c.Item).lisp() }
	sp := specByName[c.Fn]
	switch sp.fam {
	case "item", "adjoin", "assoc":
		if strings.Contains(c.Fn, "substitute") {
			return form(c.Fn, parseTok(c.New).lisp(), item(), "s1", kw)
		}
		return form(c.Fn, item(), "s1", kw)
	case "if", "assoc-if":
		if strings.Contains(c.Fn, "substitute") {
			return form(c.Fn, parseTok(c.New).lisp(), preds[c.Pred].lisp, "s1", kw)
		}
		return form(c.Fn, preds[c.Pred].lisp, "s1", kw)
	case "dup", "simple":
		return form(c.Fn, "s1", kw)
	case "two", "replace", "set":
		return form(c.Fn, "s1", "s2", kw)
	case "subseq":
		end := ""
		if c.End != nil {
			end = strconv.Itoa(*c.End)
		}
		return form(c.Fn, "s1", strconv.Itoa(*c.Start), end)
	case "fill":
		return form(c.Fn, "s1", item(), kw)
	case "sort":
		pred := ""
		if c.Pred != "" {
			pred = orders[c.Pred].lisp
		} else if kw != "" {
			pred = "nil"
		}
		return form(c.Fn, "s1", pred, kw)
	case "merge":
		return form(c.Fn, quoteType(c.RT), "s1", "s2", orders[c.Pred].lisp, kw)
	case "quant":
		if c.T2 != "" {
			return form(c.Fn, tests[c.Pred].lisp, "s1", "s2")
		}
		return form(c.Fn, preds[c.Pred].lisp, "s1")
	case "map":
		s2 := ""
		if c.T2 != "" {
			s2 = "s2"
		}
		switch c.Fn {
		case "map":
			return form(c.Fn, quoteType(c.RT), mapfns[c.Pred].lisp, "s1", s2)
		case "mapcar":
			return form(c.Fn, mapfns[c.Pred].lisp, "s1", s2)
		case "mapcan", "maplist", "mapcon":
			return form(c.Fn, "#'list", "s1", s2)
		case "mapl":
			if s2 != "" {
				return "(let ((acc nil)) (list (mapl (lambda (x y) (setq acc (cons (list x y) acc))) s1 s2) acc))"
			}
			return "(let ((acc nil)) (list (mapl (lambda (x) (setq acc (cons (list x) acc))) s1) acc))"
		case "mapc":
			if s2 != "" {
				return "(let ((acc nil)) (list (mapc (lambda (x y) (setq acc (cons (list x y) acc))) s1 s2) acc))"
			}
			return "(let ((acc nil)) (list (mapc (lambda (x) (setq acc (cons (list x) acc))) s1) acc))"
		}
	case "map-into":
		s3 := ""
		if c.T3 != "" {
			s3 = "s3"
		}
		return form(c.Fn, "s1", mapfns[c.Pred].lisp, "s2", s3)
	case "reduce":
		return form(c.Fn, mapfns[c.Pred].lisp, "s1", kw)
	case "concat":
		var ss []string
		if c.T1 != "" {
			ss = append(ss, "s1")
		}
		if c.T2 != "" {
			ss = append(ss, "s2")
		}
		if c.T3 != "" {
			ss = append(ss, "s3")
		}
		return form(c.Fn, quoteType(c.RT), strings.Join(ss, " "))
	}
	panic("no call form for " + c.Fn)
}

type failure struct {
	kind string
	msg  string
}

// judge runs the case on the real interpreter and compares with the oracle.
func judge(c *Case) (fails []failure, src, got string) {
	ex := oracle(c)
	src = c.source()
	res, err := sl.Eval(slip.NewScope(), src)
	if err != nil {
		k := "error:" + err.Class
		if err.Internal {
			k = "internal-fault"
		}
		want := ex.show
		if want == "" {
			want = "a value"
		}
		return []failure{{k, fmt.Sprintf("%s => %s; the language defines %s", src, err, want)}}, src, err.String()
	}
	got = render(res)
	top, _ := res.(slip.List)
	decorated := c.Route != "" || c.Same || c.Prior
	if (!decorated && len(top) != 5) || (decorated && len(top) != 6) {
		return []failure{{"shape", fmt.Sprintf("%s => %s", src, got)}}, src, got
	}
	vals, _ := top[0].(slip.List)
	var primary slip.Object
	if 0 < len(vals) {
		primary = vals[0]
	}
	pshow := render(primary)
	if len(vals) != 1 {
		// every function under observation returns exactly one value
		fails = append(fails, failure{"value-count", fmt.Sprintf("%s => %d values %s; the language defines one value", src, len(vals), render(top[0]))})
	}
	wantShow := ex.show
	switch {
	case ex.truth == 1:
		if primary == nil {
			fails = append(fails, failure{"wrong-truth", fmt.Sprintf("%s => %s; the language defines true", src, pshow)})
		}
	case ex.truth == 2:
		if primary != nil {
			fails = append(fails, failure{"wrong-truth", fmt.Sprintf("%s => %s; the language defines nil", src, pshow)})
		}
	default:
		if ex.check != nil {
			typ, elems, ok := elemsOf(primary)
			why := "result is not a proper sequence"
			if ok {
				why = ex.check(typ, elems)
			}
			if why != "" {
				kind := "wrong-value"
				if strings.Contains(why, "result is a") || !ok {
					kind = "wrong-type"
				}
				fails = append(fails, failure{kind, fmt.Sprintf("%s => %s; %s", src, pshow, why)})
			}
			wantShow = pshow
		}
		if ex.show != "" && len(fails) == 0 && pshow != ex.show {
			kind := "wrong-value"
			if seqClass(pshow) != seqClass(ex.show) && ex.show != "nil" && pshow != "nil" {
				kind = "wrong-type"
			}
			fails = append(fails, failure{kind, fmt.Sprintf("%s => %s; the language defines %s", src, pshow, ex.show)})
			wantShow = ex.show
		}
	}
	if c.Same && ex.in1 == "=" {
		ex.in2 = "=" // one object: what is read through s2 is the updated sequence
	}
	for k, want := range []string{ex.in1, ex.in2} {
		if want == "" {
			continue
		}
		after := render(top[1+k])
		if want == "=" {
			if after != wantShow {
				fails = append(fails, failure{"input-not-updated", fmt.Sprintf("%s: sequence-%d is %s after the call, the language defines that it is modified to %s", src, k+1, after, wantShow)})
			}
			continue
		}
		if after != want {
			fails = append(fails, failure{"input-modified", fmt.Sprintf("%s: sequence-%d is %s after the call, was %s", src, k+1, after, want)})
		}
	}
	if c.T1 != "" {
		orig := c.seq1().show()
		if after := render(top[3]); after != orig {
			if c.Route != "" {
				fails = append(fails, failure{"derived-sequence-wrong", fmt.Sprintf("%s: the copy-seq of sequence-1 (route %s) taken before the call is %s after the call, the language defines %s", src, c.Route, after, orig)})
			} else {
				fails = append(fails, failure{"copy-seq-shares-storage", fmt.Sprintf("%s: the copy-seq of sequence-1 taken before the call is %s after the call, was %s", src, after, orig)})
			}
		}
		if after := render(top[4]); after != orig {
			fails = append(fails, failure{"bystander-modified", fmt.Sprintf("%s: a separately built sequence with the same elements is %s after the call, was %s", src, after, orig)})
		}
	}
	if decorated && c.T1 != "" {
		if want := c.donorWant(ex.in1, wantShow); want != "" {
			if after := render(top[5]); after != want {
				what := "the sequence that sequence-1 was derived from"
				if c.Route == "fp" {
					what = "the elements above the fill pointer of sequence-1"
				}
				fails = append(fails, failure{"donor-modified", fmt.Sprintf("%s: %s (route %s) shows %s after the call, the language defines %s", src, what, c.Route, after, want)})
			}
		}
	}
	return fails, src, got
}

// visibleTies tells whether a sort case holds two distinguishable elements
// the predicate does not order (what stability is about).
func visibleTies(c *Case) bool {
	if c.Pred == "" {
		return false
	}
	key, less := c.keyFn(), orders[c.Pred].f
	el := parseToks(c.S1)
	for i := range el {
		for j := i + 1; j < len(el); j++ {
			if !el[i].equal(el[j]) && !less(key(el[i]), key(el[j])) && !less(key(el[j]), key(el[i])) {
				return true
			}
		}
	}
	return false
}

func seqClass(show string) string {
	switch {
	case strings.HasPrefix(show, "#("):
		return "vector"
	case strings.HasPrefix(show, "#o("):
		return "octets"
	case strings.HasPrefix(show, "#*"):
		return "bit-vector"
	case strings.HasPrefix(show, "\""):
		return "string"
	case strings.HasPrefix(show, "(") || show == "nil":
		return "list"
	}
	return "atom"
}

// safeJudge is judge for a variant made by the minimiser: a variant the
// oracle cannot interpret (panic) is reported as not failing.
func safeJudge(c *Case) (fails []failure) {
	defer func() {
		if r := recover(); r != nil {
			fails = nil
		}
	}()
	fails, _, _ = judge(c)
	return
}

func hasKind(fails []failure, kind string) bool {
	for _, f := range fails {
		if f.kind == kind {
			return true
		}
	}
	return false
}

// droppableKey tells whether dropping the key keeps tests and predicates
// applicable (the key maps the flavour to itself).
func droppableKey(c *Case) bool {
	k, ok := keys[c.Key]
	return ok && k.out == ""
}

// applyKey gives the equivalent call without :key on sequences whose
// elements are the keyed elements; ok is false when that is not expressible.
func applyKey(c *Case) (v Case, ok bool) {
	v = *c
	if c.Key == "" {
		return v, false
	}
	switch specByName[c.Fn].fam {
	case "assoc", "assoc-if":
		return v, false
	}
	conv := func(toks []string) []string {
		out := make([]string, len(toks))
		for i, t := range toks {
			out[i] = keyed(c.Key, t)
		}
		return out
	}
	v.S1, v.S2 = conv(c.S1), conv(c.S2)
	if c.Fn == "adjoin" {
		v.Item = keyed(c.Key, c.Item)
	}
	v.Key = ""
	if !fits(v.T1, v.S1) || !fits(v.T2, v.S2) || v.RT == "string" || v.RT == "octets" {
		return v, false
	}
	return v, true
}

// minimise drops keyword arguments one at a time, and makes the sequence types
// uniform, while the case keeps failing in the same way, so that the signature
// names the keywords and types that matter.
func minimise(c Case, kind string) Case {
	cur := c
	try := func(mod func(v *Case)) bool {
		v := cur
		mod(&v)
		if hasKind(safeJudge(&v), kind) {
			cur = v
			return true
		}
		return false
	}
	try(func(v *Case) { v.Perm = 0 })
	if cur.Prior {
		try(func(v *Case) { v.Prior = false })
	}
	if cur.Dup != "" {
		try(func(v *Case) { v.Dup = "" })
	}
	if cur.Route2 != "" {
		try(func(v *Case) { v.Route2 = "" })
	}
	if cur.Same {
		try(func(v *Case) { v.Same = false }) // an equal, separately built sequence-2
	}
	if cur.Route != "" {
		try(func(v *Case) { v.Route = "" })
	}
	if cur.Key != "" {
		dropped := false
		if droppableKey(&cur) {
			dropped = try(func(v *Case) { v.Key = "" })
		}
		if !dropped {
			if v, ok := applyKey(&cur); ok && hasKind(safeJudge(&v), kind) {
				cur = v
			}
		}
	}
	if cur.Test != "" {
		try(func(v *Case) { v.Test = "" })
	}
	if cur.FromEnd != "" {
		try(func(v *Case) { v.FromEnd = "" })
	}
	if cur.Count != nil || cur.CntNil {
		try(func(v *Case) { v.Count, v.CntNil = nil, false })
	}
	if cur.Start != nil && cur.Fn != "subseq" {
		try(func(v *Case) { v.Start = nil })
	}
	if cur.End != nil || cur.EndNil {
		try(func(v *Case) { v.End, v.EndNil = nil, false })
	}
	if cur.Start2 != nil {
		try(func(v *Case) { v.Start2 = nil })
	}
	if cur.End2 != nil {
		try(func(v *Case) { v.End2 = nil })
	}
	if cur.Init != "" {
		try(func(v *Case) { v.Init = "" })
	}
	listOnly2 := specByName[cur.Fn].fam == "set" || specByName[cur.Fn].fam == "map-into" || (specByName[cur.Fn].fam == "map" && cur.Fn != "map")
	if cur.T2 != "" && cur.T2 != cur.T1 && cur.T1 != "" && !listOnly2 && fits(cur.T1, cur.S2) {
		try(func(v *Case) { v.T2 = v.T1 })
	}
	if cur.T2 != "" && cur.T2 != cur.T1 && cur.T1 != "" && !listOnly2 && fits(cur.T2, cur.S1) {
		try(func(v *Case) { v.T1 = v.T2 })
	}
	if cur.T3 != "" && cur.T3 != cur.T1 && cur.T1 != "" && !listOnly2 && fits(cur.T1, cur.S3) {
		try(func(v *Case) { v.T3 = v.T1 })
	}
	if cur.RT != "" && cur.RT != cur.T1 && cur.RT != "nil" && (cur.T1 == "list" || cur.T1 == "vector") {
		try(func(v *Case) { v.RT = v.T1 })
	}
	return cur
}

func exec(x *fw.Ctx, c Case) {
	ensureTables()
	sp := specByName[c.Fn]
	if sp == nil {
		x.Fail("harness-unknown-function", "no such function in the check: %s", c.Fn)
		return
	}
	fails, src, got := judge(&c)
	x.Observe(map[string]any{"src": src, "result": got})
	x.Cover("fn:" + c.Fn)
	x.Cover("type:" + c.typSig())
	x.Cover("kw:" + c.kwNames())
	x.Cover("len:" + strconv.Itoa(len(c.S1)))
	if c.Block != "" {
		x.Cover("block:" + c.Block)
	}
	if c.Key != "" {
		x.Cover("key:" + c.Key)
	}
	if c.Test != "" {
		x.Cover("test:" + c.Test)
	}
	if c.Route != "" {
		x.Cover("route:" + c.Route + "/" + c.T1)
		x.Cover("route-fn:" + c.Fn)
	}
	if c.Same {
		x.Cover("same-object:" + c.Fn)
	}
	if c.Prior {
		x.Cover("after-failed-call:" + c.Fn)
	}
	if c.Route2 != "" {
		x.Cover("route2:" + c.Route2 + ":" + c.Fn)
	}
	if c.Dup != "" && c.dupPair(":start", ":end") != "" {
		x.Cover("duplicate-keyword:" + c.Dup)
	}
	x.Cover("elements:" + c.flavourSeen())
	x.Cover("cross:" + c.crossKey())
	if c.Count != nil {
		x.Cover("count-value:" + c.countClass())
	}
	if c.Fn == "merge" && strings.Contains(c.features(""), "ties") {
		x.Cover("merge:ties-across-sequences")
	}
	if sp.fam == "sort" || sp.fam == "merge" {
		if 8 < len(c.S1) {
			x.Cover("long(9..30):" + c.Fn)
		}
		if sp.fam == "sort" && visibleTies(&c) {
			x.Cover("ties-visible:" + c.Fn)
		}
	}
	coverAvoidSets(x, &c)
	if len(fails) == 0 {
		x.Cover("agreed")
		return
	}
	seen := map[string]bool{}
	for _, f := range fails {
		if seen[f.kind] {
			continue
		}
		seen[f.kind] = true
		m := minimise(c, f.kind)
		kind := f.kind
		if na := m.nilArgs(); na != "" && (strings.HasPrefix(kind, "error:") || kind == "internal-fault") && !m.CntNil && !m.EndNil {
			kind += "@empty-list-" + na
		}
		sig := fmt.Sprintf("fn=%s fail=%s feat=%s kw=%s typ=%s", c.Fn, kind, m.features(kind), m.kwSig(), m.typSig()) + m.decorSig()
		msg := f.msg
		if m.Dup != "" {
			// a keyword given twice is handled by each function's own parser in
			// one way for all sequences: the signature names function, failure
			// kind and keyword only
			sig = fmt.Sprintf("fn=%s fail=%s duplicate-keyword=%s", c.Fn, f.kind, m.Dup)
		}
		if rf := freshRouteFn[m.Route]; kind == "donor-modified" && rf != "" {
			if in1 := oracle(&m).in1; in1 == "" || in1 == "=" {
				// the function may modify sequence-1: that the donor changes with it
				// is the defect of the operation that is defined to return a
				// fresh sequence
				sig = fmt.Sprintf("fn=%s fail=result-shares-storage typ=%s via=%s", rf, m.T1, c.Fn)
				msg = "the result of " + rf + " shares storage with its argument: " + msg
			}
		}
		if ms := m.source(); ms != src {
			for _, mf := range safeJudge(&m) {
				if mf.kind == f.kind {
					msg += "\n   reduced: " + mf.msg
					break
				}
			}
		}
		x.Fail(sig, "%s", msg)
	}
}

// coverAvoidSets counts, for the constructs that are listed findings on the
// pinned tree, how many cases produce them (minority:) and how many cases of
// the same function stay clear of them (avoided:).
func coverAvoidSets(x *fw.Ctx, c *Case) {
	mark := func(present bool, what string) {
		if present {
			x.Cover("minority:" + what)
		} else {
			x.Cover("avoided:" + what)
		}
	}
	feat := c.features("")
	has := func(f string) bool { return strings.Contains("+"+feat+"+", "+"+f+"+") }
	switch c.Fn {
	case "search", "mismatch":
		mark(c.FromEnd == "t", "search/mismatch with :from-end")
		if c.Fn == "search" {
			mark(has("string-vs-nonstring"), "search between a string and a list/vector")
			mark(has("octets-vs-nonoctets"), "search between octets and another sequence type")
			mark(has("empty1"), "search for an empty pattern")
		}
	}
	if c.Fn == "fill" {
		mark(has("bound-at-length"), "explicit bound equal to the length (fill)")
	}
	switch c.Fn {
	case "replace", "mismatch":
		if has("bound-at-length") {
			x.Cover("bound-equal-to-length:" + c.Fn)
		}
	}
	if c.Fn == "reduce" {
		mark(has("empty1") && c.Init == "", "reduce of an empty range without :initial-value")
	}
	if na := c.nilArgs(); na != "" {
		x.Cover("empty-list-argument:" + c.Fn)
	}
	if unsupported(c.Fn, c.T1) {
		x.Cover("minority:sequence type the function rejects (" + c.T1 + ")")
	}
}

// ---- the case list ----------------------------------------------------------

type gridEntry struct {
	sp  *fspec
	typ string
	k   knobs
}

var (
	grid    []gridEntry
	fnTypes []gridEntry // every (function, type) the function accepts
	seqs3   [][]int     // every sequence of length 0..3 over 4 symbols
	seqs4   [][]int     // ... 0..4
)

var gridSeqs = [][]int{{0, 1, 0, 2, 0}, {0, 0, 1}, {1, 0, 1, 0, 3, 2}, {}}

// seqsOver lists every sequence of length lo..hi over the first k symbols.
func seqsOver(k, lo, hi int) [][]int {
	var out [][]int
	prev := [][]int{{}}
	if lo == 0 {
		out = append(out, []int{})
	}
	for l := 1; l <= hi; l++ {
		var cur [][]int
		for _, p := range prev {
			for e := 0; e < k; e++ {
				cur = append(cur, append(append([]int{}, p...), e))
			}
		}
		if lo <= l {
			out = append(out, cur...)
		}
		prev = cur
	}
	return out
}

func allSeqs(maxLen int) [][]int { return seqsOver(4, 0, maxLen) }

func init() {
	for i := range specs {
		specByName[specs[i].name] = &specs[i]
	}
}

// The case tables are built on first use, not at package initialisation (the
// full binary is started once per session by checks that work through
// sub-processes and must start fast).
var tablesOnce sync.Once

func ensureTables() { tablesOnce.Do(buildTables) }

func buildTables() {
	seqs3 = allSeqs(3)
	seqs4 = allSeqs(4)
	opt := func(b bool, n int) []int {
		if !b {
			return []int{0}
		}
		out := make([]int, n)
		for i := range out {
			out[i] = i
		}
		return out
	}
	for i := range specs {
		sp := &specs[i]
		for _, typ := range sp.types {
			rejected := unsupported(sp.name, typ)
			if !rejected {
				fnTypes = append(fnTypes, gridEntry{sp: sp, typ: typ})
			}
			two := sp.fam == "two" || sp.fam == "replace"
			// knobs reused by families without the keyword: quant/map (key = two
			// sequences), reduce (test = :initial-value), sort (test = predicate given)
			keyDim := sp.key || sp.fam == "quant" || sp.fam == "map"
			testDim := sp.test || sp.fam == "reduce" || sp.fam == "sort" || sp.fam == "dup"
			n := 0
			for _, s := range gridSeqs {
				for _, b := range opt(sp.bnd, 4) {
					for _, b2 := range opt(two, 4) {
						for _, fe := range opt(sp.fromE, 2) {
							for _, cnt := range opt(sp.count, 4) {
								for _, ky := range opt(keyDim, 2) {
									for _, ts := range opt(testDim, 2) {
										for rep := 0; rep < 2; rep++ {
											// a type the function rejects outright (listed
											// finding): a handful of cases only
											if rejected && (8 <= n || b+b2+fe+cnt != 0) {
												continue
											}
											n++
											grid = append(grid, gridEntry{sp: sp, typ: typ, k: knobs{
												seq: s, bounds: b, bounds2: b2, fromEnd: fe, count: cnt, key: ky, test: ts,
												minLen: 0, maxLen: 5,
											}})
										}
									}
								}
							}
						}
					}
				}
			}
		}
	}
}

// kwEntry is one case of the enumerated-keyword-value blocks: explicit values
// of :start/:end (and :start2/:end2), :count and :from-end; -1 = absent.
type kwEntry struct {
	ft             int16
	s1, s2         int16
	start, end     int8
	start2, end2   int8
	count          int8
	fromEnd, pairs bool
}

type tierPlan struct {
	enum1  [][]int // sequences of the keyword-value block
	short1 [][]int // sequences 1 and 2 of the two-sequence bounds block
	short2 [][]int
	pairSq [][]int // sequences of the pairs block
	pairFT []int   // indices into fnTypes
	reps   int
	kw     []kwEntry
	routes []routeEntry
	same   []sameEntry
	decSq  [][]int // sequences of the routes and same blocks
}

var (
	plans    = map[string]*tierPlan{}
	planLock sync.Mutex
)

func boundsOf(n int, withAbsent bool) [][2]int {
	var out [][2]int
	lo := 0
	if withAbsent {
		lo = -1
	}
	for s := lo; s <= n; s++ {
		from := s
		if from < 0 {
			from = 0
		}
		if withAbsent {
			out = append(out, [2]int{s, -1})
		}
		for e := from; e <= n; e++ {
			out = append(out, [2]int{s, e})
		}
	}
	return out
}

func plan(tier string) *tierPlan {
	planLock.Lock()
	defer planLock.Unlock()
	if p := plans[tier]; p != nil {
		return p
	}
	p := &tierPlan{}
	if tier == "thorough" {
		p.enum1 = append(seqsOver(3, 0, 3), seqsOver(2, 4, 4)...)
		p.short1, p.short2 = seqsOver(2, 0, 2), seqsOver(2, 0, 3)
		p.pairSq, p.reps = seqsOver(3, 0, 3), 4
	} else {
		p.enum1 = seqsOver(2, 0, 3)
		p.short1, p.short2 = seqsOver(2, 0, 1), seqsOver(2, 0, 2)
		p.pairSq, p.reps = seqsOver(2, 0, 3), 2
	}
	for fi, ft := range fnTypes {
		name, fam := ft.sp.name, ft.sp.fam
		switch fam {
		case "item", "if", "dup", "reduce", "fill", "subseq":
			if !ft.sp.bnd {
				continue // member, member-if
			}
			for si, s := range p.enum1 {
				n := len(s)
				counts := []int{-1}
				if ft.sp.count {
					for c := 0; c <= n+1; c++ {
						counts = append(counts, c)
					}
				}
				for _, b := range boundsOf(n, true) {
					if fam == "subseq" && b[0] < 0 {
						continue
					}
					for _, cnt := range counts {
						for fe := 0; fe < 2; fe++ {
							if fe == 1 && !ft.sp.fromE {
								continue
							}
							p.kw = append(p.kw, kwEntry{ft: int16(fi), s1: int16(si), start: int8(b[0]), end: int8(b[1]),
								start2: -1, end2: -1, count: int8(cnt), fromEnd: fe == 1})
						}
					}
				}
			}
		case "two", "replace":
			for i1, a := range p.short1 {
				for i2, b := range p.short2 {
					for _, b1 := range append([][2]int{{-1, -1}}, boundsOf(len(a), false)...) {
						for _, b2 := range append([][2]int{{-1, -1}}, boundsOf(len(b), false)...) {
							for fe := 0; fe < 2; fe++ {
								if fe == 1 && !ft.sp.fromE {
									continue
								}
								p.kw = append(p.kw, kwEntry{ft: int16(fi), s1: int16(i1), s2: int16(i2), start: int8(b1[0]), end: int8(b1[1]),
									start2: int8(b2[0]), end2: int8(b2[1]), count: -1, fromEnd: fe == 1, pairs: true})
							}
						}
					}
				}
			}
		}
		switch name {
		case "search", "mismatch", "replace", "merge", "union", "intersection", "set-difference", "subsetp", "map", "concatenate":
			p.pairFT = append(p.pairFT, fi)
		}
	}
	p.decSq = seqsOver(2, 0, 3)
	if tier == "thorough" {
		p.decSq = seqsOver(3, 0, 3)
		p.routes, p.same = buildRouteEntries(p.decSq, 4), buildSameEntries(p.decSq, 8)
	} else {
		p.routes, p.same = buildRouteEntries(p.decSq, 2), buildSameEntries(p.decSq, 8)
	}
	plans[tier] = p
	return p
}

const (
	exhReps      = 6
	exhRepsDeep  = 16
	randQuick    = 120000
	randThorough = 1800000
)

// sizes gives the lengths of the blocks: grid, exhaustive sequences,
// enumerated keyword values, enumerated sequence pairs, routes, same object,
// seeded.
func sizes(tier string) [7]int {
	p := plan(tier)
	nPairs := len(p.pairFT) * len(p.pairSq) * len(p.pairSq) * p.reps
	if tier == "thorough" {
		return [7]int{len(grid), len(fnTypes) * len(seqs4) * exhRepsDeep, len(p.kw), nPairs, len(p.routes), len(p.same), randThorough}
	}
	return [7]int{len(grid), len(fnTypes) * len(seqs3) * exhReps, len(p.kw), nPairs, len(p.routes), len(p.same), randQuick}
}

func nCases(tier string) int {
	ensureTables()
	n := 0
	for _, k := range sizes(tier) {
		n += k
	}
	return n
}

func opt8(v int8) *int {
	if v < 0 {
		return nil
	}
	return ip(int(v))
}

// gen is genBase with, in a third of the cases (chosen by the index), two of
// the four characters swapped for multi-byte ones.
func gen(r *rand.Rand, i int, tier string) Case {
	ensureTables()
	c := genBase(r, i, tier)
	if (uint32(i)*2654435761>>7)%3 == 0 && unicodeVariant(&c) && c.Fn == "merge" {
		c.S1, c.S2 = sortedBy(c.S1, c.Key, c.Pred), sortedBy(c.S2, c.Key, c.Pred)
	}
	return c
}

func genBase(r *rand.Rand, i int, tier string) Case {
	sz := sizes(tier)
	free := knobs{bounds: -1, bounds2: -1, fromEnd: -1, count: -1, key: -1, test: -1, minLen: 0, maxLen: 5}
	switch {
	case i < sz[0]:
		// seed-independent: every function x type x fixed sequences x keyword presence grid
		g := grid[i]
		dr := rand.New(rand.NewPCG(uint64(i), 0xC14))
		c := genCase(dr, g.sp, g.typ, g.k)
		c.Block = "grid"
		return c
	case i < sz[0]+sz[1]:
		// seed-independent: every sequence of length 0..3 (thorough 0..4) over the
		// 4-symbol alphabet for every function and type, keywords drawn from a
		// generator seeded by the index only
		j := i - sz[0]
		all, reps := seqs3, exhReps
		if tier == "thorough" {
			all, reps = seqs4, exhRepsDeep
		}
		rep := j % reps
		j /= reps
		s := all[j%len(all)]
		ft := fnTypes[j/len(all)]
		dr := rand.New(rand.NewPCG(uint64(i), uint64(0xE14+rep)))
		k := free
		k.seq = s
		c := genCase(dr, ft.sp, ft.typ, k)
		c.Block = "exhaustive"
		return c
	case i < sz[0]+sz[1]+sz[2]:
		// seed-independent: every in-range :start/:end pair (absent included), every
		// :count 0..length+1 and both :from-end values on short sequences; :key,
		// :test and items drawn from a generator seeded by the index only
		p := plan(tier)
		e := p.kw[i-sz[0]-sz[1]]
		ft := fnTypes[e.ft]
		dr := rand.New(rand.NewPCG(uint64(i), 0xA14))
		k := knobs{bounds: 0, bounds2: 0, fromEnd: 0, count: 0, key: -1, test: -1, minLen: 0, maxLen: 3}
		if e.pairs {
			k.seq, k.seq2 = p.short1[e.s1], p.short2[e.s2]
		} else {
			k.seq = p.enum1[e.s1]
		}
		c := genCase(dr, ft.sp, ft.typ, k)
		c.Start, c.End, c.EndNil = opt8(e.start), opt8(e.end), false
		c.Start2, c.End2 = opt8(e.start2), opt8(e.end2)
		c.Count, c.CntNil = opt8(e.count), false
		c.FromEnd = ""
		if e.fromEnd {
			c.FromEnd = "t"
		} else if ft.sp.fromE && i%2 == 1 {
			c.FromEnd = "nil"
		}
		if c.Fn == "reduce" {
			lo, hi := bounds(len(c.S1), c.Start, c.End)
			if lo == hi && c.Init == "" && c.Pred != "+" {
				c.Pred = "list2"
			}
		}
		c.Block = "keyword-values"
		return c
	case i < sz[0]+sz[1]+sz[2]+sz[3]:
		// seed-independent: both sequences of the two-sequence functions enumerated
		p := plan(tier)
		j := i - sz[0] - sz[1] - sz[2]
		j /= p.reps
		n := len(p.pairSq)
		s2 := p.pairSq[j%n]
		j /= n
		s1 := p.pairSq[j%n]
		ft := fnTypes[p.pairFT[j/n]]
		dr := rand.New(rand.NewPCG(uint64(i), 0xB14))
		k := free
		k.seq, k.seq2 = s1, s2
		if ft.sp.fam == "map" {
			k.key = 1 // two sequences
		}
		c := genCase(dr, ft.sp, ft.typ, k)
		c.Block = "pairs"
		return c
	}
	base := sz[0] + sz[1] + sz[2] + sz[3]
	switch {
	case i < base+sz[4]:
		// seed-independent: sequence-1 reached through every route (tail of a longer
		// list, result of subseq / reverse / nreverse / delete, vector with a fill
		// pointer, vector grown by vector-push-extend), short sequences, keywords
		// drawn per index; every second case is preceded by a failed call
		p := plan(tier)
		e := p.routes[i-base]
		ft := fnTypes[e.ft]
		dr := rand.New(rand.NewPCG(uint64(i), uint64(0xD14+int(e.rep))))
		k := free
		k.seq = p.decSq[e.seq]
		switch e.route {
		case "s2fp":
			// sequence-2 is a vector with a fill pointer
			k.key = 1 // quant, map: two sequences
			c := genCase(dr, ft.sp, ft.typ, k)
			s2AsFillPointerVector(&c)
			c.Block = "routes"
			return c
		case "dupkw":
			// a keyword given twice: the leftmost pair counts
			k.bounds, k.count, k.fromEnd = 3, -1, -1
			if ft.sp.fam == "two" || ft.sp.fam == "replace" {
				k.bounds = -1
			}
			c := genCase(dr, ft.sp, ft.typ, k)
			setDup(dr, &c)
			c.Block = "routes"
			return c
		}
		c := genCase(dr, ft.sp, ft.typ, k)
		if c.T1 != "" {
			c.Route = e.route
		}
		if e.rep%2 == 1 && priorCapable(ft.sp) {
			c.Prior = true
		}
		c.Block = "routes"
		return c
	case i < base+sz[4]+sz[5]:
		// seed-independent: sequence-2 is the same object as sequence-1; for search,
		// mismatch and replace every bounds quadruple (overlapping regions of replace)
		p := plan(tier)
		e := p.same[i-base-sz[4]]
		ft := fnTypes[e.ft]
		dr := rand.New(rand.NewPCG(uint64(i), uint64(0xF14+int(e.rep))))
		k := free
		k.seq, k.seq2 = p.decSq[e.seq], p.decSq[e.seq]
		k.key = 1 // quant, map: two sequences
		if e.enum {
			k.bounds, k.bounds2, k.fromEnd = 0, 0, 0
		}
		c := genCase(dr, ft.sp, ft.typ, k)
		makeSame(&c) // (a quantifier on a bit-vector has one sequence only)
		if e.enum {
			c.Start, c.End = opt8(e.start), opt8(e.end)
			c.Start2, c.End2 = opt8(e.start2), opt8(e.end2)
			c.FromEnd = ""
			if e.fromEnd {
				c.FromEnd = "t"
			}
		}
		c.Block = "same"
		return c
	}
	// seeded: longer sequences (4..8), everything drawn at random; a quarter of
	// the cases reach sequence-1 through a route, an eighth share sequence-2, an
	// eighth follow a failed call; sort, stable-sort and merge also on 9..30
	ft := fnTypes[r.IntN(len(fnTypes))]
	k := free
	k.minLen, k.maxLen = 4, 8
	if (ft.sp.fam == "sort" || ft.sp.fam == "merge") && r.IntN(4) == 0 {
		k.minLen, k.maxLen = 9, 30
	}
	c := genCase(r, ft.sp, ft.typ, k)
	decorate(r, &c)
	c.Block = "seeded"
	return c
}

func init() {
	fw.Register(fw.Spec[Case]{
		ID: "C14",
		Rule: "one call of one of 58 sequence functions per case: function x sequence type(s) (list, vector, string, octets, bit-vector) x element flavour (integers, symbols, " +
			"symbols with nil, characters, tagged conses, alist pairs, bits; 4-symbol alphabets) x keyword combination (:start :end :key :test :count :from-end, :start2/:end2, " +
			":initial-value, result type, keyword order) with in-range bounds. Seed-independent blocks: (grid) every function x type x 4 fixed sequences x every presence " +
			"combination of bounds/from-end/count/key/test; (exhaustive) every sequence of length 0..3 (thorough 0..4) over the 4-symbol alphabet for every function x type, " +
			"keywords drawn per index; (keyword-values) for every function with :start/:end, every sequence of length 0..3 over 2 symbols (thorough: 0..3 over 3 symbols and " +
			"length 4 over 2) x every in-range :start/:end pair incl. absent x every :count absent,0..length+1 x both :from-end values, and for search/mismatch/replace " +
			"every bounds quadruple on short sequence pairs; (pairs) both sequences of search mismatch replace merge union intersection set-difference subsetp map " +
			"concatenate enumerated over lengths 0..3 (2 symbols, thorough 3 symbols); (routes) every function x type with sequence-1 obtained from another operation " +
			"instead of a literal - tail of a longer list (cdr), result of subseq / reverse / nreverse / delete, vector with a fill pointer below its capacity, vector grown by " +
			"vector-push-extend - plus sequence-2 as a fill-pointer vector and a keyword given twice, on every sequence of length 0..3 over 2 (thorough 3) symbols, every second case " +
			"after a failed call of the same function (its :key signals an error at the second element); (same) sequence-2 is the same object as sequence-1 for search mismatch " +
			"replace (every bounds quadruple incl. absent: overlapping regions), the set functions, the quantifiers, the mapping functions, map-into and concatenate. " +
			"Seeded block: sequences of length 4..8 (sort stable-sort merge also 9..30), everything random, 1/4 through a route, 1/8 same object, 1/8 after a failed call, 1/16 " +
			"duplicate keyword, 1/16 fill-pointer sequence-2. In a third of all cases (chosen by the index) two of the four characters are multi-byte (\u20ac, \u00a7). " +
			"The donor of a route is read again after the call (subseq and reverse are defined to return fresh sequences; a non-destructive function leaves the list its " +
			"argument is a tail of, and the elements above the fill pointer, alone). Every case also holds two " +
			"bystanders (a copy-seq of the first sequence taken before the call and a separately built equal sequence) that must be unchanged afterwards. " +
			"distinct = distinct case; every case is non-trivial (the language pins the result). A failing case is reduced (keywords dropped, :key applied to the data, " +
			"sequence types made uniform) before its signature is taken. Kept in a minority of cases because they are listed open findings: :from-end of search/mismatch, " +
			"search between a string or octets and another sequence type, explicit bounds equal to the length in fill (back in the full share for replace and mismatch, repaired), reduce of an empty range without " +
			":initial-value, sequence types a function rejects outright (bit-vectors in find position remove delete substitute remove-duplicates search sort; octets in " +
			"substitute and sort: a handful of grid cases each). Not generated: :test-not and the -if-not variants other than assoc-if-not (slip does not have them); " +
			"1+ zerop evenp oddp applied to bits (comparisons, equality and arithmetic on bits are generated again since fix 4569d33, merge takes bit-vectors), plusp on octets, floor inside :key lambdas, negative integers under oddp/evenp (defects of other properties).",
		N:     nCases,
		Gen:   gen,
		Exec:  exec,
		Batch: 4000,
		Assumptions: []string{
			"the reference implementations in internal/c14/oracle.go are the language definition (ANSI CL 17.2/17.3, 14.2, 15.2) with slip's documented dialect: default test equal, strings immutable (fill/replace return a copy), optional sort predicate",
			"element constructors (list, vector, cons), lambda and the builtin tests/keys used as arguments (eql equal = < char= char-equal car cdr 1+ char-code ...) work; they are observed by other checks",
			"results are rendered by the harness's own printer (sl.Show; elements of octets and bit-vectors as the integers they are)",
			"the operations that build routes work: cdr, make-array with :fill-pointer and :initial-contents, vector-push-extend, aref above the fill pointer, array-dimension, ignore-errors; subseq reverse nreverse delete used as routes are themselves under observation (a wrong derived sequence is signed derived-sequence-wrong)",
		},
	})
}
