// Package c06 monitors the value semantics of lists: histories of list
// operations over a pool of four named lists are run by the real interpreter
// and, after every operation, the contents of every variable are re-read and
// judged against (1) a value oracle computed from the observed contents of
// the arguments and (2) a frame rule driven by a cons-cell sharing model of
// the same history (which variables may, by the language rules, share a cons
// cell with the destructively processed list). Elements are fixnums or
// one-level sub-lists; a sub-list object reachable from several lists must
// stay shared: a write into it is visible through every list that holds it.
// Lists may be improper (dotted: rplacd, cons, list*, append, nconc with an
// atom): the model gives every variable the chain of cons cells of its spine,
// rplacd cuts the chain, and a tail taken before the cut is a list of its
// own afterwards that nothing done to the dotted list may change.
package c06

import (
	"fmt"
	"math/rand/v2"
	"sort"
	"strconv"
	"strings"
	"unsafe"

	"github.com/ohler55/slip"

	"verif/internal/fw"
	"verif/internal/sl"
)

const nv = 4

var names = [nv]string{"la", "lb", "lc", "ld"}

// Op is one operation of a history. T is the variable the result is bound
// to (for place operations - push, pop, setf-*, addf - T is the place and A
// is ignored), A, B and C are the list arguments, K and J are selectors that
// are resolved against the observed contents of the argument when the step
// runs (so that every generated operation is applicable).
type Op struct {
	Op string `json:"op"`
	T  int    `json:"t"`
	A  int    `json:"a"`
	B  int    `json:"b,omitempty"`
	C  int    `json:"c,omitempty"`
	K  int    `json:"k,omitempty"`
	J  int    `json:"j,omitempty"`
	// F and H: for op "ho" the list function F is called THROUGH the
	// higher-order function H (mapcar, map-list, map-into, mapcan, reduce,
	// apply, funcall) instead of directly.
	F string `json:"f,omitempty"`
	H string `json:"h,omitempty"`
}

// Case is a history: Pre builds the pool (constructors, growth by add/push,
// shortening, lists built by remove/delete/mapcar/append, aliases), Ops is
// the history proper (length <= 6).
type Case struct {
	Pre  []Op   `json:"pre"`
	Ops  []Op   `json:"ops"`
	Mode string `json:"mode,omitempty"` // "" = one Eval per operation; "compiled" = Code.Compile before Eval
	// Route: after the stepwise run the same program text is run again as ONE
	// form with the pool held in let-bound ("let") or lambda-bound ("lambda")
	// variables; the states seen by a snapshot builtin after every operation
	// must equal the stepwise observations.
	Route string `json:"route,omitempty"`
}

// share: how the result relates to the arguments by the language rules.
const (
	shFresh = iota // all cons cells of the result are new
	shA            // result may share cells with A (tail of A, A itself, A extended in front)
	shB            // result may share cells with B (append, revappend: last argument)
	shC            // result may share cells with C (three-argument append)
	shAB           // result links the arguments' cells (nconc, nreconc, rplacd): the classes merge
)

type kind struct {
	name   string
	place  bool // operates on the place T (A := T)
	nargs  int  // number of list arguments (1, 2 or 3)
	dest   bool // documented destructive on A (nconc: every argument but the last)
	ext    bool // extension: may only add elements behind the end of sharing lists
	elem   bool // writes into a sub-list element of A
	noPair bool // not enumerated by the pair/triple blocks
	share  int
	weight int
}

// The operations with their weights in the random stream. Nothing is
// avoided except what plan() reports as "avoided:".
var kinds = []kind{
	{name: "list", share: shFresh, weight: 2},
	{name: "quote", share: shFresh, weight: 1},
	{name: "rows", share: shFresh, weight: 2, noPair: true},         // a list whose elements are all sub-lists (lengths 0..3)
	{name: "xrow", share: shFresh, weight: 1, noPair: true},         // (number sub-list): an argument list for apply
	{name: "ho", nargs: 2, share: shFresh, weight: 9, noPair: true}, // a list function called through a higher-order function
	{name: "alias", share: shA, weight: 4},
	{name: "cons", share: shA, weight: 4},
	{name: "list*", share: shA, weight: 2},
	{name: "list*1", share: shA, weight: 1},
	{name: "append", nargs: 2, share: shB, weight: 5},
	{name: "append1", share: shA, weight: 1},
	{name: "append3", nargs: 3, share: shC, weight: 3},
	{name: "revappend", nargs: 2, share: shB, weight: 2},
	{name: "cdr", share: shA, weight: 4},
	{name: "rest", share: shA, weight: 2},
	{name: "nthcdr", share: shA, weight: 4},
	{name: "last", share: shA, weight: 3},
	{name: "last1", share: shA, weight: 1},
	{name: "butlast", share: shFresh, weight: 4},
	{name: "butlast1", share: shFresh, weight: 1},
	{name: "subseq", share: shFresh, weight: 4},
	{name: "subseq-noend", share: shFresh, weight: 2},
	{name: "copy-list", share: shFresh, weight: 4},
	{name: "copy-seq", share: shFresh, weight: 1},
	{name: "apply-values", share: shFresh, weight: 1}, // the list is spread by apply; the function keeps what it was handed
	{name: "apply-vector", share: shFresh, weight: 1},
	{name: "reverse", share: shFresh, weight: 4},
	{name: "remove", share: shFresh, weight: 3},
	{name: "remove-count", share: shFresh, weight: 1},
	{name: "remove-if", share: shFresh, weight: 2},
	{name: "remove-if-fe", share: shFresh, weight: 1}, // :from-end t :count 1: only the last match goes
	{name: "remove-fe", share: shFresh, weight: 1},
	{name: "remove-dup", share: shFresh, weight: 2},
	{name: "member", share: shA, weight: 3},
	{name: "mapcar", share: shFresh, weight: 3},
	{name: "mapcar2", nargs: 2, share: shFresh, weight: 2},
	{name: "push", place: true, share: shA, weight: 5},
	{name: "pushnew", place: true, share: shA, weight: 1},
	{name: "pop", place: true, share: shA, weight: 4},
	{name: "setf-car", place: true, dest: true, share: shA, weight: 3},
	{name: "setf-first", place: true, dest: true, share: shA, weight: 1},
	{name: "setf-nth", place: true, dest: true, share: shA, weight: 3},
	{name: "setf-elt", place: true, dest: true, share: shA, weight: 3},
	{name: "setf-caar", place: true, elem: true, share: shA, weight: 3},
	{name: "setf-sub-nth", place: true, elem: true, share: shA, weight: 2},
	{name: "rplaca-sub", place: true, elem: true, share: shA, weight: 2},
	{name: "rplaca", dest: true, share: shA, weight: 3},
	{name: "rplacd", nargs: 2, dest: true, share: shAB, weight: 3},
	// improper (dotted) lists: an atom becomes the cdr of a cons
	{name: "rplacd-atom", dest: true, share: shA, weight: 4},           // (rplacd A atom): the head cons
	{name: "rplacd-in", dest: true, share: shA, weight: 3},             // (rplacd (nthcdr k A) atom) / (cdr A) / (last A j): an inner cons
	{name: "cons-atom", share: shFresh, weight: 1},                     // (cons x atom)
	{name: "list*-atom", share: shFresh, weight: 1, noPair: true},      // (list* x y atom)
	{name: "append-atom", share: shFresh, weight: 1, noPair: true},     // (append A atom)
	{name: "nconc-atom", dest: true, ext: true, share: shA, weight: 2}, // (nconc A atom)
	{name: "nconc", nargs: 2, dest: true, ext: true, share: shAB, weight: 5},
	{name: "nconc3", nargs: 3, dest: true, ext: true, share: shAB, weight: 3},
	{name: "nreconc", nargs: 2, dest: true, share: shAB, weight: 2},
	{name: "add", dest: true, ext: true, share: shA, weight: 7},
	{name: "add2", dest: true, ext: true, share: shA, weight: 2},
	{name: "addf", place: true, dest: true, ext: true, share: shA, weight: 2},
	{name: "nreverse", dest: true, share: shA, weight: 4},
	{name: "nbutlast", dest: true, share: shA, weight: 1},
	{name: "sort<", dest: true, share: shA, weight: 3},
	{name: "sort>", dest: true, share: shA, weight: 1},
	{name: "sort-default", dest: true, share: shA, weight: 2},
	{name: "sort-key", dest: true, share: shA, weight: 2},
	{name: "stable-sort", dest: true, share: shA, weight: 1},
	{name: "delete", dest: true, share: shA, weight: 3},
	{name: "delete-if", dest: true, share: shA, weight: 2},
	{name: "delete-if-fe", dest: true, share: shA, weight: 1},
	{name: "delete-dup", dest: true, share: shA, weight: 1},
}

var (
	kindOf  = map[string]*kind{}
	totalW  int
	pairOps []string // operations enumerated by the exhaustive blocks
)

func init() {
	for i := range kinds {
		k := &kinds[i]
		if k.nargs == 0 {
			k.nargs = 1
		}
		kindOf[k.name] = k
		totalW += k.weight
		if k.name != "list" && k.name != "quote" && !k.noPair {
			pairOps = append(pairOps, k.name)
		}
		if k.name != "list" && k.name != "quote" && k.name != "rows" && k.name != "xrow" && k.name != "ho" {
			dottedOps = append(dottedOps, k.name)
		}
	}
}

// Pools of the exhaustive blocks (see basePre) and the (pool, selector)
// combinations of the pair block: the two plain pools get both selector
// values, the others one.
const (
	poolKinds      = 5
	pairPatterns   = 6
	triplePatterns = 2
	quickRandom    = 20000
	thoroughRandom = 1600000
)

var pairCombos = [][2]int{{0, 1}, {0, 5}, {1, 1}, {1, 5}, {2, 1}, {2, 5}, {3, 1}, {4, 1}}

func pairBlock() int { return len(pairOps) * len(pairOps) * pairPatterns * len(pairCombos) }

// tripleBlock: thorough = every ordered triple x 2 patterns x 2 pools (the
// pool rotates through all five with the triple); quick = the third of the
// triples with (p+2q+3s) divisible by 3, one pattern and pool each.
func tripleAll() int { return len(pairOps) * len(pairOps) * len(pairOps) }
func tripleBlock(tier string) int {
	if tier == "thorough" {
		return tripleAll() * triplePatterns * 2
	}
	return tripleAll()
}

func nCases(tier string) int {
	if tier == "thorough" {
		return hoBlock() + dottedBlock() + pairBlock() + tripleBlock(tier) + thoroughRandom
	}
	return hoBlock() + dottedBlock() + pairBlock() + tripleBlock(tier) + quickRandom
}

// The improper-list block (every seed): a dotted list is made in one of
// dottedMakers ways out of (or next to) la while lb holds a tail of la taken
// BEFORE the cdr is replaced - by the language rules lb stops being a tail of
// the dotted list and nothing done to the dotted list afterwards may reach
// it. Then every operation is applied in four aliasing patterns (the dotted
// list processed in place; as first argument with the result elsewhere; as
// LAST argument; the former tail processed with the dotted list as second
// argument), followed by one of three follow-ups (none; the result extended
// by nconc; a car of the result replaced), over the five pools.
var dottedOps []string

const (
	dottedMakers   = 13
	dottedPatterns = 4
	dottedFollow   = 3
)

func dottedBlock() int {
	return dottedMakers * len(dottedOps) * dottedPatterns * dottedFollow * poolKinds
}

func dottedCase(i int) Case {
	pool := i % poolKinds
	i /= poolKinds
	follow := i % dottedFollow
	i /= dottedFollow
	pat := i % dottedPatterns
	i /= dottedPatterns
	q := dottedOps[i%len(dottedOps)]
	maker := i / len(dottedOps)
	// la: five elements; lb: (nthcdr 3 la), the tail alias; lc: a list of three; ld: nil
	pre := basePre(pool)
	for k := range pre {
		if pre[k].Op == "cdr" && pre[k].T == 1 {
			pre[k] = Op{Op: "nthcdr", T: 1, A: 0, K: 3}
		}
	}
	d := 3 // the variable that holds the dotted list
	var ops []Op
	switch maker {
	case 0: // the head cons of la; la itself keeps the old slice
		ops = []Op{{Op: "rplacd-atom", T: 3, A: 0}}
	case 1: // the same, bound to la
		ops = []Op{{Op: "rplacd-atom", T: 0, A: 0}}
		d = 0
	case 2: // an inner cons reached by cdr
		ops = []Op{{Op: "rplacd-in", T: 3, A: 0, J: 1}}
	case 3: // an inner cons reached by nthcdr: (rplacd (nthcdr 2 la) atom), directly in front of lb
		ops = []Op{{Op: "rplacd-in", T: 3, A: 0, K: 1, J: 0}}
	case 4: // an inner cons reached by last: (rplacd (last la 4) atom)
		ops = []Op{{Op: "rplacd-in", T: 3, A: 0, K: 0, J: 2}}
	case 5: // a longer dotted list: ld = (cdr la), then (rplacd (last ld 2) atom) drops its last element: (2 3 4 . atom)
		ops = []Op{{Op: "cdr", T: 3, A: 0}, {Op: "rplacd-in", T: 2, A: 3, K: 1, J: 2}, {Op: "list", T: 2, K: 3}}
	case 6: // a new cons
		ops = []Op{{Op: "cons-atom", T: 3}}
	case 7:
		ops = []Op{{Op: "list*-atom", T: 3}}
	case 8: // the last cdr of lc replaced by nconc
		ops = []Op{{Op: "nconc-atom", T: 3, A: 2}, {Op: "list", T: 2, K: 3}}
	case 9: // a dotted copy of la
		ops = []Op{{Op: "append-atom", T: 3, A: 0}}
	case 10: // the cdr replaced by nil: a proper one-element list in front of its former tail
		ops = []Op{{Op: "rplacd", T: 3, A: 0, B: 3}}
	case 11: // a bare atom: the cdr of a dotted pair
		ops = []Op{{Op: "cons-atom", T: 3}, {Op: "cdr", T: 3, A: 3}}
	default: // a bare atom next to an empty list
		ops = []Op{{Op: "cons-atom", T: 3}, {Op: "cdr", T: 3, A: 3}, {Op: "list", T: 2, K: 0}}
	}
	x, w := 2, 1 // an independent list; the former tail
	tq := d
	switch pat {
	case 0:
		ops = append(ops, mk(q, d, d, x, x, 1+pool))
	case 1:
		ops = append(ops, mk(q, x, d, x, w, 2+pool))
		tq = x
	case 2:
		ops = append(ops, mk(q, x, x, d, d, 1+pool))
		tq = x
	default:
		ops = append(ops, mk(q, d, w, d, x, 2+pool))
	}
	if kindOf[q].place {
		tq = ops[len(ops)-1].T
	}
	other := x
	if tq == x {
		other = w
	}
	switch follow {
	case 1:
		ops = append(ops, mk("nconc", tq, tq, other, other, 1))
	case 2:
		ops = append(ops, mk("setf-car", tq, tq, 0, 0, 1))
	}
	return Case{Pre: pre, Ops: ops, Route: routes[(i+pat+follow)%3]}
}

// basePre builds the pool of the exhaustive blocks. la has five elements:
// pool 0: one call of list (exact capacity); 1: grown one element at a time
// by add (spare capacity); 2: list with two sub-list elements; 3: result of
// remove on a six element list (built by Go append: spare capacity); 4:
// result of append of a three and a two element list (spare capacity).
// lb = (cdr la) (a tail alias), lc = a second three-element list, ld = nil.
func basePre(pool int) []Op {
	var pre []Op
	switch pool {
	case 0:
		pre = append(pre, Op{Op: "list", T: 0, K: 5})
	case 1:
		pre = append(pre, Op{Op: "list", T: 0, K: 0})
		for i := 0; i < 5; i++ {
			pre = append(pre, Op{Op: "add", T: 0, A: 0})
		}
	case 2:
		pre = append(pre, Op{Op: "list", T: 0, K: 5, J: 1})
	case 3:
		pre = append(pre, Op{Op: "list", T: 0, K: 6}, Op{Op: "remove", T: 0, A: 0, K: 0})
	default:
		pre = append(pre, Op{Op: "list", T: 0, K: 3}, Op{Op: "list", T: 2, K: 2}, Op{Op: "append", T: 0, A: 0, B: 2})
	}
	pre = append(pre, Op{Op: "cdr", T: 1, A: 0})
	pre = append(pre, Op{Op: "list", T: 2, K: 3})
	pre = append(pre, Op{Op: "list", T: 3, K: 0})
	return pre
}

func mk(name string, t, a, b, c, k int) Op {
	kd := kindOf[name]
	if kd.place {
		// the place is the argument
		t = a
	}
	return Op{Op: name, T: t, A: a, B: b, C: c, K: k, J: 1}
}

var routes = []string{"", "let", "lambda"}

func gen(r *rand.Rand, i int, tier string) Case {
	if i < hoBlock() {
		return hoCase(i)
	}
	i -= hoBlock()
	if i < dottedBlock() {
		return dottedCase(i)
	}
	i -= dottedBlock()
	n := len(pairOps)
	if i < pairBlock() {
		combo := pairCombos[i%len(pairCombos)]
		i /= len(pairCombos)
		pat := i % pairPatterns
		i /= pairPatterns
		p, q := pairOps[i/n], pairOps[i%n]
		k := combo[1]
		var ops []Op
		switch pat {
		case 0: // the result of P is processed in place; la, lb, lc watch
			ops = []Op{mk(p, 3, 0, 2, 1, k), mk(q, 3, 3, 2, 0, k)}
		case 1: // the source of P is processed afterwards; ld, lb watch
			ops = []Op{mk(p, 3, 0, 2, 1, k), mk(q, 0, 0, 2, 3, k)}
		case 2: // result and source combined into a third list
			ops = []Op{mk(p, 3, 0, 2, 2, k), mk(q, 2, 3, 0, 2, k)}
		case 3: // same variable as every argument, then the tail alias is processed
			ops = []Op{mk(p, 0, 0, 0, 0, k), mk(q, 3, 1, 2, 0, k)}
		case 4: // the result replaces the source; the tail alias watches and is processed
			ops = []Op{mk(p, 0, 0, 2, 2, k), mk(q, 3, 1, 0, 2, k)}
		default: // the tail alias is the argument; then the whole list is processed with the result
			ops = []Op{mk(p, 3, 1, 2, 2, k), mk(q, 2, 0, 3, 3, k)}
		}
		return Case{Pre: basePre(combo[0]), Ops: ops, Route: routes[(i+pat)%3]}
	}
	i -= pairBlock()
	if i < tripleBlock(tier) {
		var pat, pool int
		if tier == "thorough" {
			pool = i % 2
			i /= 2
			pat = i % triplePatterns
			i /= triplePatterns
		}
		pi, qi, si := i/(n*n), (i/n)%n, i%n
		if tier == "thorough" {
			// pools 0/1 alternate with the index; every third triple uses 2, 3 or 4 instead
			if (pi+qi+si)%3 == 0 {
				pool = 2 + (pi+2*qi+si+pool)%3
			}
		} else {
			if (pi+2*qi+3*si)%3 != 0 {
				// not in the quick slice: a random history instead
				return randomCase(r)
			}
			pat = (pi + qi + si) % triplePatterns
			pool = (pi + 2*qi + si) % poolKinds
		}
		p, q, s := pairOps[pi], pairOps[qi], pairOps[si]
		var ops []Op
		if pat == 0 {
			ops = []Op{mk(p, 3, 0, 2, 1, 1), mk(q, 2, 3, 2, 0, 2), mk(s, 3, 3, 2, 0, 1)}
		} else {
			ops = []Op{mk(p, 3, 0, 2, 1, 1), mk(q, 0, 0, 3, 1, 1), mk(s, 2, 1, 3, 0, 2)}
		}
		return Case{Pre: basePre(pool), Ops: ops, Route: routes[(i+pat)%3]}
	}
	return randomCase(r)
}

func pickKind(r *rand.Rand) *kind {
	w := r.IntN(totalW)
	for i := range kinds {
		if w < kinds[i].weight {
			return &kinds[i]
		}
		w -= kinds[i].weight
	}
	return &kinds[0]
}

func randomCase(r *rand.Rand) Case {
	var c Case
	// ptype: what the pool variable holds at first (n: numbers, r: sub-lists, x: (number sub-list), m: mixed)
	var ptype [nv]byte
	for v := 0; v < nv; v++ {
		ptype[v] = 'n'
		if 0 < v && r.IntN(100) < 40 {
			// an alias of an earlier variable
			src := r.IntN(v)
			ptype[v] = ptype[src]
			switch r.IntN(6) {
			case 0, 1:
				c.Pre = append(c.Pre, Op{Op: "alias", T: v, A: src})
			case 2:
				c.Pre = append(c.Pre, Op{Op: "cdr", T: v, A: src})
			case 3:
				c.Pre = append(c.Pre, Op{Op: "nthcdr", T: v, A: src, K: r.IntN(8)})
			case 4:
				c.Pre = append(c.Pre, Op{Op: "last", T: v, A: src, K: r.IntN(8)})
			default:
				c.Pre = append(c.Pre, Op{Op: "member", T: v, A: src, K: r.IntN(8)})
			}
			continue
		}
		if k := r.IntN(100); k < 26 {
			// material for the higher-order route
			if k < 21 {
				c.Pre = append(c.Pre, Op{Op: "rows", T: v, K: 1 + r.IntN(5), J: r.IntN(6)})
				ptype[v] = 'r'
			} else {
				c.Pre = append(c.Pre, Op{Op: "xrow", T: v, J: r.IntN(4)})
				ptype[v] = 'x'
			}
			continue
		}
		n := []int{0, 1, 2, 3, 3, 4, 4, 5, 5, 5}[r.IntN(10)]
		nested := 0
		if r.IntN(4) == 0 {
			nested = 1
			ptype[v] = 'm'
		}
		switch k := r.IntN(100); {
		case k < 25:
			c.Pre = append(c.Pre, Op{Op: "list", T: v, K: n, J: nested})
		case k < 35:
			c.Pre = append(c.Pre, Op{Op: "quote", T: v, K: n, J: nested})
		case k < 60: // grown by add: spare capacity behind the end
			c.Pre = append(c.Pre, Op{Op: "list", T: v, K: 0})
			extra := r.IntN(3)
			for j := 0; j < n+extra; j++ {
				c.Pre = append(c.Pre, Op{Op: "add", T: v, A: v, J: 4 * r.IntN(2) * r.IntN(2)})
			}
			for j := 0; j < extra; j++ {
				// shortened again
				switch r.IntN(3) {
				case 0:
					c.Pre = append(c.Pre, Op{Op: "pop", T: v, A: v})
				case 1:
					c.Pre = append(c.Pre, Op{Op: "butlast1", T: v, A: v})
				default:
					c.Pre = append(c.Pre, Op{Op: "cdr", T: v, A: v})
				}
			}
		case k < 70: // grown by push
			c.Pre = append(c.Pre, Op{Op: "list", T: v, K: 0})
			for j := 0; j < n; j++ {
				c.Pre = append(c.Pre, Op{Op: "push", T: v, A: v})
			}
		default:
			// results of functions that build their list with Go's append (or
			// make): capacity beyond the length without any add
			m := n + 1
			if 6 < m {
				m = 6
			}
			c.Pre = append(c.Pre, Op{Op: "list", T: v, K: m, J: nested})
			switch r.IntN(7) {
			case 0:
				c.Pre = append(c.Pre, Op{Op: "remove", T: v, A: v, K: r.IntN(8)})
			case 1:
				c.Pre = append(c.Pre, Op{Op: "delete", T: v, A: v, K: r.IntN(8)})
			case 2:
				c.Pre = append(c.Pre, Op{Op: "remove-if", T: v, A: v, K: r.IntN(2)})
			case 3:
				c.Pre = append(c.Pre, Op{Op: "mapcar", T: v, A: v, K: r.IntN(2)})
			case 4:
				c.Pre = append(c.Pre, Op{Op: "append", T: v, A: v, B: r.IntN(v + 1)})
			case 5:
				c.Pre = append(c.Pre, Op{Op: "remove-dup", T: v, A: v})
			default:
				c.Pre = append(c.Pre, Op{Op: "revappend", T: v, A: v, B: r.IntN(v + 1)})
			}
		}
	}
	nops := []int{1, 2, 3, 3, 4, 4, 5, 5, 6, 6, 6, 6}[r.IntN(12)]
	for j := 0; j < nops; j++ {
		kd := pickKind(r)
		op := Op{Op: kd.name, T: r.IntN(nv), A: r.IntN(nv), K: r.IntN(8), J: r.IntN(8)}
		if 2 <= kd.nargs {
			op.B = r.IntN(nv)
		}
		if 3 <= kd.nargs {
			op.C = r.IntN(nv)
		}
		if kd.place {
			op.A = op.T
		}
		if kd.name == "list" || kd.name == "quote" || kd.name == "rows" {
			op.K = r.IntN(7)
		}
		if kd.name == "ho" {
			pair := hoPairs[r.IntN(len(hoPairs))]
			op.F, op.H = pair[0], pair[1]
			// prefer variables whose pool value fits the shape of the function
			pick := func(t byte, cur int) int {
				var fit []int
				for v := 0; v < nv; v++ {
					if ptype[v] == t {
						fit = append(fit, v)
					}
				}
				if len(fit) == 0 || r.IntN(5) == 0 {
					return cur
				}
				return fit[r.IntN(len(fit))]
			}
			switch f := hoFnByName(op.F); {
			case op.H == "apply" && (f.name == "cons" || f.name == "list*"):
				op.A = pick('x', op.A)
			case op.H == "reduce" && f.name == "cons", op.H == "apply" && f.name == "list":
			case f.shape == "xr" && op.H != "reduce":
				op.A, op.B = pick('n', op.A), pick('r', op.B)
			case f.shape == "xx":
				op.A, op.B = pick('n', op.A), pick('n', op.B)
			case f.shape == "rr":
				op.A, op.B = pick('r', op.A), pick('r', op.B)
			default:
				op.A = pick('r', op.A)
			}
		}
		c.Ops = append(c.Ops, op)
	}
	if r.IntN(5) == 0 {
		// a share of the histories starts by making a dotted list out of a pool list
		mk := []string{"rplacd-atom", "rplacd-atom", "rplacd-in", "rplacd-in", "nconc-atom", "cons-atom", "list*-atom", "append-atom"}[r.IntN(8)]
		c.Ops[r.IntN((len(c.Ops)+1)/2)] = Op{Op: mk, T: r.IntN(nv), A: r.IntN(nv), K: r.IntN(8), J: r.IntN(8)}
	}
	if r.IntN(4) == 0 {
		c.Mode = "compiled"
	}
	c.Route = []string{"", "", "let", "lambda"}[r.IntN(4)]
	return c
}

// ---------------------------------------------------------------- values

// el is one element: a fixnum, or a one-level sub-list of fixnums (sub is
// non-nil; an empty sub is the element nil). id names the sub-list OBJECT in
// the reference model: it travels with the element through every reference
// function, so two occurrences with the same id are the same object by the
// language rules, two different non-zero ids are different objects even when
// their contents are equal, and 0 means the identity is not known.
//
// dot marks the terminating atom of an improper (dotted) list: a val is the
// sequence of the cars of its cons cells, followed - when the cdr of the last
// cons is not nil - by one dot element holding that atom (a fixnum). A val
// that is only a dot element is the atom itself (no cons at all: what the
// cdr of (1 . 2) is).
type el struct {
	v   int
	sub []int
	id  int
	dot bool
}

type val []el

// improper: the list ends in an atom instead of nil (or is a bare atom).
func (v val) improper() bool { return 0 < len(v) && v[len(v)-1].dot }

// conses: the number of cons cells of the top-level spine.
func (v val) conses() int {
	if v.improper() {
		return len(v) - 1
	}
	return len(v)
}

// spine: the cars of the cons cells, without the terminating atom.
func (v val) spine() val { return v[:v.conses()] }

func dotted(n int) val { return val{{v: n, dot: true}} }

func (e el) same(o el) bool {
	if (e.sub == nil) != (o.sub == nil) || e.dot != o.dot {
		return false
	}
	if e.sub == nil {
		return e.v == o.v
	}
	if len(e.sub) != len(o.sub) {
		return false
	}
	for i := range e.sub {
		if e.sub[i] != o.sub[i] {
			return false
		}
	}
	return true
}

// key: the number a sub-list or fixnum sorts by in sort-key.
func (e el) key() int {
	if e.sub != nil {
		return e.sub[0] // callers make sure there is no empty sub-list
	}
	return e.v
}

// isCons: a non-empty sub-list.
func (e el) isCons() bool { return 0 < len(e.sub) }

func (e el) text() string {
	if e.sub == nil {
		return strconv.Itoa(e.v)
	}
	if len(e.sub) == 0 {
		return "nil"
	}
	var b strings.Builder
	b.WriteByte('(')
	for i, x := range e.sub {
		if 0 < i {
			b.WriteByte(' ')
		}
		b.WriteString(strconv.Itoa(x))
	}
	b.WriteByte(')')
	return b.String()
}

// form: an expression that evaluates to a new object of this value.
func (e el) form() string {
	if e.sub == nil {
		return strconv.Itoa(e.v)
	}
	if len(e.sub) == 0 {
		return "nil"
	}
	return "(list " + strings.Trim(e.text(), "()") + ")"
}

func render(v val) string {
	if len(v) == 0 {
		return "nil"
	}
	if v.conses() == 0 {
		return v[0].text() // a bare atom
	}
	var b strings.Builder
	b.WriteByte('(')
	for i, e := range v {
		if 0 < i {
			b.WriteByte(' ')
		}
		if e.dot {
			b.WriteString(". ")
		}
		b.WriteString(e.text())
	}
	b.WriteByte(')')
	return b.String()
}

func (v val) allInts() bool {
	for _, e := range v {
		if e.sub != nil {
			return false
		}
	}
	return true
}

func (v val) hasNil() bool {
	for _, e := range v {
		if e.sub != nil && len(e.sub) == 0 {
			return true
		}
	}
	return false
}

// allRows: every element is a sub-list (possibly nil).
func (v val) allRows() bool {
	for _, e := range v {
		if e.sub == nil {
			return false
		}
	}
	return true
}

// subs: positions of the non-empty sub-lists.
func (v val) subs() []int {
	var at []int
	for i, e := range v {
		if e.isCons() {
			at = append(at, i)
		}
	}
	return at
}

func cat(xs ...val) val {
	out := val{}
	for _, x := range xs {
		out = append(out, x...)
	}
	return out
}

func rev(a val) val {
	out := make(val, 0, len(a))
	for i := len(a) - 1; 0 <= i; i-- {
		out = append(out, a[i])
	}
	return out
}

// isPrefix: the cons cells of old are still there, in order, with their
// cars (an extension replaces the terminating nil or atom, nothing else).
func isPrefix(old, nw val) bool {
	old = old.spine()
	if len(nw) < len(old) {
		return false
	}
	for i, e := range old {
		if !nw[i].same(e) {
			return false
		}
	}
	return true
}

// ---------------------------------------------------------------- monitor

type vstate struct {
	shown string // harness rendering of the current value
	el    val    // elements when the value is a proper list of fixnums and one-level sub-lists
	ok    bool   // el is valid
	// cells: the cons cells of the value in the cons-cell reference model (ids
	// handed out by the model). exact: cells is the top-level spine in order,
	// one id per cons, as the language rules define it; otherwise cells is a
	// set that over-approximates the cells the value may reach (after an
	// operation whose effect on the cells is implementation-defined, or when
	// slip did not show the effect the language defines, which is allowed for
	// lists sharing cells with a destructively processed one).
	cells []int
	exact bool
	via   string // operation that allocated the cells of the value (by the language rules)
	birth int    // step of that allocation
}

// chain: the cells of a value (see vstate.cells).
type chain struct {
	cells []int
	exact bool
}

func (s vstate) chain() chain {
	return chain{cells: s.cells, exact: s.exact && s.ok && len(s.cells) == s.el.conses()}
}

func join(parts ...chain) chain {
	out := chain{exact: true}
	for _, p := range parts {
		out.exact = out.exact && p.exact
		out.cells = unionCells(out.cells, p.cells)
	}
	return out
}

func indexOf(cells []int, c int) int {
	for i, x := range cells {
		if x == c {
			return i
		}
	}
	return -1
}

// wildCell stands for "any cell": the value is the unjudged result of an
// operation the language does not define (or was processed by one), so
// which cells it reaches cannot be told from the language rules.
const wildCell = 0

// overlap: the two sets have a cell in common.
func overlap(a, b []int) bool {
	for _, x := range a {
		if x != wildCell && 0 <= indexOf(b, x) {
			return true
		}
	}
	return false
}

// intersects: the two values may share a cons cell.
func intersects(a, b []int) bool {
	if len(a) == 0 || len(b) == 0 {
		return false
	}
	return overlap(a, b) || 0 <= indexOf(a, wildCell) || 0 <= indexOf(b, wildCell)
}

// unionCells: a followed by the cells of b that are not in a (a new slice).
func unionCells(a, b []int) []int {
	out := append(make([]int, 0, len(a)+len(b)), a...)
	for _, x := range b {
		if indexOf(out, x) < 0 {
			out = append(out, x)
		}
	}
	return out
}

type world struct {
	x     *fw.Ctx
	scope *slip.Scope
	mode  string
	v     [nv]vstate
	cellN int // last cons cell id handed out by the reference model
	step  int
	next  int // next unused fixnum
	ids   int // last sub-list object id handed out
	// ent: sub-list objects that may share cons cells with another object by
	// the language rules (a row made by cons shares the cells of its second
	// argument, a row made by cdr is part of its argument): positions from
	// ent[id] on are not the object's own.
	ent  map[int]int
	prog []string
	dead bool // an evaluation failed; the state is no longer meaningful
	// noRoute: an operation the language leaves undefined for an improper list
	// signalled an error (accepted): the history cannot run as one form
	noRoute bool
	// hidden: operations whose result was seen to occupy the same backing
	// array as a variable of another sharing class. Used only to NAME the
	// culprit in a signature; the verdict itself is the observed change.
	hidden []hiddenAlias
	trace  [][nv]string // stepwise observations after every executed operation
	opAt   []string     // operation of each executed step
}

type hiddenAlias struct {
	c1, c2 []int
	op     string
	// legit: the elements of the two lists occupy different parts of the one
	// backing array; only the spare capacity behind the one reaches into the
	// other (what rplacd leaves when it cuts a list in two: the former tail
	// stays where it was). That is how slip stores lists, not a missing
	// allocation: an operation that then writes from the one into the other
	// is itself to blame
	legit bool
}

// span gives the address range of the backing array reachable from a list
// value (lo..hi) and the part of it the elements of the value occupy (lo..used).
func (w *world) span(i int) (lo, used, hi uintptr, ok bool) {
	var obj slip.Object
	if err := sl.Catch(func() { obj = w.scope.Get(slip.Symbol(names[i])) }); err != nil {
		return 0, 0, 0, false
	}
	list, isList := obj.(slip.List)
	if !isList || cap(list) == 0 {
		return 0, 0, 0, false
	}
	lo = uintptr(unsafe.Pointer(unsafe.SliceData(list)))
	size := unsafe.Sizeof(slip.Object(nil))
	n := len(list)
	if 0 < n {
		if _, dotted := list[n-1].(slip.Tail); dotted {
			// the slot that holds the atom of a dotted list is the cdr of the
			// last cons, not an element
			n--
		}
	}
	return lo, lo + uintptr(n)*size, lo + uintptr(cap(list))*size, true
}

// sigName maps an operation variant to the function it exercises.
func sigName(op string) string {
	switch op {
	case "butlast1":
		return "butlast"
	case "last1":
		return "last"
	case "subseq-noend":
		return "subseq"
	case "add2":
		return "add"
	case "append1", "append3":
		return "append"
	case "nconc3":
		return "nconc"
	case "list*1":
		return "list*"
	case "apply-values", "apply-vector":
		return "apply"
	case "remove-count", "remove-fe":
		return "remove"
	case "remove-if-fe":
		return "remove-if"
	case "delete-if-fe":
		return "delete-if"
	case "mapcar2":
		return "mapcar"
	case "sort<", "sort>", "sort-default", "sort-key":
		return "sort"
	case "remove-dup":
		return "remove-duplicates"
	case "rplacd-atom", "rplacd-in":
		return "rplacd"
	case "cons-atom":
		return "cons"
	case "list*-atom":
		return "list*"
	case "append-atom":
		return "append"
	case "nconc-atom":
		return "nconc"
	case "delete-dup":
		return "delete-duplicates"
	}
	return op
}

func (w *world) blame(cd, ci []int) (op string, legit, found bool) {
	for _, h := range w.hidden {
		if (overlap(h.c1, cd) && overlap(h.c2, ci)) || (overlap(h.c1, ci) && overlap(h.c2, cd)) {
			if !h.legit {
				return h.op, false, true
			}
			op, legit, found = h.op, true, true
		}
	}
	return op, legit, found
}

// newCells hands out n unused cons cell ids.
func (w *world) newCells(n int) chain {
	out := chain{exact: true}
	for ; 0 < n; n-- {
		w.cellN++
		out.cells = append(out.cells, w.cellN)
	}
	return out
}

// sharing: the two variables may share a cons cell by the language rules.
func (w *world) sharing(i, j int) bool { return intersects(w.v[i].cells, w.v[j].cells) }

func (w *world) observe(i int) (shown string, v val, ok bool) {
	var obj slip.Object
	if err := sl.Catch(func() { obj = w.scope.Get(slip.Symbol(names[i])) }); err != nil {
		return "#<unreadable: " + err.String() + ">", nil, false
	}
	shown = sl.Show(obj)
	switch to := obj.(type) {
	case nil:
		return shown, nil, true
	case slip.Fixnum:
		// a bare atom (the cdr of a dotted pair)
		return shown, dotted(int(to)), true
	case slip.List:
		v = make(val, len(to))
		for k, e := range to {
			switch te := e.(type) {
			case slip.Tail:
				// slip's representation of a dotted list: the last slot holds the
				// terminating atom; anywhere else it is not a list at all
				f, isFix := te.Value.(slip.Fixnum)
				if !isFix || k == 0 || k != len(to)-1 {
					return shown, nil, false
				}
				v[k] = el{v: int(f), dot: true}
			case slip.Fixnum:
				v[k] = el{v: int(te)}
			case nil:
				v[k] = el{sub: []int{}}
			case slip.List:
				sub := make([]int, len(te))
				for j, se := range te {
					f, isFix := se.(slip.Fixnum)
					if !isFix {
						return shown, nil, false
					}
					sub[j] = int(f)
				}
				v[k] = el{sub: sub}
			default:
				return shown, nil, false
			}
		}
		return shown, v, true
	}
	return shown, nil, false
}

// recoverIDs gives the sub-lists of a value that had to be re-parsed (a
// variable changed in a way the reference did not predict, which is allowed
// for lists sharing cells with a destructively processed one) the id of the
// object with the same contents in the previous state, when that is unique.
func (w *world) recoverIDs(v val, before *[nv]vstate, made val) {
	for k := range v {
		if !v[k].isCons() {
			continue
		}
		id := 0
		for i := 0; i <= nv && id != -1; i++ {
			known := made // the objects the reference says this step created or moved
			if i < nv {
				known = before[i].el
			}
			for _, o := range known {
				if o.isCons() && o.same(v[k]) {
					switch {
					case o.id == 0 || (id != 0 && id != o.id):
						id = -1
					default:
						id = o.id
					}
				}
				if id == -1 {
					break
				}
			}
		}
		if 0 < id {
			v[k].id = id
		}
	}
}

// planned is what plan() decides for one step.
type planned struct {
	src  string
	want val    // reference value of the target variable
	skip string // non-empty: the step is not run
	// dargs: the arguments that are destructively processed (indexes of variables)
	dargs []int
	// from: the variables whose sharing class the result inherits (merged)
	from []int
	// element write: every variable is expected to hold all[i] afterwards
	all *[nv]val
	// after: model bookkeeping to run once the step has been evaluated
	after func()
	// label: name of the operation in signatures and counters (ho: "mapcar fn=cons")
	label string
	// undef: a list argument the operation walks is improper (dotted) and the
	// language does not define the operation for it ("should be prepared to
	// signal an error"): an error is accepted, the result is not judged; the
	// frame rule still applies
	undef bool
	// cellAt: rplacd family - index of the cons of A whose cdr is replaced
	cellAt int
	// atom: the atom literal that becomes a cdr (rplacd-atom, rplacd-in, nconc-atom, ...)
	atom *int
}

// walked: the list arguments the operation walks along (as opposed to
// arguments that only become the tail of the result: the second argument of
// cons, the last one of list*, append, revappend, nconc, nreconc, the new cdr
// of rplacd - any object is allowed there, an atom too).
func walked(op Op) []int {
	switch op.Op {
	case "list", "quote", "rows", "xrow", "alias", "cons", "list*", "list*1", "append1",
		"cons-atom", "list*-atom",
		"setf-caar", "setf-sub-nth", "rplaca-sub", // (nth k list) with k inside the conses
		"nconc", "nconc3": // dotted lists are allowed; planned there
		return nil
	case "append3", "mapcar2", "ho":
		return []int{op.A, op.B}
	}
	return []int{op.A}
}

// plan resolves an operation against the observed contents and gives the
// program text and the reference result for the target variable.
func (w *world) plan(op Op, kd *kind) (p planned) {
	if !w.v[op.A].ok || (2 <= kd.nargs && !w.v[op.B].ok) || (3 <= kd.nargs && !w.v[op.C].ok) {
		return planned{skip: "argument is not a list of fixnums and sub-lists"}
	}
	imp := false
	for _, i := range walked(op) {
		imp = imp || w.v[i].el.improper()
	}
	if op.Op == "push" && 0 < len(w.v[op.A].el) && w.v[op.A].el.conses() == 0 {
		imp = true // the place holds a bare atom: slip documents push for a place that references a list
	}
	if !imp {
		return w.planProper(op, kd)
	}
	if op.Op == "ho" {
		return planned{skip: "ho: improper list argument"}
	}
	if p, defined := w.planImproper(op); defined {
		return p
	}
	// not defined by the language for an improper list: the program text of
	// the proper-list plan is run, the result is not judged
	p = w.planProper(op, kd)
	if p.skip == "" {
		p.undef, p.all, p.after = true, nil, nil
		w.x.Cover("improper:undefined-by-the-language op=" + sigName(op.Op))
	}
	return p
}

// planImproper: the operations the language defines for a dotted list (the
// argument that is walked is improper). defined = false: not defined.
func (w *world) planImproper(op Op) (p planned, defined bool) {
	T, A, B := names[op.T], names[op.A], names[op.B]
	a, b := w.v[op.A].el, w.v[op.B].el
	m := a.conses()
	if m == 0 {
		return p, false // a bare atom is not a list
	}
	fresh := func() int { w.next++; return w.next }
	newEl := func() el {
		if op.J%5 == 4 {
			w.ids++
			return el{sub: []int{fresh(), fresh()}, id: w.ids}
		}
		return el{v: fresh()}
	}
	setq := func(form string, want val) (planned, bool) {
		w.x.Cover("improper:defined op=" + sigName(op.Op))
		return planned{src: "(setq " + T + " " + form + ")", want: want}, true
	}
	place := func(src string, want val) (planned, bool) {
		w.x.Cover("improper:defined op=" + sigName(op.Op))
		return planned{src: src, want: want, dargs: []int{op.A}}, true
	}
	switch op.Op {
	case "cdr", "rest":
		return setq("("+op.Op+" "+A+")", a[1:])
	case "nthcdr":
		k := op.K % (m + 1)
		return setq(fmt.Sprintf("(nthcdr %d %s)", k, A), a[k:])
	case "last":
		k := op.K % (m + 2)
		if m < k {
			return setq(fmt.Sprintf("(last %s %d)", A, k), a)
		}
		return setq(fmt.Sprintf("(last %s %d)", A, k), a[m-k:])
	case "last1":
		return setq("(last "+A+")", a[m-1:])
	case "butlast", "nbutlast":
		k := op.K % (m + 2)
		var want val
		if k < m {
			want = a[:m-k]
		}
		p, _ = setq(fmt.Sprintf("(%s %s %d)", op.Op, A, k), want)
		return p, true
	case "butlast1":
		return setq("(butlast "+A+")", a[:m-1])
	case "copy-list":
		return setq("(copy-list "+A+")", a)
	case "pop":
		p, _ = place("(pop "+T+")", a[1:])
		p.dargs = nil
		return p, true
	case "setf-car", "setf-first":
		e := newEl()
		return place(fmt.Sprintf("(setf (%s %s) %s)", strings.TrimPrefix(op.Op, "setf-"), T, e.form()), cat(val{e}, a[1:]))
	case "setf-nth":
		k := op.K % m
		e := newEl()
		want := cat(a)
		want[k] = e
		return place(fmt.Sprintf("(setf (nth %d %s) %s)", k, T, e.form()), want)
	case "rplaca":
		e := newEl()
		p, _ = setq(fmt.Sprintf("(rplaca %s %s)", A, e.form()), cat(val{e}, a[1:]))
		p.dargs = []int{op.A}
		return p, true
	case "rplacd":
		if w.sharing(op.A, op.B) {
			return planned{skip: "would be circular"}, true
		}
		p, _ = setq(fmt.Sprintf("(rplacd %s %s)", A, B), cat(a[:1], b))
		p.dargs = []int{op.A}
		p.from = []int{op.A, op.B}
		return p, true
	case "rplacd-atom", "rplacd-in", "nconc-atom":
		return w.planAtom(op), true
	}
	return p, false
}

// planAtom: the operations that make an atom the cdr of a cons of A. They
// are defined for proper and for dotted lists alike.
func (w *world) planAtom(op Op) (p planned) {
	T, A := names[op.T], names[op.A]
	a := w.v[op.A].el
	m := a.conses()
	w.next++
	n := w.next
	p.atom = &n
	switch op.Op {
	case "cons-atom":
		w.next++
		p.src = fmt.Sprintf("(setq %s (cons %d %d))", T, w.next, n)
		p.want = val{{v: w.next}, {v: n, dot: true}}
	case "list*-atom":
		w.next += 2
		p.src = fmt.Sprintf("(setq %s (list* %d %d %d))", T, w.next-1, w.next, n)
		p.want = val{{v: w.next - 1}, {v: w.next}, {v: n, dot: true}}
	case "append-atom":
		p.src = fmt.Sprintf("(setq %s (append %s %d))", T, A, n)
		p.want = cat(a, dotted(n))
	case "nconc-atom":
		if 0 < len(a) && m == 0 {
			return planned{skip: "a bare atom is not a list"}
		}
		p.src = fmt.Sprintf("(setq %s (nconc %s %d))", T, A, n)
		p.want = cat(a.spine(), dotted(n))
		if 0 < m {
			p.dargs = []int{op.A}
		}
		p.from = []int{op.A}
	case "rplacd-atom":
		if m == 0 {
			return planned{skip: "empty list"}
		}
		p.src = fmt.Sprintf("(setq %s (rplacd %s %d))", T, A, n)
		p.want = cat(a[:1], dotted(n))
		p.dargs = []int{op.A}
	case "rplacd-in":
		// an inner cons, reached the way programs reach it
		if m < 2 {
			return planned{skip: "no inner cons"}
		}
		k := 1 + op.K%(m-1)
		var at string
		switch op.J % 3 {
		case 0:
			at = fmt.Sprintf("(nthcdr %d %s)", k, A)
		case 1:
			k = 1
			at = "(cdr " + A + ")"
		default:
			at = fmt.Sprintf("(last %s %d)", A, m-k)
		}
		p.src = fmt.Sprintf("(setq %s (rplacd %s %d))", T, at, n)
		p.want = cat(a[k:k+1], dotted(n))
		p.dargs = []int{op.A}
		p.cellAt = k
	default:
		panic("unknown operation " + op.Op)
	}
	if a.improper() {
		w.x.Cover("improper:defined op=" + sigName(op.Op))
	}
	return p
}

// planProper: the plan for proper lists (arguments that only become the tail
// of the result may be improper).
func (w *world) planProper(op Op, kd *kind) (p planned) {
	T := names[op.T]
	A := names[op.A]
	B := names[op.B]
	C := names[op.C]
	a := w.v[op.A].el
	b := w.v[op.B].el
	c := w.v[op.C].el
	n := len(a)
	fresh := func() int { w.next++; return w.next }
	// newEl: the element an operation introduces; sometimes a new sub-list
	newID := func() int { w.ids++; return w.ids }
	newEl := func() el {
		if op.J%5 == 4 {
			return el{sub: []int{fresh(), fresh()}, id: newID()}
		}
		return el{v: fresh()}
	}
	setq := func(form string, want val) planned {
		return planned{src: "(setq " + T + " " + form + ")", want: want}
	}
	skip := func(why string) planned { return planned{skip: why} }
	if !w.v[op.A].ok || (2 <= kd.nargs && !w.v[op.B].ok) || (3 <= kd.nargs && !w.v[op.C].ok) {
		return skip("argument is not a list of fixnums and sub-lists")
	}
	item := func() int {
		if k := op.K % (n + 1); k < n && a[k].sub == nil {
			return a[k].v
		}
		return 7 // not an element: every number in a list is > 100
	}
	without := func(pred func(i int, e el) bool) val {
		out := val{}
		for i, e := range a {
			if !pred(i, e) {
				out = append(out, e)
			}
		}
		return out
	}
	laterDup := func(i int, e el) bool {
		for _, l := range a[i+1:] {
			if l.same(e) {
				return true
			}
		}
		return false
	}
	isItem := func(it int) func(int, el) bool {
		return func(_ int, e el) bool { return e.sub == nil && e.v == it }
	}
	switch op.Op {
	case "list", "quote":
		k := op.K % 7
		var want val
		var forms, texts []string
		for j := 0; j < k; j++ {
			e := el{v: fresh()}
			if op.J%4 == 1 && j%2 == 1 {
				e = el{sub: []int{fresh(), fresh()}[:2-j/2%2], id: newID()}
			}
			want = append(want, e)
			forms = append(forms, e.form())
			texts = append(texts, e.text())
		}
		if op.Op == "list" {
			return setq(strings.TrimSpace("(list "+strings.Join(forms, " "))+")", want)
		}
		return setq("'("+strings.Join(texts, " ")+")", want)
	case "rows":
		// every element a sub-list; the lengths follow one of six patterns
		lens := [][]int{{1, 1, 1, 1, 1, 1}, {1, 2, 3, 0, 1, 2}, {0, 1, 2, 3, 0, 1}, {2, 2, 2, 2, 2, 2}, {3, 1, 0, 2, 3, 1}, {2, 3, 1, 0, 2, 3}}[op.J%6]
		k := op.K % 7
		var want val
		var forms []string
		for j := 0; j < k; j++ {
			e := el{sub: []int{}}
			for m := 0; m < lens[j%6]; m++ {
				e.sub = append(e.sub, fresh())
			}
			if e.isCons() {
				e.id = newID()
			}
			want = append(want, e)
			forms = append(forms, e.form())
		}
		return setq(strings.TrimSpace("(list "+strings.Join(forms, " "))+")", want)
	case "xrow":
		e := el{sub: []int{}}
		for m := 0; m < op.J%4; m++ {
			e.sub = append(e.sub, fresh())
		}
		if e.isCons() {
			e.id = newID()
		}
		x := el{v: fresh()}
		return setq("(list "+x.form()+" "+e.form()+")", val{x, e})
	case "ho":
		return w.planHO(op, fresh, newID)
	case "alias":
		return setq(A, a)
	case "cons":
		e := newEl()
		return setq(fmt.Sprintf("(cons %s %s)", e.form(), A), cat(val{e}, a))
	case "list*":
		e1, e2 := el{v: fresh()}, newEl()
		return setq(fmt.Sprintf("(list* %s %s %s)", e1.form(), e2.form(), A), cat(val{e1, e2}, a))
	case "list*1":
		e := el{v: fresh()}
		return setq(fmt.Sprintf("(list* %s %s)", e.form(), A), cat(val{e}, a))
	case "append":
		return setq(fmt.Sprintf("(append %s %s)", A, B), cat(a, b))
	case "append1":
		return setq(fmt.Sprintf("(append %s)", A), a)
	case "append3":
		return setq(fmt.Sprintf("(append %s %s %s)", A, B, C), cat(a, b, c))
	case "revappend":
		return setq(fmt.Sprintf("(revappend %s %s)", A, B), cat(rev(a), b))
	case "cdr", "rest":
		if n == 0 {
			return setq("("+op.Op+" "+A+")", nil)
		}
		return setq("("+op.Op+" "+A+")", a[1:])
	case "nthcdr":
		k := op.K % (n + 2)
		if n < k {
			return setq(fmt.Sprintf("(nthcdr %d %s)", k, A), nil)
		}
		return setq(fmt.Sprintf("(nthcdr %d %s)", k, A), a[k:])
	case "last":
		k := op.K % (n + 2)
		if n < k {
			return setq(fmt.Sprintf("(last %s %d)", A, k), a)
		}
		return setq(fmt.Sprintf("(last %s %d)", A, k), a[n-k:])
	case "last1":
		if n == 0 {
			return setq("(last "+A+")", nil)
		}
		return setq("(last "+A+")", a[n-1:])
	case "butlast", "nbutlast":
		k := op.K % (n + 2)
		p = setq(fmt.Sprintf("(%s %s %d)", op.Op, A, k), nil)
		if k < n {
			p.want = a[:n-k]
		}
		return p
	case "butlast1":
		if n == 0 {
			return setq("(butlast "+A+")", nil)
		}
		return setq("(butlast "+A+")", a[:n-1])
	case "subseq":
		s := op.K % (n + 1)
		e := s + op.J%(n-s+1)
		return setq(fmt.Sprintf("(subseq %s %d %d)", A, s, e), a[s:e])
	case "subseq-noend":
		s := op.K % (n + 1)
		return setq(fmt.Sprintf("(subseq %s %d)", A, s), a[s:])
	case "copy-list", "copy-seq":
		return setq("("+op.Op+" "+A+")", a)
	case "apply-values":
		return setq("(multiple-value-list (apply #'values "+A+"))", a)
	case "apply-vector":
		return setq("(coerce (apply #'vector "+A+") 'list)", a)
	case "reverse", "nreverse":
		return setq("("+op.Op+" "+A+")", rev(a))
	case "remove", "delete":
		it := item()
		return setq(fmt.Sprintf("(%s %d %s)", op.Op, it, A), without(isItem(it)))
	case "remove-count":
		it := item()
		done := false
		return setq(fmt.Sprintf("(remove %d %s :count 1)", it, A), without(func(_ int, e el) bool {
			if e.sub == nil && e.v == it && !done {
				done = true
				return true
			}
			return false
		}))
	case "remove-fe":
		it := item()
		last := -1
		for i, e := range a {
			if e.sub == nil && e.v == it {
				last = i
			}
		}
		return setq(fmt.Sprintf("(remove %d %s :from-end t :count 1)", it, A), without(func(i int, _ el) bool { return i == last }))
	case "remove-if-fe", "delete-if-fe":
		fn := strings.TrimSuffix(op.Op, "-fe")
		pred := []string{"evenp", "oddp"}[op.K%2]
		match := func(e el) bool { return (e.v%2 == 0) == (pred == "evenp") }
		if !a.allInts() {
			pred = []string{"consp", "numberp"}[op.K%2]
			match = func(e el) bool {
				if pred == "consp" {
					return e.isCons()
				}
				return e.sub == nil
			}
		}
		last := -1
		for i, e := range a {
			if match(e) {
				last = i
			}
		}
		return setq(fmt.Sprintf("(%s '%s %s :from-end t :count 1)", fn, pred, A), without(func(i int, _ el) bool { return i == last }))
	case "remove-if", "delete-if":
		if a.allInts() {
			pred := []string{"evenp", "oddp"}[op.K%2]
			return setq(fmt.Sprintf("(%s '%s %s)", op.Op, pred, A), without(func(_ int, e el) bool { return (e.v%2 == 0) == (pred == "evenp") }))
		}
		pred := []string{"consp", "numberp"}[op.K%2]
		return setq(fmt.Sprintf("(%s '%s %s)", op.Op, pred, A), without(func(_ int, e el) bool {
			if pred == "consp" {
				return e.isCons()
			}
			return e.sub == nil
		}))
	case "remove-dup", "delete-dup":
		nils := 0
		for _, e := range a {
			if e.sub != nil && len(e.sub) == 0 {
				nils++
			}
		}
		if 1 < nils {
			return skip("avoided:remove-duplicates-of-several-nils")
		}
		if op.Op == "delete-dup" {
			return setq("(delete-duplicates "+A+")", without(laterDup))
		}
		return setq("(remove-duplicates "+A+")", without(laterDup))
	case "member":
		it := item()
		for i, e := range a {
			if e.sub == nil && e.v == it {
				return setq(fmt.Sprintf("(member %d %s)", it, A), a[i:])
			}
		}
		return setq(fmt.Sprintf("(member %d %s)", it, A), nil)
	case "mapcar":
		if !a.allInts() {
			// elements are passed on: a new list that shares every element
			return setq("(mapcar (lambda (x) x) "+A+")", a)
		}
		var want val
		for _, e := range a {
			want = append(want, el{v: e.v + 1})
		}
		if op.K%2 == 0 {
			return setq("(mapcar '1+ "+A+")", want)
		}
		return setq("(mapcar (lambda (x) (+ x 1)) "+A+")", want)
	case "mapcar2":
		var want val
		if !a.allInts() || !b.allInts() {
			for i := 0; i < n && i < len(b); i++ {
				want = append(want, a[i])
			}
			return setq(fmt.Sprintf("(mapcar (lambda (x y) x) %s %s)", A, B), want)
		}
		if op.K%3 == 2 {
			// a function that keeps its &rest list: every result element is a
			// list of its own (not the storage the mapping function hands the
			// arguments over in)
			for i := 0; i < n && i < len(b); i++ {
				want = append(want, el{sub: []int{a[i].v, b[i].v}, id: newID()})
			}
			return setq(fmt.Sprintf("(mapcar (lambda (&rest r) r) %s %s)", A, B), want)
		}
		for i := 0; i < n && i < len(b); i++ {
			want = append(want, el{v: a[i].v + b[i].v})
		}
		return setq(fmt.Sprintf("(mapcar '+ %s %s)", A, B), want)
	case "push":
		e := newEl()
		return planned{src: fmt.Sprintf("(push %s %s)", e.form(), T), want: cat(val{e}, a)}
	case "pushnew":
		if op.K%3 == 0 && 0 < n && a[op.J%n].sub == nil {
			// already an element: nothing changes
			return planned{src: fmt.Sprintf("(pushnew %d %s)", a[op.J%n].v, T), want: a}
		}
		e := el{v: fresh()}
		for _, o := range a {
			if o.same(e) {
				// a number made by mapcar can equal the next unused one
				return planned{src: fmt.Sprintf("(pushnew %d %s)", e.v, T), want: a}
			}
		}
		return planned{src: fmt.Sprintf("(pushnew %d %s)", e.v, T), want: cat(val{e}, a)}
	case "pop":
		if n == 0 {
			return planned{src: "(pop " + T + ")"}
		}
		return planned{src: "(pop " + T + ")", want: a[1:]}
	case "setf-car", "setf-first":
		if n == 0 {
			return skip("empty place")
		}
		fn := strings.TrimPrefix(op.Op, "setf-")
		e := newEl()
		return planned{src: fmt.Sprintf("(setf (%s %s) %s)", fn, T, e.form()), want: cat(val{e}, a[1:]), dargs: []int{op.A}}
	case "setf-nth", "setf-elt":
		if n == 0 {
			return skip("empty place")
		}
		k := op.K % n
		e := newEl()
		want := cat(a)
		want[k] = e
		if op.Op == "setf-nth" {
			return planned{src: fmt.Sprintf("(setf (nth %d %s) %s)", k, T, e.form()), want: want, dargs: []int{op.A}}
		}
		return planned{src: fmt.Sprintf("(setf (elt %s %d) %s)", T, k, e.form()), want: want, dargs: []int{op.A}}
	case "setf-caar", "setf-sub-nth", "rplaca-sub":
		var at []int
		for _, i := range a.subs() {
			if a[i].id != 0 {
				at = append(at, i)
			}
		}
		if len(at) == 0 {
			return skip("no sub-list element of known identity")
		}
		for i := 0; i < nv; i++ {
			if !w.v[i].ok {
				return skip("a variable is not a list of fixnums and sub-lists")
			}
		}
		k := at[op.K%len(at)]
		old := a[k]
		j := 0
		if op.Op == "setf-sub-nth" {
			j = op.J % len(old.sub)
		}
		if from, has := w.ent[old.id]; has && from <= j {
			return skip("the cell may be shared with another object by the language rules")
		}
		nw := el{sub: append([]int{}, old.sub...), id: old.id}
		x := fresh()
		nw.sub[j] = x
		// every occurrence of this object changes; an occurrence of another
		// object with equal contents (a copy made by another call) must not
		var all [nv]val
		for i := 0; i < nv; i++ {
			all[i] = cat(w.v[i].el)
			for m := range all[i] {
				switch {
				case all[i][m].id == old.id:
					all[i][m] = nw
				case all[i][m].id == 0 && all[i][m].same(old):
					return skip("an occurrence of unknown identity has the same contents")
				}
			}
		}
		p.all = &all
		p.want = all[op.T]
		switch op.Op {
		case "setf-caar":
			p.src = fmt.Sprintf("(setf (car (nth %d %s)) %d)", k, T, x)
		case "setf-sub-nth":
			p.src = fmt.Sprintf("(setf (nth %d (nth %d %s)) %d)", j, k, T, x)
		default:
			p.src = fmt.Sprintf("(rplaca (nth %d %s) %d)", k, T, x)
		}
		return p
	case "rplaca":
		if n == 0 {
			return skip("empty list")
		}
		e := newEl()
		p = setq(fmt.Sprintf("(rplaca %s %s)", A, e.form()), cat(val{e}, a[1:]))
		p.dargs = []int{op.A}
		return p
	case "rplacd":
		if n == 0 {
			return skip("empty list")
		}
		if w.sharing(op.A, op.B) {
			return skip("would be circular")
		}
		p = setq(fmt.Sprintf("(rplacd %s %s)", A, B), cat(a[:1], b))
		p.dargs = []int{op.A}
		p.from = []int{op.A, op.B}
		return p
	case "nconc", "nconc3", "nreconc":
		args := []int{op.A, op.B}
		if op.Op == "nconc3" {
			args = append(args, op.C)
		}
		var ne []int // arguments holding a non-empty list
		for _, i := range args {
			if 0 < len(w.v[i].el) {
				ne = append(ne, i)
			}
		}
		for i := range ne {
			for j := i + 1; j < len(ne); j++ {
				if ne[i] == ne[j] || w.sharing(ne[i], ne[j]) {
					return skip("would be circular")
				}
			}
		}
		// nconc: every argument but the last may be a dotted list (its terminating
		// atom is replaced), the last one any object
		linked := val{}
		for j, i := range ne {
			switch v := w.v[i].el; {
			case j == len(ne)-1:
				linked = cat(linked, v)
			case v.conses() == 0:
				p.undef = true // a bare atom before the last argument is not a list
			default:
				if v.improper() {
					w.x.Cover("improper:defined op=nconc")
				}
				linked = cat(linked, v.spine())
			}
		}
		switch op.Op {
		case "nconc":
			p = planned{src: fmt.Sprintf("(setq %s (nconc %s %s))", T, A, B), want: linked, undef: p.undef}
		case "nconc3":
			p = planned{src: fmt.Sprintf("(setq %s (nconc %s %s %s))", T, A, B, C), want: linked, undef: p.undef}
		default:
			p = setq(fmt.Sprintf("(nreconc %s %s)", A, B), cat(rev(a), b))
		}
		if p.undef {
			w.x.Cover("improper:undefined-by-the-language op=nconc")
		}
		p.from = ne
		if 1 < len(ne) {
			p.dargs = ne[:len(ne)-1]
		} else if op.Op == "nreconc" && 0 < n {
			p.dargs = []int{op.A}
			p.from = []int{op.A}
		}
		return p
	case "rplacd-atom", "rplacd-in", "nconc-atom", "cons-atom", "list*-atom", "append-atom":
		return w.planAtom(op)
	case "add":
		e := newEl()
		p = setq(fmt.Sprintf("(add %s %s)", A, e.form()), cat(a, val{e}))
		p.dargs = []int{op.A}
		return p
	case "add2":
		e1, e2 := el{v: fresh()}, newEl()
		p = setq(fmt.Sprintf("(add %s %s %s)", A, e1.form(), e2.form()), cat(a, val{e1, e2}))
		p.dargs = []int{op.A}
		return p
	case "addf":
		e := newEl()
		return planned{src: fmt.Sprintf("(addf %s %s)", T, e.form()), want: cat(a, val{e}), dargs: []int{op.A}}
	case "sort<", "sort>", "sort-default", "sort-key", "stable-sort":
		if a.hasNil() {
			return skip("nil has no sort key")
		}
		want := cat(a)
		desc := op.Op == "sort>" || (op.Op == "sort-key" && a.allInts())
		sort.SliceStable(want, func(i, j int) bool {
			if desc {
				return want[j].key() < want[i].key()
			}
			return want[i].key() < want[j].key()
		})
		for i := 0; i+1 < len(want); i++ {
			if want[i].key() == want[i+1].key() && !want[i].same(want[i+1]) {
				return skip("order is ambiguous")
			}
		}
		switch {
		case op.Op == "sort-key" && a.allInts():
			p = setq("(sort "+A+" '< :key (lambda (x) (- x)))", want)
		case op.Op == "sort-key" || !a.allInts():
			if op.Op == "sort-default" {
				return skip("default order of mixed elements is slip's own")
			}
			fn := "sort"
			if op.Op == "stable-sort" {
				fn = "stable-sort"
			}
			pred := "<"
			if desc {
				pred = ">"
			}
			p = setq("("+fn+" "+A+" '"+pred+" :key (lambda (x) (if (consp x) (car x) x)))", want)
		case op.Op == "sort<":
			p = setq("(sort "+A+" '<)", want)
		case op.Op == "sort>":
			p = setq("(sort "+A+" '>)", want)
		case op.Op == "stable-sort":
			p = setq("(stable-sort "+A+" '<)", want)
		default:
			p = setq("(sort "+A+")", want)
		}
		p.dargs = []int{op.A}
		return p
	}
	panic("unknown operation " + op.Op)
}

func (w *world) stepOp(op Op, phase string) {
	x := w.x
	kd := kindOf[op.Op]
	bad := func(i int) bool { return i < 0 || nv <= i }
	if kd == nil || bad(op.T) || bad(op.A) || bad(op.B) || bad(op.C) {
		panic(fmt.Sprintf("malformed operation %+v", op))
	}
	if kd.place {
		op.A = op.T
	}
	w.step++
	p := w.plan(op, kd)
	if p.skip != "" {
		if strings.HasPrefix(p.skip, "avoided:") {
			x.Cover(p.skip)
		} else {
			x.Cover("skipped:" + p.skip)
		}
		return
	}
	src, want := p.src, p.want
	label := sigName(op.Op)
	if p.label != "" {
		label = p.label
	}
	if kd.dest && p.dargs == nil && (op.Op == "delete" || op.Op == "delete-if" || op.Op == "delete-if-fe" || op.Op == "delete-dup" || op.Op == "nreverse" || op.Op == "nbutlast") {
		p.dargs = []int{op.A}
	}
	w.prog = append(w.prog, src)
	before := w.v
	// dot: a destructively processed argument (or, for a non-destructive
	// operation, a walked one) is a dotted list - slip handles those on
	// separate paths, so they get their own signatures
	dot := ""
	for _, i := range p.dargs {
		if before[i].el.improper() {
			dot = " arg=dotted"
		}
	}
	if len(p.dargs) == 0 {
		for _, i := range walked(op) {
			if before[i].el.improper() {
				dot = " arg=dotted"
			}
		}
	}
	var err *sl.Err
	if w.mode == "compiled" {
		_, err = sl.EvalCompiled(w.scope, src)
	} else {
		_, err = sl.Eval(w.scope, src)
	}
	if p.label != "" {
		x.Cover(phase + ":" + op.Op + ":" + p.label)
	} else {
		x.Cover(phase + ":" + op.Op)
	}
	errored := false
	if err != nil {
		k := "error"
		if err.Internal {
			k = "internal-fault"
		}
		if !p.undef || err.Internal {
			x.Fail(k+" op="+label+dot, "%s => %s (reference result %s)\nhistory: %s", src, err, render(want), strings.Join(w.prog, " "))
			w.dead = true
			return
		}
		// the language lets an implementation signal an error here
		x.Cover("improper:error-accepted op=" + label)
		errored, w.noRoute = true, true
	} else if p.undef {
		x.Cover("improper:undefined-result-not-judged op=" + label)
	}
	// re-read every variable
	for i := 0; i < nv; i++ {
		w.v[i].shown, w.v[i].el, w.v[i].ok = w.observe(i)
	}
	x.CoverN("observed-variable-values", nv)
	var snap [nv]string
	for i := 0; i < nv; i++ {
		snap[i] = w.v[i].shown
		if w.v[i].ok && w.v[i].el.improper() {
			x.Cover("observed-improper-values")
		}
	}
	w.trace = append(w.trace, snap)
	w.opAt = append(w.opAt, label)
	// the cons cells of the destructively processed lists (empty: nothing may change)
	var dcells []int
	for _, i := range p.dargs {
		dcells = unionCells(dcells, before[i].cells)
	}
	// target: the variable the operation binds; after an accepted error none
	target := op.T
	if errored {
		target = -1
	}
	// carry the object ids of the reference model over to the observed values
	for i := 0; i < nv; i++ {
		exp := before[i].el
		switch {
		case p.all != nil:
			exp = p.all[i]
		case i == target && !p.undef:
			exp = want
		}
		// a list sharing cells with a destructively processed one may hold other
		// objects than before even when it prints the same
		exempt := (i != target && intersects(before[i].cells, dcells)) || (i == target && p.undef)
		if w.v[i].ok && !exempt && w.v[i].shown == render(exp) {
			w.v[i].el = cat(exp)
		} else if w.v[i].ok {
			w.recoverIDs(w.v[i].el, &before, want)
		}
	}
	if p.after != nil {
		defer p.after()
	}
	hist := func() string { return strings.Join(w.prog, " ") }

	if p.all != nil {
		// a write into a sub-list element: exact expectation for every variable
		x.Cover("element-writes")
		for i := 0; i < nv; i++ {
			exp := render(p.all[i])
			switch {
			case w.v[i].shown == exp:
				if exp != before[i].shown {
					x.Cover("element-write-seen-through-variable")
					if i != op.T {
						x.Cover("element-write-seen-through-other-variable")
					}
				}
			case i == op.T:
				x.Fail("value op="+label, "%s left %s as %s, the reference result is %s\nhistory: %s", src, names[i], w.v[i].shown, exp, hist())
			case w.v[i].shown == before[i].shown:
				// the younger of the two lists was made from the older one
				via := before[i].via
				if before[i].birth < before[op.T].birth {
					via = before[op.T].via
				}
				x.Fail("element-copied via="+sigName(via), "%s is not visible through %s, which holds the same sub-list object by the language rules: %s stayed %s, expected %s (%s holds a result of %s, %s a result of %s)\nhistory: %s",
					src, names[i], names[i], w.v[i].shown, exp, names[op.T], before[op.T].via, names[i], before[i].via, hist())
			default:
				x.Fail("element-frame op="+label, "%s changed %s from %s to %s, expected %s\nhistory: %s", src, names[i], before[i].shown, w.v[i].shown, exp, hist())
			}
		}
		return // the top-level sharing model is untouched
	}

	// (1) value oracle on the target
	agreed := false
	switch got := w.v[op.T].shown; {
	case errored || p.undef:
	case got != render(want):
		// arguments that are different lists by the language rules but were seen
		// to occupy the same elements of one backing array: the reference result
		// assumes they are independent, the operation that aliased them is to blame
		args := []int{op.A, op.B, op.C}[:kd.nargs]
		aliased := false
		for j, a := range args {
			for _, b := range args[:j] {
				if a == b || intersects(before[a].cells, before[b].cells) {
					continue
				}
				if via, legit, found := w.blame(before[a].cells, before[b].cells); found && !legit && !aliased {
					aliased = true
					x.Fail("alias via="+sigName(via), "%s bound %s to %s, the reference result is %s: the arguments %s and %s share no cons cell by the language rules but occupy the same part of one backing array since %s\nhistory: %s",
						src, names[op.T], got, render(want), names[b], names[a], via, hist())
				}
			}
		}
		if aliased {
			break
		}
		detail := dot
		switch {
		case op.Op == "rplacd" && len(before[op.B].el) == 0:
			detail += " cdr=nil"
		case op.Op == "rplacd" && before[op.B].el.conses() == 0, op.Op == "rplacd-atom", op.Op == "rplacd-in":
			detail += " cdr=atom"
		case op.Op == "list*" && len(before[op.A].el) == 0:
			detail += " tail=nil"
		case op.Op == "list*" && before[op.A].el.conses() == 0, op.Op == "list*-atom":
			detail += " tail=atom"
		case op.Op == "list*":
			detail += " tail=list"
		case (op.Op == "revappend" || op.Op == "nreconc") && len(before[op.B].el) == 0:
			detail += " tail=nil"
		case (op.Op == "revappend" || op.Op == "nreconc" || op.Op == "append") && before[op.B].el.conses() == 0:
			detail += " tail=atom"
		case op.Op == "cons-atom", op.Op == "append-atom", op.Op == "nconc-atom":
			detail += " tail=atom"
		}
		x.Fail("value op="+label+detail, "%s bound %s to %s, the reference result from the observed arguments is %s\nhistory: %s",
			src, names[op.T], got, render(want), hist())
	default:
		agreed = true
		x.Cover("value-agreed")
		if want.improper() {
			x.Cover("value-agreed-improper-result")
		}
	}
	// (2) frame rule on every other variable
	for i := 0; i < nv; i++ {
		if i == target {
			continue
		}
		changed := before[i].shown != w.v[i].shown
		shares := intersects(before[i].cells, dcells)
		switch {
		case len(dcells) == 0:
			x.Cover("frame:non-destructive-checked")
			if changed && kd.ext && 0 < len(p.dargs) && !p.undef {
				// an empty list is extended (an empty tail of another list can still
				// have the spare capacity of that list behind it)
				x.Fail("overwrite op="+label+dot, "%s extends an empty list but overwrote elements reachable from %s: %s became %s\nhistory: %s",
					src, names[i], before[i].shown, w.v[i].shown, hist())
			} else if changed {
				x.Fail("frame op="+label+dot, "%s is not destructive (or had nothing to destroy) but changed %s from %s to %s\nhistory: %s",
					src, names[i], before[i].shown, w.v[i].shown, hist())
			}
		case !before[i].ok:
			// not a list before (slip keeps the atom of a dotted pair in the
			// slot of the next element, so a tail alias taken before rplacd reads as
			// (. 9 3 4) afterwards, which the property exempts): nothing to judge
			x.Cover("frame:not-a-list-unjudged")
		case !shares:
			if 0 < len(before[i].el) {
				x.Cover("frame:destructive-unrelated-checked")
			} else {
				x.Cover("frame:destructive-unrelated-empty")
			}
			if changed {
				// blame the allocation that should have made the two lists independent
				d := p.dargs[0]
				via, legit, found := "", false, false
				for _, di := range p.dargs {
					if via, legit, found = w.blame(before[di].cells, before[i].cells); found {
						d = di
						break
					}
				}
				if found && legit {
					// the two lists were one until a cdr was replaced; they still live in
					// one backing array, which is slip's way of storing them: this operation
					// wrote from the one into the other
					x.Fail("overwrite op="+label+dot, "%s changed %s from %s to %s although %s shares no cons cell with %s by the language rules (the elements of %s lie in the spare capacity behind the result of %s)\nhistory: %s",
						src, names[i], before[i].shown, w.v[i].shown, names[i], names[d], names[i], via, hist())
					continue
				}
				if !found {
					via = before[d].via
					if before[d].birth < before[i].birth {
						via = before[i].via
					}
				}
				x.Fail("alias via="+sigName(via), "%s changed %s from %s to %s although %s shares no cons cell with %s by the language rules (%s holds a result of %s, %s a result of %s)\nhistory: %s",
					src, names[i], before[i].shown, w.v[i].shown, names[i], names[d],
					names[d], before[d].via, names[i], before[i].via, hist())
			}
		case kd.ext && !p.undef:
			x.Cover("frame:extension-sharing-checked")
			if changed && !(before[i].ok && w.v[i].ok && isPrefix(before[i].el, w.v[i].el)) {
				x.Fail("overwrite op="+label+dot, "%s extends a list but overwrote elements reachable from %s: %s became %s\nhistory: %s",
					src, names[i], before[i].shown, w.v[i].shown, hist())
			}
		default:
			x.Cover("frame:destructive-sharing-exempt")
			if changed {
				x.Cover("sharing-variable-changed")
			}
		}
	}

	// (3) step the cons-cell model
	w.stepCells(op, kd, &p, &before, label, errored, agreed)
	if kd.dest {
		x.Cover("destructive-ops")
	}
	if errored || p.undef {
		return
	}
	// name-only bookkeeping: does the new value of the target occupy the
	// backing array of a variable it shares no cons cell with?
	if lo, used, hi, ok := w.span(op.T); ok {
		for i := 0; i < nv; i++ {
			if i == op.T || w.sharing(i, op.T) {
				continue
			}
			if l2, u2, h2, ok2 := w.span(i); ok2 && lo < h2 && l2 < hi {
				legit := !(lo < u2 && l2 < used)
				w.hidden = append(w.hidden, hiddenAlias{c1: w.v[op.T].cells, c2: w.v[i].cells, op: label, legit: legit})
				if legit {
					x.Cover("spare-capacity-reaching-into-another-list-seen")
				} else {
					x.Cover("hidden-backing-array-sharing-seen")
				}
			}
		}
	}
}

// stepCells steps the cons-cell reference model over one operation: which
// cells the result consists of and what the operation does, by the language
// rules, to the cells of the other variables.
func (w *world) stepCells(op Op, kd *kind, p *planned, before *[nv]vstate, label string, errored, agreed bool) {
	want := p.want
	ncons := want.conses()
	A, B, C := before[op.A], before[op.B], before[op.C]
	// entangle: the effect on the cells is not defined in detail (or not
	// known): every variable that reaches one of the cells may reach all of u
	entangle := func(hit, u []int) {
		for i := 0; i < nv; i++ {
			if intersects(before[i].cells, hit) {
				w.v[i].cells, w.v[i].exact = unionCells(before[i].cells, u), false
			}
		}
	}
	// relink: by the language rules variable i now has the chain nc and the
	// value pred. When slip shows exactly that - and it is a change, so that
	// the effect was really seen - the model stays exact, otherwise (allowed
	// for a list sharing cells with a processed one: "the original lists are
	// not always modified") the variable may still reach its old cells as well.
	relink := func(i int, nc chain, pred val) {
		if nc.exact && w.v[i].ok && w.v[i].shown == render(pred) && before[i].shown != render(pred) {
			w.v[i].cells, w.v[i].exact = nc.cells, true
			return
		}
		w.v[i].cells, w.v[i].exact = unionCells(before[i].cells, nc.cells), false
	}
	var rc chain
	switch {
	case p.undef:
		u := A.cells
		if 2 <= kd.nargs {
			u = unionCells(u, B.cells)
		}
		if 3 <= kd.nargs {
			u = unionCells(u, C.cells)
		}
		// what an undefined operation that did not signal an error made of its
		// arguments and what its result consists of cannot be told
		wild := unionCells(u, []int{wildCell})
		switch {
		case kd.dest && errored:
			entangle(u, u)
		case kd.dest:
			entangle(u, wild)
		}
		rc = chain{cells: wild}
	case op.Op == "ho" && p.from != nil: // map-into: the cars of the target's cells are replaced
		rc = chain{cells: before[op.T].cells, exact: before[op.T].exact}
	case kd.share == shFresh:
		rc = w.newCells(ncons)
	default:
		switch op.Op {
		case "alias", "append1", "rplaca", "setf-car", "setf-first", "setf-nth", "setf-elt":
			rc = chain{cells: A.cells, exact: A.exact}
		case "cons", "push", "pushnew", "list*", "list*1":
			rc = join(w.newCells(ncons-A.el.conses()), A.chain())
		case "cdr", "rest", "nthcdr", "last", "last1", "member", "pop":
			if ca := A.chain(); ca.exact && ncons <= len(ca.cells) {
				rc = chain{cells: ca.cells[len(ca.cells)-ncons:], exact: true}
			} else if 0 < ncons {
				rc = chain{cells: A.cells}
			}
		case "append", "revappend":
			rc = join(w.newCells(ncons-B.el.conses()), B.chain())
		case "append3":
			rc = join(w.newCells(ncons-C.el.conses()), C.chain())
		case "rplacd", "rplacd-atom", "rplacd-in":
			// the cdr of one cons of A is replaced: what was behind it is cut off
			var tail chain
			tailVal := want[1:]
			tail.exact = true
			if op.Op == "rplacd" {
				tail = B.chain()
				if len(B.cells) == 0 {
					tail.exact = true
				}
			}
			if ca := A.chain(); ca.exact && p.cellAt < len(ca.cells) {
				head := ca.cells[p.cellAt]
				rc = join(chain{cells: []int{head}, exact: true}, tail)
				for i := 0; i < nv; i++ {
					s := before[i]
					at := indexOf(s.cells, head)
					switch {
					case at < 0:
					case s.chain().exact:
						relink(i, join(chain{cells: s.cells[:at+1], exact: true}, tail), cat(s.el[:at+1], tailVal))
					default:
						w.v[i].cells, w.v[i].exact = unionCells(s.cells, tail.cells), false
					}
				}
			} else {
				// which cell is the head is not known
				rc = chain{cells: unionCells(A.cells, tail.cells)}
				entangle(A.cells, rc.cells)
			}
		case "nconc", "nconc3", "nconc-atom":
			// the last cdr of every non-empty argument but the last is set to the next one
			var links []chain
			var vals []val
			for _, i := range p.from {
				if 0 < len(before[i].el) {
					links = append(links, before[i].chain())
					vals = append(vals, before[i].el)
				}
			}
			if op.Op == "nconc-atom" {
				links = append(links, chain{exact: true})
				vals = append(vals, dotted(*p.atom))
			}
			rc = join(links...)
			for j := len(links) - 2; 0 <= j; j-- {
				rest := join(links[j+1:]...)
				restVal := val{}
				for k := j + 1; k < len(vals); k++ {
					if k == len(vals)-1 {
						restVal = cat(restVal, vals[k])
					} else {
						restVal = cat(restVal, vals[k].spine())
					}
				}
				for i := 0; i < nv; i++ {
					if s := before[i]; intersects(s.cells, links[j].cells) {
						if s.chain().exact {
							relink(i, join(s.chain(), rest), cat(s.el.spine(), restVal))
						} else {
							w.v[i].cells, w.v[i].exact = unionCells(unionCells(s.cells, w.v[i].cells), rest.cells), false
						}
					}
				}
			}
		case "nreconc":
			if A.el.conses() == 0 {
				rc = B.chain()
			} else {
				rc = chain{cells: unionCells(A.cells, B.cells)}
				entangle(A.cells, rc.cells)
			}
		case "add", "add2", "addf":
			added := want[len(A.el):]
			nw := w.newCells(len(added))
			rc = join(A.chain(), nw)
			for i := 0; i < nv; i++ {
				if s := before[i]; intersects(s.cells, A.cells) {
					if s.chain().exact {
						relink(i, join(s.chain(), nw), cat(s.el, added))
					} else {
						w.v[i].cells, w.v[i].exact = unionCells(s.cells, nw.cells), false
					}
				}
			}
		default:
			// nreverse, nbutlast, sort, delete ...: the cells are reused in a way
			// the language leaves to the implementation
			entangle(A.cells, A.cells)
			if 0 < ncons {
				rc = chain{cells: A.cells}
			}
		}
	}
	if errored {
		return
	}
	res := &w.v[op.T]
	res.cells, res.exact = rc.cells, rc.exact && agreed
	if !agreed {
		// the value is not the reference result (reported) or not defined: the
		// target may hold cells of any of the arguments
		res.cells = unionCells(res.cells, A.cells)
		if 2 <= kd.nargs {
			res.cells = unionCells(res.cells, B.cells)
		}
		if 3 <= kd.nargs {
			res.cells = unionCells(res.cells, C.cells)
		}
	}
	if res.ok && res.el.conses() == 0 {
		res.cells, res.exact = nil, false // nil or an atom: no cons cell
	}
	// the allocation that names the cells of the result
	var src vstate
	switch {
	case p.from != nil:
		// the youngest allocation of the linked lists
		for k, i := range p.from {
			if s := before[i]; k == 0 || src.birth < s.birth {
				src.via, src.birth = s.via, s.birth
			}
			src.cells = unionCells(src.cells, before[i].cells)
		}
	case kd.share == shFresh:
		res.via, res.birth = label, w.step
		return
	case kd.share == shB:
		src = B
	case kd.share == shC:
		src = C
	default:
		src = A
	}
	res.via, res.birth = src.via, src.birth
	if len(src.cells) == 0 && 0 < len(rc.cells) {
		res.via, res.birth = label, w.step
	}
}

// snaps collects what the snapshot builtin saw during one single-form run.
var snaps [][nv]string

type snapFn struct {
	slip.Function
}

func (f *snapFn) Call(s *slip.Scope, args slip.List, depth int) slip.Object {
	var snap [nv]string
	for i := 0; i < nv && i < len(args); i++ {
		snap[i] = sl.Show(args[i])
	}
	snaps = append(snaps, snap)
	return nil
}

func initWorker() {
	slip.Define(
		func(args slip.List) slip.Object {
			f := snapFn{Function: slip.Function{Name: "c06-snap", Args: args}}
			f.Self = &f
			return &f
		},
		&slip.FuncDoc{
			Name:   "c06-snap",
			Args:   []*slip.DocArg{{Name: "&rest"}, {Name: "lists", Type: "object"}},
			Return: "nil",
			Text:   "verification harness: records a rendering of the arguments",
		}, &slip.UserPkg)
}

// reroute runs the program of the stepwise run again as a single form and
// compares the state after every operation with the stepwise observation.
func (w *world) reroute(route string) {
	x := w.x
	snapCall := " (c06-snap " + strings.Join(names[:], " ") + ") "
	body := strings.Join(w.prog, snapCall) + snapCall
	var src string
	if route == "let" {
		src = "(let ((la nil) (lb nil) (lc nil) (ld nil)) " + body + ")"
	} else {
		src = "(funcall (lambda (la lb lc ld) " + body + ") nil nil nil nil)"
	}
	snaps = snaps[:0]
	var err *sl.Err
	if w.mode == "compiled" {
		_, err = sl.EvalCompiled(slip.NewScope(), src)
	} else {
		_, err = sl.Eval(slip.NewScope(), src)
	}
	x.Cover("route:" + route)
	if err != nil {
		x.Fail("route="+route+" error", "the history that ran stepwise fails as one form: %s => %s", src, err)
		return
	}
	if len(snaps) != len(w.trace) {
		x.Fail("route="+route+" snapshots", "%d snapshots for %d operations: %s", len(snaps), len(w.trace), src)
		return
	}
	for k := range snaps {
		if snaps[k] != w.trace[k] {
			x.Fail("route="+route+" op="+sigName(w.opAt[k]), "after %s the %s-bound variables hold %v, the stepwise run saw %v\nprogram: %s",
				w.prog[k], route, snaps[k], w.trace[k], src)
			return
		}
	}
	x.CoverN("route-states-agreed", len(snaps))
}

func exec(x *fw.Ctx, c Case) {
	w := &world{x: x, scope: slip.NewScope(), mode: c.Mode, next: 100, ent: map[int]int{}}
	for i := 0; i < nv; i++ {
		w.scope.Let(slip.Symbol(names[i]), nil)
		w.v[i] = vstate{shown: "nil", ok: true, via: "nil"}
	}
	if 6 < len(c.Ops) {
		panic("history longer than 6")
	}
	for _, op := range c.Pre {
		if w.dead {
			break
		}
		w.stepOp(op, "pre")
	}
	executed := len(w.prog)
	for _, op := range c.Ops {
		if w.dead {
			break
		}
		w.stepOp(op, "op")
	}
	executed = len(w.prog) - executed
	x.Cover(fmt.Sprintf("history-length:%d", executed))
	if c.Mode != "" {
		x.Cover("mode:" + c.Mode)
	}
	final := map[string]string{}
	live := 0
	sharing, nested, improper := false, false, false
	for i := 0; i < nv; i++ {
		final[names[i]] = w.v[i].shown
		if 0 < len(w.v[i].el) {
			live++
			nested = nested || !w.v[i].el.allInts()
			improper = improper || w.v[i].el.improper()
			for j := 0; j < i; j++ {
				sharing = sharing || w.sharing(i, j)
			}
		}
	}
	x.Observe(map[string]any{"program": w.prog, "final": final})
	if c.Route != "" && !w.dead && !w.noRoute && 0 < len(w.prog) {
		w.reroute(c.Route)
	}
	if executed == 0 || live < 2 {
		x.Trivial()
		return
	}
	if sharing {
		x.Cover("histories-with-sharing-variables")
	}
	if improper {
		x.Cover("histories-ending-with-an-improper-list")
	}
	if nested {
		x.Cover("histories-with-sub-list-elements")
	}
	x.SetHash(fw.Hash64([]byte(strings.Join(w.prog, "\n") + "|" + c.Mode)))
}

func init() {
	fw.Register(fw.Spec[Case]{
		ID: "C06",
		Rule: "history = pool construction (list / quoted literal, elements fixnums or one-level sub-lists; grown by add or push, optionally shortened again; result of remove/delete/remove-if/mapcar/append/revappend/remove-duplicates; " +
			"or alias / cdr / nthcdr / last / member of an earlier variable) followed by <= 6 operations over 4 named lists; " +
			"block 0 = higher-order route: every generated (list function, higher-order function) combination (19 functions called through mapcar / map / map-into / mapcan / reduce / apply / funcall: 84 combinations) x 6 sub-list length patterns (lengths 0..3) x 6 follow-ups (none; rows of the result written into; an argument row written into; a second call whose rows are written into; destructive top-level processing) = 3 024 cases; " +
			"block 1 = improper lists: 13 ways to make a dotted list or a bare atom (rplacd with an atom on the head cons of la, bound to another variable or to la itself; on an inner cons reached by cdr / nthcdr / last; (rplacd (last ld 2) atom) shortening a tail of la; cons / list* / append / nconc with an atom; rplacd with nil in front of the former tail; the cdr of a dotted pair, next to a list of three and next to an empty list) with lb = (nthcdr 3 la) taken BEFORE the cdr is replaced, x every one of the 61 operations x 4 aliasing patterns (dotted list processed in place; first argument, result elsewhere; LAST argument; the former tail processed with the dotted list as second argument) x 3 follow-ups (none; result extended by nconc; car of the result replaced) x 5 pools = 47 580 cases; " +
			"block 2 = every ordered pair of the 59 operations x 6 aliasing patterns x 8 (pool, selector) combinations over 5 pools {exact capacity, grown by add, sub-list elements, built by remove, built by append} (exhaustive, every seed); " +
			"block 3 = ordered triples: quick the seed-independent third with (p+2q+3s) mod 3 = 0 (pattern and pool rotate), thorough every triple x 2 patterns x 2 pools; " +
			"then seeded random histories (any variable as target and as any argument; every fifth starts by making a dotted list out of a pool list). " +
			"An operation the language does not define for an improper list (sequence functions, mapcar, member, append / revappend / nreconc with a dotted non-last argument, add, push onto an atom ...) is still run: an error is accepted and the result is not judged, but the frame rule applies. " +
			"distinct = distinct program text; non-trivial = at least one operation ran and at least two variables hold non-empty lists at the end. " +
			"never generated: remove-duplicates of a list holding several nils (nil and the empty tail of a one-element list are kept both by slip's remove-duplicates, the harness cannot tell them apart) - C14/C16's concern; circular structures, dotted sub-lists, atoms other than fixnums as the cdr, (setf (cdr x)) (not implemented in slip), sub-lists as variable values, map-into into a list sharing cells with its arguments, mapc (its results are discarded); nothing else is avoided",
		N:     nCases,
		Gen:   gen,
		Exec:  exec,
		Init:  initWorker,
		Batch: 4000,
		Assumptions: []string{
			"the value oracle is computed from the observed contents of the arguments, the frame rule from a cons-cell reference model (every variable has the ordered chain of the cells of its spine while the language defines it exactly, else a set that over-approximates the cells it may reach; rplacd cuts chains, nconc / add link them, sort / delete / nreverse entangle) that over-approximates cons-cell sharing under ANSI CL rules",
			"a variable that shares cells with a destructively processed list may keep showing its old contents (slip: 'the original lists are not always modified'); the model then keeps its old cells as well; a variable that is not a list any more (slip keeps the atom of a dotted pair in the slot of the next element, so a (cdr x) taken before (rplacd x atom) reads (. 9 3 4)) is not judged by destructive operations afterwards",
			"remove/remove-if/remove-duplicates results are treated as fresh (the property's 'independent of its arguments'); CL would also allow sharing",
			"elements are fixnums or one-level sub-lists of fixnums (or nil); every sub-list object carries an id in the reference model that travels through the reference functions, so rows made by different calls are different objects even when their contents are equal; where the identity of an occurrence is not known, or a cell may be shared by the language rules (a row made by cons shares its second argument), writes into it are not generated; a dotted list ends in a fixnum",
			"variables are re-read through Scope.Get and rendered by the harness printer",
			"route cases: the same program text is re-run as one let/lambda form and a Go builtin (c06-snap) renders the variables after every operation; both runs must agree",
		},
	})
}
