// Package c06 monitors the value semantics of lists: histories of list
// operations over a pool of four named lists are run by the real interpreter
// and, after every operation, the contents of every variable are re-read and
// judged against (1) a value oracle computed from the observed contents of
// the arguments and (2) a frame rule driven by a cons-cell sharing model of
// the same history (which variables may, by the language rules, share a cons
// cell with the destructively processed list).
package c06

import (
	"fmt"
	"math/rand/v2"
	"sort"
	"strconv"
	"strings"
	"unsafe"

	"github.com/ohler55/slip"

	"verif/internal/fw"
	"verif/internal/sl"
)

const nv = 4

var names = [nv]string{"la", "lb", "lc", "ld"}

// Op is one operation of a history. T is the variable the result is bound
// to (for place operations - push, pop, setf-* - T is the place and A is
// ignored), A and B are the list arguments, K and J are selectors that are
// resolved against the observed length of the argument when the step runs
// (so that every generated operation is applicable), V a variant.
type Op struct {
	Op string `json:"op"`
	T  int    `json:"t"`
	A  int    `json:"a"`
	B  int    `json:"b,omitempty"`
	K  int    `json:"k,omitempty"`
	J  int    `json:"j,omitempty"`
}

// Case is a history: Pre builds the pool (constructors, growth by add/push,
// shortening, aliases), Ops is the history proper (length <= 6).
type Case struct {
	Pre  []Op   `json:"pre"`
	Ops  []Op   `json:"ops"`
	Mode string `json:"mode,omitempty"` // "" = one Eval per operation; "compiled" = Code.Compile before Eval
	// Route: after the stepwise run the same program text is run again as ONE
	// form with the pool held in let-bound ("let") or lambda-bound ("lambda")
	// variables; the states seen by a snapshot builtin after every operation
	// must equal the stepwise observations.
	Route string `json:"route,omitempty"`
}

// share: how the result relates to the arguments by the language rules.
const (
	shFresh = iota // all cons cells of the result are new
	shA            // result may share cells with A (tail of A, A itself, A extended in front)
	shB            // result may share cells with B (append: last argument)
	shAB           // result links A's cells to B's (nconc, rplacd): the classes merge
)

type kind struct {
	name   string
	place  bool // operates on the place T (A := T)
	binary bool // has a second list argument B
	dest   bool // documented destructive on A
	ext    bool // extension: may only add elements behind the end of sharing lists
	share  int
	weight int
}

// The operations of the property's quantifier with their weights in the
// random stream. No operation is avoided: the subseq, list* and rplacd
// findings are repaired in /repo, the open add finding is state dependent.
var kinds = []kind{
	{name: "list", share: shFresh, weight: 2},
	{name: "quote", share: shFresh, weight: 1},
	{name: "alias", share: shA, weight: 4},
	{name: "cons", share: shA, weight: 4},
	{name: "list*", share: shA, weight: 3},
	{name: "append", binary: true, share: shB, weight: 5},
	{name: "append1", share: shA, weight: 1},
	{name: "cdr", share: shA, weight: 4},
	{name: "rest", share: shA, weight: 2},
	{name: "nthcdr", share: shA, weight: 4},
	{name: "last", share: shA, weight: 3},
	{name: "last1", share: shA, weight: 1},
	{name: "butlast", share: shFresh, weight: 4},
	{name: "butlast1", share: shFresh, weight: 1},
	{name: "subseq", share: shFresh, weight: 4},
	{name: "subseq-noend", share: shFresh, weight: 2},
	{name: "copy-list", share: shFresh, weight: 4},
	{name: "reverse", share: shFresh, weight: 4},
	{name: "remove", share: shFresh, weight: 3},
	{name: "remove-count", share: shFresh, weight: 1},
	{name: "remove-if", share: shFresh, weight: 2},
	{name: "remove-dup", share: shFresh, weight: 2},
	{name: "member", share: shA, weight: 3},
	{name: "mapcar", share: shFresh, weight: 3},
	{name: "mapcar2", binary: true, share: shFresh, weight: 1},
	{name: "push", place: true, share: shA, weight: 5},
	{name: "pop", place: true, share: shA, weight: 4},
	{name: "setf-car", place: true, dest: true, share: shA, weight: 3},
	{name: "setf-first", place: true, dest: true, share: shA, weight: 1},
	{name: "setf-nth", place: true, dest: true, share: shA, weight: 3},
	{name: "setf-elt", place: true, dest: true, share: shA, weight: 3},
	{name: "rplaca", dest: true, share: shA, weight: 3},
	{name: "rplacd", binary: true, dest: true, share: shAB, weight: 3},
	{name: "nconc", binary: true, dest: true, ext: true, share: shAB, weight: 6},
	{name: "add", dest: true, ext: true, share: shA, weight: 7},
	{name: "add2", dest: true, ext: true, share: shA, weight: 2},
	{name: "nreverse", dest: true, share: shA, weight: 4},
	{name: "sort<", dest: true, share: shA, weight: 3},
	{name: "sort>", dest: true, share: shA, weight: 1},
	{name: "sort-default", dest: true, share: shA, weight: 2},
	{name: "delete", dest: true, share: shA, weight: 3},
	{name: "delete-if", dest: true, share: shA, weight: 2},
	{name: "delete-dup", dest: true, share: shA, weight: 1},
}

var (
	kindOf   = map[string]*kind{}
	totalW   int
	pairOps  []string // operations enumerated by the exhaustive blocks
	pairVarK = []int{1, 5}
)

func init() {
	for i := range kinds {
		k := &kinds[i]
		kindOf[k.name] = k
		totalW += k.weight
		if k.name != "list" && k.name != "quote" {
			pairOps = append(pairOps, k.name)
		}
	}
}

const (
	pairPatterns   = 6
	triplePatterns = 2
	growKinds      = 2
)

func pairBlock() int { return len(pairOps) * len(pairOps) * pairPatterns * growKinds * len(pairVarK) }
func tripleBlock() int {
	return len(pairOps) * len(pairOps) * len(pairOps) * triplePatterns * growKinds
}

func nCases(tier string) int {
	if tier == "thorough" {
		return pairBlock() + tripleBlock() + 2000000
	}
	return pairBlock() + 120000
}

// basePre builds the pool of the exhaustive blocks: la = five elements
// (grow 0: one call of list; grow 1: grown one element at a time by add, so
// that the backing array has spare capacity), lb = (cdr la) (a tail alias),
// lc = a second three-element list, ld = nil.
func basePre(grow int) []Op {
	var pre []Op
	if grow == 0 {
		pre = append(pre, Op{Op: "list", T: 0, K: 5})
	} else {
		pre = append(pre, Op{Op: "list", T: 0, K: 0})
		for i := 0; i < 5; i++ {
			pre = append(pre, Op{Op: "add", T: 0, A: 0})
		}
	}
	pre = append(pre, Op{Op: "cdr", T: 1, A: 0})
	pre = append(pre, Op{Op: "list", T: 2, K: 3})
	pre = append(pre, Op{Op: "list", T: 3, K: 0})
	return pre
}

func mk(name string, t, a, b, k int) Op {
	kd := kindOf[name]
	if kd.place {
		// the place is the argument
		t = a
	}
	return Op{Op: name, T: t, A: a, B: b, K: k, J: 1}
}

func gen(r *rand.Rand, i int, tier string) Case {
	n := len(pairOps)
	if i < pairBlock() {
		k := pairVarK[i%len(pairVarK)]
		i /= len(pairVarK)
		grow := i % growKinds
		i /= growKinds
		pat := i % pairPatterns
		i /= pairPatterns
		p, q := pairOps[i/n], pairOps[i%n]
		var ops []Op
		switch pat {
		case 0: // the result of P is processed in place; la, lb, lc watch
			ops = []Op{mk(p, 3, 0, 2, k), mk(q, 3, 3, 2, k)}
		case 1: // the source of P is processed afterwards; ld, lb watch
			ops = []Op{mk(p, 3, 0, 2, k), mk(q, 0, 0, 2, k)}
		case 2: // result and source combined into a third list
			ops = []Op{mk(p, 3, 0, 2, k), mk(q, 2, 3, 0, k)}
		case 3: // same variable as both arguments, then the tail alias is processed
			ops = []Op{mk(p, 0, 0, 0, k), mk(q, 3, 1, 2, k)}
		case 4: // the result replaces the source; the tail alias watches and is processed
			ops = []Op{mk(p, 0, 0, 2, k), mk(q, 3, 1, 0, k)}
		default: // the tail alias is the argument; then the whole list is processed with the result
			ops = []Op{mk(p, 3, 1, 2, k), mk(q, 2, 0, 3, k)}
		}
		return Case{Pre: basePre(grow), Ops: ops, Route: []string{"", "let", "lambda"}[(i+pat)%3]}
	}
	i -= pairBlock()
	if tier == "thorough" && i < tripleBlock() {
		grow := i % growKinds
		i /= growKinds
		pat := i % triplePatterns
		i /= triplePatterns
		p, q, s := pairOps[i/(n*n)], pairOps[(i/n)%n], pairOps[i%n]
		var ops []Op
		if pat == 0 {
			ops = []Op{mk(p, 3, 0, 2, 1), mk(q, 2, 3, 2, 2), mk(s, 3, 3, 2, 1)}
		} else {
			ops = []Op{mk(p, 3, 0, 2, 1), mk(q, 0, 0, 3, 1), mk(s, 2, 1, 3, 2)}
		}
		return Case{Pre: basePre(grow), Ops: ops, Route: []string{"", "let", "lambda"}[(i+pat)%3]}
	}
	return randomCase(r)
}

func pickKind(r *rand.Rand) *kind {
	w := r.IntN(totalW)
	for i := range kinds {
		if w < kinds[i].weight {
			return &kinds[i]
		}
		w -= kinds[i].weight
	}
	return &kinds[0]
}

func randomCase(r *rand.Rand) Case {
	var c Case
	for v := 0; v < nv; v++ {
		if 0 < v && r.IntN(100) < 45 {
			// an alias of an earlier variable
			src := r.IntN(v)
			switch r.IntN(6) {
			case 0, 1:
				c.Pre = append(c.Pre, Op{Op: "alias", T: v, A: src})
			case 2:
				c.Pre = append(c.Pre, Op{Op: "cdr", T: v, A: src})
			case 3:
				c.Pre = append(c.Pre, Op{Op: "nthcdr", T: v, A: src, K: r.IntN(8)})
			case 4:
				c.Pre = append(c.Pre, Op{Op: "last", T: v, A: src, K: r.IntN(8)})
			default:
				c.Pre = append(c.Pre, Op{Op: "member", T: v, A: src, K: r.IntN(8)})
			}
			continue
		}
		n := []int{0, 1, 2, 3, 3, 4, 4, 5, 5, 5}[r.IntN(10)]
		switch k := r.IntN(100); {
		case k < 35:
			c.Pre = append(c.Pre, Op{Op: "list", T: v, K: n})
		case k < 50:
			c.Pre = append(c.Pre, Op{Op: "quote", T: v, K: n})
		case k < 85: // grown by add: spare capacity behind the end
			c.Pre = append(c.Pre, Op{Op: "list", T: v, K: 0})
			extra := r.IntN(3)
			for j := 0; j < n+extra; j++ {
				c.Pre = append(c.Pre, Op{Op: "add", T: v, A: v})
			}
			for j := 0; j < extra; j++ {
				// shortened again
				switch r.IntN(3) {
				case 0:
					c.Pre = append(c.Pre, Op{Op: "pop", T: v, A: v})
				case 1:
					c.Pre = append(c.Pre, Op{Op: "butlast1", T: v, A: v})
				default:
					c.Pre = append(c.Pre, Op{Op: "cdr", T: v, A: v})
				}
			}
		default: // grown by push
			c.Pre = append(c.Pre, Op{Op: "list", T: v, K: 0})
			for j := 0; j < n; j++ {
				c.Pre = append(c.Pre, Op{Op: "push", T: v, A: v})
			}
		}
	}
	nops := []int{1, 2, 3, 3, 4, 4, 5, 5, 6, 6, 6, 6}[r.IntN(12)]
	for j := 0; j < nops; j++ {
		kd := pickKind(r)
		op := Op{Op: kd.name, T: r.IntN(nv), A: r.IntN(nv), K: r.IntN(8), J: r.IntN(8)}
		if kd.binary {
			op.B = r.IntN(nv)
		}
		if kd.place {
			op.A = op.T
		}
		if kd.name == "list" || kd.name == "quote" {
			op.K = r.IntN(6)
		}
		c.Ops = append(c.Ops, op)
	}
	if r.IntN(4) == 0 {
		c.Mode = "compiled"
	}
	c.Route = []string{"", "", "let", "lambda"}[r.IntN(4)]
	return c
}

// ---------------------------------------------------------------- monitor

type vstate struct {
	shown string // harness rendering of the current value
	el    []int  // elements when the value is a proper list of fixnums
	ok    bool   // el is valid
	class int    // cons-cell sharing class (0: never had a cons cell)
	via   string // operation that allocated the cells of the value (by the language rules)
	birth int    // step of that allocation
}

type world struct {
	x     *fw.Ctx
	scope *slip.Scope
	mode  string
	v     [nv]vstate
	uf    []int // union-find parent over sharing classes; index 0 unused
	step  int
	prog  []string
	dead  bool // an evaluation failed; the state is no longer meaningful
	// hidden: operations whose result was seen to occupy the same backing
	// array as a variable of another sharing class. Used only to NAME the
	// culprit in a signature; the verdict itself is the observed change.
	hidden []hiddenAlias
	trace  [][nv]string // stepwise observations after every executed operation
	opAt   []string     // operation of each executed step
}

type hiddenAlias struct {
	c1, c2 int
	op     string
}

// span gives the address range of the backing array reachable from a list value.
func (w *world) span(i int) (lo, hi uintptr, ok bool) {
	var obj slip.Object
	if err := sl.Catch(func() { obj = w.scope.Get(slip.Symbol(names[i])) }); err != nil {
		return 0, 0, false
	}
	list, isList := obj.(slip.List)
	if !isList || cap(list) == 0 {
		return 0, 0, false
	}
	lo = uintptr(unsafe.Pointer(unsafe.SliceData(list)))
	return lo, lo + uintptr(cap(list))*unsafe.Sizeof(slip.Object(nil)), true
}

// sigName maps an operation variant to the function it exercises.
func sigName(op string) string {
	switch op {
	case "butlast1":
		return "butlast"
	case "last1":
		return "last"
	case "subseq-noend":
		return "subseq"
	case "add2":
		return "add"
	case "append1":
		return "append"
	case "remove-count":
		return "remove"
	case "mapcar2":
		return "mapcar"
	case "sort<", "sort>", "sort-default":
		return "sort"
	case "remove-dup":
		return "remove-duplicates"
	case "delete-dup":
		return "delete-duplicates"
	}
	return op
}

func (w *world) blame(cd, ci int, fallback string) string {
	cd, ci = w.find(cd), w.find(ci)
	for _, h := range w.hidden {
		a, b := w.find(h.c1), w.find(h.c2)
		if (a == cd && b == ci) || (a == ci && b == cd) {
			return h.op
		}
	}
	return fallback
}

func (w *world) find(c int) int {
	for c != 0 && w.uf[c] != c {
		w.uf[c] = w.uf[w.uf[c]]
		c = w.uf[c]
	}
	return c
}

func (w *world) newClass() int {
	w.uf = append(w.uf, len(w.uf))
	return len(w.uf) - 1
}

func (w *world) union(a, b int) int {
	a, b = w.find(a), w.find(b)
	switch {
	case a == 0:
		return b
	case b == 0 || a == b:
		return a
	}
	w.uf[b] = a
	return a
}

func render(el []int) string {
	if len(el) == 0 {
		return "nil"
	}
	var b strings.Builder
	b.WriteByte('(')
	for i, e := range el {
		if 0 < i {
			b.WriteByte(' ')
		}
		b.WriteString(strconv.Itoa(e))
	}
	b.WriteByte(')')
	return b.String()
}

func (w *world) observe(i int) (shown string, el []int, ok bool) {
	var obj slip.Object
	if err := sl.Catch(func() { obj = w.scope.Get(slip.Symbol(names[i])) }); err != nil {
		return "#<unreadable: " + err.String() + ">", nil, false
	}
	shown = sl.Show(obj)
	switch to := obj.(type) {
	case nil:
		return shown, nil, true
	case slip.List:
		el = make([]int, len(to))
		for k, e := range to {
			f, isFix := e.(slip.Fixnum)
			if !isFix {
				return shown, nil, false
			}
			el[k] = int(f)
		}
		return shown, el, true
	}
	return shown, nil, false
}

func cat(xs ...[]int) []int {
	out := []int{}
	for _, x := range xs {
		out = append(out, x...)
	}
	return out
}

func nums(el []int) string {
	var b strings.Builder
	for _, e := range el {
		b.WriteByte(' ')
		b.WriteString(strconv.Itoa(e))
	}
	return b.String()
}

func isPrefix(old, nw []int) bool {
	if len(nw) < len(old) {
		return false
	}
	for i, e := range old {
		if nw[i] != e {
			return false
		}
	}
	return true
}

// plan resolves an operation against the observed contents and gives the
// program text and the reference result for the target variable.
func (w *world) plan(op Op, kd *kind) (src string, want []int, skip string) {
	T := names[op.T]
	A := names[op.A]
	B := names[op.B]
	a := w.v[op.A].el
	b := w.v[op.B].el
	n := len(a)
	fresh := func(j int) int { return 100 + 10*w.step + j }
	setq := func(form string) string { return "(setq " + T + " " + form + ")" }
	if !w.v[op.A].ok || (kd.binary && !w.v[op.B].ok) {
		return "", nil, "argument is not a proper list of fixnums"
	}
	sameCells := func() bool {
		ca, cb := w.find(w.v[op.A].class), w.find(w.v[op.B].class)
		return ca != 0 && ca == cb
	}
	item := func() int {
		if k := op.K % (n + 1); k < n {
			return a[k]
		}
		return 7 // not an element: every element is >= 100
	}
	without := func(pred func(i, e int) bool) []int {
		out := []int{}
		for i, e := range a {
			if !pred(i, e) {
				out = append(out, e)
			}
		}
		return out
	}
	laterDup := func(i, e int) bool {
		for _, l := range a[i+1:] {
			if l == e {
				return true
			}
		}
		return false
	}
	switch op.Op {
	case "list", "quote":
		k := op.K % 6
		for j := 0; j < k; j++ {
			want = append(want, fresh(j))
		}
		if op.Op == "list" {
			return setq("(list" + nums(want) + ")"), want, ""
		}
		return setq("'(" + strings.TrimSpace(nums(want)) + ")"), want, ""
	case "alias":
		return setq(A), a, ""
	case "cons":
		return setq(fmt.Sprintf("(cons %d %s)", fresh(0), A)), cat([]int{fresh(0)}, a), ""
	case "list*":
		return setq(fmt.Sprintf("(list* %d %d %s)", fresh(0), fresh(1), A)), cat([]int{fresh(0), fresh(1)}, a), ""
	case "append":
		return setq(fmt.Sprintf("(append %s %s)", A, B)), cat(a, b), ""
	case "append1":
		return setq(fmt.Sprintf("(append %s)", A)), a, ""
	case "cdr", "rest":
		if n == 0 {
			return setq("(" + op.Op + " " + A + ")"), nil, ""
		}
		return setq("(" + op.Op + " " + A + ")"), a[1:], ""
	case "nthcdr":
		k := op.K % (n + 2)
		if n < k {
			return setq(fmt.Sprintf("(nthcdr %d %s)", k, A)), nil, ""
		}
		return setq(fmt.Sprintf("(nthcdr %d %s)", k, A)), a[k:], ""
	case "last":
		k := op.K % (n + 2)
		if n < k {
			return setq(fmt.Sprintf("(last %s %d)", A, k)), a, ""
		}
		return setq(fmt.Sprintf("(last %s %d)", A, k)), a[n-k:], ""
	case "last1":
		if n == 0 {
			return setq("(last " + A + ")"), nil, ""
		}
		return setq("(last " + A + ")"), a[n-1:], ""
	case "butlast":
		k := op.K % (n + 2)
		if n <= k {
			return setq(fmt.Sprintf("(butlast %s %d)", A, k)), nil, ""
		}
		return setq(fmt.Sprintf("(butlast %s %d)", A, k)), a[:n-k], ""
	case "butlast1":
		if n == 0 {
			return setq("(butlast " + A + ")"), nil, ""
		}
		return setq("(butlast " + A + ")"), a[:n-1], ""
	case "subseq":
		if n == 0 {
			return "", nil, "avoided:subseq-of-empty-list"
		}
		s := op.K % (n + 1)
		e := s + op.J%(n-s+1)
		return setq(fmt.Sprintf("(subseq %s %d %d)", A, s, e)), a[s:e], ""
	case "subseq-noend":
		if n == 0 {
			return "", nil, "avoided:subseq-of-empty-list"
		}
		s := op.K % (n + 1)
		return setq(fmt.Sprintf("(subseq %s %d)", A, s)), a[s:], ""
	case "copy-list":
		return setq("(copy-list " + A + ")"), a, ""
	case "reverse", "nreverse":
		for i := n - 1; 0 <= i; i-- {
			want = append(want, a[i])
		}
		return setq("(" + op.Op + " " + A + ")"), want, ""
	case "remove", "delete":
		it := item()
		return setq(fmt.Sprintf("(%s %d %s)", op.Op, it, A)), without(func(_, e int) bool { return e == it }), ""
	case "remove-count":
		it := item()
		done := false
		return setq(fmt.Sprintf("(remove %d %s :count 1)", it, A)), without(func(_, e int) bool {
			if e == it && !done {
				done = true
				return true
			}
			return false
		}), ""
	case "remove-if", "delete-if":
		pred := []string{"evenp", "oddp"}[op.K%2]
		return setq(fmt.Sprintf("(%s '%s %s)", op.Op, pred, A)), without(func(_, e int) bool { return (e%2 == 0) == (pred == "evenp") }), ""
	case "remove-dup":
		return setq("(remove-duplicates " + A + ")"), without(laterDup), ""
	case "delete-dup":
		return setq("(delete-duplicates " + A + ")"), without(laterDup), ""
	case "member":
		it := item()
		for i, e := range a {
			if e == it {
				return setq(fmt.Sprintf("(member %d %s)", it, A)), a[i:], ""
			}
		}
		return setq(fmt.Sprintf("(member %d %s)", it, A)), nil, ""
	case "mapcar":
		if n == 0 {
			return "", nil, "avoided:mapcar-on-empty-list"
		}
		for _, e := range a {
			want = append(want, e+1)
		}
		if op.K%2 == 0 {
			return setq("(mapcar '1+ " + A + ")"), want, ""
		}
		return setq("(mapcar (lambda (x) (+ x 1)) " + A + ")"), want, ""
	case "mapcar2":
		if n == 0 || len(b) == 0 {
			return "", nil, "avoided:mapcar-on-empty-list"
		}
		for i := 0; i < n && i < len(b); i++ {
			want = append(want, a[i]+b[i])
		}
		return setq(fmt.Sprintf("(mapcar '+ %s %s)", A, B)), want, ""
	case "push":
		return fmt.Sprintf("(push %d %s)", fresh(0), T), cat([]int{fresh(0)}, a), ""
	case "pop":
		if n == 0 {
			return "(pop " + T + ")", nil, ""
		}
		return "(pop " + T + ")", a[1:], ""
	case "setf-car", "setf-first":
		if n == 0 {
			return "", nil, "empty place"
		}
		fn := strings.TrimPrefix(op.Op, "setf-")
		return fmt.Sprintf("(setf (%s %s) %d)", fn, T, fresh(0)), cat([]int{fresh(0)}, a[1:]), ""
	case "setf-nth", "setf-elt":
		if n == 0 {
			return "", nil, "empty place"
		}
		k := op.K % n
		want = cat(a)
		want[k] = fresh(0)
		if op.Op == "setf-nth" {
			return fmt.Sprintf("(setf (nth %d %s) %d)", k, T, fresh(0)), want, ""
		}
		return fmt.Sprintf("(setf (elt %s %d) %d)", T, k, fresh(0)), want, ""
	case "rplaca":
		if n == 0 {
			return "", nil, "empty list"
		}
		return setq(fmt.Sprintf("(rplaca %s %d)", A, fresh(0))), cat([]int{fresh(0)}, a[1:]), ""
	case "rplacd":
		if n == 0 {
			return "", nil, "empty list"
		}
		if sameCells() {
			return "", nil, "would be circular"
		}
		return setq(fmt.Sprintf("(rplacd %s %s)", A, B)), cat(a[:1], b), ""
	case "nconc":
		if n != 0 && sameCells() {
			return "", nil, "would be circular"
		}
		return setq(fmt.Sprintf("(nconc %s %s)", A, B)), cat(a, b), ""
	case "add":
		return setq(fmt.Sprintf("(add %s %d)", A, fresh(0))), cat(a, []int{fresh(0)}), ""
	case "add2":
		return setq(fmt.Sprintf("(add %s %d %d)", A, fresh(0), fresh(1))), cat(a, []int{fresh(0), fresh(1)}), ""
	case "sort<", "sort>", "sort-default":
		want = cat(a)
		sort.Ints(want)
		switch op.Op {
		case "sort<":
			return setq("(sort " + A + " '<)"), want, ""
		case "sort>":
			sort.Sort(sort.Reverse(sort.IntSlice(want)))
			return setq("(sort " + A + " '>)"), want, ""
		}
		return setq("(sort " + A + ")"), want, ""
	}
	panic("unknown operation " + op.Op)
}

func (w *world) stepOp(op Op, phase string) {
	x := w.x
	kd := kindOf[op.Op]
	if kd == nil || op.T < 0 || nv <= op.T || op.A < 0 || nv <= op.A || op.B < 0 || nv <= op.B {
		panic(fmt.Sprintf("malformed operation %+v", op))
	}
	if kd.place {
		op.A = op.T
	}
	w.step++
	src, want, skip := w.plan(op, kd)
	if skip != "" {
		if strings.HasPrefix(skip, "avoided:") {
			x.Cover(skip)
		} else {
			x.Cover("skipped:" + skip)
		}
		return
	}
	w.prog = append(w.prog, src)
	before := w.v
	var err *sl.Err
	if w.mode == "compiled" {
		_, err = sl.EvalCompiled(w.scope, src)
	} else {
		_, err = sl.Eval(w.scope, src)
	}
	x.Cover(phase + ":" + op.Op)
	if err != nil {
		k := "error"
		if err.Internal {
			k = "internal-fault"
		}
		x.Fail(k+" op="+sigName(op.Op), "%s => %s (reference result %s)\nhistory: %s", src, err, render(want), strings.Join(w.prog, " "))
		w.dead = true
		return
	}
	// re-read every variable
	for i := 0; i < nv; i++ {
		w.v[i].shown, w.v[i].el, w.v[i].ok = w.observe(i)
	}
	x.CoverN("observed-variable-values", nv)
	var snap [nv]string
	for i := 0; i < nv; i++ {
		snap[i] = w.v[i].shown
	}
	w.trace = append(w.trace, snap)
	w.opAt = append(w.opAt, op.Op)

	// the destructively processed class (0: nothing may change)
	dclass := 0
	if kd.dest && !(op.Op == "nconc" && len(before[op.A].el) == 0) {
		dclass = w.find(before[op.A].class)
	}
	hist := func() string { return strings.Join(w.prog, " ") }

	// (1) value oracle on the target
	if got := w.v[op.T].shown; got != render(want) {
		detail := ""
		switch {
		case op.Op == "rplacd" && len(before[op.B].el) == 0:
			detail = " cdr=nil"
		case op.Op == "list*" && len(before[op.A].el) == 0:
			detail = " tail=nil"
		case op.Op == "list*":
			detail = " tail=list"
		}
		x.Fail("value op="+sigName(op.Op)+detail, "%s bound %s to %s, the reference result from the observed arguments is %s\nhistory: %s",
			src, names[op.T], got, render(want), hist())
	} else {
		x.Cover("value-agreed")
	}
	// (2) frame rule on every other variable
	for i := 0; i < nv; i++ {
		if i == op.T {
			continue
		}
		changed := before[i].shown != w.v[i].shown
		shares := dclass != 0 && w.find(before[i].class) == dclass
		switch {
		case !kd.dest || dclass == 0:
			x.Cover("frame:non-destructive-checked")
			if changed {
				x.Fail("frame op="+sigName(op.Op), "%s is not destructive but changed %s from %s to %s\nhistory: %s",
					src, names[i], before[i].shown, w.v[i].shown, hist())
			}
		case !shares:
			if 0 < len(before[i].el) {
				x.Cover("frame:destructive-unrelated-checked")
			} else {
				x.Cover("frame:destructive-unrelated-empty")
			}
			if changed {
				// blame the allocation that should have made the two lists independent
				via := before[op.A].via
				if before[op.A].birth < before[i].birth {
					via = before[i].via
				}
				via = w.blame(before[op.A].class, before[i].class, via)
				x.Fail("alias via="+sigName(via), "%s changed %s from %s to %s although %s shares no cons cell with %s by the language rules (%s holds a result of %s, %s a result of %s)\nhistory: %s",
					src, names[i], before[i].shown, w.v[i].shown, names[i], names[op.A],
					names[op.A], before[op.A].via, names[i], before[i].via, hist())
			}
		case kd.ext:
			x.Cover("frame:extension-sharing-checked")
			if changed && !(before[i].ok && w.v[i].ok && isPrefix(before[i].el, w.v[i].el)) {
				x.Fail("overwrite op="+sigName(op.Op), "%s extends %s but overwrote elements reachable from %s: %s became %s\nhistory: %s",
					src, names[op.A], names[i], before[i].shown, w.v[i].shown, hist())
			}
		default:
			x.Cover("frame:destructive-sharing-exempt")
			if changed {
				x.Cover("sharing-variable-changed")
			}
		}
	}

	// (3) step the sharing model
	res := &w.v[op.T]
	srcA, srcB := before[op.A], before[op.B]
	inherit := func(s vstate) {
		res.class, res.via, res.birth = s.class, s.via, s.birth
		if w.find(res.class) == 0 {
			res.class = 0
			if 0 < len(want) {
				res.class, res.via, res.birth = w.newClass(), op.Op, w.step
			}
		}
	}
	switch kd.share {
	case shFresh:
		res.class, res.via, res.birth = 0, op.Op, w.step
		if 0 < len(want) {
			res.class = w.newClass()
		}
	case shA:
		inherit(srcA)
	case shB:
		inherit(srcB)
	case shAB:
		if op.Op == "nconc" && len(srcA.el) == 0 {
			inherit(srcB)
			break
		}
		// the younger allocation names the merged class
		young := srcA
		if srcA.birth < srcB.birth {
			young = srcB
		}
		m := w.union(srcA.class, srcB.class)
		inherit(vstate{class: m, via: young.via, birth: young.birth})
	}
	if kd.dest {
		x.Cover("destructive-ops")
	}
	// name-only bookkeeping: does the new value of the target occupy the
	// backing array of a variable it shares no cons cell with?
	if lo, hi, ok := w.span(op.T); ok {
		ct := w.find(res.class)
		for i := 0; i < nv; i++ {
			if i == op.T || w.find(w.v[i].class) == ct {
				continue
			}
			if l2, h2, ok2 := w.span(i); ok2 && lo < h2 && l2 < hi {
				w.hidden = append(w.hidden, hiddenAlias{c1: res.class, c2: w.v[i].class, op: op.Op})
				x.Cover("hidden-backing-array-sharing-seen")
			}
		}
	}
}

// snaps collects what the snapshot builtin saw during one single-form run.
var snaps [][nv]string

type snapFn struct {
	slip.Function
}

func (f *snapFn) Call(s *slip.Scope, args slip.List, depth int) slip.Object {
	var snap [nv]string
	for i := 0; i < nv && i < len(args); i++ {
		snap[i] = sl.Show(args[i])
	}
	snaps = append(snaps, snap)
	return nil
}

func initWorker() {
	slip.Define(
		func(args slip.List) slip.Object {
			f := snapFn{Function: slip.Function{Name: "c06-snap", Args: args}}
			f.Self = &f
			return &f
		},
		&slip.FuncDoc{
			Name:   "c06-snap",
			Args:   []*slip.DocArg{{Name: "&rest"}, {Name: "lists", Type: "object"}},
			Return: "nil",
			Text:   "verification harness: records a rendering of the arguments",
		}, &slip.UserPkg)
}

// reroute runs the program of the stepwise run again as a single form and
// compares the state after every operation with the stepwise observation.
func (w *world) reroute(route string) {
	x := w.x
	snapCall := " (c06-snap " + strings.Join(names[:], " ") + ") "
	body := strings.Join(w.prog, snapCall) + snapCall
	var src string
	if route == "let" {
		src = "(let ((la nil) (lb nil) (lc nil) (ld nil)) " + body + ")"
	} else {
		src = "(funcall (lambda (la lb lc ld) " + body + ") nil nil nil nil)"
	}
	snaps = snaps[:0]
	var err *sl.Err
	if w.mode == "compiled" {
		_, err = sl.EvalCompiled(slip.NewScope(), src)
	} else {
		_, err = sl.Eval(slip.NewScope(), src)
	}
	x.Cover("route:" + route)
	if err != nil {
		x.Fail("route="+route+" error", "the history that ran stepwise fails as one form: %s => %s", src, err)
		return
	}
	if len(snaps) != len(w.trace) {
		x.Fail("route="+route+" snapshots", "%d snapshots for %d operations: %s", len(snaps), len(w.trace), src)
		return
	}
	for k := range snaps {
		if snaps[k] != w.trace[k] {
			x.Fail("route="+route+" op="+sigName(w.opAt[k]), "after %s the %s-bound variables hold %v, the stepwise run saw %v\nprogram: %s",
				w.prog[k], route, snaps[k], w.trace[k], src)
			return
		}
	}
	x.CoverN("route-states-agreed", len(snaps))
}

func exec(x *fw.Ctx, c Case) {
	w := &world{x: x, scope: slip.NewScope(), mode: c.Mode, uf: []int{0}}
	for i := 0; i < nv; i++ {
		w.scope.Let(slip.Symbol(names[i]), nil)
		w.v[i] = vstate{shown: "nil", ok: true, via: "nil"}
	}
	if 6 < len(c.Ops) {
		panic("history longer than 6")
	}
	for _, op := range c.Pre {
		if w.dead {
			break
		}
		w.stepOp(op, "pre")
	}
	executed := len(w.prog)
	for _, op := range c.Ops {
		if w.dead {
			break
		}
		w.stepOp(op, "op")
	}
	executed = len(w.prog) - executed
	x.Cover(fmt.Sprintf("history-length:%d", executed))
	if c.Mode != "" {
		x.Cover("mode:" + c.Mode)
	}
	final := map[string]string{}
	live := 0
	classes := map[int]bool{}
	for i := 0; i < nv; i++ {
		final[names[i]] = w.v[i].shown
		if 0 < len(w.v[i].el) {
			live++
			classes[w.find(w.v[i].class)] = true
		}
	}
	x.Observe(map[string]any{"program": w.prog, "final": final})
	if c.Route != "" && !w.dead && 0 < len(w.prog) {
		w.reroute(c.Route)
	}
	if executed == 0 || live < 2 {
		x.Trivial()
		return
	}
	if len(classes) < live {
		x.Cover("histories-with-sharing-variables")
	}
	x.SetHash(fw.Hash64([]byte(strings.Join(w.prog, "\n") + "|" + c.Mode)))
}

func init() {
	fw.Register(fw.Spec[Case]{
		ID: "C06",
		Rule: "history = pool construction (list / quoted literal / grown by add or push, optionally shortened again, or alias / cdr / nthcdr / last / member of an earlier variable) " +
			"followed by <= 6 operations over 4 named lists; first block = every ordered pair of the 41 operations x 6 aliasing patterns x {exact-capacity, spare-capacity} pool x 2 selector values (exhaustive); " +
			"thorough adds every ordered triple x 2 patterns x 2 pools; then seeded random histories (any variable as target and as either argument). " +
			"distinct = distinct program text; non-trivial = at least one operation ran and at least two variables hold non-empty lists at the end. " +
			"never generated: mapcar and subseq on an empty list (they signal a type-error, C14's concern); nothing else is avoided",
		N:     nCases,
		Gen:   gen,
		Exec:  exec,
		Init:  initWorker,
		Batch: 4000,
		Assumptions: []string{
			"the value oracle is computed from the observed contents of the arguments, the frame rule from a sharing model (union-find over allocation classes) that over-approximates cons-cell sharing under ANSI CL rules",
			"remove/remove-if/remove-duplicates results are treated as fresh (the property's 'independent of its arguments'); CL would also allow sharing",
			"elements are fixnums only; dotted lists and nested lists are not generated",
			"variables are re-read through Scope.Get and rendered by the harness printer",
			"route cases: the same program text is re-run as one let/lambda form and a Go builtin (c06-snap) renders the variables after every operation; both runs must agree",
		},
	})
}
