package c06

import (
	"fmt"
	"strconv"
	"strings"
)

// The higher-order route: a list function is not called directly but THROUGH
// mapcar / map / map-into / mapcan / reduce / apply / funcall. Callers of that
// kind hand the function an argument buffer they may reuse for the next call,
// so "the list it returns is independent of the results of other calls" is a
// separate obligation: every row of one result must be its own object.

// hoFn describes a list function as a row function.
type hoFn struct {
	name  string // signature and cover name
	fn    string // the function designator in the program
	shape string // u: (row)  xr: (number row)  kr: (k row)  rk: (row k)  rr: (row row)  xx: (number number)
	fresh bool   // by the language rules the result shares no cons cell with a row argument
}

var hoFns = []hoFn{
	{name: "copy-list", fn: "copy-list", shape: "u", fresh: true},
	{name: "copy-seq", fn: "copy-seq", shape: "u", fresh: true},
	{name: "reverse", fn: "reverse", shape: "u", fresh: true},
	{name: "butlast", fn: "butlast", shape: "u", fresh: true},
	{name: "remove-duplicates", fn: "remove-duplicates", shape: "u", fresh: true},
	{name: "cdr", fn: "cdr", shape: "u"},
	{name: "rest", fn: "rest", shape: "u"},
	{name: "last", fn: "last", shape: "u"},
	{name: "cons", fn: "cons", shape: "xr"},
	{name: "list*", fn: "list*", shape: "xr"},
	{name: "remove", fn: "remove", shape: "xr", fresh: true},
	{name: "member", fn: "member", shape: "xr"},
	{name: "nthcdr", fn: "nthcdr", shape: "kr"},
	{name: "butlast-n", fn: "butlast", shape: "rk", fresh: true},
	{name: "last-n", fn: "last", shape: "rk"},
	{name: "subseq", fn: "subseq", shape: "rk", fresh: true},
	{name: "append", fn: "append", shape: "rr"},
	{name: "revappend", fn: "revappend", shape: "rr"},
	{name: "list", fn: "list", shape: "xx", fresh: true},
}

var hoCallers = []string{"mapcar", "map-list", "map-into", "mapcan", "reduce", "apply", "funcall"}

func hoFnByName(name string) *hoFn {
	for i := range hoFns {
		if hoFns[i].name == name {
			return &hoFns[i]
		}
	}
	return nil
}

// hoCompatible tells which (function, caller) combinations are generated.
func hoCompatible(f *hoFn, h string) bool {
	switch h {
	case "mapcar", "map-list", "map-into":
		return true
	case "mapcan":
		// mapcan splices the results destructively: only results that are new lists
		return f.fresh
	case "reduce":
		return f.name == "append" || f.name == "cons"
	case "apply":
		return f.name == "append" || f.name == "cons" || f.name == "list*" || f.name == "list"
	case "funcall":
		return f.shape == "u" || f.shape == "xr"
	}
	return false
}

// hoPairs lists every generated (function, caller) combination in a fixed order.
var hoPairs [][2]string

func init() {
	for i := range hoFns {
		for _, h := range hoCallers {
			if hoCompatible(&hoFns[i], h) {
				hoPairs = append(hoPairs, [2]string{hoFns[i].name, h})
			}
		}
	}
}

// rowResult is the reference result of one call of the row function.
type rowResult struct {
	out []int
	// by the language rules out shares cons cells with this argument row from
	// position srcFrom of the row on, and position ownLen of out on (-1: nothing shared)
	src     *el
	srcFrom int
	ownLen  int
}

func ints(xs []int) string {
	var parts []string
	for _, x := range xs {
		parts = append(parts, strconv.Itoa(x))
	}
	return strings.Join(parts, " ")
}

func revInts(xs []int) []int {
	out := make([]int, 0, len(xs))
	for i := len(xs) - 1; 0 <= i; i-- {
		out = append(out, xs[i])
	}
	return out
}

// callRow is the reference semantics of the row functions.
func callRow(f *hoFn, x int, k int, r1, r2 *el) rowResult {
	none := func(out []int) rowResult { return rowResult{out: out, ownLen: -1} }
	tail := func(r *el, from int) rowResult {
		if len(r.sub) <= from {
			return none(nil)
		}
		return rowResult{out: r.sub[from:], src: r, srcFrom: from, ownLen: 0}
	}
	switch f.name {
	case "copy-list", "copy-seq":
		return none(append([]int{}, r1.sub...))
	case "reverse":
		return none(revInts(r1.sub))
	case "butlast":
		if len(r1.sub) == 0 {
			return none(nil)
		}
		return none(append([]int{}, r1.sub[:len(r1.sub)-1]...))
	case "remove-duplicates":
		var out []int
		for i, e := range r1.sub {
			dup := false
			for _, l := range r1.sub[i+1:] {
				dup = dup || l == e
			}
			if !dup {
				out = append(out, e)
			}
		}
		return none(out)
	case "cdr", "rest":
		return tail(r1, 1)
	case "last":
		if len(r1.sub) == 0 {
			return none(nil)
		}
		return tail(r1, len(r1.sub)-1)
	case "cons", "list*":
		return rowResult{out: append([]int{x}, r1.sub...), src: r1, srcFrom: 0, ownLen: 1}
	case "remove":
		var out []int
		for _, e := range r1.sub {
			if e != x {
				out = append(out, e)
			}
		}
		return none(out)
	case "member":
		for i, e := range r1.sub {
			if e == x {
				return tail(r1, i)
			}
		}
		return none(nil)
	case "nthcdr":
		return tail(r1, k)
	case "butlast-n":
		if len(r1.sub) <= k {
			return none(nil)
		}
		return none(append([]int{}, r1.sub[:len(r1.sub)-k]...))
	case "last-n":
		if len(r1.sub) <= k {
			return tail(r1, 0)
		}
		return tail(r1, len(r1.sub)-k)
	case "subseq":
		return none(append([]int{}, r1.sub[k:]...))
	case "append":
		return rowResult{out: append(append([]int{}, r1.sub...), r2.sub...), src: r2, srcFrom: 0, ownLen: len(r1.sub)}
	case "revappend":
		return rowResult{out: append(revInts(r1.sub), r2.sub...), src: r2, srcFrom: 0, ownLen: len(r1.sub)}
	}
	panic("unknown row function " + f.name)
}

// planHO plans one call of a list function through a higher-order function.
func (w *world) planHO(op Op, fresh func() int, newID func() int) (p planned) {
	f := hoFnByName(op.F)
	if f == nil || !hoCompatible(f, op.H) {
		panic(fmt.Sprintf("malformed higher-order operation %+v", op))
	}
	T, A, B := names[op.T], names[op.A], names[op.B]
	a, b := w.v[op.A].el, w.v[op.B].el
	skip := func(why string) planned { return planned{skip: why} }
	label := op.H + " fn=" + f.name
	if op.H == "map-list" {
		label = "map fn=" + f.name
	}
	fnq := "#'" + f.fn

	// the argument lists of the mapping forms
	var n int       // number of calls
	var lits string // a quoted list of small numbers for the k argument
	var xs, r1s, r2s val
	k := func(i int, r el) int { return (op.K + i) % (len(r.sub) + 1) }
	switch f.shape {
	case "u", "rk", "kr":
		if !a.allRows() {
			return skip("ho: the argument is not a list of sub-lists")
		}
		r1s, n = a, len(a)
		var ks []string
		for i, r := range a {
			ks = append(ks, strconv.Itoa(k(i, r)))
		}
		lits = "'(" + strings.Join(ks, " ") + ")"
	case "xr":
		if !a.allInts() || !b.allRows() {
			return skip("ho: the arguments are not a list of numbers and a list of sub-lists")
		}
		xs, r1s, n = a, b, min(len(a), len(b))
	case "rr":
		if !a.allRows() || !b.allRows() {
			return skip("ho: the arguments are not lists of sub-lists")
		}
		r1s, r2s, n = a, b, min(len(a), len(b))
	case "xx":
		if !a.allInts() || !b.allInts() {
			return skip("ho: the arguments are not lists of numbers")
		}
		n = min(len(a), len(b))
	}
	var argText string
	switch f.shape {
	case "u":
		argText = A
	case "rk":
		argText = A + " " + lits
	case "kr":
		argText = lits + " " + A
	default:
		argText = A + " " + B
	}

	// rows: the reference results of the n calls, as elements with new identities
	var rows val
	var results []rowResult
	call := func(i int) rowResult {
		var x, kk int
		var r1, r2 *el
		if xs != nil {
			x = xs[i].v
		}
		if r1s != nil {
			r1 = &r1s[i]
			kk = k(i, r1s[i])
		}
		if r2s != nil {
			r2 = &r2s[i]
		}
		if f.shape == "xx" {
			return rowResult{out: []int{a[i].v, b[i].v}, ownLen: -1}
		}
		return callRow(f, x, kk, r1, r2)
	}
	for i := 0; i < n; i++ {
		rr := call(i)
		e := el{sub: append([]int{}, rr.out...)}
		if e.isCons() {
			e.id = newID()
		}
		rows = append(rows, e)
		results = append(results, rr)
	}
	// entangle: rows that share cells with an argument row by the language rules
	entangle := func() {
		mark := func(id, from int) {
			if id == 0 {
				return
			}
			if old, has := w.ent[id]; !has || from < old {
				w.ent[id] = from
			}
		}
		for i, rr := range results {
			if rr.src != nil && rr.ownLen != -1 && rows[i].isCons() {
				mark(rr.src.id, rr.srcFrom)
				mark(rows[i].id, rr.ownLen)
			}
		}
	}
	var flat val
	for _, r := range rows {
		for _, e := range r.sub {
			flat = append(flat, el{v: e})
		}
	}
	setq := func(form string, want val) planned {
		return planned{src: "(setq " + T + " " + form + ")", want: want, label: label}
	}

	switch op.H {
	case "mapcar":
		p = setq(fmt.Sprintf("(mapcar %s %s)", fnq, argText), rows)
		p.after = entangle
		return p
	case "map-list":
		if n == 0 {
			return skip("ho: nothing to map over")
		}
		p = setq(fmt.Sprintf("(map 'list %s %s)", fnq, argText), rows)
		p.after = entangle
		return p
	case "map-into":
		t := w.v[op.T].el
		usesB := f.shape != "u" && f.shape != "rk" && f.shape != "kr"
		if op.T == op.A || (usesB && op.T == op.B) || !w.v[op.T].ok || w.v[op.T].el.improper() ||
			w.sharing(op.T, op.A) || (usesB && w.sharing(op.T, op.B)) {
			return skip("ho: map-into into a list that shares cells with an argument")
		}
		m := min(n, len(t))
		if m == 0 {
			return skip("ho: nothing to map over")
		}
		want := cat(rows[:m], t[m:])
		results, rows = results[:m], rows[:m]
		p = planned{src: fmt.Sprintf("(map-into %s %s %s)", T, fnq, argText), want: want, label: label}
		p.dargs = []int{op.T}
		p.from = []int{op.T}
		p.after = entangle
		return p
	case "mapcan":
		if n == 0 {
			return skip("ho: nothing to map over")
		}
		return setq(fmt.Sprintf("(mapcan %s %s)", fnq, argText), flat)
	case "reduce":
		if f.name == "append" {
			if !a.allRows() || len(a) == 0 {
				return skip("ho: the argument is not a list of sub-lists")
			}
			var want val
			for _, r := range a {
				for _, e := range r.sub {
					want = append(want, el{v: e})
				}
			}
			return setq(fmt.Sprintf("(reduce #'append %s :from-end t :initial-value nil)", A), want)
		}
		// (reduce #'cons a :from-end t :initial-value nil) rebuilds a
		if len(a) == 0 {
			return skip("ho: nothing to reduce")
		}
		return setq(fmt.Sprintf("(reduce #'cons %s :from-end t :initial-value nil)", A), cat(a))
	case "apply":
		switch f.name {
		case "list":
			return setq(fmt.Sprintf("(apply #'list %s)", A), cat(a))
		case "append":
			if !a.allRows() {
				return skip("ho: the argument is not a list of sub-lists")
			}
			var want val
			for _, r := range a {
				for _, e := range r.sub {
					want = append(want, el{v: e})
				}
			}
			// the last list would be shared by the language rules: copied, so that the result is a variable's own
			return setq(fmt.Sprintf("(copy-list (apply #'append %s))", A), want)
		default: // cons, list*: the argument list is (number sub-list)
			if len(a) != 2 || a[0].sub != nil || a[1].sub == nil {
				return skip("ho: the argument is not (number sub-list)")
			}
			want := val{{v: a[0].v}}
			for _, e := range a[1].sub {
				want = append(want, el{v: e})
			}
			return setq(fmt.Sprintf("(copy-list (apply %s %s))", fnq, A), want)
		}
	case "funcall":
		rowsOf := a
		if f.shape == "xr" {
			rowsOf = b
		}
		at := rowsOf.subs()
		if !rowsOf.allRows() && len(at) == 0 || len(rowsOf) == 0 {
			return skip("ho: no sub-list element")
		}
		i := op.K % len(rowsOf)
		if rowsOf[i].sub == nil {
			if len(at) == 0 {
				return skip("ho: no sub-list element")
			}
			i = at[op.K%len(at)]
		}
		r := rowsOf[i]
		x := fresh()
		rr := callRow(f, x, 0, &r, nil)
		var want val
		for _, e := range rr.out {
			want = append(want, el{v: e})
		}
		argVar := op.A
		if f.shape == "xr" {
			argVar = op.B
		}
		rowArg := fmt.Sprintf("(nth %d %s)", i, names[argVar])
		form := fmt.Sprintf("(funcall %s %s)", fnq, rowArg)
		if f.shape == "xr" {
			form = fmt.Sprintf("(funcall %s %d %s)", fnq, x, rowArg)
		}
		if !f.fresh {
			form = "(copy-list " + form + ")"
		}
		return setq(form, want)
	}
	panic("unknown higher-order function " + op.H)
}

const (
	hoPatterns = 6
	hoFollow   = 6
)

func hoBlock() int { return len(hoPairs) * hoPatterns * hoFollow }

// hoCase builds case i of the deterministic higher-order block: function x
// higher-order function x sub-list length pattern x follow-up. la = three
// numbers, lb = three sub-lists (lengths by pattern), lc = three more
// sub-lists (or numbers, or a (number sub-list) argument list), ld = target.
func hoCase(i int) Case {
	follow := i % hoFollow
	i /= hoFollow
	pat := i % hoPatterns
	i /= hoPatterns
	f, h := hoFnByName(hoPairs[i][0]), hoPairs[i][1]
	pre := []Op{{Op: "list", T: 0, K: 3}, {Op: "rows", T: 1, K: 3, J: pat}}
	switch {
	case f.shape == "xx":
		pre = append(pre, Op{Op: "list", T: 2, K: 3})
	case h == "apply" && (f.name == "cons" || f.name == "list*"):
		pre = append(pre, Op{Op: "xrow", T: 2, J: pat})
	default:
		pre = append(pre, Op{Op: "rows", T: 2, K: 3, J: (pat + 1) % hoPatterns})
	}
	if h == "map-into" {
		pre = append(pre, Op{Op: "list", T: 3, K: 3})
	}
	ho := Op{Op: "ho", T: 3, F: f.name, H: h, K: pat}
	switch {
	case h == "apply" && (f.name == "cons" || f.name == "list*"):
		ho.A = 2
	case h == "reduce" && f.name == "cons":
		ho.A = 0
	case h == "apply" || h == "reduce":
		ho.A = 1
	case f.shape == "u" || f.shape == "rk" || f.shape == "kr":
		ho.A = 1
	case f.shape == "xr":
		ho.A, ho.B = 0, 1
	case f.shape == "rr":
		ho.A, ho.B = 1, 2
	default:
		ho.A, ho.B = 0, 2
	}
	ops := []Op{ho}
	switch follow {
	case 1: // two rows of the result are written into
		ops = append(ops, Op{Op: "setf-caar", T: 3, A: 3, K: 0}, Op{Op: "setf-caar", T: 3, A: 3, K: 1})
	case 2:
		ops = append(ops, Op{Op: "setf-sub-nth", T: 3, A: 3, K: 2, J: 1})
	case 3: // an argument row is written into
		ops = append(ops, Op{Op: "setf-caar", T: 1, A: 1, K: 1}, Op{Op: "rplaca-sub", T: 1, A: 1, K: 2})
	case 4: // a second call with the same arguments; its rows are written into
		second := ho
		second.T = 0
		ops = append(ops, second, Op{Op: "setf-caar", T: 0, A: 0, K: 0}, Op{Op: "setf-sub-nth", T: 0, A: 0, K: 1, J: 1})
	case 5: // the result is processed destructively at the top level
		ops = append(ops, Op{Op: "nreverse", T: 3, A: 3}, Op{Op: "add", T: 3, A: 3}, Op{Op: "add", T: 2, A: 3})
	}
	return Case{Pre: pre, Ops: ops, Route: routes[(i+pat+follow)%3]}
}
