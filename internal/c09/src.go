package c09

import (
	"fmt"
	"strings"

	"github.com/ohler55/slip"

	"verif/internal/fw"
	"verif/internal/sl"
)

// The src workload: hostile program texts that are read and evaluated as a
// user would type them (slip.ReadString + Code.Eval, and a second time
// through Code.Compile): misuse of special forms and definers, dotted forms,
// quasi-quote misuse, reader labels, names with the prefix of an unknown
// package, destructive functions applied to literal constants inside a loop,
// and deeply nested (circular-free) programs. The only question asked is the
// property's: value or condition, never a host fault, a dead process or a
// hang.

var srcLiteral = []string{
	// quasi-quote misuse
	"`(a ,@1)", "`(a ,@'(1 . 2))", "`(,@)", "`,", "`,@", "``(a ,,b)", "``(a ,,@b)", "`(a . ,@'(1))", ",a", ",@a", "`#(1 ,@'(2 3))", "`#(1 ,@2)",
	"`(a ,(values))", "`(,@(values))", "`(a ,@nil . b)", "'`,", "(backquote)", "(backquote 1 2)", "(comma 1)", "(comma-at 1)", "(backquote (comma))",
	"(backquote (comma-at))", "(eval '(comma x))", "(eval '(backquote (a (comma-at 5))))", "`(a ,@'b)", "`(,@'(1) . ,@'(2))", "`(1 . ,(values))", "`,,a", "`(a `(b ,(c ,@1)))",
	"(let ((x '(1 . 2))) `(a ,@x b))", "(let ((x 5)) `(,@x))", "`#.(1)", "`(a ,.'(1 2))", "`(a ,. 1)",
	// reader labels
	"#1=(a #1#)", "'#1=(a . #1#)", "#1#", "#1=#1#", "(list '#1=(a b) '#1#)", "'(#1=a #1# #2#)", "#1=", "#=a", "##", "#1=#2=a", "'#4611686018427387904=a", "'#-1=a",
	// special forms and lambda lists
	"(quote)", "(quote 1 2)", "(function)", "(function 1)", "(function (lambda))", "(function (lambda . 1))", "(lambda)", "(lambda 1)", "((lambda))", "((lambda (x)))", "((lambda (x) x))",
	"((lambda (&optional) 1))", "((lambda (&rest) 1))", "((lambda (&key) 1) :a)", "((lambda (&rest r &rest s) 1))", "((lambda (x x) x) 1 2)", "((lambda (1) 1) 1)", "((lambda \"abc\" 1))",
	"((lambda (&optional (x)) x))", "((lambda (&optional (x . 1)) x))", "((lambda (&key ((:a))) 1))", "((lambda (&key ((a))) 1) :a 1)", "((lambda (&aux) 1))", "((lambda (&aux (a . 1)) a))",
	"((lambda (&key a) a) :a)", "((lambda (&key a) a) :a 1 :a 2)", "((lambda (&key a) a) 1 2)", "((lambda (&key a) a) :b 1)", "((lambda (&optional a &key b) b) :b)", "((lambda (a . b) b) 1 2)",
	"((lambda (&whole w) w))", "((lambda (&environment) 1))", "((lambda (&allow-other-keys) 1))", "((lambda (&key &optional a) a))", "((lambda nil . 1))", "((lambda (x) . x) 1)",
	"(funcall)", "(funcall nil)", "(funcall 1)", "(funcall 'nosuch)", "(funcall '(lambda))", "(funcall \"car\" '(1))", "(apply)", "(apply 'car)", "(apply 'car 1)", "(apply 'car '(1 . 2))", "(apply #'+ 1 2 '(3 . 4))",
	"(apply #'+ 1 2)", "(let)", "(let 1)", "(let (1) 2)", "(let ((1 2)) 3)", "(let ((a 1 2)) a)", "(let ((a . 1)) a)", "(let* ((a)) a)", "(let ((a)) a)", "(let (a a) a)", "(let ((t 1)) t)", "(let ((nil 1)) nil)",
	"(let ((:a 1)) :a)", "(let* 1)", "(let* ((a 1) . 2) a)", "(setq)", "(setq a)", "(setq 1 2)", "(setq a 1 b)", "(setq t 1)", "(setq nil 1)", "(setq :a 1)", "(psetq a)", "(psetq a 1 b)", "(setf)", "(setf a)",
	"(setf (car) 1)", "(setf (car 1) 2)", "(setf (nosuch 1) 2)", "(setf (aref #(1) 5) 1)", "(setf (aref #(1) -1) 1)", "(setf (values) 1)", "(setf 'a 1)", "(setf 1 2)", "(setf (car '(1)) . 2)", "(setf (nth 5 '(1)) 2)",
	"(setf (nth -1 '(1)) 2)", "(setf (elt '(1) 4611686018427387904) 2)", "(setf (gethash '(1) (make-hash-table)) 2)", "(setf (char \"abc\" 5) #\\x)", "(setf (char \"abc\" 0) 1)", "(setf (subseq '(1 2) 5) '(3))",
	"(setf (fill-pointer #(1 2)) 1)", "(setf (symbol-value 1) 2)", "(setf (symbol-function 'car) 1)", "(setf (get 1 2) 3)", "(setf (getf 1 2) 3)", "(setf (slot-value 1 'a) 2)", "(setf (cdr nil) 1)", "(setf (car nil) 1)",
	"(incf)", "(incf 1)", "(incf a)", "(incf (car nil))", "(incf (car '(a)))", "(decf \"a\")", "(push)", "(push 1)", "(push 1 2)", "(pop)", "(pop 1)", "(pop (car 1))", "(pushnew 1 2)", "(rotatef 1 2)", "(shiftf 1 2)",
	"(if)", "(if 1)", "(if 1 2 3 4)", "(if . t)", "(when)", "(unless)", "(cond 1)", "(cond (1 . 2))", "(cond ())", "(cond (nil) . 1)", "(case 1 2)", "(case 1 ((1 . 2) 3))", "(case 1 (otherwise))", "(case 1 (t) (t))",
	"(ecase 1 (2))", "(ecase 1 2)", "(typecase 1 (integer . 2))", "(typecase 1 (nosuch 2))", "(typecase 1 ((or) 2))", "(typecase 1 ((satisfies) 2))", "(typecase 1 ((integer 1 . 2) 3))", "(etypecase 1 (string 2))",
	"(block)", "(block 1)", "(block a . 1)", "(return-from)", "(return-from nosuch 1)", "(return-from 1)", "(return)", "(return 1 2)", "(tagbody (go))", "(tagbody (go nosuch))", "(tagbody (go 1))", "(go a)", "(tagbody a a . b)",
	"(catch)", "(throw)", "(throw 'a)", "(throw 'a 1)", "(unwind-protect)", "(unwind-protect (error \"a\") (error \"b\"))", "(progv '(a) 1 a)", "(progv 1 2)", "(progv '(1) '(2))", "(progv '(a b) '(1) b)", "(progv '(a . b) '(1 2) a)",
	"(multiple-value-bind)", "(multiple-value-bind 1 2)", "(multiple-value-bind (a . b) (values 1 2) a)", "(multiple-value-bind (1) 2)", "(multiple-value-call)", "(multiple-value-call 1)", "(multiple-value-list)",
	"(multiple-value-setq)", "(multiple-value-setq 1 2)", "(multiple-value-setq (1) 2)", "(multiple-value-prog1)", "(nth-value -1 (values 1 2))", "(nth-value 'a 1)", "(nth-value 4611686018427387904 1)", "(values-list 1)", "(values-list '(1 . 2))",
	"(the)", "(the 1)", "(the integer)", "(the nosuch 1)", "(declare)", "(declare 1)", "(declaim 1)", "(proclaim 1)", "(locally)", "(eval)", "(eval 1 2 3)", "(eval '(1))", "(eval '(quote . 1))", "(eval '((lambda)))", "(eval (list 'car))",
	"(eval '(car . 1))", "(eval (cons 'list 1))", "(eval '(function))", "(eval-when)", "(time)", "(trace 1)", "(untrace 1)", "(function-lambda-expression 1)", "(macroexpand '(when))", "(macroexpand 1)", "(macroexpand '(1 . 2))",
	// definers
	"(defun 1 ())", "(defun f)", "(defun f 1)", "(defun f (&optional) 1)", "(defun (setf) ())", "(defun (setf 1) ())", "(defun f . 1)", "(defun f (a . b) b)", "(defun \"f\" () 1)", "(defun nil () 1)", "(defun t () 1)", "(defun :k () 1)",
	"(defmacro m)", "(defmacro m (&whole) 1)", "(defmacro m (&body b &body c) 1)", "(defmacro 1 ())", "(defmacro m 1)", "(defmacro m (a . b) b)", "(progn (defmacro m (&rest r) r) (m 1 2))", "(progn (defmacro m () 1) (m . 2))",
	"(progn (defmacro m (a) `(,@a)) (m 1))", "(progn (defun f (a) a) (f))", "(progn (defun f (a) a) (f 1 2))", "(progn (defun f (&key a) a) (f :a))", "(progn (defun f (&key a) a) (f 1))", "(progn (defun f () (f)) 1)",
	"(defvar)", "(defvar 1)", "(defvar a 1 2 3)", "(defparameter a)", "(defparameter 1 2)", "(defconstant)", "(defconstant pi 3)", "(defconstant a)", "(defconstant 1 2)",
	"(defstruct)", "(defstruct 1)", "(defstruct (s (:include nosuch)) a)", "(defstruct s (a . b))", "(defstruct (s :conc-name) 1)", "(defstruct (s (:conc-name . 1)))", "(defstruct (s (:constructor 1)))", "(defstruct (s (:nosuch 1)))",
	"(defstruct (s (:type nosuch)) a)", "(defstruct (s (:include s)))", "(defstruct s a a)", "(progn (defstruct s a) (make-s :b 1))", "(progn (defstruct s a) (make-s :a))", "(progn (defstruct s a) (s-a 1))", "(progn (defstruct s a) (copy-s 1))",
	"(defclass)", "(defclass c)", "(defclass c 1 2)", "(defclass c (nosuch) ())", "(defclass c () (1))", "(defclass c () ((a :initarg)))", "(defclass c () ((a :nosuch 1)))", "(defclass c () ((a . b)))", "(defclass c (c) ())",
	"(defclass 1 () ())", "(defclass c () () (:nosuch))", "(defclass c () () 1)", "(defclass c () ((a :initform)))", "(defclass c () ((a :type)))", "(defclass c () ((a :accessor 1)))", "(defclass c () (a a))", "(defclass c (fixnum) ())",
	"(progn (defclass c () ((a :initarg :a))) (make-instance 'c :a))", "(progn (defclass c () ((a :initarg :a))) (make-instance 'c :b 1))", "(progn (defclass c () (a)) (slot-value (make-instance 'c) 'b))",
	"(progn (defclass c () (a)) (slot-value (make-instance 'c) 'a))", "(progn (defclass c () (a)) (slot-value (make-instance 'c) 1))", "(progn (defclass c () (a)) (with-slots (b) (make-instance 'c) b))", "(with-slots)", "(with-slots 1 2)", "(with-slots (a) 1 a)",
	"(define-condition)", "(define-condition c)", "(define-condition c 1 2)", "(define-condition c (nosuch) ())", "(define-condition c (error) (1))", "(progn (define-condition c (error) ((a :initarg :a))) (error 'c :a))",
	"(progn (define-condition c (error) () (:report 1)) (error 'c))", "(defgeneric)", "(defgeneric g)", "(defgeneric g 1)", "(defgeneric g (a) (:nosuch))", "(defgeneric g (a) 1)", "(defgeneric g (a) (:method))", "(defgeneric g (a) (:method 1))",
	"(defgeneric 1 ())", "(defgeneric car (x))", "(defmethod)", "(defmethod m)", "(defmethod m 1)", "(defmethod m ((x nosuch)) x)", "(defmethod m ((x)) x)", "(defmethod m :around)", "(defmethod m ((x . 1)) x)", "(defmethod m ((x (eql))) x)",
	"(defmethod m :nosuch ((x t)) x)", "(defmethod car ((x t)) x)", "(progn (defgeneric g (a)) (defmethod g ((a t) b) a))", "(progn (defgeneric g (a)) (g))", "(progn (defgeneric g (a)) (g 1))", "(progn (defmethod g2 ((a fixnum)) a) (g2 \"s\"))",
	"(progn (defmethod g3 ((a t)) (call-next-method)) (g3 1))", "(call-next-method)", "(next-method-p)", "(progn (defmethod g4 :around ((a t)) (call-next-method 1 2)) (g4 1))", "(find-method #'car nil nil)", "(find-method 1 2 3)", "(remove-method 1 2)",
	"(defflavor)", "(defflavor f)", "(defflavor f 1 2)", "(defflavor f () (nosuch))", "(defflavor f (1) ())", "(defflavor f ((a . b)) ())", "(defflavor f () () :nosuch-option)", "(defflavor f () () (:gettable-instance-variables 1))",
	"(defflavor f () (f))", "(defflavor 1 () ())", "(defflavor f () () (:default-handler 1))", "(defflavor f () () (:required-methods . 1))", "(defflavor f (a a) ())", "(defflavor f () () (:documentation 1))", "(defflavor f () () (:init-keywords 1))",
	"(defwhopper)", "(defwhopper (f))", "(defwhopper (nosuch :a) () 1)", "(defwhopper 1)", "(continue-whopper)", "(progn (defflavor f (a) ()) (defmethod (f :m) () a) (send (make-instance 'f) :m 1))", "(progn (defflavor f (a) ()) (defmethod (f) () a))",
	"(progn (defflavor f (a) ()) (defmethod (f :before) () a))", "(progn (defflavor f (a) ()) (defmethod (f :nosuch :m) () a))", "(progn (defflavor f (a) ()) (make-instance 'f :a))", "(progn (defflavor f (a) ()) (make-instance 'f :b 1))",
	"(send)", "(send 1)", "(send nil :a)", "(send (make-instance 'vanilla-flavor))", "(send (make-instance 'vanilla-flavor) 1)", "(send (make-instance 'vanilla-flavor) :nosuch)", "(send (make-instance 'vanilla-flavor) :describe 1 2 3)",
	"(send (make-instance 'vanilla-flavor) :which-operations 1)", "(send (make-instance 'vanilla-flavor) :operation-handled-p)", "(send (make-instance 'vanilla-flavor) :send-if-handles)", "(send (make-instance 'vanilla-flavor) :eval-inside-yourself)",
	"(send (make-instance 'vanilla-flavor) :eval-inside-yourself '(1))", "(send (make-instance 'vanilla-flavor) :inspect 1)", "(send (make-instance 'vanilla-flavor) :print-self)", "(send (make-instance 'vanilla-flavor) :print-self 1 2 3)",
	"(send (make-instance 'vanilla-flavor) :init)", "(send (make-instance 'vanilla-flavor) :init 1)", "(send (make-instance 'vanilla-flavor) :id 1)", "(send (make-instance 'vanilla-flavor) :equal)", "(send (make-instance 'vanilla-flavor) :shared-initialize)",
	"(send (make-instance 'bag-flavor) :get)", "(send (make-instance 'bag-flavor) :set)", "(send (make-instance 'bag-flavor) :set 1)", "(send (make-instance 'bag-flavor) :get 1)", "(send (make-instance 'bag-flavor) :parse 1)", "(send (make-instance 'bag-flavor) :write 1)",
	"(send (make-instance 'bag-flavor) :walk 1)", "(send (make-instance 'bag-flavor) :has)", "(send (make-instance 'bag-flavor) :remove)", "(send (make-instance 'bag-flavor) :native 1)", "(send (make-instance 'bag-flavor) :modify)",
	"(make-instance)", "(make-instance 1)", "(make-instance 'nosuch)", "(make-instance 'vanilla-flavor :a)", "(make-instance 'vanilla-flavor 1 2)", "(make-instance 'standard-object :a 1)", "(make-instance 'fixnum)", "(make-instance 'error :message)",
	"(make-instance (find-class 'error) 1)", "(make-condition)", "(make-condition 'fixnum)", "(make-condition 'error :nosuch)", "(make-condition 'error :message 1)", "(error)", "(error 1)", "(error 'nosuch)", "(error 'type-error)",
	"(error 'simple-error :format-control 1)", "(error (make-instance 'vanilla-flavor))", "(error \"~a\")", "(error \"~\")", "(error 'simple-error :format-control \"~a\" :format-arguments 1)", "(error 'type-error :datum)", "(cerror)", "(cerror 1)",
	"(cerror \"a\")", "(signal)", "(signal 1)", "(signal 'nosuch)", "(warn)", "(warn 1)", "(warn 'error)", "(handler-case)", "(handler-case 1 (2))", "(handler-case (error \"x\") (error))", "(handler-case (error \"x\") (error 1))",
	"(handler-case (error \"x\") (nosuch () 1))", "(handler-case (error \"x\") (error (a b) 1))", "(handler-case (error \"x\") (error . 1))", "(handler-case (error \"x\") (:no-error))", "(handler-case 1 (:no-error 1))", "(handler-bind)", "(handler-bind (1) 2)",
	"(handler-bind ((error 1)) (error \"x\"))", "(handler-bind ((error)) (error \"x\"))", "(handler-bind ((error 'nosuch)) (error \"x\"))", "(handler-bind ((error (lambda ()))) (error \"x\"))", "(handler-bind ((nosuch #'car)) (error \"x\"))", "(ignore-errors (error))",
	"(restart-case)", "(restart-case 1 (2))", "(invoke-restart 1)", "(with-simple-restart)", "(assert)", "(assert nil)", "(assert nil 1)", "(check-type 1 string)", "(check-type)",
	// iteration
	"(loop (return))", "(loop (return-from nil))", "(dolist)", "(dolist 1)", "(dolist (1 2))", "(dolist (a 1))", "(dolist (a '(1 . 2)) a)", "(dolist (a))", "(dolist (a '(1) . 2))", "(dolist (a '(1) (values)))", "(dotimes)", "(dotimes (a))",
	"(dotimes (a 'b))", "(dotimes (a -1))", "(dotimes (a 1.5))", "(dotimes (1 2))", "(dotimes (a 1 . 2))", "(dotimes (a (values)))", "(do)", "(do ())", "(do (1) (t))", "(do ((a . 1)) (t))", "(do ((a 1 2 3)) (t))", "(do () 1)", "(do* ((a)) (t . 1))",
	"(do ((a 1 (1+ a))) ((< 2 a) . 1))", "(do () (t (values)))", "(do (((a) 1)) (t))", "(prog)", "(prog 1)", "(prog (1))", "(prog ((a . 1)))", "(prog* (a) (go nosuch))", "(prog1)", "(prog2 1)", "(progn . 1)", "(dovector)", "(dovector (a 1))", "(dovector (1 #(1)))",
	"(mapcar)", "(mapcar 1)", "(mapcar 'car 1)", "(mapcar 'car '(1 . 2))", "(mapcar 'nosuch '(1))", "(mapcar #'car '((1) . 2))", "(mapc 'car '(1))", "(maplist 'car 1)", "(mapcan 'list '(1 . 2))", "(mapcon 'car '(1))", "(map 'nosuch 'car '(1))", "(map 'list 'car)",
	"(map 1 2 3)", "(map-into 1 'car)", "(map-into '(1) 'car 1)", "(reduce)", "(reduce '+ 1)", "(reduce '+ '(1 . 2))", "(reduce 'car '(1 2))", "(reduce '+ '(1) :initial-value)", "(reduce '+ '() :key 1)", "(every 1 '(1))", "(some 'car 1)", "(notany 'car '(1 . 2))",
	"(sort)", "(sort '(2 1))", "(sort '(2 1) 1)", "(sort '(2 . 1) '<)", "(sort '(a 1) '<)", "(sort 1 '<)", "(stable-sort \"ba\" 'car)", "(merge 'list '(1) '(2) 1)", "(merge 'nosuch '(1) '(2) '<)", "(merge 'list 1 2 '<)", "(remove-if 1 '(1))", "(find-if 'car '(1))",
	"(position 1 '(1) :start 5)", "(position 1 '(1) :end -1)", "(position 1 '(1) :start 1 :end 0)", "(subseq '(1 2) 1 0)", "(subseq \"abc\" 2 1)", "(subseq #(1 2) 3)", "(subseq '(1 . 2) 0 2)", "(subseq \"abc\" -1)", "(subseq '(1 2) 4611686018427387904)",
	"(replace '(1 2) '(3) :start1 5)", "(replace \"ab\" \"c\" :start2 5)", "(replace '(1) 1)", "(fill '(1 2) 0 :start 5)", "(fill \"ab\" 1)", "(fill '(1 2) 0 :end -1)", "(search '(1 2 3) '(1))", "(mismatch '(1) '(1) :start1 5)", "(count 1 '(1) :start 5)",
	"(remove 1 '(1 2) :count -1)", "(remove 1 '(1 2) :count 'a)", "(remove-duplicates '(1 . 2))", "(delete 1 '(1 . 1))", "(substitute 1 2 '(2 . 2))", "(nsubstitute 1 2 \"ab\")", "(concatenate 'list 1)", "(concatenate 'nosuch '(1))", "(concatenate 'string '(1))",
	"(coerce 1 'nosuch)", "(coerce '(1 . 2) 'vector)", "(coerce \"ab\" 'fixnum)", "(coerce 1)", "(make-sequence 'nosuch 1)", "(make-sequence 'list -1)", "(make-sequence 'string 1099511627776)", "(make-sequence 'vector 4611686018427387904)",
	// dotted and malformed forms
	"(1 2)", "((1) 2)", "(nil)", "(t)", "(\"a\" 1)", "(#'car '(1))", "((quote car) '(1))", "(:key 1)", "(car . (1))", "(car '(1) . 2)", "(list . 1)", "(+ . 1)", "(let ((a 1)) . 2)", "(quote . a)", "(function . car)", "(setq . a)", "(car . nil)",
	"(progn (car) . 1)", "((lambda (x) x) . 1)", "(funcall . car)", "(and . 1)", "(or . 1)", "(list 1 . (2))", "(list (car . 1))", "((((1))))", "(((lambda (x) x)) 1)", "(#(1 2) 0)", "(#*101 0)", "(#\\a)", "(1.5 2)", "(1/2)", "(#C(1 2))",
	// package prefixes of unknown packages and odd package syntax
	"(nosuchpkg:foo)", "nosuchpkg:foo", "(nosuchpkg::foo 1)", "'nosuchpkg:foo", "cl:nosuch", "(cl:nosuch)", "cl::", ":", "::", "a:", "(a:)", "(:)", "#'nosuchpkg:foo", "(function nosuchpkg:foo)", "(symbol-function 'nosuchpkg:foo)",
	"(intern \"a\" 'nosuchpkg)", "(find-symbol \"A\" \"NOSUCHPKG\")", "(in-package nosuchpkg)", "(in-package 1)", "(in-package)", "(defpackage)", "(defpackage 1)", "(defpackage 'p (:use nosuchpkg))", "(defpackage 'p (:nosuch))", "(defpackage 'p 1)",
	"(defpackage 'p (:export 1))", "(defpackage 'p (:nicknames 1))", "(defpackage 'p (:use . 1))", "(defpackage 'p (:import-from nosuchpkg a))", "(defpackage 'p (:shadow 1))", "(use-package 'nosuchpkg)", "(export 1)", "(export 'nosuchpkg:a)", "(import 1)",
	"(import 'nosuchpkg:foo)", "(unintern 'nosuchpkg:foo)", "(symbol-package 'nosuchpkg:foo)", "(symbol-name 'nosuchpkg:foo)", "(boundp 'nosuchpkg:foo)", "(fboundp 'nosuchpkg:foo)", "(setq nosuchpkg:foo 1)", "(defvar nosuchpkg:foo 1)", "(defun nosuchpkg:foo () 1)",
	"(let ((nosuchpkg:foo 1)) nosuchpkg:foo)", "(makunbound 'nosuchpkg:foo)", "(fmakunbound 'nosuchpkg:foo)", "(make-instance 'nosuchpkg:foo)", "(find-class 'nosuchpkg:foo)", "(typep 1 'nosuchpkg:foo)", "(make-package 1)", "(make-package \"\")",
	"(make-package 'p :use 1)", "(make-package 'p :nicknames 1)", "(make-package 'cl)", "(rename-package 'cl 'x)", "(delete-package 'nosuchpkg)", "(package-use-list 1)", "(do-symbols (s 1))", "(do-symbols (1 'cl))", "(do-symbols)", "(do-external-symbols (s 'nosuchpkg))",
	"(do-all-symbols)", "(do-all-symbols (1))", "(find-all-symbols 1)", "(list-all-packages 1)",
	// destructive functions on literal constants, evaluated repeatedly
	"(dotimes (i 3) (nreverse '(1 2 3)))", "(dotimes (i 3) (sort '(3 1 2) #'<))", "(dotimes (i 3) (nconc '(1) '(2)))", "(let ((f (lambda () (nconc '(1 2) '(3))))) (funcall f) (funcall f) (funcall f))", "(dotimes (i 3) (delete 1 '(1 2 1)))",
	"(dotimes (i 3) (vector-pop #(1 2 3)))", "(dotimes (i 5) (vector-pop (vector 1 2)))", "(dotimes (i 3) (rplaca '(1 2) 3))", "(dotimes (i 3) (rplacd '(1 2) 3))", "(dotimes (i 3) (setf (car '(1 2)) 3))", "(dotimes (i 3) (fill \"abc\" #\\x))",
	"(dotimes (i 3) (nstring-upcase \"abc\"))", "(dotimes (i 3) (setf (aref #(1 2) 0) 9))", "(dotimes (i 3) (push 1 '(2)))", "(dotimes (i 3) (pop '(1 2)))", "(dotimes (i 3) (incf (car '(1))))", "(dotimes (i 3) (nsubst 1 2 '(2 (2))))",
	"(dotimes (i 3) (nbutlast '(1 2 3)))", "(dotimes (i 5) (nbutlast '(1 2 3) 2))", "(dotimes (i 3) (mapcan #'list '(1 2)))", "(dotimes (i 3) (stable-sort \"cba\" #'char<))", "(dotimes (i 3) (nunion '(1 2) '(2 3)))", "(dotimes (i 3) (nintersection '(1 2) '(2 3)))",
	"(dotimes (i 3) (delete-duplicates '(1 1 2)))", "(dotimes (i 3) (nreconc '(1 2) '(3)))", "(dotimes (i 3) (replace '(1 2 3) '(9)))", "(dotimes (i 3) (map-into '(1 2) #'1+ '(1 2)))", "(dotimes (i 3) (vector-push 1 #(1 2)))",
	"(dotimes (i 3) (vector-push-extend 1 #(1 2)))", "(dotimes (i 3) (adjust-array #(1 2) 5))", "(dotimes (i 3) (setf (fill-pointer (make-array 3 :fill-pointer 1)) 5))", "(dotimes (i 3) (remf '(:a 1) :a))", "(dotimes (i 3) (remprop 'foo :a))",
	"(dotimes (i 3) (nsublis '((1 . 2)) '(1 (1))))", "(dotimes (i 3) (nset-difference '(1 2) '(2)))", "(dotimes (i 3) (nstring-capitalize \"ab\" :start 5))", "(dotimes (i 3) (setf (subseq \"abc\" 0 1) \"xyz\"))", "(dotimes (i 3) (clrhash (make-hash-table)))",
	"(let ((l '(1 2 3))) (dotimes (i 4) (setq l (nreverse l))) (nth 5 l))", "(let ((l '(1 2 3))) (dolist (x l) (setq l (delete x l))))", "(let ((l (list 1 2 3))) (dolist (x l) (nconc l (list x)) (when (< 5 (length l)) (return))))",
	"(let ((v (vector 1 2 3))) (dovector (x v) (vector-pop (make-array 3 :fill-pointer 3))))", "(let ((h (make-hash-table))) (setf (gethash 1 h) 1) (maphash (lambda (k v) (remhash k h) (setf (gethash (1+ k) h) v)) h))",
}

type srcGen struct {
	name string
	make func() string
}

func nest(open, leaf, clos string, n int) string {
	return strings.Repeat(open, n) + leaf + strings.Repeat(clos, n)
}

// srcGenerated: deeply nested (circular-free) programs; the texts are built
// in exec from their name.
var srcGenerated = []srcGen{
	{"@deep-list-call-3000", func() string { return nest("(list ", "1", ")", 3000) }},
	{"@deep-progn-5000", func() string { return nest("(progn ", "1", ")", 5000) }},
	{"@deep-plus-5000", func() string { return nest("(+ 1 ", "1", ")", 5000) }},
	{"@deep-quote-3000", func() string { return strings.Repeat("'", 3000) + "a" }},
	{"@deep-parens-5000", func() string { return nest("(", "", ")", 5000) }},
	{"@deep-quoted-data-10000", func() string { return "'" + nest("(", "a", ")", 10000) }},
	{"@deep-quoted-data-print-10000", func() string { return "(princ-to-string '" + nest("(", "a", ")", 10000) + ")" }},
	{"@deep-quoted-data-equal-10000", func() string {
		return "(equal '" + nest("(", "a", ")", 10000) + " '" + nest("(", "a", ")", 10000) + ")"
	}},
	{"@deep-quoted-data-copy-tree-10000", func() string { return "(length (copy-tree '" + nest("(", "a", ")", 10000) + "))" }},
	{"@deep-quoted-data-sxhash-10000", func() string { return "(sxhash '" + nest("(", "a", ")", 10000) + ")" }},
	{"@deep-quoted-data-subst-10000", func() string { return "(length (subst 1 'a '" + nest("(", "a", ")", 10000) + "))" }},
	{"@deep-vector-5000", func() string { return "(length " + nest("#(", "1", ")", 5000) + ")" }},
	{"@deep-backquote-200", func() string { return strings.Repeat("`(a ", 200) + "b" + strings.Repeat(")", 200) }},
	{"@deep-backquote-comma-200", func() string { return strings.Repeat("`(a ,", 200) + "1" + strings.Repeat(")", 200) }},
	{"@deep-let-2000", func() string { return nest("(let ((a 1)) ", "a", ")", 2000) }},
	{"@deep-lambda-2000", func() string { return nest("((lambda (x) ", "1", ") 2)", 2000) }},
	{"@deep-if-5000", func() string { return nest("(if t ", "1", ")", 5000) }},
	{"@deep-block-2000", func() string { return nest("(block b ", "(return-from b 1)", ")", 2000) }},
	{"@deep-handler-case-100", func() string { return nest("(handler-case ", "(error \"x\")", " (error (c) (error c)))", 100) }},
	{"@deep-unwind-protect-100", func() string { return nest("(unwind-protect ", "(error \"x\")", " 1)", 100) }},
	{"@deep-recursion-10000", func() string {
		return "(progn (defun c09-rec (n) (if (< 0 n) (1+ (c09-rec (1- n))) 0)) (c09-rec 10000))"
	}},
	{"@infinite-recursion", func() string { return "(progn (defun c09-inf (n) (1+ (c09-inf n))) (c09-inf 1))" }},
	{"@deep-funcall-chain-3000", func() string { return nest("(funcall #'identity ", "1", ")", 3000) }},
	{"@wide-call-100000", func() string { return "(+ " + strings.Repeat("1 ", 100000) + ")" }},
	{"@wide-list-100000", func() string { return "(length (list " + strings.Repeat("1 ", 100000) + "))" }},
	{"@long-symbol-100000", func() string { return "'" + strings.Repeat("a", 100000) }},
	{"@long-string-format-100000", func() string { return "(length (format nil \"~a\" \"" + strings.Repeat("a", 100000) + "\"))" }},
}

// oddNames: names made of a package prefix (known, nickname, unknown, empty), one
// to three package markers and a tail (empty, an unknown name, a function's name,
// another marker, a digit), in every position a user can type a half-finished
// qualified name: evaluated, called, assigned, bound, quoted, as a designator.
// Definers only with prefixes that cannot change a built-in package.
func oddNames() (out []string) {
	for _, pre := range []string{"cl", "common-lisp", "cl-user", "bag", "gi", "keyword", "nosuchpkg", ""} {
		for _, mark := range []string{":", "::", ":::"} {
			for _, tail := range []string{"", "x", "car", ":", "1"} {
				n := pre + mark + tail
				if n == ":x" || n == ":car" || n == ":1" { // plain keywords
					continue
				}
				out = append(out, n, "("+n+")", "("+n+" 1)", "(setq "+n+" 3)", "(funcall '"+n+")", "(list 1 "+n+")", "'"+n, "#'"+n,
					"(boundp '"+n+")", "(fboundp '"+n+")", "(let (("+n+" 1)) "+n+")", "(symbol-name '"+n+")", "(funcall (lambda (&optional ("+n+" 2)) 1))")
				if pre == "cl-user" || pre == "nosuchpkg" || pre == "" {
					out = append(out, "(defun "+n+" () 1)", "(defvar "+n+" 1)", "(defconstant "+n+" 1)", "(defmacro "+n+" () 1)")
				}
			}
		}
	}
	return
}

// fillPointerTexts: a vector with a fill pointer made smaller than, or given a fill pointer
// beyond, its storage by adjust-array, then handed to everything that walks up to the fill pointer.
func fillPointerTexts() (out []string) {
	for _, adj := range []string{"(adjust-array v 1)", "(adjust-array v 0)", "(adjust-array v 2 :fill-pointer 5)", "(adjust-array v 3 :fill-pointer 3)", "(adjust-array v 8 :fill-pointer 9)"} {
		for _, use := range []string{"(vector-pop v)", "(gi:channel-pop v)", "(vector-push 1 v)", "(vector-push-extend 1 v)", "(length v)", "(elt v 1)", "(aref v 1)",
			"(princ-to-string v)", "(coerce v 'list)", "(reverse v)", "(fill-pointer v)", "(setf (fill-pointer v) 1)", "(subseq v 0)", "(map 'list #'identity v)", "(sort v #'<)", "(copy-seq v)"} {
			out = append(out, "(let ((v (make-array 4 :fill-pointer 2 :adjustable t :initial-element 0))) (ignore-errors "+adj+") "+use+")")
		}
	}
	return
}

var srcCache []string

// srcTexts: every literal text and every generated name, each once for plain
// evaluation and once ("C:" prefix) through Code.Compile.
func srcTexts() []string {
	if srcCache == nil {
		for _, t := range srcLiteral {
			srcCache = append(srcCache, t, "C:"+t)
		}
		for _, t := range oddNames() {
			srcCache = append(srcCache, t, "C:"+t)
		}
		for _, t := range fillPointerTexts() {
			srcCache = append(srcCache, t, "C:"+t)
		}
		for _, g := range srcGenerated {
			srcCache = append(srcCache, g.name)
			if g.name != "@infinite-recursion" { // fills the whole stack: once is enough
				srcCache = append(srcCache, "C:"+g.name)
			}
		}
	}
	return srcCache
}

var (
	baseFuncs   map[string]bool
	baseVars    map[string]bool
	baseClasses map[string]bool
)

// cleanUser removes what a program text defined in cl-user, so that the next
// text meets the same world.
func cleanUser() {
	if baseFuncs == nil {
		baseFuncs, baseVars, baseClasses = map[string]bool{}, map[string]bool{}, map[string]bool{}
		slip.UserPkg.EachFuncName(func(n string) { baseFuncs[n] = true })
		slip.UserPkg.EachVarName(func(n string) { baseVars[n] = true })
		slip.UserPkg.EachClassName(func(n string) { baseClasses[n] = true })
		return
	}
	_ = sl.Catch(func() {
		var names []string
		slip.UserPkg.EachClassName(func(n string) {
			if !baseClasses[n] {
				names = append(names, n)
			}
		})
		for _, n := range names {
			_, _ = sl.Eval(slip.NewScope(), "(undefflavor '"+n+")")
			slip.UserPkg.Remove(n)
		}
		names = names[:0]
		slip.UserPkg.EachFuncName(func(n string) {
			if !baseFuncs[n] {
				names = append(names, n)
			}
		})
		for _, n := range names {
			slip.UserPkg.Undefine(n)
		}
		names = names[:0]
		slip.UserPkg.EachVarName(func(n string) {
			if !baseVars[n] {
				names = append(names, n)
			}
		})
		for _, n := range names {
			slip.UserPkg.Remove(n)
		}
	})
}

func srcShort(t string) string {
	t = strings.TrimPrefix(t, "C:") // one signature for both evaluation modes
	if 60 < len(t) {
		t = t[:60] + "..."
	}
	return sigName(fmt.Sprintf("%q", t))
}

func execSrc(x *fw.Ctx, c *Case) {
	name := c.Text
	compiled := strings.HasPrefix(name, "C:")
	text := strings.TrimPrefix(name, "C:")
	if strings.HasPrefix(text, "@") {
		for _, g := range srcGenerated {
			if g.name == text {
				text = g.make()
				break
			}
		}
		x.Cover("src-generated")
	}
	mode := "eval"
	if compiled {
		mode = "compile+eval"
	}
	x.Cover("src-mode:" + mode)
	x.CoverN("src-bytes", len(text))
	cleanUser() // first call only records the base world
	scope := newScope()
	markContext("src " + srcShort(name))
	a0 := allocBytes()
	var err *sl.Err
	if compiled {
		_, err = sl.EvalCompiled(scope, text)
	} else {
		_, err = sl.Eval(scope, text)
	}
	used := allocBytes() - a0
	x.CoverN("eval-steps", steps)
	oc := classify(err)
	obs := map[string]any{"text": srcShort(name), "mode": mode, "outcome": oc.kind}
	x.Observe(obs)
	x.Cover("src-outcome:" + oc.kind)
	if oc.err != nil {
		obs["condition"] = oc.err.Class
	}
	shown := text
	if 200 < len(shown) {
		shown = shown[:200] + "..."
	}
	switch oc.kind {
	case "fault":
		x.Fail("fault="+sigName(oc.fault)+" src="+srcShort(name), "%s (%s) => internal fault reported as %s: %s", shown, mode, oc.err.Class, oc.err.Msg)
	case "raw-panic":
		// Code.Compile and the reader run outside any function frame: a bare Go
		// string panic there is counted like the reader's (see execRd)
		x.Cover("src-go-string-panic")
	case "budget":
		x.Fail("over-budget src="+srcShort(name), "%s (%s) => more than %d evaluation steps", shown, mode, stepBudget)
	case "undocumented":
		x.Fail("not-a-condition src="+srcShort(name), "%s (%s) => signalled a non-condition: %v %s", shown, mode, oc.err.Chain, oc.err.Msg)
	}
	if allocBudget+uint64(256*len(text)) < used {
		x.Fail("alloc src="+srcShort(name), "%s (%s) => allocated %d MiB", shown, mode, used>>20)
	}
	afterCase(x, c)
	cleanUser()
	canary(x, "src "+srcShort(name))
}
