package c09

import (
	"regexp"
	"sort"
	"strings"
	"sync"

	"github.com/ohler55/slip"
)

// denylist: exported functions that are never called by this check, each
// with the reason. Only functions whose documented purpose is an effect
// outside the worker process, or blocking/taking wall time by design, are
// here; everything else is called (inside the worker's scratch cwd, with the
// standard streams rebound to in-memory streams).
var denylist = map[string]string{
	"common-lisp:sleep":       "blocks for the requested time by design",
	"common-lisp:delete-file": "file deletion",
	"common-lisp:require":     "loads plugins/modules from outside the process",
	"gi:send-signal":          "signals other processes ((send-signal -1 ...) would signal every process)",
	"gi:signal-wait":          "blocks until a signal arrives by design",
	"gi:select":               "blocks until a channel is ready by design",
	"gi:make-app":             "runs the go tool chain (external program)",
	"gi:time-ticker":          "starts a ticker goroutine that never ends",
	"test:benchmark":          "runs for a wall-clock duration by design",
	// sockets, DNS, HTTP
	"net:make-socket":         "creates a socket",
	"net:socket-pair":         "creates sockets",
	"net:socket-accept":       "blocks on network",
	"net:socket-bind":         "network side effect",
	"net:socket-connect":      "network side effect / blocks",
	"net:socket-listen":       "network side effect",
	"net:socket-receive":      "blocks on network",
	"net:socket-send":         "network side effect",
	"net:socket-select":       "blocks on network",
	"net:wait-for-input":      "blocks on network",
	"net:get-host-by-name":    "DNS lookup",
	"net:get-host-by-address": "DNS lookup",
	"net:graphql-query":       "HTTP request",
	"net:socket-make-stream":  "network side effect",
	// the REPL package (linked as in the slip command)
	"repl:repl":          "starts the interactive read-eval-print loop on the terminal/stdin",
	"repl:edit-stash":    "runs the external $EDITOR on the stash file",
	"repl:quit":          "ends the REPL (exit)",
	"repl:use-stash":     "creates and rewrites stash files under the configuration directory",
	"repl:clear-history": "rewrites the persistent history file under the configuration directory",
	"repl:clear-stash":   "rewrites the persistent stash file under the configuration directory",
	// swank (SLIME) servers listen on TCP ports
	"swank:create-server":  "starts a TCP server",
	"swank:restart-server": "starts a TCP server",
	"swank:setup-server":   "starts a TCP server",
	"swank:start-server":   "starts a TCP server",
	"swank:stop-server":    "stops a TCP server",
	"swank:swank-server":   "starts a TCP server",
	"swank:swank-stop":     "stops a TCP server",
}

// target is one function in one calling mode.
var numericType = regexp.MustCompile(`number|integer|real|fixnum|bignum|float|ratio|byte`)

type target struct {
	Fn   string // pkg:name
	Pkg  string
	Name string
	// Raw: arguments at positions the function does not evaluate are passed
	// as the bare object (special forms and macros); otherwise every argument
	// is wrapped in (quote ...).
	Raw     bool
	minReq  int      // documented number of required arguments
	maxArgs int      // documented maximum number of arguments, -1 = unlimited
	keys    []string // documented &key names
	skips   bool     // the function skips evaluation of at least one argument
	numeric bool     // a documented parameter is a number (type text of its DocArg)
}

var (
	targetsOnce sync.Once
	targets     []target
	targetIdx   = map[string]int{} // fn + "/raw" -> index
	nFuncs      int
	nDenied     int
)

type skipEvaler interface {
	SkipArgEval(i int) bool
}

// loadTargets enumerates every exported function of every package at run
// time. It must run before the harness defines its own helpers.
func loadTargets() {
	targetsOnce.Do(func() {
		type ent struct {
			pkg string
			fi  *slip.FuncInfo
		}
		var all []ent
		for _, p := range slip.AllPackages() {
			pp := p
			p.EachFuncInfo(func(fi *slip.FuncInfo) {
				if fi.Pkg == pp && fi.Export {
					all = append(all, ent{pp.Name, fi})
				}
			})
		}
		sort.Slice(all, func(i, j int) bool {
			if all[i].pkg != all[j].pkg {
				return all[i].pkg < all[j].pkg
			}
			return all[i].fi.Name < all[j].fi.Name
		})
		for _, e := range all {
			fn := e.pkg + ":" + e.fi.Name
			nFuncs++
			if _, no := denylist[fn]; no {
				nDenied++
				continue
			}
			t := target{Fn: fn, Pkg: e.pkg, Name: e.fi.Name, maxArgs: -1}
			if e.fi.Doc != nil {
				t.maxArgs = 0
				state := 0
				for _, a := range e.fi.Doc.Args {
					if numericType.MatchString(strings.ToLower(a.Type)) {
						t.numeric = true
					}
					switch strings.ToLower(a.Name) {
					case "&optional":
						state = 1
						continue
					case "&rest", "&body":
						state = 3
						t.maxArgs = -1
						continue
					case "&aux":
						state = 4
						continue
					case "&key":
						state = 2
						t.maxArgs = -1
						continue
					case "&allow-other-keys":
						continue
					}
					switch state {
					case 0:
						t.minReq++
						if 0 <= t.maxArgs {
							t.maxArgs++
						}
					case 1:
						if 0 <= t.maxArgs {
							t.maxArgs++
						}
					case 2:
						t.keys = append(t.keys, strings.ToLower(a.Name))
					}
				}
			}
			func() {
				defer func() { _ = recover() }()
				if se, ok := e.fi.Create(slip.List{}).(skipEvaler); ok {
					for i := 0; i < 6; i++ {
						if se.SkipArgEval(i) {
							t.skips = true
						}
					}
				}
			}()
			targetIdx[fn] = len(targets)
			targets = append(targets, t)
			if t.skips {
				t.Raw = true
				targetIdx[fn+"/raw"] = len(targets)
				targets = append(targets, t)
			}
		}
	})
}

// ---------------------------------------------------------------------------
// Skip table: constructs that are NOT generated because they hang the worker
// (each costs HangSecs of wall time) or are non-terminating by the language
// definition. Every entry names the finding it belongs to (findings/C09.json;
// its witness is a probe case, see execProbe) or says "by-design".
//
// A pattern matches a call when the function and mode match and the first
// len(Args) arguments match position by position: a pool name matches
// itself, "*" matches anything, "@class" matches every pool object of that
// class. A pattern with Exact set only matches calls of exactly that arity.
type skipEntry struct {
	Fn      string
	Raw     int // 0 both modes, 1 raw only, 2 quoted only
	Args    []string
	Exact   bool
	Finding string
}

func (e *skipEntry) matches(fn string, raw bool, args []string) bool {
	if e.Fn != fn || (e.Raw == 1 && !raw) || (e.Raw == 2 && raw) {
		return false
	}
	if len(args) < len(e.Args) || (e.Exact && len(args) != len(e.Args)) {
		return false
	}
	for i, p := range e.Args {
		if !argMatch(p, args[i]) {
			return false
		}
	}
	return true
}

func argMatch(pat, arg string) bool {
	for _, alt := range strings.Split(pat, "|") {
		switch {
		case alt == "*", alt == arg:
			return true
		case strings.HasPrefix(alt, "@"):
			if po := poolIndex[arg]; po != nil && po.Class == alt[1:] {
				return true
			}
		}
	}
	return false
}

func skipped(fn string, raw bool, args []string) string {
	if why := byDefinition(fn, raw, args); why != "" {
		return why
	}
	for i := range skipTable {
		if skipTable[i].matches(fn, raw, args) {
			return skipTable[i].Finding
		}
	}
	return ""
}

// byDefinition: calls the language defines as non-terminating (they are not
// findings). (loop form...) without loop keywords repeats for ever; dotimes
// with a count of 2^62 counts that far ((dotimes '4611686018427387904) reads
// as (dotimes (quote 4611686018427387904)): variable quote, count 2^62).
func byDefinition(fn string, raw bool, args []string) string {
	switch fn {
	case "common-lisp:loop":
		// slip's loop is the simple loop (documented): it ends only through
		// return or a condition. Only calls whose first form signals at once
		// are generated: an unbound symbol, or a list that is not a call.
		if raw && 0 < len(args) {
			switch args[0] {
			case "sym", "list3", "list1", "dotted", "dotted3", "alist", "plist", "nested":
				return ""
			}
		}
		return "by-definition:simple-loop"
	case "common-lisp:do", "common-lisp:do*":
		// quoted mode: (do '(a) 'x) reads as (do (quote (a)) (quote x)): the
		// variables quote and a, and the end test is the variable quote, which
		// is nil for ever; every quoted call that gets past the binding list
		// is such a loop. Raw: (do (a) (a)) tests the variable a, nil for ever.
		if !raw && 2 <= len(args) {
			return "by-definition:do-end-test-nil"
		}
		// Raw: the end test is a variable the binding list itself binds to
		// nil: (do (a) (a)), (do (values) (values 1 2)), (do* (lambda (x) x) (lambda (x) x)).
		if raw && 2 <= len(args) {
			bound := map[string]string{"list1": "a", "values0": "values", "lambda-expr": "lambda", "alist": "a"}
			head := map[string]string{"list1": "a", "values0": "values", "values2": "values", "lambda-expr": "lambda"}
			if b, ok := bound[args[0]]; ok && head[args[1]] == b {
				return "by-definition:do-end-test-nil"
			}
		}
	case "gi:range":
		// documented: over a channel the iteration ends when the channel is closed
		if 2 <= len(args) && args[1] == "channel" {
			return "by-definition:range-over-open-channel"
		}
	case "common-lisp:dotimes":
		if !raw && 0 < len(args) && (args[0] == "big62" || args[0] == "big40" || args[0] == "maxfix") {
			return "by-definition:dotimes-2^62"
		}
	}
	return ""
}
