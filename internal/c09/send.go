package c09

import (
	"sort"
	"strings"
	"sync"

	"github.com/ohler55/slip"

	"verif/internal/sl"
)

// The send workload: the built-in methods are built-in functions too, reached
// through (send instance :method arg...). Every method of every built-in
// flavor that can be instantiated without an effect outside the process is
// called with every 0- and 1-tuple of the pool and with pairs (quick: of a
// 10-object pool, thorough: of the quick pool). The methods vanilla-flavor
// gives to every flavor are called on vanilla-flavor only; every other flavor
// (the check's own c09-flavor with its generated accessors included) is called
// with the methods it adds.
//
// Not called: socket, http-client-flavor, http-server-flavor,
// http-response-writer-flavor, watch-* (network), system (git, external
// programs).
var sendFlavors = []string{"vanilla-flavor", "c09-flavor", "bag-flavor", "logger-flavor", "suite-flavor", "test-flavor", "testable-flavor", "host-ent",
	"http-request-flavor", "http-response-flavor"}

// instPool: receivers of the send block (not part of the function pool).
var instPool = []poolObj{
	{Name: "i-vanilla-flavor", Class: "instance", Src: "(make-instance 'vanilla-flavor)"},
	{Name: "i-c09-flavor", Class: "instance", Src: "(make-instance 'c09-flavor)"},
	{Name: "i-bag-flavor", Class: "instance", Src: `(make-bag "{a:1 b:[1 2]}")`},
	{Name: "i-logger-flavor", Class: "instance", Src: "(make-instance 'logger-flavor)"},
	{Name: "i-suite-flavor", Class: "instance", Src: "(make-instance 'suite-flavor)"},
	{Name: "i-test-flavor", Class: "instance", Src: "(make-instance 'test-flavor)"},
	{Name: "i-testable-flavor", Class: "instance", Src: "(make-instance 'testable-flavor)"},
	{Name: "i-host-ent", Class: "instance", Src: "(make-instance 'host-ent)"},
	{Name: "i-http-request-flavor", Class: "instance", Src: "(make-instance 'http-request-flavor)"},
	{Name: "i-http-response-flavor", Class: "instance", Src: "(make-instance 'http-response-flavor)"},
}

// extraPool: objects single workloads need that are not part of the function pool.
var extraPool = []poolObj{
	{Name: "fp-str", Class: "string", Src: "(make-array 8 :element-type 'character :fill-pointer 0 :adjustable t)"},
}

func init() {
	for i := range extraPool {
		poolIndex[extraPool[i].Name] = &extraPool[i]
	}
	for i := range instPool {
		poolIndex[instPool[i].Name] = &instPool[i]
	}
}

type sendTarget struct {
	inst   string // pool name of the receiver
	method string // ":name"
}

var (
	sendOnce    sync.Once
	sendTargets []sendTarget
	sendFn      int // index of flavors:send in targets
)

// sendPairPool: the second-argument pool of the quick tier's pairs.
var sendPairPool = []string{"nil", "zero", "neg1", "big62", "str", "sym", "keyword", "list3", "lambda", "out-stream"}

// loadSendTargets enumerates the methods at run time (:which-operations).
func loadSendTargets() {
	sendOnce.Do(func() {
		loadTargets()
		sendFn = targetIdx["flavors:send"]
		scope := slip.NewScope()
		ops := func(flavor string) (names []string) {
			if flavor == "c09-flavor" {
				if _, err := sl.Eval(scope, "(make-instance 'c09-flavor)"); err != nil {
					_, _ = sl.Eval(scope, "(defflavor c09-flavor ((a 1)) () :gettable-instance-variables :settable-instance-variables)")
				}
			}
			res, err := sl.Eval(scope, "(send (make-instance '"+flavor+") :which-operations)")
			if err != nil {
				panic("c09: cannot enumerate the methods of " + flavor + ": " + err.String())
			}
			list, _ := res.(slip.List)
			for _, m := range list {
				if sym, ok := m.(slip.Symbol); ok {
					names = append(names, strings.ToLower(string(sym)))
				}
			}
			sort.Strings(names)
			return
		}
		vanilla := map[string]bool{}
		for _, m := range ops("vanilla-flavor") {
			vanilla[m] = true
		}
		for _, f := range sendFlavors {
			for _, m := range ops(f) {
				if vanilla[m] && f != "vanilla-flavor" {
					continue
				}
				sendTargets = append(sendTargets, sendTarget{inst: "i-" + f, method: m})
			}
		}
	})
}

func mkSend(st *sendTarget, args ...string) Case {
	return mkFn(&targets[sendFn], append([]string{st.inst, st.method}, args...)...)
}

// sendOf tells whether a function case is a send to a built-in method, and
// names the flavor and the method.
func sendOf(c *Case) (flavor, method string, ok bool) {
	if c.Fn == "flavors:send" && 2 <= len(c.Args) && strings.HasPrefix(c.Args[0], "i-") && strings.HasPrefix(c.Args[1], ":") {
		return c.Args[0][2:], c.Args[1], true
	}
	return
}
