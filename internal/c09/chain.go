package c09

import (
	"github.com/ohler55/slip"

	"verif/internal/sl"
)

// The chain workload: two-step histories on ONE object. A function does not
// only meet fresh literals: it meets objects an earlier operation has closed,
// emptied, shrunk, re-classed, half-changed before failing, or whose class,
// flavor or structure was redefined or removed in between. A chain case is
//
//	(let ((c09-o <object>)) (ignore-errors <after>) (<fn> ... c09-o ...))
//
// where <after> is one of chainSteps (a text that uses the variable c09-o) and
// the call under observation is any function with the object as its only
// argument, or with the object and 0 in either order. The oracle is unchanged.
// Signature, differential as for in= / amb=: the same call on a fresh object
// without the first step; the same failure there belongs to the function
// (fault=K fn=F), otherwise to the history (fault=K fn=F after=<step>).
type chainStep struct {
	obj   string // pool name of the object
	after string // the first step
}

var chainSteps = []chainStep{
	// streams: closed, drained, unread twice, position beyond the end
	{"in-stream", "(close c09-o)"}, {"out-stream", "(close c09-o)"}, {"in-stream", "(dotimes (i 9) (read-char c09-o nil))"},
	{"in-stream", "(progn (read-char c09-o) (unread-char #\\a c09-o) (unread-char #\\a c09-o))"}, {"in-stream", "(file-position c09-o 100)"},
	{"out-stream", "(progn (write-string \"abc\" c09-o) (get-output-stream-string c09-o))"}, {"in-stream", "(read c09-o)"},
	// vectors: popped empty, fill pointer moved, shrunk to nothing, grown, wrong-typed element
	{"fp-vec", "(dotimes (i 3) (vector-pop c09-o))"}, {"fp-vec", "(setf (fill-pointer c09-o) 4)"}, {"fp-vec", "(setf (fill-pointer c09-o) 0)"},
	{"fp-vec", "(adjust-array c09-o 0)"}, {"fp-vec", "(adjust-array c09-o 1)"}, {"fp-vec", "(dotimes (i 70) (vector-push-extend i c09-o))"},
	{"fp-vec", "(adjust-array c09-o 2 :fill-pointer 5)"}, {"vector", "(adjust-array c09-o 0)"}, {"vector", "(adjust-array c09-o '(2 2))"},
	{"vector", "(fill c09-o 'x :start 1 :end 9)"}, {"vector", "(sort c09-o '<)"}, {"vector", "(setf (aref c09-o 1) '(1 . 2))"}, {"vector", "(nreverse c09-o)"},
	{"array2d", "(adjust-array c09-o '(0 0))"}, {"array2d", "(adjust-array c09-o '(3 1))"}, {"array2d", "(adjust-array c09-o 4)"},
	{"bitvec", "(setf (aref c09-o 0) 2)"}, {"bitvec", "(bit-not c09-o c09-o)"}, {"octets", "(setf (aref c09-o 0) 256)"}, {"octets", "(adjust-array c09-o 0)"},
	{"str", "(setf (char c09-o 0) (code-char 0))"}, {"str", "(nstring-upcase c09-o :start 2 :end 9)"}, {"str", "(fill c09-o 1)"},
	// lists: destructively reordered, truncated by a failing operation, made improper
	{"list3", "(nreverse c09-o)"}, {"list3", "(sort c09-o '>)"}, {"list3", "(setf (cdr (last c09-o)) 4)"}, {"list3", "(delete 2 c09-o)"},
	{"list3", "(nconc c09-o 5)"}, {"list3", "(setf (nth 1 c09-o) '(1 . 2))"}, {"list3", "(nbutlast c09-o 5)"}, {"list3", "(map-into c09-o 'car c09-o)"},
	{"alist", "(setf (cdr (car c09-o)) c09-o)"}, {"plist", "(remf c09-o :b)"}, {"plist", "(setf (cdr (last c09-o)) '(:c))"},
	// hash tables, bags, channels, packages
	{"hash", "(clrhash c09-o)"}, {"hash", "(setf (gethash '(1) c09-o) 1)"}, {"hash", "(maphash (lambda (k v) (remhash k c09-o) (error \"x\")) c09-o)"},
	{"hash", "(setf (gethash 1.5 c09-o) (values))"}, {"bag", "(bag-set c09-o 1 \"a.b.c\")"}, {"bag", "(bag-remove c09-o \"$\")"}, {"bag", "(bag-parse c09-o \"[\")"},
	{"bag", "(bag-set c09-o (make-time 2024 1 2 3 4 5) \"t\")"}, {"bag", "(bag-modify c09-o (lambda (x) (error \"x\")) \"b\")"}, {"bag", "(send c09-o :set nil)"},
	{"channel", "(channel-close c09-o)"}, {"channel", "(dotimes (i 2) (channel-pop c09-o))"}, {"channel", "(progn (channel-close c09-o) (channel-close c09-o))"},
	{"package", "(delete-package c09-o)"}, {"package", "(rename-package c09-o 'c09-renamed)"}, {"package", "(lock-package c09-o)"},
	{"package", "(progn (intern \"x\" c09-o) (export (find-symbol \"x\" c09-o) c09-o) (unintern (find-symbol \"x\" c09-o) c09-o))"},
	// instances: slots unbound, class changed, class / flavor / structure redefined or removed while the instance lives
	{"clos-inst", "(slot-makunbound c09-o 'a)"}, {"clos-inst", "(change-class c09-o 'c09-flavor)"}, {"clos-inst", "(defclass c09-class () ((b :initarg :b)))"},
	{"clos-inst", "(defclass c09-class (c09-class) ())"}, {"clos-inst", "(setf (slot-value c09-o 'a) (values))"}, {"clos-inst", "(setf (find-class 'c09-class) nil)"},
	{"class", "(defclass c09-class () ((b :initarg :b)))"}, {"class", "(setf (find-class 'c09-class) nil)"},
	{"flavor-inst", "(undefflavor 'c09-flavor)"}, {"flavor-inst", "(defflavor c09-flavor (b) ())"}, {"flavor-inst", "(change-class c09-o 'c09-class)"},
	{"flavor-inst", "(send c09-o :change-flavor 'bag-flavor)"}, {"flavor-inst", "(send c09-o :set-a (values))"}, {"flavor", "(undefflavor 'c09-flavor)"},
	{"flavor-inst", "(send c09-o :eval-inside-yourself '(setq self 1))"}, {"flavor-inst", "(send c09-o :eval-inside-yourself '(makunbound 'a))"},
	{"struct", "(defstruct c09-struct x)"}, {"struct", "(setf (c09-struct-a c09-o) (values))"}, {"struct", "(defstruct (c09-struct (:type vector)) a b)"},
	{"i-logger-flavor", "(send c09-o :shutdown)"}, {"i-logger-flavor", "(send c09-o :set-out (let ((s (make-string-output-stream))) (close s) s))"},
	{"i-logger-flavor", "(send c09-o :init)"}, {"i-suite-flavor", "(send c09-o :set-setup 1)"}, {"i-test-flavor", "(send c09-o :run)"},
	{"condition", "(setf (slot-value c09-o 'datum) (values))"}, {"condition", "(slot-makunbound c09-o 'message)"}, {"random-state", "(dotimes (i 3) (random 10 c09-o))"},
	{"lambda", "(fmakunbound 'c09-fn)"}, {"fsym", "(fmakunbound 'c09-fn)"}, {"fsym", "(defmacro c09-fn (x) x)"}, {"vsym", "(makunbound 'c09-var)"}, {"vsym", "(defconstant c09-var 8)"},
	{"time", "(setf (slot-value c09-o 'x) 1)"}, {"mutex", "(mutex-unlock c09-o)"},
}

// chainShapes: where the object sits in the call under observation.
var chainShapes = [][]string{{"@"}, {"@", "zero"}, {"zero", "@"}, {"@", "@"}}

var chainTargets []int

// chainFns: the functions of the second step: every function in quoted mode.
func chainFns() []int {
	if chainTargets == nil {
		loadTargets()
		chainTargets = []int{}
		for i := range targets {
			if !targets[i].Raw {
				chainTargets = append(chainTargets, i)
			}
		}
	}
	return chainTargets
}

func chainN() int { return len(chainSteps) * len(chainFns()) * len(chainShapes) }

func genChain(k int) Case {
	nF, nS := len(chainFns()), len(chainShapes)
	st := &chainSteps[k/(nF*nS)]
	t := &targets[chainFns()[(k/nS)%nF]]
	shape := chainShapes[k%nS]
	// the skip table speaks about pool names: the object stands in for @
	probe := make([]string, len(shape))
	for i, a := range shape {
		if probe[i] = a; a == "@" {
			probe[i] = st.obj
		}
	}
	c := mkFn(t, probe...)
	if why := chainByDefinition(st, t.Fn); why != "" && c.K == "fn" {
		return Case{K: "skip", Fn: t.Fn, Raw: t.Raw, Args: probe, Why: why}
	}
	if c.K == "fn" {
		c.Args = append([]string{}, shape...)
		c.After = []string{st.obj, st.after}
	}
	return c
}

// chainWrap builds (let ((c09-o 'obj)) [(ignore-errors after)] form).
func chainWrap(scope *slip.Scope, c *Case, form slip.List, withAfter bool) (slip.Object, string) {
	po := poolIndex[c.After[0]]
	if po == nil {
		return nil, "unknown pool object " + c.After[0]
	}
	obj, herr := buildArg(scope, po)
	if herr != "" {
		return nil, herr
	}
	let := slip.List{slip.Symbol("common-lisp:let"), slip.List{slip.List{slip.Symbol("c09-o"), slip.List{slip.Symbol("quote"), obj}}}}
	if withAfter {
		var code slip.Code
		if err := sl.Catch(func() { code = slip.ReadString(c.After[1], scope) }); err != nil {
			return nil, "chain step cannot be read: " + c.After[1] + ": " + err.String()
		}
		if len(code) != 1 {
			return nil, "chain step is not one form: " + c.After[1]
		}
		let = append(let, slip.List{slip.Symbol("common-lisp:ignore-errors"), code[0]})
	}
	return append(let, form), ""
}

// chainByDefinition: two-step histories the language defines as waiting for ever (not
// findings): receiving from a channel the first step has drained and left open.
func chainByDefinition(st *chainStep, fn string) string {
	if st.obj == "channel" && st.after == "(dotimes (i 2) (channel-pop c09-o))" {
		switch fn {
		case "gi:channel-pop", "gi:range", "gi:select":
			return "by-definition:receive-from-a-drained-open-channel"
		}
	}
	return ""
}
